// jsv — static verification of jsight-schema-go-library against /verif/properties.jsonl.
//
//	jsv check --property C07 [--tier quick|thorough] [--repo /repo] [--verif /verif]
//	jsv rule  --rule ET-1 [--repo /repo]        run one rule and dump its obligations
//	jsv list                                    list properties and rules
//	jsv explain <replay.json>                   print a recorded violation
package main

import (
	"encoding/json"
	"flag"
	"fmt"
	"os"
	"runtime"
	"runtime/debug"
	"sort"
	"strconv"
	"strings"
	"sync"
	"time"

	"verif/internal/load"
	"verif/internal/report"
	"verif/internal/rules"
)

func main() {
	if len(os.Args) < 2 {
		usage()
	}
	switch os.Args[1] {
	case "check":
		os.Exit(cmdCheck(os.Args[2:]))
	case "rule":
		os.Exit(cmdRule(os.Args[2:]))
	case "list":
		for _, id := range rules.Props() {
			p := rules.Prop(id)
			fmt.Printf("%s: %s\n", id, strings.Join(p.Rules, " "))
		}
		for _, id := range rules.All() {
			fmt.Printf("  %-8s min=%d %s\n", id, rules.Get(id).Min, rules.Get(id).Doc)
		}
	case "manifest":
		os.Exit(cmdManifest())
	case "explain":
		if len(os.Args) < 3 {
			usage()
		}
		b, err := os.ReadFile(os.Args[2])
		if err != nil {
			fmt.Fprintln(os.Stderr, err)
			os.Exit(2)
		}
		var v map[string]any
		json.Unmarshal(b, &v)
		out, _ := json.MarshalIndent(v, "", "  ")
		fmt.Println(string(out))
		fmt.Println("This is a static finding: it is reproduced by re-running the check named in how_to_reproduce on the same tree.")
	default:
		usage()
	}
}

func usage() {
	fmt.Fprintln(os.Stderr, "usage: jsv check --property <id> [--tier quick|thorough] | rule --rule <id> | list | explain <file>")
	os.Exit(2)
}

func cmdCheck(args []string) (code int) {
	fs := flag.NewFlagSet("check", flag.ExitOnError)
	prop := fs.String("property", "", "property id")
	tier := fs.String("tier", "quick", "quick|thorough")
	repo := fs.String("repo", envOr("JSV_REPO", "/repo"), "repository root")
	verif := fs.String("verif", envOr("JSV_VERIF", "/verif"), "verif root")
	fs.Parse(args)
	p := rules.Prop(*prop)
	if p == nil {
		fmt.Fprintf(os.Stderr, "property %q is not claimed (see MANIFEST.json not_applicable)\n", *prop)
		return 2
	}
	start := time.Now()
	defer func() {
		if e := recover(); e != nil {
			fmt.Fprintf(os.Stderr, "engine panic: %v\n%s\n", e, debug.Stack())
			code = 2
		}
	}()
	c, err := load.Load(*repo)
	if err != nil {
		fmt.Fprintf(os.Stderr, "load failed (no verdict): %v\n", err)
		return 2
	}
	findings, err := report.LoadFindings(*verif + "/known_findings.json")
	if err != nil {
		fmt.Fprintf(os.Stderr, "known_findings.json: %v\n", err)
		return 2
	}
	seed, _ := strconv.ParseInt(os.Getenv("VERIF_SEED"), 10, 64)
	out := &report.Outcome{Property: *prop, Tier: *tier, Seed: seed, Findings: findings,
		Explain: p.Explain, Assume: p.Assume,
		CheckerCmd: fmt.Sprintf("./check.sh %s %s", *prop, *tier),
		Trusted: []string{"go/types type checker", "golang.org/x/tools v0.29.0 go/packages, go/ssa, go/cfg, callgraph/cha+vta",
			"spec tables in tool/internal/spec transcribed from the property text", "Go memory model / sync.Once / sync.Pool semantics"},
		Analysed: map[string]int{"packages": len(c.Pkgs)},
		Extra:    map[string]any{},
	}
	nfiles := 0
	for _, pk := range c.Pkgs {
		nfiles += len(pk.Syntax)
	}
	out.Analysed["files"] = nfiles
	if tagged := c.BuildTaggedFiles(); len(tagged) > 0 {
		out.Extra["build_tagged_files"] = tagged
	}
	fmt.Printf("jsv: property %s tier %s: %d packages, %d files of %s\n", *prop, *tier, len(c.Pkgs), nfiles, *repo)
	c.BuildSSA()
	var wg sync.WaitGroup
	sem := make(chan struct{}, 8)
	var mu sync.Mutex
	finished := map[string]bool{}
	for _, id := range p.Rules {
		rule := rules.Get(id)
		if rule == nil {
			fmt.Fprintf(os.Stderr, "rule %s not registered\n", id)
			return 2
		}
		if rule.Thorough && *tier != "thorough" {
			continue
		}
		rr := &report.RuleResult{Rule: id, Doc: rule.Doc, Min: rule.Min}
		out.Results = append(out.Results, rr)
		wg.Add(1)
		go func() {
			defer wg.Done()
			sem <- struct{}{}
			defer func() { <-sem }()
			defer func() {
				if e := recover(); e != nil {
					rr.Unk("engine-panic|"+id, "", fmt.Sprintf("rule panicked: %v\n%s", e, debug.Stack()))
				}
				mu.Lock()
				finished[id] = true
				mu.Unlock()
			}()
			rule.Run(c, rr)
		}()
	}
	// Watchdog: an analysis that does not finish within its time / memory bounds on this tree has not
	// decided its obligations, which counts as failure (never as a silent pass, never as a hang).
	limit := 20 * time.Minute
	if *tier == "thorough" {
		limit = 120 * time.Minute
	}
	if v, err := strconv.Atoi(os.Getenv("JSV_TIMEOUT_S")); err == nil && v > 0 {
		limit = time.Duration(v) * time.Second
	}
	memLimit := uint64(16) << 30
	if v, err := strconv.Atoi(os.Getenv("JSV_MEM_GB")); err == nil && v > 0 {
		memLimit = uint64(v) << 30
	}
	done := make(chan struct{})
	go func() { wg.Wait(); close(done) }()
	deadline := time.After(limit)
	tick := time.NewTicker(2 * time.Second)
	defer tick.Stop()
	why := ""
wait:
	for {
		select {
		case <-done:
			break wait
		case <-deadline:
			why = fmt.Sprintf("the analysis did not finish within %s on this tree", limit)
			break wait
		case <-tick.C:
			var ms runtime.MemStats
			runtime.ReadMemStats(&ms)
			if ms.HeapAlloc > memLimit {
				why = fmt.Sprintf("the analysis needed more than %d GB of memory on this tree", memLimit>>30)
				break wait
			}
		}
	}
	if why != "" {
		mu.Lock()
		var results []*report.RuleResult
		for _, rr := range out.Results {
			if finished[rr.Rule] {
				results = append(results, rr)
				continue
			}
			nr := &report.RuleResult{Rule: rr.Rule, Doc: rr.Doc, Min: 0}
			nr.Unk("unfinished|"+rr.Rule, "", why+": the obligations of this rule are undecided")
			results = append(results, nr)
		}
		out.Results = results
		mu.Unlock()
		out.WallS = time.Since(start).Seconds()
		code := out.Finish(*verif)
		os.Exit(code)
	}
	if c.Prog != nil {
		out.Analysed["ssa_module_functions"] = len(c.ModuleFunctions())
	}
	out.WallS = time.Since(start).Seconds()
	return out.Finish(*verif)
}

func cmdRule(args []string) int {
	fs := flag.NewFlagSet("rule", flag.ExitOnError)
	id := fs.String("rule", "", "rule id")
	repo := fs.String("repo", envOr("JSV_REPO", "/repo"), "repository root")
	all := fs.Bool("all", false, "print discharged obligations too")
	fs.Parse(args)
	rule := rules.Get(*id)
	if rule == nil {
		fmt.Fprintf(os.Stderr, "no such rule %q\n", *id)
		return 2
	}
	c, err := load.Load(*repo)
	if err != nil {
		fmt.Fprintln(os.Stderr, err)
		return 2
	}
	rr := &report.RuleResult{Rule: *id, Doc: rule.Doc, Min: rule.Min}
	rule.Run(c, rr)
	bad := 0
	for _, ob := range rr.Obligations {
		if ob.Status != report.Discharged {
			bad++
		}
		if ob.Status != report.Discharged || *all {
			fmt.Printf("%-10s %s\n    %s  (%s)\n", ob.Status, ob.Key, ob.Detail, ob.Pos)
		}
	}
	for _, n := range rr.Notes {
		fmt.Println("note:", n)
	}
	fmt.Printf("%s: %d obligations (min %d), %d not discharged\n", *id, len(rr.Obligations), rule.Min, bad)
	if bad > 0 {
		return 1
	}
	return 0
}

func envOr(k, d string) string {
	if v := os.Getenv(k); v != "" {
		return v
	}
	return d
}

func cmdManifest() int {
	type lvl struct {
		Category  string `json:"category"`
		Text      string `json:"text"`
		DesignRef string `json:"design_ref,omitempty"`
	}
	type check struct {
		PropertyID string `json:"property_id"`
		Quick      string `json:"quick_cmd"`
		Thorough   string `json:"thorough_cmd"`
		Evidence   string `json:"evidence_file"`
		Replay     string `json:"replay_cmd_template"`
		Engine     string `json:"engine"`
		Level      lvl    `json:"level_claimed"`
		Note       string `json:"level_note"`
		Technique  string `json:"technique"`
	}
	type na struct {
		PropertyID string `json:"property_id"`
		Reason     string `json:"reason"`
	}
	var checks []check
	var served []string
	for _, id := range rules.Props() {
		p := rules.Prop(id)
		served = append(served, id)
		checks = append(checks, check{PropertyID: id,
			Quick: "./check.sh " + id + " quick", Thorough: "./check.sh " + id + " thorough",
			Evidence: "/verif/evidence/" + id + ".json", Replay: "./bin/jsv explain {path}", Engine: "jsv",
			Level: lvl{"other", p.Level, p.DesignRef}, Note: p.Note + " Rules: " + strings.Join(p.Rules, ", ") + ".", Technique: p.Technique})
	}
	nas := []na{}
	var ids []string
	for id := range rules.NotApplicable {
		ids = append(ids, id)
	}
	sort.Strings(ids)
	for _, id := range ids {
		if rules.Prop(id) == nil {
			nas = append(nas, na{id, rules.NotApplicable[id]})
		}
	}
	hooks := map[string]any{}
	if b, err := os.ReadFile(envOr("JSV_VERIF", "/verif") + "/hooks.json"); err == nil {
		json.Unmarshal(b, &hooks)
	}
	m := map[string]any{
		"version":   1,
		"setup_cmd": "cd /verif/tool && GOFLAGS=-mod=mod GOPROXY=off GOSUMDB=off GOTOOLCHAIN=local GOWORK=off go build -o /verif/bin/jsv ./cmd/jsv",
		"hooks":     hooks,
		"engines": []map[string]any{{"name": "jsv", "path": "tool/", "serves_properties": served,
			"kind_free_text": "repository-specific static analyser (go/packages + go/types + go/ssa + go/cfg + VTA call graph); rules in tool/internal/rules"}},
		"checks":         checks,
		"not_applicable": nas,
		"notes":          "Static analysis only: every check re-loads and re-analyses /repo's working tree; exit 0 = all obligations discharged (known findings listed in known_findings.json are printed as KNOWN-FINDING), exit 1 = VIOLATION lines, exit 2 = no verdict (tree does not type-check).",
	}
	b, _ := json.MarshalIndent(m, "", " ")
	fmt.Println(string(b))
	return 0
}
