// Package report holds obligations, verdicts, known-findings matching and evidence output.
package report

import (
	"encoding/json"
	"fmt"
	"os"
	"path/filepath"
	"sort"
	"strings"
)

const (
	Discharged = "discharged"
	Violated   = "violated"
	Undecided  = "undecided"
)

// Obligation is one decided (or undecidable) instance of a rule.
type Obligation struct {
	Rule   string `json:"rule"`
	Key    string `json:"key"`              // position-free construct key
	Status string `json:"status"`           // discharged | violated | undecided
	Detail string `json:"detail,omitempty"` // witness / what fails
	Pos    string `json:"pos,omitempty"`    // file:line, informational only
}

// RuleResult is what a rule returns.
type RuleResult struct {
	Rule        string
	Doc         string
	Min         int // minimum number of obligations (vacuity guard)
	Obligations []Obligation
	Notes       []string
	open        int
	Dropped     int `json:"dropped,omitempty"`
	Stats       map[string]int
}

// maxOpenPerRule bounds how many not-discharged obligations one rule records in detail: a change that
// breaks a table breaks many of its cells, and the first few hundred say all there is to say.
const maxOpenPerRule = 300

func (r *RuleResult) Add(status, key, pos, detail string) {
	if status != Discharged {
		r.open++
		if r.open == maxOpenPerRule+1 {
			r.Obligations = append(r.Obligations, Obligation{Rule: r.Rule, Key: "overflow|" + r.Rule, Status: Undecided,
				Detail: fmt.Sprintf("more than %d obligations of this rule are not discharged; the rest are counted, not listed", maxOpenPerRule)})
		}
		if r.open > maxOpenPerRule {
			r.Dropped++
			return
		}
	}
	r.Obligations = append(r.Obligations, Obligation{Rule: r.Rule, Key: key, Status: status, Detail: detail, Pos: pos})
}
func (r *RuleResult) OK(key, pos, detail string)  { r.Add(Discharged, key, pos, detail) }
func (r *RuleResult) Bad(key, pos, detail string) { r.Add(Violated, key, pos, detail) }
func (r *RuleResult) Unk(key, pos, detail string) { r.Add(Undecided, key, pos, detail) }
func (r *RuleResult) Note(f string, a ...any)     { r.Notes = append(r.Notes, fmt.Sprintf(f, a...)) }
func (r *RuleResult) Stat(name string, n int) {
	if r.Stats == nil {
		r.Stats = map[string]int{}
	}
	r.Stats[name] += n
}

// Finding is one entry of known_findings.json.
type Finding struct {
	Property string `json:"property"`
	Rule     string `json:"rule"`
	Key      string `json:"key"`
	Status   string `json:"status"` // known | fixed
	Commit   string `json:"commit,omitempty"`
	What     string `json:"what"`
}

func LoadFindings(path string) ([]Finding, error) {
	b, err := os.ReadFile(path)
	if err != nil {
		if os.IsNotExist(err) {
			return nil, nil
		}
		return nil, err
	}
	var fs []Finding
	if err := json.Unmarshal(b, &fs); err != nil {
		return nil, fmt.Errorf("%s: %w", path, err)
	}
	return fs, nil
}

// Outcome of a whole property check.
type Outcome struct {
	Property   string
	Tier       string
	Seed       int64
	Results    []*RuleResult
	Findings   []Finding
	Analysed   map[string]int
	Explain    string
	Trusted    []string
	Assume     []string
	CheckerCmd string
	WallS      float64
	Extra      map[string]any
}

type violation struct {
	Property string     `json:"property"`
	Ob       Obligation `json:"obligation"`
	RuleDoc  string     `json:"rule_doc"`
	How      string     `json:"how_to_reproduce"`
}

// Finish prints the verdict lines, writes replay files and the evidence file, and returns the
// process exit code.
func (o *Outcome) Finish(verifDir string) int {
	known := map[string]Finding{}
	for _, f := range o.Findings {
		if f.Property == o.Property && f.Status == "known" {
			known[f.Rule+"\x00"+f.Key] = f
		}
	}
	var total, discharged, nviol, nknown int
	distinct := map[string]bool{}
	var samples []any
	perRule := map[string]map[string]int{}
	var vacuous []string
	violDir := filepath.Join(verifDir, "out", "violations")
	os.MkdirAll(violDir, 0o755)
	exit := 0
	var violLines []string
	for _, r := range o.Results {
		pr := map[string]int{"obligations": len(r.Obligations), "min": r.Min}
		perRule[r.Rule] = pr
		for k, v := range r.Stats {
			pr[k] = v
		}
		if len(r.Obligations) < r.Min {
			vacuous = append(vacuous, r.Rule)
			ob := Obligation{Rule: r.Rule, Key: "vacuity|" + r.Rule, Status: Undecided,
				Detail: fmt.Sprintf("rule matched %d instances, fewer than the %d confirmed by hand: the rule went (partly) vacuous", len(r.Obligations), r.Min)}
			r.Obligations = append(r.Obligations, ob)
		}
		sort.SliceStable(r.Obligations, func(i, j int) bool { return r.Obligations[i].Key < r.Obligations[j].Key })
		nsample := 0
		for _, ob := range r.Obligations {
			total++
			distinct[ob.Rule+"|"+ob.Key] = true
			switch ob.Status {
			case Discharged:
				discharged++
				pr["discharged"]++
				if nsample < 2 {
					samples = append(samples, ob)
					nsample++
				}
			default:
				if f, ok := known[ob.Rule+"\x00"+ob.Key]; ok && ob.Status == Violated {
					nknown++
					pr["known"]++
					fmt.Printf("KNOWN-FINDING: property=%s rule=%s key=%s :: %s\n", o.Property, ob.Rule, ob.Key, f.What)
					samples = append(samples, ob)
					continue
				}
				nviol++
				pr["failed"]++
				name := fmt.Sprintf("%s-%s-%03d.json", o.Property, sanitize(ob.Rule), nviol)
				path := filepath.Join(violDir, name)
				v := violation{Property: o.Property, Ob: ob, RuleDoc: r.Doc,
					How: fmt.Sprintf("cd /verif && ./check.sh %s %s   # static: re-analyses /repo's working tree; the obligation above is reported again while the construct is unchanged", o.Property, o.Tier)}
				b, _ := json.MarshalIndent(v, "", "  ")
				os.WriteFile(path, append(b, '\n'), 0o644)
				fmt.Printf("  %s %s [%s] %s\n      %s\n      at %s\n", strings.ToUpper(ob.Status), ob.Rule, ob.Key, "", ob.Detail, ob.Pos)
				violLines = append(violLines, fmt.Sprintf("VIOLATION property=%s replay=%s", o.Property, path))
				samples = append(samples, ob)
				exit = 1
			}
		}
	}
	for _, r := range o.Results {
		for _, n := range r.Notes {
			fmt.Printf("  note[%s]: %s\n", r.Rule, n)
		}
	}
	rules := make([]string, 0, len(perRule))
	for k := range perRule {
		rules = append(rules, k)
	}
	sort.Strings(rules)
	for _, k := range rules {
		pr := perRule[k]
		fmt.Printf("  rule %-8s obligations=%d (min %d) discharged=%d failed=%d known=%d\n", k, pr["obligations"], pr["min"], pr["discharged"], pr["failed"], pr["known"])
	}
	if len(samples) > 12 {
		samples = samples[:12]
	}
	cov := map[string]any{
		"explanation":         o.Explain,
		"obligations":         total,
		"discharged":          discharged,
		"evaluations":         total,
		"distinct_nontrivial": len(distinct),
		"rule":                "one obligation per (rule, resolved construct) instance found in the current tree; distinct = distinct (rule,key) pairs; every one is non-trivial in that a verdict was computed for a concrete construct (vacuous rules fail instead)",
		"samples":             samples,
		"checker_cmd":         o.CheckerCmd,
		"trusted_base":        o.Trusted,
		"per_rule":            perRule,
		"analysed":            o.Analysed,
		"known_findings":      nknown,
		"exhaustive":          true,
	}
	for k, v := range o.Extra {
		cov[k] = v
	}
	ev := map[string]any{
		"property_id": o.Property,
		"tier":        o.Tier,
		"seed":        o.Seed,
		"level":       "other",
		"coverage":    cov,
		"assumptions": o.Assume,
		"wall_s":      o.WallS,
		"violations":  nviol,
	}
	b, _ := json.MarshalIndent(ev, "", " ")
	evDir := filepath.Join(verifDir, "evidence")
	os.MkdirAll(evDir, 0o755)
	if err := os.WriteFile(filepath.Join(evDir, o.Property+".json"), append(b, '\n'), 0o644); err != nil {
		fmt.Fprintf(os.Stderr, "cannot write evidence: %v\n", err)
		return 2
	}
	for _, l := range violLines {
		fmt.Println(l)
	}
	fmt.Printf("RESULT property=%s tier=%s obligations=%d discharged=%d known=%d violations=%d wall=%.1fs\n",
		o.Property, o.Tier, total, discharged, nknown, nviol, o.WallS)
	return exit
}

func sanitize(s string) string {
	return strings.Map(func(r rune) rune {
		if r >= 'a' && r <= 'z' || r >= 'A' && r <= 'Z' || r >= '0' && r <= '9' || r == '-' {
			return r
		}
		return '_'
	}, s)
}
