package rules

import (
	"fmt"
	"go/types"
	"sort"
	"strings"

	"verif/internal/load"
	"verif/internal/pe"
	"verif/internal/report"
)

func init() {
	register(&Rule{ID: "T-array", Min: 6, Run: runTArray,
		Doc: "array validation per lexical event: on item-begin the element is checked against the example element at the running item index and the index advances by exactly one; begin and item-end are neutral; on array-end every item-count rule of the node is given the number of items seen and the validator completes; any other event is rejected"})
	register(&Rule{ID: "T-object", Min: 8, Run: runTObject,
		Doc: "object validation per lexical event: a key removes exactly itself (unquoted) from the keys still owed; the object may end only when no required key is owed; a key the example names is validated against that property; an unknown key goes to key shortcuts, then additionalProperties, else it is rejected with the key's position; any other event is rejected"})
}

// symStruct builds a heap object of a struct type whose fields are symbols, except those given.
func symStruct(in *pe.Interp, named *types.Named, tag string, fields map[string]pe.Value) *pe.Ptr {
	st := named.Underlying().(*types.Struct)
	sv := &pe.StructV{T: named, F: make([]pe.Value, st.NumFields())}
	for i := 0; i < st.NumFields(); i++ {
		if v, ok := fields[st.Field(i).Name()]; ok {
			sv.F[i] = v
		} else {
			sv.F[i] = pe.NewSym(tag+"."+st.Field(i).Name(), st.Field(i).Type())
		}
	}
	return &pe.Ptr{Obj: in.NewObj(named, sv, tag), T: named}
}

func lexTypeIntrinsic(c *load.Ctx, e *tableEnv) bool {
	f := c.Func("internal/lexeme", "LexEvent.Type")
	if f == nil {
		return false
	}
	t := f.Signature.Results().At(0).Type()
	e.cfg.Intrinsics[f.String()] = func(in *pe.Interp, args []pe.Value) (pe.Value, bool) {
		return pe.NewSym("event", t), true
	}
	return true
}

func runTArray(c *load.Ctx, r *report.RuleResult) {
	e := newAbsNodeEnv(c)
	fn := c.Func(pkgValidator, "arrayValidator.feed")
	avT := namedType(c, pkgValidator, "arrayValidator")
	arrT := namedType(c, pkgSchema, "ArrayNode")
	nvl := c.Func(pkgValidator, "NodeValidatorList")
	child := c.Func(pkgSchema, "ArrayNode.Child")
	if fn == nil || avT == nil || arrT == nil || nvl == nil || child == nil || !lexTypeIntrinsic(c, e.tableEnv) {
		r.Unk("anchor|validator.arrayValidator.feed", "", "not found")
		return
	}
	pos := c.Pos(fn.Pos())
	if baseC := c.Func(pkgSchema, "baseNode.Constraint"); baseC != nil {
		e.cfg.Intrinsics[baseC.String()] = e.cfg.Intrinsics["invoke:"+types.TypeString(e.nodeT, nil)+".Constraint"]
	}
	e.cfg.Intrinsics[child.String()] = func(in *pe.Interp, args []pe.Value) (pe.Value, bool) {
		return pe.NewSym("child("+strings.Trim(pe.Show(args[1]), "‹›")+")", e.nodeT), true
	}
	e.cfg.Intrinsics[nvl.String()] = func(in *pe.Interp, args []pe.Value) (pe.Value, bool) {
		in.Effect("validators-of " + pe.Show(args[0]))
		return pe.NewSym("validators("+strings.Trim(pe.Show(args[0]), "‹›")+")", nvl.Signature.Results().At(0).Type()), true
	}
	// item-count rules present on the node
	for _, ci := range e.byVal {
		if ci.named == nil {
			continue
		}
		if f := c.Func(pkgConstraint, ci.named.Obj().Name()+".ValidateTheArray"); f != nil {
			name := ci.named.Obj().Name()
			e.cfg.Intrinsics[f.String()] = func(in *pe.Interp, args []pe.Value) (pe.Value, bool) {
				in.Effect("count-rule " + name + "(" + pe.Show(args[1]) + ")")
				return nil, true
			}
		}
	}
	setFn := c.Func(pkgSchema, "Constraints.Set")
	consT := namedType(c, pkgSchema, "Constraints")
	cmap := c.Func(pkgSchema, "baseNode.ConstraintMap")
	if setFn == nil || consT == nil || cmap == nil {
		r.Unk("anchor|schema.Constraints", "", "not found")
		return
	}
	for _, op := range []string{"Lock", "Unlock", "RLock", "RUnlock"} {
		e.cfg.Intrinsics["(*sync.RWMutex)."+op] = func(in *pe.Interp, args []pe.Value) (pe.Value, bool) { return nil, true }
	}
	e.cfg.Intrinsics[cmap.String()] = func(in *pe.Interp, args []pe.Value) (pe.Value, bool) {
		m := in.NewStruct(consT, "constraints")
		for _, n := range []string{"MinItemsConstraintType", "MaxItemsConstraintType", "OptionalConstraintType"} {
			ci := e.byName[n]
			if ci == nil || ci.named == nil {
				continue
			}
			obj := &pe.Iface{T: types.NewPointer(ci.named), V: symStruct(in, ci.named, ci.named.Obj().Name(), nil)}
			in.Call(setFn, []pe.Value{m, ci.val, obj})
		}
		return m, true
	}
	for _, kind := range []string{"array", "mixed"} {
		var objs []*pe.Ptr
		outs := pe.ExploreFn(e.cfg, func(in *pe.Interp) pe.Value {
			var node pe.Value
			if kind == "array" {
				node = &pe.Iface{T: types.NewPointer(arrT), V: pe.NewSym("arrayNode", types.NewPointer(arrT))}
			} else {
				mn := namedType(c, pkgSchema, "MixedNode")
				node = &pe.Iface{T: types.NewPointer(mn), V: pe.NewSym("mixedNode", types.NewPointer(mn))}
			}
			v := symStruct(in, avT, "v", map[string]pe.Value{"node_": node, "itemsCounter": pe.NewSym("n", types.Typ[types.Uint])})
			objs = append(objs, v)
			return in.Call(fn, []pe.Value{v, pe.NewSym("lex", fn.Params[1].Type())})
		})
		for i, o := range outs {
			ev := o.ChoiceMap()["event"]
			key := fmt.Sprintf("array|node=%s|event=%s", kind, ev)
			if o.Undecided != "" {
				r.Unk(key, pos, o.Undecided)
				continue
			}
			counter := "?"
			if i < len(objs) {
				counter = pe.Show(in2(objs[i], "itemsCounter"))
			}
			verdict, _ := verdictOf(o)
			ret := pe.Show(o.Ret)
			switch ev {
			case "ArrayBegin", "ArrayItemEnd":
				if o.Panicked || ret != "(nil,false)" || counter != "‹n›" {
					r.Bad(key, pos, "must be neutral: "+o.Exit()+" counter "+counter)
				} else {
					r.OK(key, pos, "neutral")
				}
			case "ArrayItemBegin":
				if kind == "mixed" {
					if verdict != "reject" {
						r.Bad(key, pos, "an item for a node that has no example elements must be rejected: "+o.Exit())
					} else {
						r.OK(key, pos, "rejected")
					}
					continue
				}
				early := ""
				for _, ef := range o.Effects {
					if strings.HasPrefix(ef, "count-rule ") {
						early = strings.TrimPrefix(ef, "count-rule ")
					}
				}
				switch {
				case o.Panicked:
					r.Bad(key, pos, "rejected: "+o.Exit())
				case early != "":
					r.Bad(key, pos, "an item-count rule ("+early+") is evaluated when an item begins: the count is final only at the end of the array, and an error raised here is reported at the item instead of at the array's end")
				case !strings.Contains(ret, "validators(child(n))"):
					r.Bad(key, pos, "the element is not checked against the example element at the running index n: "+ret)
				case counter != "‹n+1›":
					r.Bad(key, pos, "the item index becomes "+counter+" instead of n+1")
				case !strings.HasSuffix(ret, ",false)"):
					r.Bad(key, pos, "the array validator must stay alive while its items are checked: "+ret)
				default:
					r.OK(key, pos, ret)
				}
			case "ArrayEnd":
				var rules []string
				for _, ef := range o.Effects {
					if strings.HasPrefix(ef, "count-rule ") {
						rules = append(rules, strings.TrimPrefix(ef, "count-rule "))
					}
				}
				switch {
				case o.Panicked || !strings.HasSuffix(ret, ",true)"):
					r.Bad(key, pos, "array-end must complete the validator: "+o.Exit())
				case kind == "array" && (len(rules) != 2 || !strings.Contains(strings.Join(rules, " "), "MinItems(‹n›)") || !strings.Contains(strings.Join(rules, " "), "MaxItems(‹n›)")):
					r.Bad(key, pos, fmt.Sprintf("every item-count rule must be given the number of items seen: %v", rules))
				default:
					r.OK(key, pos, fmt.Sprintf("count rules %v, done", rules))
				}
			default:
				if ev == "LiteralBegin" || ev == "LiteralEnd" {
					suffix, problem := nullableLiteral(ev, o.ChoiceMap(), o, verdict, ret)
					if problem != "" {
						r.Bad(key+suffix, pos, problem)
					} else {
						r.OK(key+suffix, pos, "null admitted iff nullable")
					}
					continue
				}
				if verdict != "reject" {
					r.Bad(key, pos, "an event that does not belong to an array is not rejected: "+o.Exit())
				} else {
					r.OK(key, pos, "rejected")
				}
			}
		}
	}
}

// nullableLiteral: the verdict a container validator must give on a literal event — a nullable array
// or object also admits null ("null only where the example is null, nullable or any"), and nothing else.
func nullableLiteral(ev string, val map[string]string, o *pe.Outcome, verdict, ret string) (suffix, problem string) {
	nullable := val["has(NullableConstraintType)"] == "true" && val["Nullable.value"] == "true"
	suffix = fmt.Sprintf("|nullable=%v", nullable)
	if _, consulted := val["has(NullableConstraintType)"]; !consulted {
		return "|nullable not consulted", "a literal in place of the container is decided without asking whether the container is nullable: null is rejected where `nullable: true` admits it (" + o.Exit() + ")"
	}
	isNull, asked := false, false
	for k, v := range val {
		if strings.Contains(k, "null") && !strings.HasPrefix(k, "has(") {
			asked = true
			if v == "true" || v == "=" {
				isNull = true
			}
		}
	}
	switch ev {
	case "LiteralBegin":
		if nullable {
			if o.Panicked || ret != "(nil,false)" {
				return suffix, "a literal may begin where the container is nullable (it may be null): " + o.Exit()
			}
			return suffix, ""
		}
	case "LiteralEnd":
		suffix += fmt.Sprintf("|null=%v", isNull)
		if nullable && asked && isNull {
			if o.Panicked || !strings.HasSuffix(ret, ",true)") {
				return suffix, "null must be accepted in place of a nullable container: " + o.Exit()
			}
			return suffix, ""
		}
		if nullable && !asked && verdict == "reject" {
			return suffix, "a literal is rejected in place of a nullable container without asking whether it is null: " + o.Exit()
		}
	}
	if verdict != "reject" {
		return suffix, "a literal is accepted in place of a container although it is not a null admitted by nullable: " + o.Exit()
	}
	return suffix, ""
}

func runTObject(c *load.Ctx, r *report.RuleResult) {
	e := newAbsNodeEnv(c)
	fn := c.Func(pkgValidator, "objectValidator.feed")
	ovT := namedType(c, pkgValidator, "objectValidator")
	objT := namedType(c, pkgSchema, "ObjectNode")
	nvl := c.Func(pkgValidator, "NodeValidatorList")
	childByRaw := c.Func(pkgSchema, "ObjectNode.ChildByRawKey")
	vtr := c.Func(pkgValidator, "objectValidator.validateTypeRules")
	apv := c.Func(pkgValidator, "newAdditionalPropertiesValidator")
	lexValue := c.Func("internal/lexeme", "LexEvent.Value")
	if fn == nil || ovT == nil || objT == nil || nvl == nil || childByRaw == nil || vtr == nil || apv == nil || lexValue == nil || !lexTypeIntrinsic(c, e.tableEnv) {
		r.Unk("anchor|validator.objectValidator.feed", "", "not found")
		return
	}
	pos := c.Pos(fn.Pos())
	if baseC := c.Func(pkgSchema, "baseNode.Constraint"); baseC != nil {
		e.cfg.Intrinsics[baseC.String()] = e.cfg.Intrinsics["invoke:"+types.TypeString(e.nodeT, nil)+".Constraint"]
	}
	e.cfg.Intrinsics[lexValue.String()] = func(in *pe.Interp, args []pe.Value) (pe.Value, bool) {
		return pe.NewSym("keytoken", lexValue.Signature.Results().At(0).Type()), true
	}
	// unquote(keytoken).String() is the key "k": make it concrete so that the map is exact
	if f := c.Func(pkgBytes, "Bytes.String"); f != nil {
		e.cfg.Intrinsics[f.String()] = func(in *pe.Interp, args []pe.Value) (pe.Value, bool) {
			if pe.Show(args[0]) == "‹unquote(keytoken)›" {
				return "k", true
			}
			return nil, false
		}
	}
	e.cfg.Intrinsics[nvl.String()] = func(in *pe.Interp, args []pe.Value) (pe.Value, bool) {
		return pe.NewSym("validators("+strings.Trim(pe.Show(args[0]), "‹›")+")", nvl.Signature.Results().At(0).Type()), true
	}
	e.cfg.Intrinsics[childByRaw.String()] = func(in *pe.Interp, args []pe.Value) (pe.Value, bool) {
		arg := strings.Trim(pe.Show(args[1]), "‹›")
		if in.Choose("example-has("+arg+")", []string{"false", "true"}) == 1 {
			return &pe.Tuple{E: []pe.Value{pe.NewSym("property("+arg+")", e.nodeT), true}}, true
		}
		return &pe.Tuple{E: []pe.Value{pe.NilV{}, false}}, true
	}
	e.cfg.Intrinsics[vtr.String()] = func(in *pe.Interp, args []pe.Value) (pe.Value, bool) {
		if in.Choose("shortcut-matches", []string{"false", "true"}) == 1 {
			return &pe.Tuple{E: []pe.Value{"@K", true}}, true
		}
		return &pe.Tuple{E: []pe.Value{"", false}}, true
	}
	e.cfg.Intrinsics[apv.String()] = func(in *pe.Interp, args []pe.Value) (pe.Value, bool) {
		return pe.NewSym("additionalPropertiesValidators", apv.Signature.Results().At(0).Type()), true
	}
	if f := c.Func("internal/lexeme", "NewLexEventError"); f != nil {
		e.cfg.Intrinsics[f.String()] = func(in *pe.Interp, args []pe.Value) (pe.Value, bool) {
			in.Effect("positioned-at " + pe.Show(args[0]))
			return nil, false
		}
	}
	if f := c.Func(pkgValidator, "objectValidator.requiredKeysString"); f != nil {
		e.cfg.Opaque[f.String()] = true
	}
	for _, owed := range []string{"", "k", "other", "k,other"} {
		owed := owed
		var objs []*pe.Ptr
		outs := pe.ExploreFn(e.cfg, func(in *pe.Interp) pe.Value {
			req := &pe.MapV{}
			for i, k := range strings.Split(owed, ",") {
				if k != "" {
					req.Keys = append(req.Keys, k)
					req.Vals = append(req.Vals, int64(i))
				}
			}
			node := &pe.Iface{T: types.NewPointer(objT), V: pe.NewSym("objectNode", types.NewPointer(objT))}
			v := symStruct(in, ovT, "v", map[string]pe.Value{"node_": node, "requiredKeys": req})
			objs = append(objs, v)
			return in.Call(fn, []pe.Value{v, pe.NewSym("lex", fn.Params[1].Type())})
		})
		for i, o := range outs {
			val := o.ChoiceMap()
			ev := val["event"]
			key := fmt.Sprintf("object|owed={%s}|event=%s", owed, ev)
			for _, a := range []string{"has(RequiredKeysConstraintType)", "shortcut-matches", "has(AdditionalPropertiesConstraintType)"} {
				if v, ok := val[a]; ok {
					key += "|" + shortAtom(a) + "=" + v
				}
			}
			for n, v := range val {
				if strings.HasPrefix(n, "example-has(") {
					key += "|" + n + "=" + v
				}
			}
			if o.Undecided != "" {
				r.Unk(key, pos, o.Undecided)
				continue
			}
			verdict, _ := verdictOf(o)
			var left []string
			if i < len(objs) {
				if m, ok := in2(objs[i], "requiredKeys").(*pe.MapV); ok {
					for _, k := range m.Keys {
						left = append(left, strings.Trim(pe.Show(k), `"`))
					}
				}
			}
			leftS := strings.Join(left, ",")
			ret := pe.Show(o.Ret)
			switch ev {
			case "ObjectBegin", "ObjectKeyBegin", "ObjectValueEnd":
				if o.Panicked || ret != "(nil,false)" || leftS != owed {
					r.Bad(key, pos, "must be neutral: "+o.Exit()+" owed {"+leftS+"}")
				} else {
					r.OK(key, pos, "neutral")
				}
			case "ObjectKeyEnd":
				want := strings.Trim(strings.ReplaceAll(strings.ReplaceAll(","+owed+",", ",k,", ","), ",,", ","), ",")
				if o.Panicked || leftS != want || ret != "(nil,false)" {
					r.Bad(key, pos, fmt.Sprintf("after key k the keys still owed are {%s}; expected {%s} (%s)", leftS, want, o.Exit()))
				} else {
					r.OK(key, pos, "owed {"+leftS+"}")
				}
			case "ObjectEnd":
				if (verdict == "reject") != (owed != "") {
					r.Bad(key, pos, fmt.Sprintf("object ends with owed keys {%s}: %s", owed, o.Exit()))
				} else if owed == "" && !strings.HasSuffix(ret, ",true)") {
					r.Bad(key, pos, "object-end must complete the validator: "+ret)
				} else {
					r.OK(key, pos, verdict)
				}
			case "ObjectValueBegin":
				known := false
				for n, v := range val {
					if strings.HasPrefix(n, "example-has(keytoken)") && v == "true" {
						known = true
					}
				}
				switch {
				case known:
					if o.Panicked || !strings.Contains(ret, "validators(property(keytoken))") {
						r.Bad(key, pos, "a key the example names must be validated against that property: "+o.Exit())
					} else {
						r.OK(key, pos, ret)
					}
				case val["has(RequiredKeysConstraintType)"] == "true" && val["shortcut-matches"] == "true":
					// the matched shortcut's property validates the value and the shortcut is no longer owed
					if o.Panicked {
						if val[`example-has([64,75])`] == "false" || strings.Contains(key, "=false") {
							r.OK(key, pos, o.Exit())
						} else {
							r.Bad(key, pos, "a key matched by a key shortcut is rejected: "+o.Exit())
						}
					} else {
						r.OK(key, pos, ret)
					}
				case val["has(AdditionalPropertiesConstraintType)"] == "true":
					if o.Panicked || !strings.Contains(ret, "additionalPropertiesValidators") {
						r.Bad(key, pos, "an unknown key must be handed to additionalProperties: "+o.Exit())
					} else {
						r.OK(key, pos, ret)
					}
				default:
					positioned := false
					for _, ef := range o.Effects {
						if strings.HasPrefix(ef, "positioned-at ") && strings.Contains(ef, "lastFoundKeyLex") {
							positioned = true
						}
					}
					if verdict != "reject" {
						r.Bad(key, pos, "a key that neither the example, a key shortcut nor additionalProperties admits is accepted: "+o.Exit())
					} else if !positioned {
						r.Bad(key, pos, "the rejection of an unknown key is not positioned at the key")
					} else {
						r.OK(key, pos, "rejected at the key")
					}
				}
			default:
				if ev == "LiteralBegin" || ev == "LiteralEnd" {
					suffix, problem := nullableLiteral(ev, val, o, verdict, ret)
					if problem != "" {
						r.Bad(key+suffix, pos, problem)
					} else {
						r.OK(key+suffix, pos, "null admitted iff nullable")
					}
					continue
				}
				if verdict != "reject" {
					r.Bad(key, pos, "an event that does not belong to an object is not rejected: "+o.Exit())
				} else {
					r.OK(key, pos, "rejected")
				}
			}
		}
	}
}

func init() {
	register(&Rule{ID: "T-list", Min: 20, Run: runTList,
		Doc: "which validators a value position gets: a node with a types list is validated by the validators of the named types, plus a validator that admits null and nothing else iff nullable is present (at every level, also for a type whose own root is a reference; T-null decides what that validator admits); a node with type any (and no const) gets the any validator whatever the example's kind; otherwise arrays, objects and scalars get their own validator"})
}

func runTList(c *load.Ctx, r *report.RuleResult) {
	e := newAbsNodeEnv(c)
	build := c.Func(pkgValidator, "validatorListConstructor.buildList")
	appendTypes := c.Func(pkgValidator, "validatorListConstructor.appendTypeValidators")
	vlcT := namedType(c, pkgValidator, "validatorListConstructor")
	if build == nil || appendTypes == nil || vlcT == nil {
		r.Unk("anchor|validator.validatorListConstructor.buildList", "", "not found")
		return
	}
	pos := c.Pos(build.Pos())
	e.cfg.Intrinsics[appendTypes.String()] = func(in *pe.Interp, args []pe.Value) (pe.Value, bool) {
		in.Effect("type-validators(" + strings.Trim(pe.Show(args[1]), "‹›") + ")")
		return nil, true
	}
	for _, ctor := range []string{"newLiteralValidator", "newArrayValidator", "newObjectValidator", "newAnyNestedStructureValidator", "newNullValidator"} {
		ctor := ctor
		f := c.Func(pkgValidator, ctor)
		if f == nil {
			if ctor == "newNullValidator" {
				continue // its absence shows as a wrong cell below
			}
			r.Unk("anchor|validator."+ctor, "", "not found")
			return
		}
		e.cfg.Intrinsics[f.String()] = func(in *pe.Interp, args []pe.Value) (pe.Value, bool) {
			in.Effect(ctor)
			return pe.NewSym(ctor+"()", f.Signature.Results().At(0).Type()), true
		}
	}
	outs := pe.ExploreFn(e.cfg, func(in *pe.Interp) pe.Value {
		recv := symStruct(in, vlcT, "c", map[string]pe.Value{"list": pe.NilV{}, "addedTypeNames": pe.NilV{}})
		return in.Call(build, []pe.Value{recv, pe.NewSym("node", e.nodeT)})
	})
	inds := []string{"has(TypesListConstraintType)", "has(NullableConstraintType)", "has(AnyConstraintType)", "has(ConstConstraintType)"}
	kinds := []string{"TypeObject", "TypeArray", "TypeString", "TypeInteger", "TypeFloat", "TypeBoolean", "TypeNull"}
	for mask := 0; mask < 16; mask++ {
		total := map[string]string{}
		for i, ind := range inds {
			total[ind] = map[bool]string{true: "true", false: "false"}[mask&(1<<i) != 0]
		}
		for _, kind := range kinds {
			key := "validators|" + valStr(total, inds...) + ",kind=" + strings.TrimPrefix(kind, "Type")
			// expected constructor calls
			var want []string
			switch {
			case total[inds[0]] == "true":
				want = append(want, "type-validators(TypesList.typeNames)")
				if total[inds[1]] == "true" {
					// the null that nullable admits in place of the referenced types — and only the null:
					// a literal validator for the referencing node takes every value of the example's kind
					want = append(want, "newNullValidator")
				}
			case total[inds[2]] == "true" && total[inds[3]] == "false":
				want = []string{"newAnyNestedStructureValidator"}
			case kind == "TypeArray":
				want = []string{"newArrayValidator"}
			case kind == "TypeObject":
				want = []string{"newObjectValidator"}
			default:
				want = []string{"newLiteralValidator"}
			}
			matched := 0
			for _, o := range outs {
				val := o.ChoiceMap()
				ok := true
				for _, ind := range inds {
					if v, asked := val[ind]; asked && v != total[ind] {
						ok = false
					}
				}
				if v, asked := val["node.type"]; asked && v != kind {
					ok = false
				}
				if !ok {
					continue
				}
				matched++
				if o.Undecided != "" || o.Panicked {
					r.Unk(key, pos, o.Exit())
					continue
				}
				var got []string
				for _, ef := range o.Effects {
					if strings.HasPrefix(ef, "type-validators(") {
						// the names must be the node's own types list
						if strings.Contains(ef, "TypesList.") {
							ef = "type-validators(TypesList.typeNames)"
						}
					}
					got = append(got, ef)
				}
				if strings.Join(got, ";") != strings.Join(want, ";") {
					r.Bad(key, pos, fmt.Sprintf("validators built: %v; the position requires %v", got, want))
				} else {
					r.OK(key, pos, strings.Join(got, ";"))
				}
			}
			if matched == 0 {
				r.Unk(key, pos, "no path for this valuation")
			}
		}
	}
}

func init() {
	register(&Rule{ID: "T-ast", Min: 6, Run: runTAst,
		Doc: "AST content that must mirror the text: object properties appear in declaration order, each with its stored key and the key-shortcut flag recorded when the key was read, taken from the child at the key's own index; a rule that keeps its source text (min, max) renders that text, not a re-formatted number"})
}

func runTAst(c *load.Ctx, r *report.RuleResult) {
	e := newAbsNodeEnv(c)
	// (1) rule values rendered from the raw text
	for _, ci := range e.byVal {
		if ci.named == nil {
			continue
		}
		if fieldTypeOf(ci.named, "rawValue") == nil {
			continue
		}
		fn := c.Func(pkgConstraint, ci.named.Obj().Name()+".ASTNode")
		key := "rulevalue|" + ci.named.Obj().Name()
		if fn == nil {
			r.Unk(key, "", "ASTNode method not found")
			continue
		}
		outs := pe.ExploreFn(e.cfg, func(in *pe.Interp) pe.Value {
			var recv pe.Value = pe.NewSym("c", ci.named)
			if _, isPtr := fn.Params[0].Type().Underlying().(*types.Pointer); isPtr {
				recv = pe.NewSym("c", types.NewPointer(ci.named))
			}
			return in.Call(fn, []pe.Value{recv})
		})
		if len(outs) != 1 || outs[0].Undecided != "" || outs[0].Panicked {
			r.Unk(key, c.Pos(fn.Pos()), "not a single interpretable path")
			continue
		}
		val := "?"
		if sv, ok := outs[0].Ret.(*pe.StructV); ok {
			st := sv.T.Underlying().(*types.Struct)
			for i := 0; i < st.NumFields(); i++ {
				if st.Field(i).Name() == "Value" {
					val = pe.Show(sv.F[i])
				}
			}
		}
		if strings.Contains(val, "rawValue") && !strings.Contains(val, "str(") {
			r.OK(key, c.Pos(fn.Pos()), "value "+val)
		} else {
			r.Bad(key, c.Pos(fn.Pos()), "the rule's AST value is "+val+": it must be the rule text as written (the constraint keeps it in rawValue), not a re-formatted number (10.50 would come back as 10.5)")
		}
	}
	// (2) object properties
	fn := c.Func(pkgSchema, "ObjectNode.collectASTProperties")
	objT := namedType(c, pkgSchema, "ObjectNode")
	keysT := namedType(c, pkgSchema, "ObjectNodeKeys")
	keyT := namedType(c, pkgSchema, "ObjectNodeKey")
	if fn == nil || objT == nil || keysT == nil || keyT == nil {
		r.Unk("anchor|schema.ObjectNode.collectASTProperties", "", "not found")
		return
	}
	pos := c.Pos(fn.Pos())
	astT := fn.Signature.Results().At(0).Type().(*types.Slice).Elem()
	prefix := "invoke:" + types.TypeString(e.nodeT, nil) + "."
	e.cfg.Intrinsics[prefix+"ASTNode"] = func(in *pe.Interp, args []pe.Value) (pe.Value, bool) {
		name := strings.Trim(pe.Show(args[0]), "‹›")
		named := astT.(*types.Named)
		st := named.Underlying().(*types.Struct)
		sv := &pe.StructV{T: named, F: make([]pe.Value, st.NumFields())}
		for i := 0; i < st.NumFields(); i++ {
			sv.F[i] = pe.NewSym("ast("+name+")."+st.Field(i).Name(), st.Field(i).Type())
		}
		return &pe.Tuple{E: []pe.Value{sv, pe.NilV{}}}, true
	}
	outs := pe.ExploreFn(e.cfg, func(in *pe.Interp) pe.Value {
		mkKey := func(i int, idx int64) pe.Value {
			st := keyT.Underlying().(*types.Struct)
			sv := &pe.StructV{T: keyT, F: make([]pe.Value, st.NumFields())}
			for k := 0; k < st.NumFields(); k++ {
				switch st.Field(k).Name() {
				case "Index":
					sv.F[k] = idx
				case "IsShortcut":
					sv.F[k] = in.Choose(fmt.Sprintf("key%d.IsShortcut", i), []string{"false", "true"}) == 1
				default:
					sv.F[k] = pe.NewSym(fmt.Sprintf("key%d.%s", i, st.Field(k).Name()), st.Field(k).Type())
				}
			}
			return sv
		}
		// two keys whose children are stored in the opposite order, to tell Index from position
		keys := symStruct(in, keysT, "keys", map[string]pe.Value{"Data": in.MakeSliceOf([]pe.Value{mkKey(0, 1), mkKey(1, 0)}, 2)})
		children := in.MakeSliceOf([]pe.Value{pe.NewSym("childA", e.nodeT), pe.NewSym("childB", e.nodeT)}, 2)
		obj := symStruct(in, objT, "obj", map[string]pe.Value{"keys": keys, "children": children})
		return in.Call(fn, []pe.Value{obj})
	})
	for _, o := range outs {
		val := o.ChoiceMap()
		key := fmt.Sprintf("props|key0.shortcut=%s|key1.shortcut=%s", val["key0.IsShortcut"], val["key1.IsShortcut"])
		if o.Undecided != "" || o.Panicked {
			r.Unk(key, pos, o.Exit())
			continue
		}
		tp, ok := o.Ret.(*pe.Tuple)
		if !ok || len(tp.E) != 2 {
			r.Unk(key, pos, "unexpected result "+pe.Show(o.Ret))
			continue
		}
		elems, ok := pe.SliceElems(tp.E[0])
		if !ok || len(elems) != 2 {
			r.Bad(key, pos, fmt.Sprintf("two properties must yield two AST children in declaration order: %s", pe.Show(tp.E[0])))
			continue
		}
		problem := ""
		wantChild := []string{"childB", "childA"} // key0 -> Index 1, key1 -> Index 0
		for i, el := range elems {
			sv, ok := el.(*pe.StructV)
			if !ok {
				problem = "property is not an AST node value"
				break
			}
			st := sv.T.Underlying().(*types.Struct)
			for k := 0; k < st.NumFields(); k++ {
				got := pe.Show(sv.F[k])
				switch st.Field(k).Name() {
				case "Key":
					if got != fmt.Sprintf("‹key%d.Key›", i) {
						problem = fmt.Sprintf("property %d carries key %s instead of its stored key", i, got)
					}
				case "IsKeyShortcut":
					if got != val[fmt.Sprintf("key%d.IsShortcut", i)] {
						problem = fmt.Sprintf("property %d reports IsKeyShortcut=%s but the key was read as shortcut=%s", i, got, val[fmt.Sprintf("key%d.IsShortcut", i)])
					}
				case "TokenType":
					if !strings.Contains(got, "ast("+wantChild[i]+")") {
						problem = fmt.Sprintf("property %d is built from %s instead of the child at the key's own index (%s)", i, got, wantChild[i])
					}
				}
			}
		}
		if problem != "" {
			r.Bad(key, pos, problem)
		} else {
			r.OK(key, pos, "keys, flags and children agree")
		}
	}
}

func init() {
	register(&Rule{ID: "T-enum", Min: 6, Run: runTEnum,
		Doc: "enum membership and duplicate detection are type-sensitive: Enum.Validate accepts a value iff some item has the same decoded text AND the same JSON kind (\"1\" is not 1), and the enum-rule scanner reports a second value as a duplicate iff text and kind both coincide with an earlier one"})
}

func runTEnum(c *load.Ctx, r *report.RuleResult) {
	e := newAbsNodeEnv(c)
	validate := c.Func(pkgConstraint, "Enum.Validate")
	newItem := c.Func(pkgConstraint, "NewEnumItem")
	enumT := namedType(c, pkgConstraint, "Enum")
	itemT := namedType(c, pkgConstraint, "EnumItem")
	jsonT := namedType(c, pkgJSON, "Type")
	if validate == nil || newItem == nil || enumT == nil || itemT == nil || jsonT == nil {
		r.Unk("anchor|constraint.Enum.Validate", "", "not found")
		return
	}
	pos := c.Pos(validate.Pos())
	mkItem := func(in *pe.Interp, who string) pe.Value {
		// EnumItem embeds the (value, kind) pair
		var fill func(t *types.Named, prefix string) *pe.StructV
		fill = func(t *types.Named, prefix string) *pe.StructV {
			st := t.Underlying().(*types.Struct)
			sv := &pe.StructV{T: t, F: make([]pe.Value, st.NumFields())}
			for i := 0; i < st.NumFields(); i++ {
				f := st.Field(i)
				if n, ok := f.Type().(*types.Named); ok {
					if _, isStruct := n.Underlying().(*types.Struct); isStruct && f.Embedded() {
						sv.F[i] = fill(n, prefix)
						continue
					}
				}
				switch {
				case types.Identical(f.Type(), jsonT):
					sv.F[i] = pe.NewSym(who+".kind", jsonT)
				default:
					sv.F[i] = pe.NewSym(who+"."+f.Name(), f.Type())
				}
			}
			return sv
		}
		return fill(itemT, who)
	}
	e.cfg.Intrinsics[newItem.String()] = func(in *pe.Interp, args []pe.Value) (pe.Value, bool) {
		return mkItem(in, "probe"), true
	}
	// any other way of normalising the probe is visible as an atom on its text only
	outs := pe.ExploreFn(e.cfg, func(in *pe.Interp) pe.Value {
		items := in.MakeSliceOf([]pe.Value{mkItem(in, "item")}, 1)
		recv := structWith(in, enumT, map[string]pe.Value{"items": items, "uniqueIdx": pe.NilV{}, "ruleName": ""})
		return in.Call(validate, []pe.Value{recv, pe.NewSym("value", validate.Params[1].Type())})
	})
	kinds := []string{"TypeString", "TypeInteger"}
	for _, textEq := range []string{"true", "false"} {
		for _, ik := range kinds {
			for _, pk := range kinds {
				key := fmt.Sprintf("member|text-equal=%s|item=%s|probe=%s", textEq, ik, pk)
				matched := 0
				for _, o := range outs {
					val := o.ChoiceMap()
					ok := true
					sawText := false
					for n, l := range val {
						switch {
						case strings.HasPrefix(n, "eq(") && (strings.Contains(n, ".value") || strings.Contains(n, "value")):
							sawText = true
							if l != textEq {
								ok = false
							}
						case n == "item.kind" && l != ik:
							ok = false
						case n == "probe.kind" && l != pk:
							ok = false
						}
					}
					_ = sawText
					if !ok {
						continue
					}
					matched++
					v, code := verdictOf(o)
					if v == "undecided" || v == "crash" {
						r.Unk(key, pos, v+": "+code)
						continue
					}
					want := textEq == "true" && ik == pk
					if (v == "accept") != want {
						r.Bad(key, pos, fmt.Sprintf("a value whose text %s an item's and whose kind is %s against the item's %s is %sed; membership must compare both text and kind", map[string]string{"true": "equals", "false": "differs from"}[textEq], pk, ik, v))
					} else {
						r.OK(key, pos, v)
					}
				}
				if matched == 0 {
					r.Unk(key, pos, "no path for this valuation")
				}
			}
		}
	}
	// the enum-rule scanner's duplicate key
	vv := c.Func("rules/enum", "scanner.validateValue")
	ni := c.Func("rules/enum", "newEnumItem")
	scT := namedType(c, "rules/enum", "scanner")
	keyT := namedType(c, "rules/enum", "enumItemValue")
	if vv == nil || ni == nil || scT == nil || keyT == nil {
		r.Unk("anchor|rules/enum.scanner.validateValue", "", "not found")
		return
	}
	call := 0
	e.cfg.Intrinsics[ni.String()] = func(in *pe.Interp, args []pe.Value) (pe.Value, bool) {
		call++
		st := keyT.Underlying().(*types.Struct)
		sv := &pe.StructV{T: keyT, F: make([]pe.Value, st.NumFields())}
		for i := 0; i < st.NumFields(); i++ {
			if types.Identical(st.Field(i).Type(), jsonT) {
				sv.F[i] = in.Concretize(pe.NewSym(fmt.Sprintf("value%d.kind", call), jsonT))
			} else {
				sv.F[i] = "same text"
			}
		}
		return sv, true
	}
	mapT := fieldTypeOf(scT, "uniqueValues")
	outs2 := pe.ExploreFn(e.cfg, func(in *pe.Interp) pe.Value {
		call = 0
		s := symStruct(in, scT, "s", map[string]pe.Value{"uniqueValues": &pe.MapV{}})
		_ = mapT
		first := in.Call(vv, []pe.Value{s})
		second := in.Call(vv, []pe.Value{s})
		return &pe.Tuple{E: []pe.Value{first, second}}
	})
	pos2 := c.Pos(vv.Pos())
	for _, k1 := range kinds {
		for _, k2 := range kinds {
			key := fmt.Sprintf("duplicate|first=%s|second=%s", k1, k2)
			matched := 0
			for _, o := range outs2 {
				val := o.ChoiceMap()
				if val["value1.kind"] != k1 || val["value2.kind"] != k2 {
					continue
				}
				matched++
				if o.Undecided != "" || o.Panicked {
					r.Unk(key, pos2, o.Exit())
					continue
				}
				tp := o.Ret.(*pe.Tuple)
				firstErr, secondErr := !pe.IsNil(tp.E[0]), !pe.IsNil(tp.E[1])
				want := k1 == k2
				switch {
				case firstErr:
					r.Bad(key, pos2, "the first value of a list is reported as a duplicate")
				case secondErr != want:
					r.Bad(key, pos2, fmt.Sprintf("a second value with the same text and kind %s after %s is %s; duplicates are values equal in text and kind", k2, k1, map[bool]string{true: "reported as a duplicate", false: "not reported"}[secondErr]))
				default:
					r.OK(key, pos2, fmt.Sprintf("duplicate=%v", secondErr))
				}
			}
			if matched == 0 {
				r.Unk(key, pos2, "no path for this valuation")
			}
		}
	}
}

func init() {
	register(&Rule{ID: "T-chkarray", Min: 4, Run: runTChkArray,
		Doc: "the schema checker applies each item-count rule of an example array on its own: checkArrayNode, interpreted for every presence combination of minItems and maxItems, gives the example's own length to exactly the rules that are present (a lone minItems or a lone maxItems is checked too)"})
}

func runTChkArray(c *load.Ctx, r *report.RuleResult) {
	e := newAbsNodeEnv(c)
	fn := c.Func(pkgChecker, "checkSchema.checkArrayNode")
	arrT := namedType(c, pkgSchema, "ArrayNode")
	lenFn := c.Func(pkgSchema, "ArrayNode.Len")
	baseC := c.Func(pkgSchema, "baseNode.Constraint")
	if e.problem != "" || fn == nil || arrT == nil || lenFn == nil || baseC == nil {
		r.Unk("anchor|checker.checkArrayNode", "", "checkArrayNode / ArrayNode.Len / baseNode.Constraint not found "+e.problem)
		return
	}
	pos := c.Pos(fn.Pos())
	e.cfg.Intrinsics[lenFn.String()] = func(in *pe.Interp, args []pe.Value) (pe.Value, bool) {
		return pe.NewSym("len(example)", lenFn.Signature.Results().At(0).Type()), true
	}
	e.cfg.Intrinsics[baseC.String()] = e.cfg.Intrinsics["invoke:"+types.TypeString(e.nodeT, nil)+".Constraint"]
	rules := []string{}
	for _, ci := range e.byVal {
		if ci.named == nil {
			continue
		}
		if f := c.Func(pkgConstraint, ci.named.Obj().Name()+".ValidateTheArray"); f != nil {
			name := ci.named.Obj().Name()
			rules = append(rules, name)
			e.cfg.Intrinsics[f.String()] = func(in *pe.Interp, args []pe.Value) (pe.Value, bool) {
				in.Effect("count-rule " + name + "(" + strings.Trim(pe.Show(args[1]), "‹›") + ")")
				return nil, true
			}
		}
	}
	sort.Strings(rules)
	if len(rules) < 2 {
		r.Unk("anchor|item-count rules", pos, "fewer than two constraint types have ValidateTheArray")
		return
	}
	outs := pe.ExploreFn(e.cfg, func(in *pe.Interp) pe.Value {
		node := &pe.Iface{T: types.NewPointer(arrT), V: pe.NewSym("arrayNode", types.NewPointer(arrT))}
		args := []pe.Value{}
		for i, p := range fn.Params {
			if i == 0 && fn.Signature.Recv() != nil {
				args = append(args, pe.NewSym("recv", p.Type()))
				continue
			}
			args = append(args, node)
		}
		return in.Call(fn, args)
	})
	for _, o := range outs {
		val := o.ChoiceMap()
		key := "chkarray|" + o.Valuation()
		if o.Undecided != "" || o.Panicked {
			r.Unk(key, pos, "not interpretable: "+o.Exit())
			continue
		}
		var problems []string
		for _, name := range rules {
			present := val["has("+name+"ConstraintType)"] == "true"
			want := "count-rule " + name + "(len(example))"
			n := 0
			for _, ef := range o.Effects {
				if strings.HasPrefix(ef, "count-rule "+name+"(") {
					n++
					if ef != want {
						problems = append(problems, name+" is given "+ef+", not the example's own length")
					}
				}
			}
			switch {
			case present && n == 0:
				problems = append(problems, "the "+name+" rule of the node is not applied to the example")
			case present && n > 1:
				problems = append(problems, name+" applied more than once")
			case !present && n > 0:
				problems = append(problems, name+" applied although absent")
			}
		}
		if len(problems) > 0 {
			r.Bad(key, pos, strings.Join(problems, "; ")+fmt.Sprintf(" (effects %v)", o.Effects))
		} else {
			r.OK(key, pos, fmt.Sprintf("effects %v", o.Effects))
		}
	}
}

func init() {
	register(&Rule{ID: "T-orlist", Min: 2, Run: runTOrList,
		Doc: "the or / type-shortcut list records every alternative as written: TypesList.AddNameWithASTNode, interpreted on a list that already holds a name, appends exactly one entry to the names and one AST item — whether the new name is a repeat of an earlier one or not (the AST must list the alternatives exactly as written)"})
}

func runTOrList(c *load.Ctx, r *report.RuleResult) {
	tl := namedType(c, pkgConstraint, "TypesList")
	add := c.Func(pkgConstraint, "TypesList.AddNameWithASTNode")
	if tl == nil || add == nil {
		r.Unk("anchor|constraint.TypesList.AddNameWithASTNode", "", "not found")
		return
	}
	st, _ := tl.Underlying().(*types.Struct)
	pos := c.Pos(add.Pos())
	cfg := newPEConfig(c)
	for _, tc := range []struct{ name, newName string }{{"repeat", "@cat"}, {"new", "@dog"}} {
		var final *pe.Ptr
		outs := pe.ExploreFn(cfg, func(in *pe.Interp) pe.Value {
			obj := in.NewStruct(tl, "typesList")
			final = obj
			for i := 0; i < st.NumFields(); i++ {
				f := st.Field(i)
				sl, ok := f.Type().Underlying().(*types.Slice)
				if !ok {
					continue
				}
				var first pe.Value = pe.NewSym("ast0", sl.Elem())
				if b, ok := sl.Elem().Underlying().(*types.Basic); ok && b.Kind() == types.String {
					first = "@cat"
				}
				in.Store(in.FieldPtr(obj, f.Name()), in.MakeSliceOf([]pe.Value{first}, 4))
			}
			an := pe.NewSym("ast1", add.Params[3].Type())
			return in.Call(add, []pe.Value{obj, tc.newName, "typ", an})
		})
		key := "orlist|" + tc.name
		if len(outs) != 1 || outs[0].Undecided != "" || outs[0].Panicked {
			why := fmt.Sprintf("%d paths", len(outs))
			if len(outs) > 0 {
				why = outs[0].Exit()
			}
			r.Unk(key, pos, "AddNameWithASTNode not interpretable to one path: "+why)
			continue
		}
		sv := final.Obj.Val.(*pe.StructV)
		var problems []string
		for i := 0; i < st.NumFields(); i++ {
			f := st.Field(i)
			if _, ok := f.Type().Underlying().(*types.Slice); !ok {
				continue
			}
			elems, ok := pe.SliceElems(sv.F[i])
			if !ok || len(elems) != 2 {
				problems = append(problems, fmt.Sprintf("%s has %d entries after adding to a list of one", f.Name(), len(elems)))
			}
		}
		if len(problems) > 0 {
			r.Bad(key, pos, strings.Join(problems, "; ")+": an alternative written in the schema is missing from the rule (and from the AST)")
		} else {
			r.OK(key, pos, "every list grows by exactly one entry")
		}
	}
}

func init() {
	register(&Rule{ID: "T-null", Min: 2, Run: runTNull,
		Doc: "the validator that nullable adds next to the validators of referenced types admits null and nothing else: nullValidator.feed, interpreted with the lexeme type and the equality of the literal's text with null as atoms, stays alive on the begin of a literal, completes on the end of a literal iff the text is null, and rejects everything else with a library error"})
}

func runTNull(c *load.Ctx, r *report.RuleResult) {
	fn := c.Func(pkgValidator, "nullValidator.feed")
	nvT := namedType(c, pkgValidator, "nullValidator")
	if fn == nil || nvT == nil {
		r.Bad("null|validator", "", "there is no null-only validator (validator.nullValidator): nullable on a type reference is then served by a validator that takes more than null")
		return
	}
	e := newAbsNodeEnv(c)
	lexTypeFn := c.Func("internal/lexeme", "LexEvent.Type")
	lexValueFn := c.Func("internal/lexeme", "LexEvent.Value")
	catch := c.Func("internal/lexeme", "CatchLexEventError")
	if lexTypeFn == nil || lexValueFn == nil {
		r.Unk("anchor|lexeme.LexEvent accessors", "", "not found")
		return
	}
	if catch != nil {
		e.cfg.Opaque[catch.String()] = true
	}
	e.cfg.Intrinsics[lexTypeFn.String()] = func(in *pe.Interp, args []pe.Value) (pe.Value, bool) {
		return pe.NewSym("lex.type", lexTypeFn.Signature.Results().At(0).Type()), true
	}
	e.cfg.Intrinsics[lexValueFn.String()] = func(in *pe.Interp, args []pe.Value) (pe.Value, bool) {
		return pe.NewSym("lex.value", lexValueFn.Signature.Results().At(0).Type()), true
	}
	if f := c.Func(pkgBytes, "Bytes.String"); f != nil {
		e.cfg.Intrinsics[f.String()] = func(in *pe.Interp, args []pe.Value) (pe.Value, bool) {
			return pe.NewSym(strings.Trim(pe.Show(args[0]), "‹›"), types.Typ[types.String]), true
		}
	}
	if f := c.Func(pkgJSON, "Guess"); f != nil {
		e.cfg.Opaque[f.String()] = true
	}
	for _, m := range []string{"GuessData.LiteralJsonType", "GuessData.JsonType"} {
		if f := c.Func(pkgJSON, m); f != nil {
			e.cfg.Intrinsics[f.String()] = func(in *pe.Interp, args []pe.Value) (pe.Value, bool) {
				return pe.NewSym("kind", f.Signature.Results().At(0).Type()), true
			}
		}
	}
	pos := c.Pos(fn.Pos())
	outs := pe.ExploreFn(e.cfg, func(in *pe.Interp) pe.Value {
		v := symStruct(in, nvT, "v", nil)
		return in.Call(fn, []pe.Value{v, pe.NewSym("lex", fn.Params[1].Type())})
	})
	counts := map[string]int{}
	bad := map[string]string{}
	for _, o := range outs {
		val := o.ChoiceMap()
		lt := val["lex.type"]
		isNull := ""
		for n, l := range val {
			if strings.HasPrefix(n, "eq(") && strings.Contains(n, "null") {
				isNull = l
			}
		}
		key := fmt.Sprintf("null|event=%s|text-is-null=%s", lt, orDash(isNull, isNull != ""))
		counts[key]++
		if bad[key] != "" {
			continue
		}
		if o.Undecided != "" {
			bad[key] = "not interpretable: " + o.Undecided
			continue
		}
		verdict, _ := verdictOf(o)
		ret := pe.Show(o.Ret)
		switch lt {
		case "LiteralBegin":
			if o.Panicked || ret != "(nil,false)" {
				bad[key] = "the begin of a literal must keep the validator waiting: " + o.Exit()
			}
		case "LiteralEnd":
			switch {
			case isNull == "":
				bad[key] = "the end of a literal is decided without asking whether its text is null: " + o.Exit()
			case isNull == "true" && (o.Panicked || ret != "(nil,true)"):
				bad[key] = "null is not accepted: " + o.Exit()
			case isNull == "false" && verdict != "reject":
				bad[key] = "a literal other than null is not rejected: " + o.Exit()
			}
		default:
			if verdict != "reject" {
				bad[key] = "an event that is not a literal is not rejected: " + o.Exit()
			}
		}
	}
	for _, k := range sortedKeys(counts) {
		if bad[k] != "" {
			r.Bad(k, pos, bad[k])
		} else {
			r.OK(k, pos, fmt.Sprintf("%d path(s)", counts[k]))
		}
	}
	if len(counts) == 0 {
		r.Unk("anchor|paths", pos, "no path")
	}
}
