package rules

import (
	"fmt"
	"go/types"
	"strings"

	"verif/internal/load"
	"verif/internal/pe"
	"verif/internal/report"
)

func init() {
	register(&Rule{ID: "T-array", Min: 6, Run: runTArray,
		Doc: "array validation per lexical event: on item-begin the element is checked against the example element at the running item index and the index advances by exactly one; begin and item-end are neutral; on array-end every item-count rule of the node is given the number of items seen and the validator completes; any other event is rejected"})
	register(&Rule{ID: "T-object", Min: 8, Run: runTObject,
		Doc: "object validation per lexical event: a key removes exactly itself (unquoted) from the keys still owed; the object may end only when no required key is owed; a key the example names is validated against that property; an unknown key goes to key shortcuts, then additionalProperties, else it is rejected with the key's position; any other event is rejected"})
}

// symStruct builds a heap object of a struct type whose fields are symbols, except those given.
func symStruct(in *pe.Interp, named *types.Named, tag string, fields map[string]pe.Value) *pe.Ptr {
	st := named.Underlying().(*types.Struct)
	sv := &pe.StructV{T: named, F: make([]pe.Value, st.NumFields())}
	for i := 0; i < st.NumFields(); i++ {
		if v, ok := fields[st.Field(i).Name()]; ok {
			sv.F[i] = v
		} else {
			sv.F[i] = pe.NewSym(tag+"."+st.Field(i).Name(), st.Field(i).Type())
		}
	}
	return &pe.Ptr{Obj: in.NewObj(named, sv, tag), T: named}
}

func lexTypeIntrinsic(c *load.Ctx, e *tableEnv) bool {
	f := c.Func("internal/lexeme", "LexEvent.Type")
	if f == nil {
		return false
	}
	t := f.Signature.Results().At(0).Type()
	e.cfg.Intrinsics[f.String()] = func(in *pe.Interp, args []pe.Value) (pe.Value, bool) {
		return pe.NewSym("event", t), true
	}
	return true
}

func runTArray(c *load.Ctx, r *report.RuleResult) {
	e := newAbsNodeEnv(c)
	fn := c.Func(pkgValidator, "arrayValidator.feed")
	avT := namedType(c, pkgValidator, "arrayValidator")
	arrT := namedType(c, pkgSchema, "ArrayNode")
	nvl := c.Func(pkgValidator, "NodeValidatorList")
	child := c.Func(pkgSchema, "ArrayNode.Child")
	if fn == nil || avT == nil || arrT == nil || nvl == nil || child == nil || !lexTypeIntrinsic(c, e.tableEnv) {
		r.Unk("anchor|validator.arrayValidator.feed", "", "not found")
		return
	}
	pos := c.Pos(fn.Pos())
	e.cfg.Intrinsics[child.String()] = func(in *pe.Interp, args []pe.Value) (pe.Value, bool) {
		return pe.NewSym("child("+strings.Trim(pe.Show(args[1]), "‹›")+")", e.nodeT), true
	}
	e.cfg.Intrinsics[nvl.String()] = func(in *pe.Interp, args []pe.Value) (pe.Value, bool) {
		in.Effect("validators-of " + pe.Show(args[0]))
		return pe.NewSym("validators("+strings.Trim(pe.Show(args[0]), "‹›")+")", nvl.Signature.Results().At(0).Type()), true
	}
	// item-count rules present on the node
	for _, ci := range e.byVal {
		if ci.named == nil {
			continue
		}
		if f := c.Func(pkgConstraint, ci.named.Obj().Name()+".ValidateTheArray"); f != nil {
			name := ci.named.Obj().Name()
			e.cfg.Intrinsics[f.String()] = func(in *pe.Interp, args []pe.Value) (pe.Value, bool) {
				in.Effect("count-rule " + name + "(" + pe.Show(args[1]) + ")")
				return nil, true
			}
		}
	}
	setFn := c.Func(pkgSchema, "Constraints.Set")
	consT := namedType(c, pkgSchema, "Constraints")
	cmap := c.Func(pkgSchema, "baseNode.ConstraintMap")
	if setFn == nil || consT == nil || cmap == nil {
		r.Unk("anchor|schema.Constraints", "", "not found")
		return
	}
	for _, op := range []string{"Lock", "Unlock", "RLock", "RUnlock"} {
		e.cfg.Intrinsics["(*sync.RWMutex)."+op] = func(in *pe.Interp, args []pe.Value) (pe.Value, bool) { return nil, true }
	}
	e.cfg.Intrinsics[cmap.String()] = func(in *pe.Interp, args []pe.Value) (pe.Value, bool) {
		m := in.NewStruct(consT, "constraints")
		for _, n := range []string{"MinItemsConstraintType", "MaxItemsConstraintType", "OptionalConstraintType"} {
			ci := e.byName[n]
			if ci == nil || ci.named == nil {
				continue
			}
			obj := &pe.Iface{T: types.NewPointer(ci.named), V: symStruct(in, ci.named, ci.named.Obj().Name(), nil)}
			in.Call(setFn, []pe.Value{m, ci.val, obj})
		}
		return m, true
	}
	for _, kind := range []string{"array", "mixed"} {
		var objs []*pe.Ptr
		outs := pe.ExploreFn(e.cfg, func(in *pe.Interp) pe.Value {
			var node pe.Value
			if kind == "array" {
				node = &pe.Iface{T: types.NewPointer(arrT), V: pe.NewSym("arrayNode", types.NewPointer(arrT))}
			} else {
				mn := namedType(c, pkgSchema, "MixedNode")
				node = &pe.Iface{T: types.NewPointer(mn), V: pe.NewSym("mixedNode", types.NewPointer(mn))}
			}
			v := symStruct(in, avT, "v", map[string]pe.Value{"node_": node, "itemsCounter": pe.NewSym("n", types.Typ[types.Uint])})
			objs = append(objs, v)
			return in.Call(fn, []pe.Value{v, pe.NewSym("lex", fn.Params[1].Type())})
		})
		for i, o := range outs {
			ev := o.ChoiceMap()["event"]
			key := fmt.Sprintf("array|node=%s|event=%s", kind, ev)
			if o.Undecided != "" {
				r.Unk(key, pos, o.Undecided)
				continue
			}
			counter := "?"
			if i < len(objs) {
				counter = pe.Show(in2(objs[i], "itemsCounter"))
			}
			verdict, _ := verdictOf(o)
			ret := pe.Show(o.Ret)
			switch ev {
			case "ArrayBegin", "ArrayItemEnd":
				if o.Panicked || ret != "(nil,false)" || counter != "‹n›" {
					r.Bad(key, pos, "must be neutral: "+o.Exit()+" counter "+counter)
				} else {
					r.OK(key, pos, "neutral")
				}
			case "ArrayItemBegin":
				if kind == "mixed" {
					if verdict != "reject" {
						r.Bad(key, pos, "an item for a node that has no example elements must be rejected: "+o.Exit())
					} else {
						r.OK(key, pos, "rejected")
					}
					continue
				}
				switch {
				case o.Panicked:
					r.Bad(key, pos, "rejected: "+o.Exit())
				case !strings.Contains(ret, "validators(child(n))"):
					r.Bad(key, pos, "the element is not checked against the example element at the running index n: "+ret)
				case counter != "‹n+1›":
					r.Bad(key, pos, "the item index becomes "+counter+" instead of n+1")
				case !strings.HasSuffix(ret, ",false)"):
					r.Bad(key, pos, "the array validator must stay alive while its items are checked: "+ret)
				default:
					r.OK(key, pos, ret)
				}
			case "ArrayEnd":
				var rules []string
				for _, ef := range o.Effects {
					if strings.HasPrefix(ef, "count-rule ") {
						rules = append(rules, strings.TrimPrefix(ef, "count-rule "))
					}
				}
				switch {
				case o.Panicked || !strings.HasSuffix(ret, ",true)"):
					r.Bad(key, pos, "array-end must complete the validator: "+o.Exit())
				case kind == "array" && (len(rules) != 2 || !strings.Contains(strings.Join(rules, " "), "MinItems(‹n›)") || !strings.Contains(strings.Join(rules, " "), "MaxItems(‹n›)")):
					r.Bad(key, pos, fmt.Sprintf("every item-count rule must be given the number of items seen: %v", rules))
				default:
					r.OK(key, pos, fmt.Sprintf("count rules %v, done", rules))
				}
			default:
				if verdict != "reject" {
					r.Bad(key, pos, "an event that does not belong to an array is not rejected: "+o.Exit())
				} else {
					r.OK(key, pos, "rejected")
				}
			}
		}
	}
}

func runTObject(c *load.Ctx, r *report.RuleResult) {
	e := newAbsNodeEnv(c)
	fn := c.Func(pkgValidator, "objectValidator.feed")
	ovT := namedType(c, pkgValidator, "objectValidator")
	objT := namedType(c, pkgSchema, "ObjectNode")
	nvl := c.Func(pkgValidator, "NodeValidatorList")
	childByRaw := c.Func(pkgSchema, "ObjectNode.ChildByRawKey")
	vtr := c.Func(pkgValidator, "objectValidator.validateTypeRules")
	apv := c.Func(pkgValidator, "newAdditionalPropertiesValidator")
	lexValue := c.Func("internal/lexeme", "LexEvent.Value")
	if fn == nil || ovT == nil || objT == nil || nvl == nil || childByRaw == nil || vtr == nil || apv == nil || lexValue == nil || !lexTypeIntrinsic(c, e.tableEnv) {
		r.Unk("anchor|validator.objectValidator.feed", "", "not found")
		return
	}
	pos := c.Pos(fn.Pos())
	e.cfg.Intrinsics[lexValue.String()] = func(in *pe.Interp, args []pe.Value) (pe.Value, bool) {
		return pe.NewSym("keytoken", lexValue.Signature.Results().At(0).Type()), true
	}
	// unquote(keytoken).String() is the key "k": make it concrete so that the map is exact
	if f := c.Func(pkgBytes, "Bytes.String"); f != nil {
		e.cfg.Intrinsics[f.String()] = func(in *pe.Interp, args []pe.Value) (pe.Value, bool) {
			if pe.Show(args[0]) == "‹unquote(keytoken)›" {
				return "k", true
			}
			return nil, false
		}
	}
	e.cfg.Intrinsics[nvl.String()] = func(in *pe.Interp, args []pe.Value) (pe.Value, bool) {
		return pe.NewSym("validators("+strings.Trim(pe.Show(args[0]), "‹›")+")", nvl.Signature.Results().At(0).Type()), true
	}
	e.cfg.Intrinsics[childByRaw.String()] = func(in *pe.Interp, args []pe.Value) (pe.Value, bool) {
		arg := strings.Trim(pe.Show(args[1]), "‹›")
		if in.Choose("example-has("+arg+")", []string{"false", "true"}) == 1 {
			return &pe.Tuple{E: []pe.Value{pe.NewSym("property("+arg+")", e.nodeT), true}}, true
		}
		return &pe.Tuple{E: []pe.Value{pe.NilV{}, false}}, true
	}
	e.cfg.Intrinsics[vtr.String()] = func(in *pe.Interp, args []pe.Value) (pe.Value, bool) {
		if in.Choose("shortcut-matches", []string{"false", "true"}) == 1 {
			return &pe.Tuple{E: []pe.Value{"@K", true}}, true
		}
		return &pe.Tuple{E: []pe.Value{"", false}}, true
	}
	e.cfg.Intrinsics[apv.String()] = func(in *pe.Interp, args []pe.Value) (pe.Value, bool) {
		return pe.NewSym("additionalPropertiesValidators", apv.Signature.Results().At(0).Type()), true
	}
	if f := c.Func("internal/lexeme", "NewLexEventError"); f != nil {
		e.cfg.Intrinsics[f.String()] = func(in *pe.Interp, args []pe.Value) (pe.Value, bool) {
			in.Effect("positioned-at " + pe.Show(args[0]))
			return nil, false
		}
	}
	if f := c.Func(pkgValidator, "objectValidator.requiredKeysString"); f != nil {
		e.cfg.Opaque[f.String()] = true
	}
	for _, owed := range []string{"", "k", "other", "k,other"} {
		owed := owed
		var objs []*pe.Ptr
		outs := pe.ExploreFn(e.cfg, func(in *pe.Interp) pe.Value {
			req := &pe.MapV{}
			for i, k := range strings.Split(owed, ",") {
				if k != "" {
					req.Keys = append(req.Keys, k)
					req.Vals = append(req.Vals, int64(i))
				}
			}
			node := &pe.Iface{T: types.NewPointer(objT), V: pe.NewSym("objectNode", types.NewPointer(objT))}
			v := symStruct(in, ovT, "v", map[string]pe.Value{"node_": node, "requiredKeys": req})
			objs = append(objs, v)
			return in.Call(fn, []pe.Value{v, pe.NewSym("lex", fn.Params[1].Type())})
		})
		for i, o := range outs {
			val := o.ChoiceMap()
			ev := val["event"]
			key := fmt.Sprintf("object|owed={%s}|event=%s", owed, ev)
			for _, a := range []string{"has(RequiredKeysConstraintType)", "shortcut-matches", "has(AdditionalPropertiesConstraintType)"} {
				if v, ok := val[a]; ok {
					key += "|" + shortAtom(a) + "=" + v
				}
			}
			for n, v := range val {
				if strings.HasPrefix(n, "example-has(") {
					key += "|" + n + "=" + v
				}
			}
			if o.Undecided != "" {
				r.Unk(key, pos, o.Undecided)
				continue
			}
			verdict, _ := verdictOf(o)
			var left []string
			if i < len(objs) {
				if m, ok := in2(objs[i], "requiredKeys").(*pe.MapV); ok {
					for _, k := range m.Keys {
						left = append(left, strings.Trim(pe.Show(k), `"`))
					}
				}
			}
			leftS := strings.Join(left, ",")
			ret := pe.Show(o.Ret)
			switch ev {
			case "ObjectBegin", "ObjectKeyBegin", "ObjectValueEnd":
				if o.Panicked || ret != "(nil,false)" || leftS != owed {
					r.Bad(key, pos, "must be neutral: "+o.Exit()+" owed {"+leftS+"}")
				} else {
					r.OK(key, pos, "neutral")
				}
			case "ObjectKeyEnd":
				want := strings.Trim(strings.ReplaceAll(strings.ReplaceAll(","+owed+",", ",k,", ","), ",,", ","), ",")
				if o.Panicked || leftS != want || ret != "(nil,false)" {
					r.Bad(key, pos, fmt.Sprintf("after key k the keys still owed are {%s}; expected {%s} (%s)", leftS, want, o.Exit()))
				} else {
					r.OK(key, pos, "owed {"+leftS+"}")
				}
			case "ObjectEnd":
				if (verdict == "reject") != (owed != "") {
					r.Bad(key, pos, fmt.Sprintf("object ends with owed keys {%s}: %s", owed, o.Exit()))
				} else if owed == "" && !strings.HasSuffix(ret, ",true)") {
					r.Bad(key, pos, "object-end must complete the validator: "+ret)
				} else {
					r.OK(key, pos, verdict)
				}
			case "ObjectValueBegin":
				known := false
				for n, v := range val {
					if strings.HasPrefix(n, "example-has(keytoken)") && v == "true" {
						known = true
					}
				}
				switch {
				case known:
					if o.Panicked || !strings.Contains(ret, "validators(property(keytoken))") {
						r.Bad(key, pos, "a key the example names must be validated against that property: "+o.Exit())
					} else {
						r.OK(key, pos, ret)
					}
				case val["has(RequiredKeysConstraintType)"] == "true" && val["shortcut-matches"] == "true":
					// the matched shortcut's property validates the value and the shortcut is no longer owed
					if o.Panicked {
						if val[`example-has([64,75])`] == "false" || strings.Contains(key, "=false") {
							r.OK(key, pos, o.Exit())
						} else {
							r.Bad(key, pos, "a key matched by a key shortcut is rejected: "+o.Exit())
						}
					} else {
						r.OK(key, pos, ret)
					}
				case val["has(AdditionalPropertiesConstraintType)"] == "true":
					if o.Panicked || !strings.Contains(ret, "additionalPropertiesValidators") {
						r.Bad(key, pos, "an unknown key must be handed to additionalProperties: "+o.Exit())
					} else {
						r.OK(key, pos, ret)
					}
				default:
					positioned := false
					for _, ef := range o.Effects {
						if strings.HasPrefix(ef, "positioned-at ") && strings.Contains(ef, "lastFoundKeyLex") {
							positioned = true
						}
					}
					if verdict != "reject" {
						r.Bad(key, pos, "a key that neither the example, a key shortcut nor additionalProperties admits is accepted: "+o.Exit())
					} else if !positioned {
						r.Bad(key, pos, "the rejection of an unknown key is not positioned at the key")
					} else {
						r.OK(key, pos, "rejected at the key")
					}
				}
			default:
				if verdict != "reject" {
					r.Bad(key, pos, "an event that does not belong to an object is not rejected: "+o.Exit())
				} else {
					r.OK(key, pos, "rejected")
				}
			}
		}
	}
}

func init() {
	register(&Rule{ID: "T-list", Min: 20, Run: runTList,
		Doc: "which validators a value position gets: a node with a types list is validated by the validators of the named types, plus a null-admitting validator iff nullable is present (at every level, also for a type whose own root is a reference); a node with type any (and no const) gets the any validator whatever the example's kind; otherwise arrays, objects and scalars get their own validator"})
}

func runTList(c *load.Ctx, r *report.RuleResult) {
	e := newAbsNodeEnv(c)
	build := c.Func(pkgValidator, "validatorListConstructor.buildList")
	appendTypes := c.Func(pkgValidator, "validatorListConstructor.appendTypeValidators")
	vlcT := namedType(c, pkgValidator, "validatorListConstructor")
	if build == nil || appendTypes == nil || vlcT == nil {
		r.Unk("anchor|validator.validatorListConstructor.buildList", "", "not found")
		return
	}
	pos := c.Pos(build.Pos())
	e.cfg.Intrinsics[appendTypes.String()] = func(in *pe.Interp, args []pe.Value) (pe.Value, bool) {
		in.Effect("type-validators(" + strings.Trim(pe.Show(args[1]), "‹›") + ")")
		return nil, true
	}
	for _, ctor := range []string{"newLiteralValidator", "newArrayValidator", "newObjectValidator", "newAnyNestedStructureValidator"} {
		ctor := ctor
		f := c.Func(pkgValidator, ctor)
		if f == nil {
			r.Unk("anchor|validator."+ctor, "", "not found")
			return
		}
		e.cfg.Intrinsics[f.String()] = func(in *pe.Interp, args []pe.Value) (pe.Value, bool) {
			in.Effect(ctor)
			return pe.NewSym(ctor+"()", f.Signature.Results().At(0).Type()), true
		}
	}
	outs := pe.ExploreFn(e.cfg, func(in *pe.Interp) pe.Value {
		recv := symStruct(in, vlcT, "c", map[string]pe.Value{"list": pe.NilV{}, "addedTypeNames": pe.NilV{}})
		return in.Call(build, []pe.Value{recv, pe.NewSym("node", e.nodeT)})
	})
	inds := []string{"has(TypesListConstraintType)", "has(NullableConstraintType)", "has(AnyConstraintType)", "has(ConstConstraintType)"}
	kinds := []string{"TypeObject", "TypeArray", "TypeString", "TypeInteger", "TypeFloat", "TypeBoolean", "TypeNull"}
	for mask := 0; mask < 16; mask++ {
		total := map[string]string{}
		for i, ind := range inds {
			total[ind] = map[bool]string{true: "true", false: "false"}[mask&(1<<i) != 0]
		}
		for _, kind := range kinds {
			key := "validators|" + valStr(total, inds...) + ",kind=" + strings.TrimPrefix(kind, "Type")
			// expected constructor calls
			var want []string
			switch {
			case total[inds[0]] == "true":
				want = append(want, "type-validators(TypesList.typeNames)")
				if total[inds[1]] == "true" {
					want = append(want, "newLiteralValidator")
				}
			case total[inds[2]] == "true" && total[inds[3]] == "false":
				want = []string{"newAnyNestedStructureValidator"}
			case kind == "TypeArray":
				want = []string{"newArrayValidator"}
			case kind == "TypeObject":
				want = []string{"newObjectValidator"}
			default:
				want = []string{"newLiteralValidator"}
			}
			matched := 0
			for _, o := range outs {
				val := o.ChoiceMap()
				ok := true
				for _, ind := range inds {
					if v, asked := val[ind]; asked && v != total[ind] {
						ok = false
					}
				}
				if v, asked := val["node.type"]; asked && v != kind {
					ok = false
				}
				if !ok {
					continue
				}
				matched++
				if o.Undecided != "" || o.Panicked {
					r.Unk(key, pos, o.Exit())
					continue
				}
				var got []string
				for _, ef := range o.Effects {
					if strings.HasPrefix(ef, "type-validators(") {
						// the names must be the node's own types list
						if strings.Contains(ef, "TypesList.") {
							ef = "type-validators(TypesList.typeNames)"
						}
					}
					got = append(got, ef)
				}
				if strings.Join(got, ";") != strings.Join(want, ";") {
					r.Bad(key, pos, fmt.Sprintf("validators built: %v; the position requires %v", got, want))
				} else {
					r.OK(key, pos, strings.Join(got, ";"))
				}
			}
			if matched == 0 {
				r.Unk(key, pos, "no path for this valuation")
			}
		}
	}
}
