package rules

import (
	"fmt"
	"go/types"
	"sort"
	"strings"

	"golang.org/x/tools/go/ssa"

	"verif/internal/load"
	"verif/internal/pe"
	"verif/internal/report"
)

// Decision tables extracted with engine PE and compared with the cells the properties pin down.

// tableEnv bundles what the table rules share.
type tableEnv struct {
	c   *load.Ctx
	cfg *pe.Config
}

const (
	pkgConstraint = "notations/jschema/internal/schema/constraint"
	pkgValidator  = "notations/jschema/internal/validator"
	pkgLoader     = "notations/jschema/internal/loader"
	pkgSchema     = "notations/jschema/internal/schema"
	pkgChecker    = "notations/jschema/internal/checker"
	pkgJSON       = "internal/json"
	pkgBytes      = "bytes"
)

func newTableEnv(c *load.Ctx) *tableEnv {
	e := &tableEnv{c: c, cfg: newPEConfig(c)}
	full := func(rel, name string) string {
		f := c.Func(rel, name)
		if f == nil {
			return ""
		}
		return f.String()
	}
	// exact decimal comparison is an atom: ord(a,b) in {<,=,>}; Cmp's own arithmetic is out of reach
	if k := full(pkgJSON, "Number.Cmp"); k != "" {
		e.cfg.Intrinsics[k] = func(in *pe.Interp, args []pe.Value) (pe.Value, bool) {
			a, b := numName(args[0]), numName(args[1])
			// one atom per unordered pair: comparing (b,a) after (a,b) must give the mirrored answer
			if in.Chosen("ord("+b+","+a+")") != "" {
				o := in.Choose("ord("+b+","+a+")", []string{"<", "=", ">"}) - 1
				return int64(-o), true
			}
			o := in.Choose("ord("+a+","+b+")", []string{"<", "=", ">"}) - 1
			return int64(o), true
		}
	}
	// parsing a numeral yields an opaque exact number named after its source
	if k := full(pkgJSON, "NewNumber"); k != "" {
		e.cfg.Intrinsics[k] = func(in *pe.Interp, args []pe.Value) (pe.Value, bool) {
			src := pe.Show(args[0])
			f := c.Func(pkgJSON, "NewNumber")
			numPtr := f.Signature.Results().At(0).Type()
			return &pe.Tuple{E: []pe.Value{pe.NewSym("number("+strings.Trim(src, "‹›")+")", numPtr), pe.NilV{}}}, true
		}
	}
	// decoded string of a JSON token
	if k := full(pkgBytes, "Bytes.Unquote"); k != "" {
		e.cfg.Intrinsics[k] = func(in *pe.Interp, args []pe.Value) (pe.Value, bool) {
			f := c.Func(pkgBytes, "Bytes.Unquote")
			return pe.NewSym("unquote("+strings.Trim(pe.Show(args[0]), "‹›")+")", f.Signature.Results().At(0).Type()), true
		}
	}
	if k := full(pkgJSON, "Number.LengthOfFractionalPart"); k != "" {
		e.cfg.Intrinsics[k] = func(in *pe.Interp, args []pe.Value) (pe.Value, bool) {
			return pe.NewSym("fraclen("+numName(args[0])+")", types.Typ[types.Uint]), true
		}
	}
	if k := full(pkgJSON, "Number.String"); k != "" {
		e.cfg.Intrinsics[k] = func(in *pe.Interp, args []pe.Value) (pe.Value, bool) {
			return pe.NewSym("str("+numName(args[0])+")", types.Typ[types.String]), true
		}
	}
	return e
}

func numName(v pe.Value) string {
	s := pe.Show(v)
	s = strings.Trim(s, "‹›&")
	s = strings.TrimPrefix(s, "*")
	return s
}

// structWith builds a struct value of the named type with some fields set.
func structWith(in *pe.Interp, t types.Type, fields map[string]pe.Value) *pe.StructV {
	sv := in.Zero(t).(*pe.StructV)
	st := t.Underlying().(*types.Struct)
	for i := 0; i < st.NumFields(); i++ {
		if v, ok := fields[st.Field(i).Name()]; ok {
			sv.F[i] = v
		}
	}
	return sv
}

func namedType(c *load.Ctx, rel, name string) *types.Named {
	p := c.Pkg(rel)
	if p == nil {
		return nil
	}
	tn, _ := p.Types.Scope().Lookup(name).(*types.TypeName)
	if tn == nil {
		return nil
	}
	n, _ := tn.Type().(*types.Named)
	return n
}

func fieldTypeOf(t *types.Named, name string) types.Type {
	st, ok := t.Underlying().(*types.Struct)
	if !ok {
		return nil
	}
	for i := 0; i < st.NumFields(); i++ {
		if st.Field(i).Name() == name {
			return st.Field(i).Type()
		}
	}
	return nil
}

// isLibraryReject reports whether a panic value is a library error (errors.Errorf, errors.ErrorCode,
// errors.DocumentError), i.e. a validation verdict rather than a crash; it returns the code.
func isLibraryReject(v pe.Value) (string, bool) {
	i, ok := v.(*pe.Iface)
	if !ok {
		return "", false
	}
	named, ok := i.T.(*types.Named)
	if !ok || named.Obj().Pkg() == nil || named.Obj().Pkg().Path() != load.Module+"/errors" {
		return "", false
	}
	switch named.Obj().Name() {
	case "ErrorCode":
		return "E" + pe.Show(i.V), true
	case "Errorf", "DocumentError":
		if sv, ok := i.V.(*pe.StructV); ok {
			st := named.Underlying().(*types.Struct)
			for k := 0; k < st.NumFields(); k++ {
				if st.Field(k).Name() == "code" {
					return "E" + pe.Show(sv.F[k]), true
				}
			}
		}
		return "E?", true
	}
	return "", false
}

func init() {
	register(&Rule{ID: "T3", Min: 12, Run: runT3,
		Doc: "min/max comparators: Min.Validate and Max.Validate, interpreted with the exact comparison Number.Cmp as an ordering atom, accept a probe iff probe >= min (> when exclusive) resp. probe <= max (< when exclusive), for all three orderings and both values of the exclusive flag; the bound is the constraint's own number and the probe is the parsed document value"})
	register(&Rule{ID: "T4", Min: 15, Run: runT4,
		Doc: "length / item-count / precision comparators: minLength/maxLength compare the length of the *decoded* string with the bound (>= / <=), minItems/maxItems compare the child count (>= / <=), precision bounds the number of fractional digits of the parsed number (<=), for all three orderings"})
}

// cmpRow is one expected row: ordering label -> accept?
type cmpSpec struct {
	typ       string // constraint type name
	method    string
	boundFld  string
	exclusive bool   // has an exclusive flag
	probeMust string // substring the probe operand's provenance must contain
	// accept(ord(probe,bound) as "<","=",">", exclusive)
	accept func(ord string, excl bool) bool
}

func runCmpSpec(e *tableEnv, r *report.RuleResult, sp cmpSpec) {
	c := e.c
	named := namedType(c, pkgConstraint, sp.typ)
	fn := c.Func(pkgConstraint, sp.typ+"."+sp.method)
	if named == nil || fn == nil {
		r.Unk("anchor|"+sp.typ+"."+sp.method, "", "constraint type or method not found")
		return
	}
	pos := c.Pos(fn.Pos())
	boundT := fieldTypeOf(named, sp.boundFld)
	if boundT == nil {
		r.Unk("anchor|"+sp.typ+"."+sp.boundFld, pos, "bound field not found")
		return
	}
	outs := pe.ExploreFn(e.cfg, func(in *pe.Interp) pe.Value {
		fields := map[string]pe.Value{sp.boundFld: pe.NewSym("bound", boundT)}
		if sp.exclusive {
			fields["exclusive"] = pe.NewSym("exclusive", types.Typ[types.Bool])
		}
		recv := structWith(in, named, fields)
		var arg pe.Value = pe.NewSym("value", fn.Params[1].Type())
		if isIntType(fn.Params[1].Type()) {
			arg = pe.NewSym("count", fn.Params[1].Type())
		}
		var rv pe.Value = recv
		if _, isPtr := fn.Params[0].Type().Underlying().(*types.Pointer); isPtr {
			rv = &pe.Ptr{Obj: in.NewObj(named, recv, ""), T: named}
		}
		return in.Call(fn, []pe.Value{rv, arg})
	})
	seen := map[string]bool{}
	for _, o := range outs {
		val := o.ChoiceMap()
		excl := val["exclusive"] == "true"
		// find the ordering atom and orient it as ord(probe,bound)
		ord, probe := "", ""
		for name, lbl := range val {
			if !strings.HasPrefix(name, "ord(") {
				continue
			}
			inner := strings.TrimSuffix(strings.TrimPrefix(name, "ord("), ")")
			a, b, ok := splitTop(inner)
			if !ok {
				continue
			}
			switch {
			case strings.Contains(b, "bound") && !strings.Contains(a, "bound"):
				ord, probe = lbl, a
			case strings.Contains(a, "bound") && !strings.Contains(b, "bound"):
				ord, probe = flipOrd(lbl), b
			}
		}
		key := fmt.Sprintf("cmp|%s.%s|probe%sbound|exclusive=%v", sp.typ, sp.method, ord, excl)
		if !sp.exclusive {
			key = fmt.Sprintf("cmp|%s.%s|probe%sbound", sp.typ, sp.method, ord)
		}
		if seen[key] {
			r.Unk(key+"|dup", pos, "two paths for the same valuation: "+o.Valuation())
			continue
		}
		seen[key] = true
		switch {
		case o.Undecided != "":
			r.Unk(key, pos, o.Undecided+" under "+o.Valuation())
			continue
		case ord == "":
			r.Unk(key, pos, "no comparison between the probe and the bound on this path: "+o.Valuation()+" => "+o.Exit())
			continue
		}
		if sp.probeMust != "" && !strings.Contains(probe, sp.probeMust) {
			r.Bad(key, pos, fmt.Sprintf("the compared operand is %s; the rule must compare %s", probe, sp.probeMust))
			continue
		}
		accepted := !o.Panicked
		if o.Panicked {
			if _, ok := isLibraryReject(o.PanicVal); !ok {
				r.Bad(key, pos, "the validator fails with a non-library panic: "+pe.Show(o.PanicVal))
				continue
			}
		}
		want := sp.accept(ord, excl)
		if accepted != want {
			r.Bad(key, pos, fmt.Sprintf("a probe %s the bound (exclusive=%v) is %s; the rule's definition %s it", ordWord(ord), excl, verdictWord(accepted), verdictWord2(want)))
		} else {
			r.OK(key, pos, fmt.Sprintf("probe=%s: %s", probe, verdictWord(accepted)))
		}
	}
	// all valuations must be present
	n := 3
	if sp.exclusive {
		n = 6
	}
	if len(seen) != n {
		r.Unk(fmt.Sprintf("cmp|%s.%s|coverage", sp.typ, sp.method), pos, fmt.Sprintf("%d of %d valuations produced", len(seen), n))
	}
}

func flipOrd(o string) string {
	switch o {
	case "<":
		return ">"
	case ">":
		return "<"
	}
	return o
}
func ordWord(o string) string {
	return map[string]string{"<": "below", "=": "equal to", ">": "above"}[o]
}
func verdictWord(acc bool) string {
	if acc {
		return "accepted"
	}
	return "rejected"
}
func verdictWord2(acc bool) string {
	if acc {
		return "accepts"
	}
	return "rejects"
}

// splitTop splits "a,b" at the top-level comma.
func splitTop(s string) (string, string, bool) {
	depth := 0
	for i, ch := range s {
		switch ch {
		case '(', '[', '{':
			depth++
		case ')', ']', '}':
			depth--
		case ',':
			if depth == 0 {
				return s[:i], s[i+1:], true
			}
		}
	}
	return "", "", false
}

func runT3(c *load.Ctx, r *report.RuleResult) {
	e := newTableEnv(c)
	runCmpSpec(e, r, cmpSpec{typ: "Min", method: "Validate", boundFld: "min", exclusive: true, probeMust: "number(value)",
		accept: func(ord string, excl bool) bool { return ord == ">" || (ord == "=" && !excl) }})
	runCmpSpec(e, r, cmpSpec{typ: "Max", method: "Validate", boundFld: "max", exclusive: true, probeMust: "number(value)",
		accept: func(ord string, excl bool) bool { return ord == "<" || (ord == "=" && !excl) }})
	// the six comparison helpers of Number reduce to Cmp as their names say
	helpers := map[string]func(o int) bool{
		"GreaterThan":        func(o int) bool { return o > 0 },
		"GreaterThanOrEqual": func(o int) bool { return o >= 0 },
		"LessThan":           func(o int) bool { return o < 0 },
		"LessThanOrEqual":    func(o int) bool { return o <= 0 },
		"Equal":              func(o int) bool { return o == 0 },
	}
	names := make([]string, 0, len(helpers))
	for n := range helpers {
		names = append(names, n)
	}
	sort.Strings(names)
	for _, n := range names {
		fn := c.Func(pkgJSON, "Number."+n)
		if fn == nil {
			continue // a helper that does not exist cannot be wrong
		}
		numT := namedType(c, pkgJSON, "Number")
		outs := pe.ExploreFn(e.cfg, func(in *pe.Interp) pe.Value {
			return in.Call(fn, []pe.Value{pe.NewSym("a", numT), pe.NewSym("b", types.NewPointer(numT))})
		})
		for _, o := range outs {
			lbl := o.ChoiceMap()["ord(a,b)"]
			key := fmt.Sprintf("helper|Number.%s|a%sb", n, lbl)
			got, isB := o.Ret.(bool)
			if o.Undecided != "" || o.Panicked || !isB || lbl == "" {
				r.Unk(key, c.Pos(fn.Pos()), "not reducible to Cmp: "+o.Valuation()+" => "+o.Exit())
				continue
			}
			want := helpers[n](map[string]int{"<": -1, "=": 0, ">": 1}[lbl])
			if got != want {
				r.Bad(key, c.Pos(fn.Pos()), fmt.Sprintf("returns %v when a %s b", got, lbl))
			} else {
				r.OK(key, c.Pos(fn.Pos()), "")
			}
		}
	}
}

func runT4(c *load.Ctx, r *report.RuleResult) {
	e := newTableEnv(c)
	ge := func(ord string, _ bool) bool { return ord != "<" }
	le := func(ord string, _ bool) bool { return ord != ">" }
	runCmpSpec(e, r, cmpSpec{typ: "MinLength", method: "Validate", boundFld: "value", probeMust: "len(unquote(value))", accept: ge})
	runCmpSpec(e, r, cmpSpec{typ: "MaxLength", method: "Validate", boundFld: "value", probeMust: "len(unquote(value))", accept: le})
	runCmpSpec(e, r, cmpSpec{typ: "MinItems", method: "ValidateTheArray", boundFld: "value", probeMust: "count", accept: ge})
	runCmpSpec(e, r, cmpSpec{typ: "MaxItems", method: "ValidateTheArray", boundFld: "value", probeMust: "count", accept: le})
	runCmpSpec(e, r, cmpSpec{typ: "Precision", method: "Validate", boundFld: "value", probeMust: "fraclen(number(value))", accept: le})
}

var _ = ssa.Function{}
