package rules

import (
	"fmt"
	"go/types"
	"sort"
	"strings"

	"verif/internal/load"
	"verif/internal/pe"
	"verif/internal/report"
)

func init() {
	register(&Rule{ID: "T-tree-deep", Min: 30, Thorough: true, Run: func(c *load.Ctx, r *report.RuleResult) { runTTreeN(c, r, 4) },
		Doc: "T-tree with up to 4 live candidates (distinct parents and alternatives of one value)"})
	register(&Rule{ID: "T-tree", Min: 30, Run: runTTree,
		Doc: "validator tree bookkeeping: for 1..3 live candidate validators and every combination of per-candidate outcomes on one lexeme (fails / completes with or without a parent / continues / spawns two children), Tree.FeedLeaves feeds every live candidate exactly once, drops exactly the failed ones, steps a completed one back to its parent (or removes it), replaces a spawning one by its first child and appends the others, rejects iff every candidate failed (with the candidate's own error when it was alone), and reports completion iff no candidate is left"})
	register(&Rule{ID: "T-allfail", Min: 6, Run: runTAllFail,
		Doc: "schema check of a literal example against its candidate checkers: every candidate is consulted, and the node is rejected iff all of them fail — with the candidate's own positioned error when it is alone, with the or-rule-set error otherwise"})
}

func runTTree(c *load.Ctx, r *report.RuleResult) { runTTreeN(c, r, 3) }

func runTTreeN(c *load.Ctx, r *report.RuleResult, maxN int) {
	e := newTableEnv(c)
	// three candidates x five outcomes x every iteration order of the live set
	e.cfg.MaxPaths = 200000
	e.cfg.TotalFuel = 400000000
	feedLeaves := c.Func(pkgValidator, "Tree.FeedLeaves")
	treeT := namedType(c, pkgValidator, "Tree")
	litT := namedType(c, pkgValidator, "literalValidator")
	litFeed := c.Func(pkgValidator, "literalValidator.feed")
	docErr := namedType(c, "errors", "DocumentError")
	if feedLeaves == nil || treeT == nil || litT == nil || litFeed == nil || docErr == nil {
		r.Unk("anchor|validator.Tree.FeedLeaves", "", "Tree / literalValidator not found")
		return
	}
	pos := c.Pos(feedLeaves.Pos())
	valIface := litFeed.Signature.Results().At(0).Type().(*types.Slice).Elem()
	nullT := namedType(c, pkgValidator, "nullValidator")
	nullFeed := c.Func(pkgValidator, "nullValidator.feed")
	mkValidatorOf := func(in *pe.Interp, vt *types.Named, tag string, parent pe.Value) pe.Value {
		st := vt.Underlying().(*types.Struct)
		sv := &pe.StructV{T: vt, F: make([]pe.Value, st.NumFields())}
		for i := 0; i < st.NumFields(); i++ {
			switch st.Field(i).Name() {
			case "parent_":
				sv.F[i] = parent
			default:
				sv.F[i] = pe.NewSym(tag+"."+st.Field(i).Name(), st.Field(i).Type())
			}
		}
		return &pe.Iface{T: types.NewPointer(vt), V: &pe.Ptr{Obj: in.NewObj(vt, sv, tag), T: vt}}
	}
	mkValidator := func(in *pe.Interp, tag string, parent pe.Value) pe.Value {
		st := litT.Underlying().(*types.Struct)
		sv := &pe.StructV{T: litT, F: make([]pe.Value, st.NumFields())}
		for i := 0; i < st.NumFields(); i++ {
			switch st.Field(i).Name() {
			case "parent_":
				sv.F[i] = parent
			default:
				sv.F[i] = pe.NewSym(tag+"."+st.Field(i).Name(), st.Field(i).Type())
			}
		}
		return &pe.Iface{T: types.NewPointer(litT), V: &pe.Ptr{Obj: in.NewObj(litT, sv, tag), T: litT}}
	}
	tagOf := func(v pe.Value) string {
		if i, ok := v.(*pe.Iface); ok {
			if p, ok := i.V.(*pe.Ptr); ok && p.Obj != nil {
				return p.Obj.Tag
			}
		}
		return pe.Show(v)
	}
	outcomes := []string{"fail", "done-root", "done-parent", "continue", "children"}
	e.cfg.Intrinsics[litFeed.String()] = func(in *pe.Interp, args []pe.Value) (pe.Value, bool) {
		tag := "?"
		if p, ok := args[0].(*pe.Ptr); ok && p.Obj != nil {
			tag = p.Obj.Tag
		}
		in.Effect("feed " + tag)
		switch outcomes[in.Choose("outcome("+tag+")", outcomes)] {
		case "fail":
			in.Panic(&pe.Iface{T: docErr, V: pe.NewSym("error-of-"+tag, docErr)})
		case "done-root", "done-parent":
			return &pe.Tuple{E: []pe.Value{pe.NilV{}, true}}, true
		case "continue":
			return &pe.Tuple{E: []pe.Value{pe.NilV{}, false}}, true
		case "children":
			self := &pe.Iface{T: types.NewPointer(litT), V: args[0]}
			kids := in.MakeSliceOf([]pe.Value{mkValidator(in, tag+".c1", self), mkValidator(in, tag+".c2", self)}, 2)
			return &pe.Tuple{E: []pe.Value{kids, false}}, true
		}
		return nil, false
	}
	_ = valIface
	if nullFeed != nil {
		e.cfg.Intrinsics[nullFeed.String()] = e.cfg.Intrinsics[litFeed.String()]
	}
	type scenario struct {
		n      int
		shared bool // the candidates are alternatives of one value: they share one parent
		null   bool // the last alternative is the null-only validator of a nullable type reference
	}
	scenarios := []scenario{{1, false, false}, {2, false, false}, {3, false, false}, {2, true, false}, {3, true, false}}
	if nullT != nil && nullFeed != nil {
		scenarios = append(scenarios, scenario{2, true, true}, scenario{3, true, true})
	}
	if maxN >= 4 {
		scenarios = append(scenarios, scenario{4, false, false}, scenario{4, true, false})
		e.cfg.MaxPaths = 2000000
		e.cfg.TotalFuel = 4000000000
	}
	for _, sc := range scenarios {
		n := sc.n
		shared := sc.shared
		var trees []*pe.Ptr
		outs := pe.ExploreFn(e.cfg, func(in *pe.Interp) pe.Value {
			// the tree: n leaves l0..; whether a leaf has a parent is decided by its outcome atom, so
			// give every leaf a parent object and let "done-root" leaves have none
			t := in.NewStruct(treeT, "tree")
			trees = append(trees, t)
			leaves := &pe.MapV{}
			var common pe.Value
			if shared {
				common = mkValidator(in, "P", pe.NilV{})
			}
			for i := 0; i < n; i++ {
				tag := fmt.Sprintf("l%d", i)
				var parent pe.Value = pe.NilV{}
				// the first leaf is a root validator (no parent), the others have one
				if i > 0 {
					parent = mkValidator(in, tag+".parent", pe.NilV{})
				}
				if shared {
					parent = common
				}
				leaves.Keys = append(leaves.Keys, int64(i))
				if sc.null && i == n-1 {
					leaves.Vals = append(leaves.Vals, mkValidatorOf(in, nullT, tag, parent))
				} else {
					leaves.Vals = append(leaves.Vals, mkValidator(in, tag, parent))
				}
			}
			in.Store(in.FieldPtr(t, "leaves"), leaves)
			in.Store(in.FieldPtr(t, "nextIndex"), int64(n))
			return in.Call(feedLeaves, []pe.Value{t, pe.NewSym("lex", feedLeaves.Params[1].Type())})
		})
		okSeen := map[string]bool{}
		badSeen := map[string]bool{}
		for i, o := range outs {
			val := o.ChoiceMap()
			var pat []string
			nfail := 0
			for k := 0; k < n; k++ {
				oc := val[fmt.Sprintf("outcome(l%d)", k)]
				if oc == "" {
					oc = "?"
				}
				if oc == "fail" {
					nfail++
				}
				pat = append(pat, oc)
			}
			key := fmt.Sprintf("tree|leaves=%d|%s", n, strings.Join(pat, ","))
			if shared {
				// alternatives are interchangeable: key by the multiset of outcomes
				norm := make([]string, len(pat))
				for i, p := range pat {
					norm[i] = strings.TrimSuffix(strings.TrimSuffix(p, "-root"), "-parent")
				}
				sort.Strings(norm)
				key = fmt.Sprintf("tree|alternatives=%d|%s", n, strings.Join(norm, ","))
				if sc.null {
					key = fmt.Sprintf("tree|alternatives=%d with the null of a nullable reference|%s", n, strings.Join(pat, ","))
				}
			}
			if o.Undecided != "" {
				r.Unk(key, pos, o.Undecided)
				continue
			}
			if strings.Contains(key, "?") {
				r.Bad(key, pos, "a live candidate is not fed this lexeme: "+fmt.Sprint(o.Effects))
				continue
			}
			// every leaf fed exactly once
			fed := map[string]int{}
			for _, ef := range o.Effects {
				if strings.HasPrefix(ef, "feed ") {
					fed[strings.TrimPrefix(ef, "feed ")]++
				}
			}
			okFed := len(fed) == n
			for _, cnt := range fed {
				if cnt != 1 {
					okFed = false
				}
			}
			if !okFed {
				r.Bad(key, pos, fmt.Sprintf("candidates are not fed exactly once each: %v", fed))
				continue
			}
			// verdict
			if nfail == n {
				if !o.Panicked {
					r.Bad(key, pos, "every candidate failed but the lexeme is not rejected: "+o.Exit())
					continue
				}
				shown := pe.Show(o.PanicVal)
				if n == 1 && !strings.Contains(shown, "error-of-l0") {
					r.Bad(key, pos, "the single candidate's own error is not the one reported: "+shown)
					continue
				}
				if n > 1 && strings.Contains(shown, "error-of-l") {
					r.Bad(key, pos, "several candidates failed and one candidate's own error is reported: which one depends on the order in which the live candidates are walked (a map): "+shown)
					continue
				}
				if n > 1 && !strings.Contains(shown, "DocumentError") {
					r.Bad(key, pos, "the rejection is not a positioned document error: "+shown)
					continue
				}
				if !okSeen[key] {
					okSeen[key] = true
					r.OK(key, pos, "rejected")
				}
				continue
			}
			if o.Panicked {
				r.Bad(key, pos, "not every candidate failed but the lexeme is rejected: "+o.Exit())
				continue
			}
			// expected live set afterwards
			var want []string
			parentBack := false
			for k := 0; k < n; k++ {
				tag := fmt.Sprintf("l%d", k)
				switch pat[k] {
				case "continue":
					want = append(want, tag)
				case "done-root", "done-parent":
					// a completed leaf steps back to its parent; a root validator is removed
					if shared {
						// alternatives of one value: their common parent resumes once, however many of
						// them accepted the value
						if !parentBack {
							parentBack = true
							want = append(want, "P")
						}
					} else if k > 0 {
						want = append(want, tag+".parent")
					}
				case "children":
					want = append(want, tag+".c1", tag+".c2")
				}
			}
			var got []string
			if i < len(trees) {
				if lv, ok := in2(trees[i], "leaves").(*pe.MapV); ok {
					for _, v := range lv.Vals {
						got = append(got, tagOf(v))
					}
				}
			}
			sort.Strings(want)
			sort.Strings(got)
			if strings.Join(want, ",") != strings.Join(got, ",") {
				if !badSeen[key] {
					badSeen[key] = true
					r.Bad(key, pos, fmt.Sprintf("live candidates afterwards: %v; expected %v (a parent that is live twice is fed every following lexeme twice: its item counter and owed keys go wrong)", got, want))
				}
				continue
			}
			done, _ := o.Ret.(bool)
			if done != (len(want) == 0) {
				r.Bad(key, pos, fmt.Sprintf("reports completion=%v with %d candidate(s) left", done, len(want)))
				continue
			}
			if !okSeen[key] && !badSeen[key] { // the same outcome pattern is reached once per map iteration order
				okSeen[key] = true
				r.OK(key, pos, fmt.Sprintf("live: %v", got))
			}
		}
	}
}

// in2 reads a field of a struct object.
func in2(p *pe.Ptr, field string) pe.Value {
	sv, ok := p.Obj.Val.(*pe.StructV)
	if !ok {
		return nil
	}
	st := sv.T.Underlying().(*types.Struct)
	for i := 0; i < st.NumFields(); i++ {
		if st.Field(i).Name() == field {
			return sv.F[i]
		}
	}
	return nil
}

func runTAllFail(c *load.Ctx, r *report.RuleResult) {
	e := newAbsNodeEnv(c)
	if e.problem != "" {
		r.Unk("anchor|schema.Node", "", e.problem)
		return
	}
	fn := c.Func(pkgChecker, "checkSchema.checkLiteralNode")
	listFn := c.Func(pkgChecker, "checkSchema.checkerList")
	litChk := namedType(c, pkgChecker, "literalChecker")
	chkFn := c.Func(pkgChecker, "literalChecker.Check")
	docErr := namedType(c, "errors", "DocumentError")
	if fn == nil || listFn == nil || litChk == nil || chkFn == nil || docErr == nil {
		r.Unk("anchor|checker.checkLiteralNode", "", "not found")
		return
	}
	pos := c.Pos(fn.Pos())
	prefix := "invoke:" + types.TypeString(e.nodeT, nil) + "."
	e.cfg.Intrinsics[prefix+"BasisLexEventOfSchemaForNode"] = func(in *pe.Interp, args []pe.Value) (pe.Value, bool) {
		return pe.NewSym("nodeLex", chkFn.Params[1].Type()), true
	}
	e.cfg.Intrinsics[chkFn.String()] = func(in *pe.Interp, args []pe.Value) (pe.Value, bool) {
		tag := strings.Trim(pe.Show(args[0]), "‹›")
		in.Effect("check " + tag)
		if in.Choose("fails("+tag+")", []string{"false", "true"}) == 1 {
			return &pe.Iface{T: docErr, V: pe.NewSym("error-of-"+tag, docErr)}, true
		}
		return pe.NilV{}, true
	}
	if f := c.Func("internal/lexeme", "NewLexEventError"); f != nil {
		e.cfg.Opaque[f.String()] = true
	}
	for n := 1; n <= 3; n++ {
		n := n
		e.cfg.Intrinsics[listFn.String()] = func(in *pe.Interp, args []pe.Value) (pe.Value, bool) {
			var l []pe.Value
			for i := 0; i < n; i++ {
				l = append(l, &pe.Iface{T: litChk, V: pe.NewSym(fmt.Sprintf("chk%d", i), litChk)})
			}
			return in.MakeSliceOf(l, n), true
		}
		outs := pe.ExploreFn(e.cfg, func(in *pe.Interp) pe.Value {
			return in.Call(fn, []pe.Value{pe.NewSym("c", fn.Params[0].Type()), pe.NewSym("node", e.nodeT), pe.NewSym("ss", fn.Params[2].Type())})
		})
		for _, o := range outs {
			val := o.ChoiceMap()
			nfail, asked := 0, 0
			var pat []string
			for k := 0; k < n; k++ {
				v, ok := val[fmt.Sprintf("fails(chk%d)", k)]
				if ok {
					asked++
				}
				if v == "true" {
					nfail++
				}
				pat = append(pat, map[string]string{"true": "F", "false": "ok", "": "?"}[v])
			}
			key := fmt.Sprintf("allfail|checkers=%d|%s", n, strings.Join(pat, ","))
			switch {
			case o.Undecided != "":
				r.Unk(key, pos, o.Undecided)
			case asked != n:
				r.Bad(key, pos, "a candidate checker is not consulted")
			case nfail == n && !o.Panicked:
				r.Bad(key, pos, "every candidate rejects the example but the node is accepted")
			case nfail < n && o.Panicked:
				r.Bad(key, pos, "a candidate accepts the example but the node is rejected: "+o.Exit())
			case nfail == n && n == 1 && !strings.Contains(pe.Show(o.PanicVal), "error-of-chk0"):
				r.Bad(key, pos, "the single candidate's own error (with its position) is not the one reported: "+o.Exit())
			default:
				r.OK(key, pos, o.Exit())
			}
		}
	}
}

var _ = load.Module
