package rules

import (
	"fmt"
	"go/types"
	"strconv"
	"strings"

	"verif/internal/load"
	"verif/internal/pe"
	"verif/internal/report"
)

// T-uuid: the UUID format rule is decided by code of the library itself (a hand-written parser), so
// "which parser decides" (T-formats) says nothing about what it admits. The parser is a function of a
// short text over bytes; it is interpreted on each of the four accepted layouts with one position left
// open over all 256 byte values: the value is accepted iff the open byte is of the class its position
// requires. Every position is open in turn, so a position the parser never examines, or examines
// against the wrong class, shows as a wrong cell.

func init() {
	register(&Rule{ID: "T-uuid", Min: 150, Run: runTUuid,
		Doc: "uuid format: UUID.Validate, interpreted on the four layouts (36 bytes with dashes; the same with urn:uuid: in front, in either case; the same in braces; 32 hex digits) with one position open over all 256 byte values, every position in turn, accepts iff the open byte belongs to the class of its position — hex digit, dash, brace, the letter of the prefix; and every other length (0 to 48 bytes of digits, and prefixes of the dashed form) is refused. A position that is never examined, or a class that is too wide, admits a value that is not a UUID"})
}

func runTUuid(c *load.Ctx, r *report.RuleResult) {
	e := newTableEnv(c)
	if f := c.Func(pkgBytes, "Bytes.Unquote"); f != nil {
		// the texts below are the *decoded* strings (T-formats pins that the parser is given the decoded
		// string); the decoder is the identity here
		e.cfg.Intrinsics[f.String()] = func(in *pe.Interp, args []pe.Value) (pe.Value, bool) { return args[0], true }
	}
	// the standard library's byte-slice helpers on a text with one open byte: element by element
	elems := func(in *pe.Interp, v pe.Value) ([]int64, bool) {
		if str, ok := v.(string); ok {
			out := make([]int64, len(str))
			for i := 0; i < len(str); i++ {
				out[i] = int64(str[i])
			}
			return out, true
		}
		es, ok := pe.SliceElems(v)
		if !ok {
			in.Undecided("byte-slice helper on %s", pe.Show(v))
			return nil, false
		}
		out := make([]int64, len(es))
		for i, x := range es {
			k, ok := in.Concretize(x).(int64)
			if !ok {
				return nil, false
			}
			out[i] = k
		}
		return out, true
	}
	lower := func(b int64) int64 {
		if b >= 'A' && b <= 'Z' {
			return b + 32
		}
		return b
	}
	e.cfg.Intrinsics["bytes.ToLower"] = func(in *pe.Interp, args []pe.Value) (pe.Value, bool) {
		es, ok := elems(in, args[0])
		if !ok {
			return nil, false
		}
		vs := make([]pe.Value, len(es))
		for i, b := range es {
			vs[i] = lower(b)
		}
		return in.MakeSliceOf(vs, len(vs)), true
	}
	cmp := func(fold bool) pe.Intrinsic {
		return func(in *pe.Interp, args []pe.Value) (pe.Value, bool) {
			a, ok1 := elems(in, args[0])
			b, ok2 := elems(in, args[1])
			if !ok1 || !ok2 {
				return nil, false
			}
			if len(a) != len(b) {
				return false, true
			}
			for i := range a {
				x, y := a[i], b[i]
				if fold {
					x, y = lower(x), lower(y)
				}
				if x != y {
					return false, true
				}
			}
			return true, true
		}
	}
	// fmt.Errorf never yields nil
	if ei, ok := e.cfg.Intrinsics["errors.New"]; ok {
		e.cfg.Intrinsics["fmt.Errorf"] = func(in *pe.Interp, args []pe.Value) (pe.Value, bool) { return ei(in, args[:1]) }
	}
	e.cfg.Intrinsics["bytes.Equal"] = cmp(false)
	e.cfg.Intrinsics["bytes.EqualFold"] = cmp(true)
	fn := c.Func(pkgConstraint, "UUID.Validate")
	named := namedType(c, pkgConstraint, "UUID")
	if fn == nil || named == nil {
		r.Unk("anchor|UUID.Validate", "", "constraint type UUID or its Validate method not found")
		return
	}
	pos := c.Pos(fn.Pos())
	const dashed = "5a0E8c00-e29B-41d4-A716-4f6655Dd00b9"
	isHex := func(b int) bool {
		return (b >= '0' && b <= '9') || (b >= 'a' && b <= 'f') || (b >= 'A' && b <= 'F')
	}
	classOf := func(t string, i int) (string, func(int) bool) {
		ch := t[i]
		switch {
		case ch == '-':
			return "dash", func(b int) bool { return b == '-' }
		case ch == '{' || ch == '}' || ch == ':':
			return fmt.Sprintf("%q", ch), func(b int) bool { return b == int(ch) }
		case len(t) > 36 && i < 9 && strings.EqualFold(t[:9], "urn:uuid:"):
			lo := int(ch | 0x20)
			return "letter " + string(rune(lo)) + " in either case", func(b int) bool { return b|0x20 == lo && ((b >= 'a' && b <= 'z') || (b >= 'A' && b <= 'Z')) }
		}
		return "hex digit", isHex
	}
	run := func(text string, open int) []*pe.Outcome {
		return pe.ExploreFn(e.cfg, func(in *pe.Interp) pe.Value {
			var bs []pe.Value
			for i := 0; i < len(text); i++ {
				if i == open {
					bs = append(bs, pe.NewSym("b", types.Typ[types.Byte]))
				} else {
					bs = append(bs, int64(text[i]))
				}
			}
			recv := in.Zero(named)
			return in.Call(fn, []pe.Value{recv, in.MakeSliceOf(bs, len(bs))})
		})
	}
	forms := []struct{ name, text string }{
		{"dashed", dashed},
		{"urn", "urn:uuid:" + dashed},
		{"URN", "URN:UUID:" + dashed},
		{"braces", "{" + dashed + "}"},
		{"bare", strings.ReplaceAll(dashed, "-", "")},
	}
	for _, f := range forms {
		for i := 0; i < len(f.text); i++ {
			cls, want := classOf(f.text, i)
			key := fmt.Sprintf("uuid|form=%s|pos=%d", f.name, i)
			outs := run(f.text, i)
			var wrong []string
			undec := ""
			seen := map[int]bool{}
			for _, o := range outs {
				if o.Undecided != "" {
					undec = o.Undecided
					break
				}
				accepted := !o.Panicked
				if o.Panicked {
					if _, ok := isLibraryReject(o.PanicVal); !ok {
						wrong = append(wrong, "fails with "+pe.Show(o.PanicVal)+" on {"+o.Valuation()+"}")
						continue
					}
				}
				lbl, examined := o.ChoiceMap()["b"]
				if !examined {
					// this path never looked at the open byte: it speaks for all 256 values
					if accepted {
						wrong = append(wrong, "the byte is never examined on an accepting path")
					}
					for b := 0; b < 256; b++ {
						seen[b] = true
					}
					continue
				}
				b, _ := strconv.Atoi(lbl)
				seen[b] = true
				if accepted != want(b) {
					wrong = append(wrong, fmt.Sprintf("byte %q is %s", string(rune(b)), verdictWord(accepted)))
				}
			}
			switch {
			case undec != "":
				r.Unk(key, pos, "not interpretable: "+undec)
			case len(seen) != 256:
				r.Unk(key, pos, fmt.Sprintf("only %d of 256 byte values were decided", len(seen)))
			case len(wrong) > 0:
				if len(wrong) > 4 {
					wrong = append(wrong[:4], fmt.Sprintf("… %d more", len(wrong)-4))
				}
				r.Bad(key, pos, fmt.Sprintf("in %q position %d takes a %s, but %s", f.text, i, cls, strings.Join(wrong, "; ")))
			default:
				r.OK(key, pos, cls)
			}
		}
	}
	// lengths
	long := strings.Repeat("0123456789abcdefABCDEF", 3)
	ext := dashed + "00000000000000"
	for n := 0; n <= 48; n++ {
		for _, t := range []struct{ kind, text string }{{"digits", long[:n]}, {"dashed", ext[:n]}} {
			if (t.kind == "digits" && n == 32) || (t.kind == "dashed" && n == 36) {
				continue
			}
			key := fmt.Sprintf("uuid|length=%d|%s", n, t.kind)
			outs := run(t.text, -1)
			if len(outs) != 1 || outs[0].Undecided != "" {
				r.Unk(key, pos, "not interpretable on the concrete text")
				continue
			}
			if !outs[0].Panicked {
				r.Bad(key, pos, fmt.Sprintf("the %d-byte text %q is accepted as a UUID", n, t.text))
				continue
			}
			if _, ok := isLibraryReject(outs[0].PanicVal); !ok {
				r.Bad(key, pos, fmt.Sprintf("the %d-byte text %q fails with %s", n, t.text, pe.Show(outs[0].PanicVal)))
				continue
			}
			r.OK(key, pos, "refused")
		}
	}
}
