package rules

import (
	"fmt"
	"go/token"
	"go/types"

	"golang.org/x/tools/go/ssa"

	"verif/internal/load"
	"verif/internal/report"
)

// LB-buf — a buffer made in the function and filled at a running index has its room tested.
//
// XF does not prove implicit index panics absent; what it decides is that none escapes as a panic.
// A write `b[w] = …` into a slice the function made itself, at an index that is carried round a loop,
// is in range only because of an invariant between w and len(b). The structural necessary condition
// checked here: inside that loop some branch that dominates the write compares the index (or a value
// it is derived from) with an expression built from len(b) — the "out of room? grow" test, or a plain
// bound. Without any such test nothing in the function keeps w below len(b).

func init() {
	register(&Rule{ID: "LB-buf", Min: 1, Run: runLBbuf,
		Doc: "a buffer made in the function and filled at a running index has its room tested: for every store through `b[w]` where b is a slice the function itself made (make, possibly re-made in the loop) and w is a loop-carried index (not a constant, not the range index of b), some conditional branch that dominates the store compares w, or a value w is computed from, with an expression built from len(b) or cap(b) — the unquoting buffer that is grown when malformed UTF-8 makes the result longer than the source; with the test gone every string with five or more malformed bytes overruns the buffer and the API returns a raw run-time error"})
}

func runLBbuf(c *load.Ctx, r *report.RuleResult) {
	n := 0
	for _, fn := range c.ModuleFunctions() {
		if load.IsAux(load.FuncPkgRel(fn)) || fn.Blocks == nil {
			continue
		}
		// slices made here (through phis)
		made := map[ssa.Value]bool{}
		for _, b := range fn.Blocks {
			for _, ins := range b.Instrs {
				if ms, ok := ins.(*ssa.MakeSlice); ok {
					made[ms] = true
				}
			}
		}
		if len(made) == 0 {
			continue
		}
		// a phi all of whose leaves (through other phis) are slices made here stands for one of them
		for _, b := range fn.Blocks {
			for _, ins := range b.Instrs {
				var ph ssa.Value
				switch x := ins.(type) {
				case *ssa.Phi:
					ph = x
				case *ssa.Call:
					if _, isSlice := x.Type().Underlying().(*types.Slice); isSlice {
						ph = x
					}
				}
				if ph == nil {
					continue
				}
				seen := map[ssa.Value]bool{}
				leaves, all := 0, true
				var walk func(v ssa.Value)
				walk = func(v ssa.Value) {
					if seen[v] {
						return
					}
					seen[v] = true
					switch x := v.(type) {
					case *ssa.Phi:
						for _, e := range x.Edges {
							walk(e)
						}
					case *ssa.MakeSlice:
						leaves++
					case *ssa.Call:
						// a helper that is handed the buffer and returns it or a bigger copy
						if sc := x.Call.StaticCallee(); sc != nil && load.FuncInModule(sc) {
							okArg := false
							for _, a := range x.Call.Args {
								if _, isSlice := a.Type().Underlying().(*types.Slice); isSlice {
									walk(a)
									okArg = true
								}
							}
							if !okArg {
								all = false
							}
						} else {
							all = false
						}
					default:
						all = false
					}
				}
				walk(ph)
				if all && leaves > 0 {
					made[ph] = true
				}
			}
		}
		involvesLen := func(v ssa.Value) bool {
			var walk func(v ssa.Value, d int) bool
			walk = func(v ssa.Value, d int) bool {
				if d > 4 {
					return false
				}
				switch x := v.(type) {
				case *ssa.Call:
					if bi, ok := x.Call.Value.(*ssa.Builtin); ok && (bi.Name() == "len" || bi.Name() == "cap") && len(x.Call.Args) == 1 && made[x.Call.Args[0]] {
						return true
					}
				case *ssa.BinOp:
					return walk(x.X, d+1) || walk(x.Y, d+1)
				case *ssa.Convert:
					return walk(x.X, d+1)
				}
				return false
			}
			return walk(v, 0)
		}
		// values the index is computed from: through phis and +/- constants
		related := func(idx ssa.Value) map[ssa.Value]bool {
			rel := map[ssa.Value]bool{idx: true}
			for changed := true; changed; {
				changed = false
				for v := range rel {
					switch x := v.(type) {
					case *ssa.Phi:
						for _, e := range x.Edges {
							if !rel[e] {
								if _, isConst := e.(*ssa.Const); !isConst {
									rel[e] = true
									changed = true
								}
							}
						}
					case *ssa.BinOp:
						if x.Op == token.ADD || x.Op == token.SUB {
							for _, o := range []ssa.Value{x.X, x.Y} {
								if _, isConst := o.(*ssa.Const); !isConst && !rel[o] {
									rel[o] = true
									changed = true
								}
							}
						}
					}
				}
			}
			return rel
		}
		seenKey := map[string]int{}
		for _, b := range fn.Blocks {
			for _, ins := range b.Instrs {
				st, ok := ins.(*ssa.Store)
				if !ok {
					continue
				}
				ia, ok := st.Addr.(*ssa.IndexAddr)
				if !ok || !made[ia.X] {
					continue
				}
				if _, isConst := ia.Index.(*ssa.Const); isConst {
					continue
				}
				if _, isSlice := ia.X.Type().Underlying().(*types.Slice); !isSlice {
					continue
				}
				// loop-carried: the index reaches a phi
				rel := related(ia.Index)
				carried := false
				for v := range rel {
					if _, ok := v.(*ssa.Phi); ok {
						carried = true
					}
				}
				if !carried {
					continue
				}
				key := fmt.Sprintf("buffer|%s|store %s", load.FuncKey(fn), operandShape(ia))
				seenKey[key]++
				if seenKey[key] > 1 {
					continue
				}
				n++
				guarded := false
				for _, gb := range fn.Blocks {
					iff, ok := gb.Instrs[len(gb.Instrs)-1].(*ssa.If)
					if !ok || !(gb == b || gb.Dominates(b)) {
						continue
					}
					bo, ok := iff.Cond.(*ssa.BinOp)
					if !ok {
						continue
					}
					if (rel[bo.X] && involvesLen(bo.Y)) || (rel[bo.Y] && involvesLen(bo.X)) {
						guarded = true
					}
				}
				if !guarded {
					// or a dominating call of a helper that is given the buffer and the index and compares them
					for _, gb := range fn.Blocks {
						if !(gb == b || gb.Dominates(b)) {
							continue
						}
						for _, gi := range gb.Instrs {
							call, ok := gi.(*ssa.Call)
							if !ok {
								continue
							}
							sc := call.Call.StaticCallee()
							if sc == nil || !load.FuncInModule(sc) || sc.Blocks == nil {
								continue
							}
							bufP, idxP := -1, -1
							for k, a := range call.Call.Args {
								if made[a] {
									bufP = k
								}
								if rel[a] {
									idxP = k
								}
							}
							if bufP < 0 || idxP < 0 || bufP >= len(sc.Params) || idxP >= len(sc.Params) {
								continue
							}
							pb, pi := sc.Params[bufP], sc.Params[idxP]
							for _, hb := range sc.Blocks {
								iff, ok := hb.Instrs[len(hb.Instrs)-1].(*ssa.If)
								if !ok {
									continue
								}
								bo, ok := iff.Cond.(*ssa.BinOp)
								if !ok {
									continue
								}
								lenOf := func(v ssa.Value) bool {
									var walk func(v ssa.Value, d int) bool
									walk = func(v ssa.Value, d int) bool {
										if d > 4 {
											return false
										}
										switch x := v.(type) {
										case *ssa.Call:
											if bi, ok := x.Call.Value.(*ssa.Builtin); ok && (bi.Name() == "len" || bi.Name() == "cap") && len(x.Call.Args) == 1 && x.Call.Args[0] == ssa.Value(pb) {
												return true
											}
										case *ssa.BinOp:
											return walk(x.X, d+1) || walk(x.Y, d+1)
										}
										return false
									}
									return walk(v, 0)
								}
								if (bo.X == ssa.Value(pi) && lenOf(bo.Y)) || (bo.Y == ssa.Value(pi) && lenOf(bo.X)) {
									guarded = true
								}
							}
						}
					}
				}
				if guarded {
					r.OK(key, c.Pos(st.Pos()), "a dominating branch compares the index with the buffer's length")
				} else {
					r.Bad(key, c.Pos(st.Pos()), "the buffer is made in this function and written at a running index, and no dominating branch compares that index with len/cap of the buffer: nothing keeps the write in range")
				}
			}
		}
	}
	if n == 0 {
		r.Unk("anchor|buffers", "", "no store into a locally made slice at a running index was found")
	}
}
