package rules

import (
	"fmt"
	"go/types"
	"sort"
	"strings"

	"golang.org/x/tools/go/ssa"

	"verif/internal/load"
	"verif/internal/report"
)

// SW-2: compiling a root schema writes only what that root owns.
//
// The schema object of an added type is shared: AddType stores the *same* inner schema into every
// root it is added to. Whatever a root's load/compile step reaches through the root's type table
// (MustType, Type, TypesList, Type.Schema) therefore belongs to an object that another root — being
// compiled or validated by another goroutine, or compiled later with a different type table — also
// sees. The rule is a taint analysis over SSA: values obtained from the type table are tainted, taint
// flows through getters, type assertions, ranges, calls (parameters, context-insensitively) and
// captured variables; a sink is a store through a tainted address or a call of a method that writes
// its receiver's state on a tainted receiver.

func init() {
	register(&Rule{ID: "SW-2", Min: 3, Run: runSW2,
		Doc: "compiling a root schema writes only what the root owns: in the functions reachable from the API's load/compile/AddType steps, no object reached through the root's type table (MustType / Type / TypesList / Type.Schema — the schema objects of added types, which other roots share) is written: no store through an address derived from it and no call, on a receiver derived from it, of a method that writes its receiver's state"})
}

type sw2 struct {
	c       *load.Ctx
	taint   map[ssa.Value]bool
	why     map[ssa.Value]string
	mutMemo map[*ssa.Function]int // 0 unknown, 1 in progress, 2 no, 3 yes
	impls   map[string][]*ssa.Function
	changed bool
}

func isTypeTableSource(call *ssa.CallCommon) (string, bool) {
	var name string
	var recv types.Type
	if call.IsInvoke() {
		name, recv = call.Method.Name(), call.Value.Type()
	} else if sc := call.StaticCallee(); sc != nil && sc.Signature.Recv() != nil {
		name, recv = sc.Name(), sc.Signature.Recv().Type()
	} else {
		return "", false
	}
	o, ok := isSchemaOwnedType(recv)
	if !ok || o != pkgSchema+".Schema" {
		return "", false
	}
	switch name {
	case "MustType", "Type", "TypesList":
		return name, true
	}
	return "", false
}

// ownedResult: the type can hold (a pointer to / an interface of / a collection of) schema-owned objects.
func ownedResult(t types.Type) bool {
	switch x := t.(type) {
	case *types.Tuple:
		for i := 0; i < x.Len(); i++ {
			if ownedResult(x.At(i).Type()) {
				return true
			}
		}
		return false
	case *types.Slice:
		return ownedResult(x.Elem())
	case *types.Map:
		return ownedResult(x.Elem())
	case *types.Pointer:
		return ownedResult(x.Elem())
	case *types.Named:
		if _, ok := isSchemaOwnedType(x); ok {
			return true
		}
		if _, isIface := x.Underlying().(*types.Interface); isIface && x.Obj().Pkg() != nil {
			rel := load.Rel(x.Obj().Pkg().Path())
			return rel == pkgSchema || rel == pkgConstraint
		}
	}
	return false
}

func (a *sw2) mark(v ssa.Value, why string) {
	if v == nil || a.taint[v] {
		return
	}
	a.taint[v] = true
	a.why[v] = why
	a.changed = true
}

// mutatesRecv: the method writes state reachable from its receiver.
func (a *sw2) mutatesRecv(fn *ssa.Function) bool {
	switch a.mutMemo[fn] {
	case 1, 2:
		return false
	case 3:
		return true
	}
	a.mutMemo[fn] = 1
	res := false
	if len(fn.Params) > 0 && fn.Signature.Recv() != nil {
		recv := fn.Params[0]
		fromRecv := func(v ssa.Value) bool {
			base, _ := addrRoot(v)
			if base == recv {
				return true
			}
			// a value receiver spilled to a local: not shared state
			return false
		}
		for _, b := range fn.Blocks {
			for _, ins := range b.Instrs {
				switch x := ins.(type) {
				case *ssa.Store:
					if _, isPtr := recv.Type().Underlying().(*types.Pointer); isPtr && fromRecv(x.Addr) {
						res = true
					}
				case *ssa.MapUpdate:
					if fromRecv(x.Map) {
						res = true
					}
				case ssa.CallInstruction:
					cc := x.Common()
					if bi, ok := cc.Value.(*ssa.Builtin); ok && bi.Name() == "delete" && len(cc.Args) > 0 && fromRecv(cc.Args[0]) {
						res = true
					}
					if cc.IsInvoke() {
						if fromRecv(cc.Value) && a.invokeMutates(cc) {
							res = true
						}
					} else if sc := cc.StaticCallee(); sc != nil && sc.Signature.Recv() != nil && len(cc.Args) > 0 && fromRecv(cc.Args[0]) && load.FuncInModule(sc) {
						if a.mutatesRecv(sc) {
							res = true
						}
					}
				}
			}
		}
	}
	if res {
		a.mutMemo[fn] = 3
	} else {
		a.mutMemo[fn] = 2
	}
	return res
}

func (a *sw2) invokeMutates(cc *ssa.CallCommon) bool {
	for _, impl := range a.implementations(cc) {
		if a.mutatesRecv(impl) {
			return true
		}
	}
	return false
}

func (a *sw2) implementations(cc *ssa.CallCommon) []*ssa.Function {
	iface, ok := cc.Value.Type().Underlying().(*types.Interface)
	if !ok {
		return nil
	}
	key := cc.Value.Type().String() + "." + cc.Method.Name()
	if v, ok := a.impls[key]; ok {
		return v
	}
	var out []*ssa.Function
	for _, p := range a.c.Pkgs {
		sc := p.Types.Scope()
		for _, n := range sc.Names() {
			tn, ok := sc.Lookup(n).(*types.TypeName)
			if !ok || tn.IsAlias() {
				continue
			}
			if _, isIface := tn.Type().Underlying().(*types.Interface); isIface {
				continue
			}
			for _, t := range []types.Type{tn.Type(), types.NewPointer(tn.Type())} {
				if !types.Implements(t, iface) {
					continue
				}
				if sel := a.c.Prog.MethodSets.MethodSet(t).Lookup(cc.Method.Pkg(), cc.Method.Name()); sel != nil {
					if fn := a.c.Prog.MethodValue(sel); fn != nil {
						out = append(out, fn)
					}
				}
				break
			}
		}
	}
	a.impls[key] = out
	return out
}

func runSW2(c *load.Ctx, r *report.RuleResult) {
	const rel = "notations/jschema"
	var roots []*ssa.Function
	for _, n := range []string{"Schema.load", "Schema.compile", "Schema.AddType", "Schema.AddRule"} {
		f := c.Func(rel, n)
		if f == nil {
			r.Unk("anchor|"+n, "", "API step not found")
			return
		}
		roots = append(roots, f)
	}
	reach := reachableFrom(c, roots...)
	var fns []*ssa.Function
	for f := range reach {
		fns = append(fns, f)
	}
	sort.Slice(fns, func(i, j int) bool { return load.FuncKey(fns[i]) < load.FuncKey(fns[j]) })
	a := &sw2{c: c, taint: map[ssa.Value]bool{}, why: map[ssa.Value]string{}, mutMemo: map[*ssa.Function]int{}, impls: map[string][]*ssa.Function{}}
	inScope := map[*ssa.Function]bool{}
	for _, f := range fns {
		inScope[f] = true
	}
	sources := 0
	// fixpoint
	for round := 0; round < 50; round++ {
		a.changed = false
		for _, fn := range fns {
			for _, b := range fn.Blocks {
				for _, ins := range b.Instrs {
					v, isVal := ins.(ssa.Value)
					switch x := ins.(type) {
					case *ssa.Call:
						cc := x.Common()
						if n, ok := isTypeTableSource(cc); ok {
							if !a.taint[x] {
								sources++
							}
							a.mark(x, n+"() in "+load.FuncKey(fn))
						}
						// taint into callees (parameters) and out of getters
						var args []ssa.Value
						if cc.IsInvoke() {
							args = append([]ssa.Value{cc.Value}, cc.Args...)
						} else {
							args = cc.Args
						}
						anyT := false
						for _, arg := range args {
							if a.taint[arg] {
								anyT = true
							}
						}
						if anyT && ownedResult(x.Type()) {
							a.mark(x, "derived from "+a.why[firstTainted(a, args)])
						}
						var callees []*ssa.Function
						if cc.IsInvoke() {
							callees = a.implementations(cc)
						} else if sc := cc.StaticCallee(); sc != nil {
							callees = []*ssa.Function{sc}
						}
						for _, callee := range callees {
							if !inScope[callee] || len(callee.Params) != len(args) {
								continue
							}
							// the methods of the schema objects themselves are judged by their summary
							// (writes its receiver or not) at the call site, not descended into
							if rel := load.FuncPkgRel(callee); rel == pkgSchema || rel == pkgConstraint {
								continue
							}
							for i, arg := range args {
								if a.taint[arg] {
									a.mark(callee.Params[i], a.why[arg])
								}
							}
						}
						// closures passed as arguments: their captured values are handled at MakeClosure
					case *ssa.MakeClosure:
						cl := x.Fn.(*ssa.Function)
						for i, bnd := range x.Bindings {
							if a.taint[bnd] && i < len(cl.FreeVars) {
								a.mark(cl.FreeVars[i], a.why[bnd])
							}
						}
					case *ssa.Store:
						// a tainted value stored into a local cell taints the cell's loads
						if a.taint[x.Val] {
							if al, ok := x.Addr.(*ssa.Alloc); ok {
								a.mark(al, a.why[x.Val])
							}
						}
					default:
						if !isVal {
							continue
						}
						var ops []*ssa.Value
						ops = ins.Operands(ops)
						switch ins.(type) {
						case *ssa.Extract, *ssa.Next, *ssa.Range, *ssa.Lookup, *ssa.Index, *ssa.IndexAddr, *ssa.UnOp, *ssa.FieldAddr, *ssa.Field,
							*ssa.TypeAssert, *ssa.ChangeType, *ssa.ChangeInterface, *ssa.MakeInterface, *ssa.Phi, *ssa.Slice, *ssa.Convert:
							for _, op := range ops {
								if op != nil && *op != nil && a.taint[*op] {
									a.mark(v, a.why[*op])
								}
							}
						}
					}
				}
			}
		}
		if !a.changed {
			break
		}
	}
	// sinks
	type finding struct{ key, pos, msg string }
	var finds []finding
	seen := map[string]bool{}
	for _, fn := range fns {
		n := map[string]int{}
		for _, b := range fn.Blocks {
			for _, ins := range b.Instrs {
				switch x := ins.(type) {
				case *ssa.Store:
					base, owned := addrRoot(x.Addr)
					if owned != "" && a.taint[base] {
						k := fmt.Sprintf("sharedwrite|%s|store %s", load.FuncKey(fn), owned)
						if !seen[k] {
							seen[k] = true
							finds = append(finds, finding{k, c.Pos(x.Pos()), "stores to " + owned + " of an object reached through the type table (" + a.why[base] + ")"})
						}
					}
				case *ssa.MapUpdate:
					base, owned := addrRoot(x.Map)
					if owned != "" && a.taint[base] {
						k := fmt.Sprintf("sharedwrite|%s|mapupdate %s", load.FuncKey(fn), owned)
						if !seen[k] {
							seen[k] = true
							finds = append(finds, finding{k, c.Pos(x.Pos()), "updates map " + owned + " of an object reached through the type table (" + a.why[base] + ")"})
						}
					}
				case ssa.CallInstruction:
					cc := x.Common()
					var recv ssa.Value
					var name string
					mut := false
					if cc.IsInvoke() {
						recv, name = cc.Value, cc.Method.Name()
						if a.taint[recv] {
							mut = a.invokeMutates(cc)
						}
					} else if sc := cc.StaticCallee(); sc != nil && sc.Signature.Recv() != nil && len(cc.Args) > 0 && load.FuncInModule(sc) {
						recv, name = cc.Args[0], sc.Name()
						if a.taint[recv] {
							mut = a.mutatesRecv(sc)
						}
					}
					if recv == nil || !a.taint[recv] || !mut {
						continue
					}
					if _, ok := isSchemaOwnedType(recv.Type()); !ok && !ownedResult(recv.Type()) {
						continue
					}
					n[name]++
					k := fmt.Sprintf("sharedwrite|%s|call %s", load.FuncKey(fn), name)
					if !seen[k] {
						seen[k] = true
						finds = append(finds, finding{k, c.Pos(ins.Pos()), fmt.Sprintf("calls %s, which writes its receiver, on an object reached through the type table (%s): the schema object of an added type is shared with every other root it was added to", name, a.why[recv])})
					}
				}
			}
		}
	}
	for _, f := range finds {
		r.Bad(f.key, f.pos, f.msg)
	}
	// one obligation per function in scope that handles type-table objects
	handled := 0
	for _, fn := range fns {
		touches := false
		for _, p := range fn.Params {
			if a.taint[p] {
				touches = true
			}
		}
		for _, b := range fn.Blocks {
			for _, ins := range b.Instrs {
				if v, ok := ins.(ssa.Value); ok && a.taint[v] {
					touches = true
				}
			}
		}
		if !touches {
			continue
		}
		handled++
		bad := false
		for k := range seen {
			if strings.HasPrefix(k, "sharedwrite|"+load.FuncKey(fn)+"|") {
				bad = true
			}
		}
		if !bad {
			r.OK("reads|"+load.FuncKey(fn), c.Pos(fn.Pos()), "handles objects of added types and only reads them")
		}
	}
	r.Note("%d functions reachable from load/compile/AddType/AddRule, %d type-table reads, %d functions handle objects of added types", len(fns), sources, handled)
	r.Stat("functions", len(fns))
	r.Stat("sources", sources)
}

func firstTainted(a *sw2, args []ssa.Value) ssa.Value {
	for _, x := range args {
		if a.taint[x] {
			return x
		}
	}
	return nil
}
