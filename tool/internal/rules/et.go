package rules

import (
	"fmt"
	"go/ast"
	"go/constant"
	"go/token"
	"go/types"
	"sort"
	"strings"

	"golang.org/x/tools/go/packages"
	"golang.org/x/tools/go/types/typeutil"

	"verif/internal/load"
	"verif/internal/report"
)

// ET — error templates and arities.
//
// ET-1: every call of errors.Format(code, args...) passes exactly as many args as the template of
//       `code` has %s/%q verbs (errors.Errorf.Error panics with a string otherwise).
// ET-2: every bare use of an ErrorCode as an error value (conversion to an interface) has a
//       zero-verb template (errors.ErrorCode.Error panics otherwise).
// ET-3: every declared ErrorCode constant has a template and every template key is a declared
//       constant.

func init() {
	register(&Rule{ID: "ET-1", Min: 70, Run: runET1,
		Doc: "errors.Format call sites: number of arguments equals number of %s/%q verbs in the template of the (constant-resolved) error code"})
	register(&Rule{ID: "ET-2", Min: 100, Run: runET2,
		Doc: "an errors.ErrorCode converted to an interface (used as error/Err/panic value) must have a template without verbs, since ErrorCode.Error() panics otherwise"})
	register(&Rule{ID: "ET-3", Min: 90, Run: runET3,
		Doc: "every declared ErrorCode constant has a message template; every template key is a declared constant; templates use only %s and %q verbs"})
}

type etInfo struct {
	errPkg    *packages.Package
	codeType  types.Type
	templates map[int64]string // code value -> template
	tmplPos   map[int64]token.Pos
	consts    map[int64]*types.Const
	formatFn  *types.Func
	problems  []string
}

func verbs(t string) int { return strings.Count(t, "%s") + strings.Count(t, "%q") }

func etLoad(c *load.Ctx) (*etInfo, error) {
	p := c.Pkg("errors")
	if p == nil {
		return nil, fmt.Errorf("package errors not found")
	}
	info := &etInfo{errPkg: p, templates: map[int64]string{}, tmplPos: map[int64]token.Pos{}, consts: map[int64]*types.Const{}}
	tn, _ := p.Types.Scope().Lookup("ErrorCode").(*types.TypeName)
	if tn == nil {
		return nil, fmt.Errorf("type errors.ErrorCode not found")
	}
	info.codeType = tn.Type()
	info.formatFn, _ = p.Types.Scope().Lookup("Format").(*types.Func)
	if info.formatFn == nil {
		return nil, fmt.Errorf("func errors.Format not found")
	}
	for _, name := range p.Types.Scope().Names() {
		if k, ok := p.Types.Scope().Lookup(name).(*types.Const); ok && types.Identical(k.Type(), info.codeType) {
			v, _ := constant.Int64Val(k.Val())
			if prev, dup := info.consts[v]; dup {
				info.problems = append(info.problems, fmt.Sprintf("constants %s and %s share value %d", prev.Name(), k.Name(), v))
			}
			info.consts[v] = k
		}
	}
	// the template table: a package-level var of type map[ErrorCode]string
	found := false
	for _, f := range p.Syntax {
		for _, d := range f.Decls {
			gd, ok := d.(*ast.GenDecl)
			if !ok || gd.Tok != token.VAR {
				continue
			}
			for _, s := range gd.Specs {
				vs := s.(*ast.ValueSpec)
				for i, n := range vs.Names {
					obj := p.TypesInfo.Defs[n]
					if obj == nil {
						continue
					}
					m, ok := obj.Type().Underlying().(*types.Map)
					if !ok || !types.Identical(m.Key(), info.codeType) {
						continue
					}
					if b, ok := m.Elem().Underlying().(*types.Basic); !ok || b.Kind() != types.String {
						continue
					}
					if i >= len(vs.Values) {
						continue
					}
					cl, ok := vs.Values[i].(*ast.CompositeLit)
					if !ok {
						continue
					}
					found = true
					for _, e := range cl.Elts {
						kv, ok := e.(*ast.KeyValueExpr)
						if !ok {
							continue
						}
						ktv, vtv := p.TypesInfo.Types[kv.Key], p.TypesInfo.Types[kv.Value]
						if ktv.Value == nil || vtv.Value == nil {
							info.problems = append(info.problems, "non-constant entry in template table at "+c.Pos(kv.Pos()))
							continue
						}
						kval, _ := constant.Int64Val(ktv.Value)
						info.templates[kval] = constant.StringVal(vtv.Value)
						info.tmplPos[kval] = kv.Pos()
					}
				}
			}
		}
	}
	if !found {
		return nil, fmt.Errorf("template table (map[ErrorCode]string composite literal) not found in package errors")
	}
	// the table must not be written anywhere else
	for _, pk := range c.Pkgs {
		for _, f := range pk.Syntax {
			ast.Inspect(f, func(n ast.Node) bool {
				as, ok := n.(*ast.AssignStmt)
				if !ok {
					return true
				}
				for _, l := range as.Lhs {
					if ix, ok := l.(*ast.IndexExpr); ok {
						if tv, ok := pk.TypesInfo.Types[ix.X]; ok {
							if m, ok := tv.Type.Underlying().(*types.Map); ok && types.Identical(m.Key(), info.codeType) {
								if b, ok := m.Elem().Underlying().(*types.Basic); ok && b.Kind() == types.String {
									info.problems = append(info.problems, "template table written at run time at "+c.Pos(as.Pos()))
								}
							}
						}
					}
				}
				return true
			})
		}
	}
	return info, nil
}

func (e *etInfo) codeName(v int64) string {
	if k, ok := e.consts[v]; ok {
		return k.Name()
	}
	return fmt.Sprintf("ErrorCode(%d)", v)
}

// constResolver resolves an expression of type ErrorCode to the set of constants that may flow
// into it: constants, parameters (through all static call sites), struct fields (through all
// stores in the module), conditional results of local variables. Anything else is unknown.
type constResolver struct {
	c     *load.Ctx
	calls map[*types.Func][]callSite // static calls by callee
	// stores to struct fields, by field object
	fieldStores map[*types.Var][]exprIn
	assigns     map[*types.Var][]exprIn // assignments to local variables
}

type callSite struct {
	pkg  *packages.Package
	call *ast.CallExpr
}
type exprIn struct {
	pkg *packages.Package
	e   ast.Expr
}

func newConstResolver(c *load.Ctx) *constResolver {
	r := &constResolver{c: c, calls: map[*types.Func][]callSite{}, fieldStores: map[*types.Var][]exprIn{}, assigns: map[*types.Var][]exprIn{}}
	for _, p := range c.Pkgs {
		for _, f := range p.Syntax {
			ast.Inspect(f, func(n ast.Node) bool {
				switch x := n.(type) {
				case *ast.CallExpr:
					if fn, ok := typeutil.Callee(p.TypesInfo, x).(*types.Func); ok {
						r.calls[fn] = append(r.calls[fn], callSite{p, x})
					}
				case *ast.CompositeLit:
					tv, ok := p.TypesInfo.Types[x]
					if !ok {
						return true
					}
					t := tv.Type
					if pt, ok := t.Underlying().(*types.Pointer); ok {
						t = pt.Elem()
					}
					st, ok := t.Underlying().(*types.Struct)
					if !ok {
						return true
					}
					for i, el := range x.Elts {
						if kv, ok := el.(*ast.KeyValueExpr); ok {
							if id, ok := kv.Key.(*ast.Ident); ok {
								if fv, ok := p.TypesInfo.Uses[id].(*types.Var); ok {
									r.fieldStores[fv] = append(r.fieldStores[fv], exprIn{p, kv.Value})
								}
							}
						} else if i < st.NumFields() {
							r.fieldStores[st.Field(i)] = append(r.fieldStores[st.Field(i)], exprIn{p, el})
						}
					}
				case *ast.AssignStmt:
					if len(x.Lhs) != len(x.Rhs) {
						return true
					}
					for i, l := range x.Lhs {
						switch lv := l.(type) {
						case *ast.SelectorExpr:
							if sel, ok := p.TypesInfo.Selections[lv]; ok && sel.Kind() == types.FieldVal {
								if fv, ok := sel.Obj().(*types.Var); ok {
									r.fieldStores[fv] = append(r.fieldStores[fv], exprIn{p, x.Rhs[i]})
								}
							}
						case *ast.Ident:
							var v *types.Var
							if o, ok := p.TypesInfo.Defs[lv].(*types.Var); ok {
								v = o
							} else if o, ok := p.TypesInfo.Uses[lv].(*types.Var); ok {
								v = o
							}
							if v != nil {
								r.assigns[v] = append(r.assigns[v], exprIn{p, x.Rhs[i]})
							}
						}
					}
				case *ast.ValueSpec:
					for i, n := range x.Names {
						if v, ok := p.TypesInfo.Defs[n].(*types.Var); ok && i < len(x.Values) {
							r.assigns[v] = append(r.assigns[v], exprIn{p, x.Values[i]})
						}
					}
				}
				return true
			})
		}
	}
	return r
}

// resolve returns the constant values that may flow into e and whether the set is complete.
func (r *constResolver) resolve(p *packages.Package, e ast.Expr, depth int, seen map[types.Object]bool) (vals []int64, complete bool, why string) {
	e = ast.Unparen(e)
	if tv, ok := p.TypesInfo.Types[e]; ok && tv.Value != nil {
		if v, ok := constant.Int64Val(tv.Value); ok {
			return []int64{v}, true, ""
		}
	}
	if depth > 4 {
		return nil, false, "resolution depth exceeded"
	}
	switch x := e.(type) {
	case *ast.CallExpr:
		// conversion ErrorCode(x)
		if tv, ok := p.TypesInfo.Types[x.Fun]; ok && tv.IsType() && len(x.Args) == 1 {
			return r.resolve(p, x.Args[0], depth, seen)
		}
		// method x.Code() on DocumentError etc: unknown
		return nil, false, "value produced by call " + types.ExprString(x.Fun)
	case *ast.Ident:
		v, ok := p.TypesInfo.Uses[x].(*types.Var)
		if !ok {
			return nil, false, "not a variable"
		}
		if seen[v] {
			return nil, true, ""
		}
		seen[v] = true
		if fn, idx := r.paramOf(v); fn != nil {
			sites := r.calls[fn]
			if len(sites) == 0 {
				return nil, false, "parameter of " + fn.FullName() + " without static call sites"
			}
			complete = true
			for _, s := range sites {
				if idx >= len(s.call.Args) {
					return nil, false, "variadic/short call of " + fn.Name()
				}
				vs, ok, w := r.resolve(s.pkg, s.call.Args[idx], depth+1, seen)
				if !ok {
					return nil, false, w + " (via parameter " + v.Name() + " of " + fn.Name() + " at " + r.c.Pos(s.call.Pos()) + ")"
				}
				vals = append(vals, vs...)
			}
			return vals, complete, ""
		}
		if as, ok := r.assigns[v]; ok && !v.IsField() {
			for _, a := range as {
				vs, ok, w := r.resolve(a.pkg, a.e, depth+1, seen)
				if !ok {
					return nil, false, w
				}
				vals = append(vals, vs...)
			}
			return vals, true, ""
		}
		return nil, false, "variable " + v.Name() + " of unknown origin"
	case *ast.SelectorExpr:
		if sel, ok := p.TypesInfo.Selections[x]; ok && sel.Kind() == types.FieldVal {
			fv := sel.Obj().(*types.Var)
			if seen[fv] {
				return nil, true, ""
			}
			seen[fv] = true
			stores := r.fieldStores[fv]
			if len(stores) == 0 {
				return nil, false, "field " + fv.Name() + " without stores"
			}
			for _, s := range stores {
				vs, ok, w := r.resolve(s.pkg, s.e, depth+1, seen)
				if !ok {
					return nil, false, w + " (via field " + fv.Name() + ")"
				}
				vals = append(vals, vs...)
			}
			return vals, true, ""
		}
	}
	return nil, false, "expression " + types.ExprString(e) + " not resolvable to constants"
}

func (r *constResolver) paramOf(v *types.Var) (*types.Func, int) {
	// find the function whose signature has v as a parameter
	if v.Pkg() == nil {
		return nil, 0
	}
	var res *types.Func
	idx := -1
	r.c.EachFuncDecl(func(p *packages.Package, _ *ast.File, fd *ast.FuncDecl) {
		if res != nil || p.Types != v.Pkg() {
			return
		}
		fn, ok := p.TypesInfo.Defs[fd.Name].(*types.Func)
		if !ok {
			return
		}
		sig := fn.Type().(*types.Signature)
		for i := 0; i < sig.Params().Len(); i++ {
			if sig.Params().At(i) == v {
				res, idx = fn, i
			}
		}
	})
	return res, idx
}

func runET1(c *load.Ctx, r *report.RuleResult) {
	info, err := etLoad(c)
	if err != nil {
		r.Unk("anchor|errors", "", err.Error())
		return
	}
	res := newConstResolver(c)
	c.EachFuncDecl(func(p *packages.Package, _ *ast.File, fd *ast.FuncDecl) {
		if fd.Body == nil {
			return
		}
		encl := load.DeclKey(p, fd)
		counts := map[string]int{}
		ast.Inspect(fd.Body, func(n ast.Node) bool {
			call, ok := n.(*ast.CallExpr)
			if !ok {
				return true
			}
			if typeutil.Callee(p.TypesInfo, call) != info.formatFn {
				return true
			}
			if len(call.Args) == 0 {
				return true
			}
			nargs := len(call.Args) - 1
			vals, complete, why := res.resolve(p, call.Args[0], 0, map[types.Object]bool{})
			codeDesc := types.ExprString(call.Args[0])
			if tv := p.TypesInfo.Types[call.Args[0]]; tv.Value != nil {
				v, _ := constant.Int64Val(tv.Value)
				codeDesc = info.codeName(v)
			}
			base := fmt.Sprintf("format|in=%s|code=%s|nargs=%d", encl, codeDesc, nargs)
			counts[base]++
			key := base
			if counts[base] > 1 {
				key = fmt.Sprintf("%s|#%d", base, counts[base])
			}
			if call.Ellipsis.IsValid() {
				r.Unk(key, c.Pos(call.Pos()), "arguments passed with ...: arity not decidable")
				return true
			}
			if !complete {
				r.Unk(key, c.Pos(call.Pos()), "error code not resolvable to constants: "+why)
				return true
			}
			sort.Slice(vals, func(i, j int) bool { return vals[i] < vals[j] })
			var bad []string
			for i, v := range vals {
				if i > 0 && vals[i-1] == v {
					continue
				}
				t, ok := info.templates[v]
				if !ok {
					bad = append(bad, fmt.Sprintf("%s has no template (Error() panics \"Unknown error code\")", info.codeName(v)))
				} else if verbs(t) != nargs {
					bad = append(bad, fmt.Sprintf("%s: template %q has %d verbs, call passes %d arguments (Error() panics)", info.codeName(v), t, verbs(t), nargs))
				}
			}
			if len(bad) > 0 {
				r.Bad(key, c.Pos(call.Pos()), strings.Join(bad, "; "))
			} else {
				r.OK(key, c.Pos(call.Pos()), fmt.Sprintf("%d code(s), arity %d matches", len(vals), nargs))
			}
			return true
		})
	})
}

func runET2(c *load.Ctx, r *report.RuleResult) {
	info, err := etLoad(c)
	if err != nil {
		r.Unk("anchor|errors", "", err.Error())
		return
	}
	res := newConstResolver(c)
	// An ErrorCode used where an interface is expected: implicit conversions recorded by go/types
	// are found by walking expressions whose own type is ErrorCode and whose context type is an interface.
	for _, p := range c.Pkgs {
		for _, f := range p.Syntax {
			var stack []ast.Node
			counts := map[string]int{}
			ast.Inspect(f, func(n ast.Node) bool {
				if n == nil {
					stack = stack[:len(stack)-1]
					return true
				}
				stack = append(stack, n)
				e, ok := n.(ast.Expr)
				if !ok {
					return true
				}
				tv, ok := p.TypesInfo.Types[e]
				if !ok || tv.IsType() || !types.Identical(tv.Type, info.codeType) {
					return true
				}
				ctx := contextType(p, stack)
				if ctx == nil {
					return true
				}
				if _, isIface := ctx.Underlying().(*types.Interface); !isIface {
					return true
				}
				encl := enclosingFunc(p, stack)
				vals, complete, why := res.resolve(p, e, 0, map[types.Object]bool{})
				desc := types.ExprString(e)
				if tv.Value != nil {
					v, _ := constant.Int64Val(tv.Value)
					desc = info.codeName(v)
				}
				base := fmt.Sprintf("bare|in=%s|code=%s", encl, desc)
				counts[base]++
				key := base
				if counts[base] > 1 {
					key = fmt.Sprintf("%s|#%d", base, counts[base])
				}
				if !complete {
					r.Unk(key, c.Pos(e.Pos()), "error code not resolvable to constants: "+why)
					return true
				}
				var bad []string
				for _, v := range vals {
					t, ok := info.templates[v]
					if !ok {
						bad = append(bad, info.codeName(v)+" has no template")
					} else if verbs(t) != 0 {
						bad = append(bad, fmt.Sprintf("%s used bare but template %q needs %d arguments (ErrorCode.Error() panics)", info.codeName(v), t, verbs(t)))
					}
				}
				if len(bad) > 0 {
					r.Bad(key, c.Pos(e.Pos()), strings.Join(bad, "; "))
				} else {
					r.OK(key, c.Pos(e.Pos()), "zero-verb template")
				}
				return true
			})
		}
	}
	// ValidationError.Error() formats its code with zero arguments: covered by ET-1 through the
	// field resolver (Format(v.code)).
}

// contextType returns the type the innermost expression on the stack is implicitly converted to by
// its syntactic context (call argument, return value, assignment, composite literal element,
// panic argument), or nil.
func contextType(p *packages.Package, stack []ast.Node) types.Type {
	if len(stack) < 2 {
		return nil
	}
	e := stack[len(stack)-1].(ast.Expr)
	parent := stack[len(stack)-2]
	switch x := parent.(type) {
	case *ast.ParenExpr:
		return contextType(p, stack[:len(stack)-1])
	case *ast.CallExpr:
		if x.Fun == e {
			return nil
		}
		tvf, ok := p.TypesInfo.Types[x.Fun]
		if !ok {
			return nil
		}
		if tvf.IsType() {
			return tvf.Type // explicit conversion
		}
		if tvf.IsBuiltin() {
			if id, ok := ast.Unparen(x.Fun).(*ast.Ident); ok && id.Name == "panic" {
				return types.NewInterfaceType(nil, nil)
			}
			return nil
		}
		sig, ok := tvf.Type.Underlying().(*types.Signature)
		if !ok {
			return nil
		}
		for i, a := range x.Args {
			if a != e {
				continue
			}
			n := sig.Params().Len()
			if sig.Variadic() && i >= n-1 {
				if x.Ellipsis.IsValid() {
					return sig.Params().At(n - 1).Type()
				}
				return sig.Params().At(n - 1).Type().(*types.Slice).Elem()
			}
			if i < n {
				return sig.Params().At(i).Type()
			}
		}
	case *ast.ReturnStmt:
		// find enclosing function signature
		for i := len(stack) - 3; i >= 0; i-- {
			var ft *ast.FuncType
			switch fn := stack[i].(type) {
			case *ast.FuncDecl:
				ft = fn.Type
			case *ast.FuncLit:
				ft = fn.Type
			}
			if ft == nil {
				continue
			}
			if ft.Results == nil {
				return nil
			}
			var rts []types.Type
			for _, fld := range ft.Results.List {
				t := p.TypesInfo.Types[fld.Type].Type
				k := len(fld.Names)
				if k == 0 {
					k = 1
				}
				for j := 0; j < k; j++ {
					rts = append(rts, t)
				}
			}
			for j, re := range x.Results {
				if re == e && len(x.Results) == len(rts) {
					return rts[j]
				}
			}
			return nil
		}
	case *ast.AssignStmt:
		if len(x.Lhs) == len(x.Rhs) {
			for i, re := range x.Rhs {
				if re == e {
					if x.Tok == token.DEFINE {
						return nil
					}
					if tv, ok := p.TypesInfo.Types[x.Lhs[i]]; ok {
						return tv.Type
					}
				}
			}
		}
	case *ast.ValueSpec:
		if x.Type != nil {
			for _, v := range x.Values {
				if v == e {
					return p.TypesInfo.Types[x.Type].Type
				}
			}
		}
	case *ast.KeyValueExpr:
		if x.Value == e && len(stack) >= 3 {
			if cl, ok := stack[len(stack)-3].(*ast.CompositeLit); ok {
				return compositeElemType(p, cl, x.Key, -1)
			}
		}
	case *ast.CompositeLit:
		for i, el := range x.Elts {
			if el == e {
				return compositeElemType(p, x, nil, i)
			}
		}
	case *ast.SendStmt:
		if x.Value == e {
			if tv, ok := p.TypesInfo.Types[x.Chan]; ok {
				if ch, ok := tv.Type.Underlying().(*types.Chan); ok {
					return ch.Elem()
				}
			}
		}
	}
	return nil
}

func compositeElemType(p *packages.Package, cl *ast.CompositeLit, key ast.Expr, idx int) types.Type {
	tv, ok := p.TypesInfo.Types[cl]
	if !ok {
		return nil
	}
	t := tv.Type
	if pt, ok := t.Underlying().(*types.Pointer); ok {
		t = pt.Elem()
	}
	switch u := t.Underlying().(type) {
	case *types.Struct:
		if id, ok := key.(*ast.Ident); ok {
			for i := 0; i < u.NumFields(); i++ {
				if u.Field(i).Name() == id.Name {
					return u.Field(i).Type()
				}
			}
		} else if idx >= 0 && idx < u.NumFields() {
			return u.Field(idx).Type()
		}
	case *types.Slice:
		return u.Elem()
	case *types.Array:
		return u.Elem()
	case *types.Map:
		return u.Elem()
	}
	return nil
}

func enclosingFunc(p *packages.Package, stack []ast.Node) string {
	for i := 0; i < len(stack); i++ {
		if fd, ok := stack[i].(*ast.FuncDecl); ok {
			return load.DeclKey(p, fd)
		}
	}
	return load.Rel(p.PkgPath) + ".<package scope>"
}

func runET3(c *load.Ctx, r *report.RuleResult) {
	info, err := etLoad(c)
	if err != nil {
		r.Unk("anchor|errors", "", err.Error())
		return
	}
	for _, pr := range info.problems {
		r.Bad("table|"+pr, "", pr)
	}
	var vals []int64
	for v := range info.consts {
		vals = append(vals, v)
	}
	sort.Slice(vals, func(i, j int) bool { return vals[i] < vals[j] })
	for _, v := range vals {
		k := info.consts[v]
		key := "code|" + k.Name()
		t, ok := info.templates[v]
		if !ok {
			r.Bad(key, c.Pos(k.Pos()), "declared error code has no message template: Error() panics \"Unknown error code\"")
			continue
		}
		// only %s and %q verbs may appear (the arity count recognises nothing else)
		rest := strings.NewReplacer("%s", "", "%q", "", "%%", "").Replace(t)
		if strings.Contains(rest, "%") {
			r.Bad(key, c.Pos(info.tmplPos[v]), fmt.Sprintf("template %q uses a verb other than %%s/%%q; arity accounting does not see it", t))
			continue
		}
		r.OK(key, c.Pos(info.tmplPos[v]), fmt.Sprintf("template with %d verbs", verbs(t)))
	}
	var tks []int64
	for v := range info.templates {
		tks = append(tks, v)
	}
	sort.Slice(tks, func(i, j int) bool { return tks[i] < tks[j] })
	for _, v := range tks {
		if _, ok := info.consts[v]; !ok {
			r.Bad(fmt.Sprintf("template|%d", v), c.Pos(info.tmplPos[v]), "template key is not a declared ErrorCode constant")
		}
	}
}
