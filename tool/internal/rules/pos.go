package rules

import (
	"fmt"
	"go/types"
	"strings"

	"golang.org/x/tools/go/ssa"

	"verif/internal/load"
	"verif/internal/report"
)

// POS-1 — who attaches a position to an error.
//
// A library error raised deep inside loading, compiling, checking or validating carries no position;
// the innermost deferred CatchLexEventError(lex) on the way out attaches the position of *its* lexeme.
// Which lexeme an error is reported at is therefore decided by where these handlers stand. The
// handlers of the pinned tree were read one by one; the table below is that reading. A handler added
// further in (for instance inside the constraint constructor, with the rule's name) silently moves
// every error raised below it from the offending value to another token.

func init() {
	register(&Rule{ID: "POS-1", Min: 16, Run: runPOS1,
		Doc: "errors get their position from the reviewed handlers only: the functions that defer lexeme.CatchLexEventError (or its user-type variant) are exactly the reviewed ones, each handing over the reviewed lexeme — the event being processed (the function's lexeme parameter), the document lexeme being validated, or the node's own basis lexeme; a handler added closer to where errors are raised, or one given another lexeme, moves errors away from the offending token"})
}

// posReviewed: function -> what its handler is given.
var posReviewed = map[string]string{
	"notations/jschema/internal/checker.(checkSchema).checkNode":                "call BasisLexEventOfSchemaForNode",
	"notations/jschema/internal/validator.(arrayValidator).feed":                "param jsonLexeme",
	"notations/jschema/internal/validator.(additionalPropertiesValidator).feed": "param jsonLexeme",
	"notations/jschema/internal/validator.(literalValidator).feed":              "param jsonLexeme",
	"notations/jschema/internal/validator.(objectValidator).feed":               "param jsonLexeme",
	"notations/jschema/internal/validator.(nullValidator).feed":                 "param jsonLexeme",
	"notations/jschema/internal/loader.(enumValueLoader).Load":                  "param lex",
	"notations/jschema/internal/loader.(allOfValueLoader).Load":                 "param lex",
	"notations/jschema/internal/loader.(ruleLoader).load":                       "param lex",
	"notations/jschema/internal/loader.(orRuleSetLoader).Load":                  "param lex",
	"notations/jschema/internal/loader.(nodeLoader).Load":                       "param lex",
	"notations/jschema/internal/loader.(orValueLoader).Load":                    "param lex",
	"notations/jschema/internal/loader.(schemaCompiler).compileNode":            "call BasisLexEventOfSchemaForNode",
	"notations/jschema/internal/loader.(allOfConstraintCompiler).extend":        "call BasisLexEventOfSchemaForNode",
	"notations/jschema/internal/loader.(allOfConstraintCompiler).extendWith":    "call BasisLexEventOfSchemaForNode",
	"internal/lexeme.CatchLexEventErrorWithIncorrectUserType":                   "param lex",
}

func runPOS1(c *load.Ctx, r *report.RuleResult) {
	catch := c.Func("internal/lexeme", "CatchLexEventError")
	catchUT := c.Func("internal/lexeme", "CatchLexEventErrorWithIncorrectUserType")
	if catch == nil {
		r.Unk("anchor|lexeme.CatchLexEventError", "", "not found")
		return
	}
	describe := func(v ssa.Value) string {
		for depth := 0; depth < 6; depth++ {
			switch x := v.(type) {
			case *ssa.Parameter:
				return "param " + x.Name()
			case *ssa.UnOp:
				v = x.X
			case *ssa.Alloc:
				// a parameter spilled into a cell: find the store of the parameter
				if refs := x.Referrers(); refs != nil {
					for _, ref := range *refs {
						if st, ok := ref.(*ssa.Store); ok && st.Addr == x {
							if p, ok := st.Val.(*ssa.Parameter); ok {
								return "param " + p.Name()
							}
						}
					}
				}
				return "local " + x.Comment
			case *ssa.Call:
				if x.Call.IsInvoke() {
					return "call " + x.Call.Method.Name()
				}
				if sc := x.Call.StaticCallee(); sc != nil {
					return "call " + sc.Name()
				}
				return "call ?"
			case *ssa.FieldAddr:
				return "field " + fieldName(x.X.Type(), x.Field)
			case *ssa.Field:
				return "field " + fieldName(x.X.Type(), x.Field)
			default:
				return strings.TrimSpace(fmt.Sprintf("%T", v))
			}
		}
		return "?"
	}
	seen := map[string]bool{}
	for _, fn := range c.ModuleFunctions() {
		if load.IsAux(load.FuncPkgRel(fn)) {
			continue
		}
		for _, b := range fn.Blocks {
			for _, ins := range b.Instrs {
				var cc *ssa.CallCommon
				switch x := ins.(type) {
				case *ssa.Defer:
					cc = &x.Call
				case *ssa.Call:
					cc = &x.Call
				case *ssa.Go:
					cc = &x.Call
				}
				if cc == nil {
					continue
				}
				sc := cc.StaticCallee()
				if sc == nil || (sc != catch && sc != catchUT) || len(cc.Args) == 0 {
					continue
				}
				k := load.FuncKey(fn)
				key := "position-handler|" + k
				got := describe(cc.Args[0])
				seen[k] = true
				want, ok := posReviewed[k]
				switch {
				case !ok:
					r.Bad(key, c.Pos(ins.Pos()), fmt.Sprintf("%s installs a position handler (given %s) that was not there when the handlers were reviewed: every error raised below it is now reported at that lexeme instead of where the enclosing handler put it", k, got))
				case got != want:
					r.Bad(key, c.Pos(ins.Pos()), fmt.Sprintf("the handler of %s is given %s; reviewed: %s", k, got, want))
				default:
					r.OK(key, c.Pos(ins.Pos()), "given "+got)
				}
			}
		}
	}
	for _, k := range sortedKeys(posReviewed) {
		if !seen[k] {
			r.Bad("position-handler|"+k, "", "the reviewed position handler of "+k+" is gone: errors raised below it are reported further out, at another lexeme")
		}
	}
}

// POS-2 — positions come from the scanners.

func init() {
	register(&Rule{ID: "POS-2", Min: 3, Run: runPOS2,
		Doc: "only scanners make lexemes: lexeme.NewLexEvent is called from the three scanner packages only (formats/json, the schema scanner, rules/enum) — every position an error can carry is then the span of something a scanner delivered (the offending value or key, a node's basis lexeme); a lexeme made up by the loader, the checker or a validator to \"report the error somewhere more convenient\" points where no scanner said anything is"})
}

func runPOS2(c *load.Ctx, r *report.RuleResult) {
	mk := c.Func("internal/lexeme", "NewLexEvent")
	if mk == nil {
		r.Unk("anchor|lexeme.NewLexEvent", "", "not found")
		return
	}
	allowed := map[string]bool{"formats/json": true, "notations/jschema/internal/scanner": true, "rules/enum": true, "internal/lexeme": true}
	per := map[string]int{}
	for _, fn := range c.ModuleFunctions() {
		rel := load.FuncPkgRel(fn)
		if load.IsAux(rel) {
			continue
		}
		sites := callSites(fn, mk)
		if len(sites) == 0 {
			continue
		}
		if allowed[rel] {
			per[rel] += len(sites)
			continue
		}
		r.Bad("lexeme-maker|"+load.FuncKey(fn), c.Pos(sites[0].Pos()), fmt.Sprintf("%s makes a lexeme of its own (%d site(s)): an error positioned with it points at a span no scanner delivered", load.FuncKey(fn), len(sites)))
	}
	for _, rel := range sortedKeys(per) {
		r.OK("lexeme-maker|"+rel, "", fmt.Sprintf("%d site(s) in a scanner package", per[rel]))
	}
}

// --- POS-3: an error found inside an added type is moved into the root file -----------------------------

func init() {
	register(&Rule{ID: "POS-3", Min: 1, Run: runPOS3,
		Doc: "an error found while an added type is checked leaves with the root file and the type's offset in it: in the recover handler of checkSchema.checkType, every re-raise of a positioned error (a panic whose operand is an errors.DocumentError) is dominated by a call of SetFile and a call of SetIndex on that error — a re-base that is skipped under a condition (the file names are equal, the offset is zero) leaves the position of a type cut out of the middle of a file relative to the type's own first byte"})
}

func runPOS3(c *load.Ctx, r *report.RuleResult) {
	fn := c.Func(pkgChecker, "checkSchema.checkType")
	setFile := c.Func("errors", "DocumentError.SetFile")
	setIndex := c.Func("errors", "DocumentError.SetIndex")
	if fn == nil || setFile == nil || setIndex == nil {
		r.Unk("anchor|checkSchema.checkType", "", "checkType, DocumentError.SetFile or DocumentError.SetIndex not found")
		return
	}
	n := 0
	// the handler(s) of checkType and the helpers they call (two levels): wherever a positioned error
	// leaves — as the operand of a panic, or as the value a helper hands back to be re-raised
	var scope []*ssa.Function
	seenFn := map[*ssa.Function]bool{}
	var add func(f *ssa.Function, depth int)
	add = func(f *ssa.Function, depth int) {
		if f == nil || seenFn[f] || f.Blocks == nil || depth > 2 {
			return
		}
		seenFn[f] = true
		scope = append(scope, f)
		for _, b := range f.Blocks {
			for _, ins := range b.Instrs {
				if call, ok := ins.(ssa.CallInstruction); ok {
					if sc := call.Common().StaticCallee(); sc != nil && load.FuncInModule(sc) && load.FuncPkgRel(sc) == pkgChecker {
						add(sc, depth+1)
					}
				}
			}
		}
	}
	for _, h := range fn.AnonFuncs {
		add(h, 0)
	}
	isDocErr := func(v ssa.Value) bool {
		mi, ok := v.(*ssa.MakeInterface)
		if !ok {
			return false
		}
		nt, ok := mi.X.Type().(*types.Named)
		return ok && nt.Obj().Name() == "DocumentError"
	}
	for _, h := range scope {
		for _, b := range h.Blocks {
			for _, ins := range b.Instrs {
				var exit ssa.Instruction
				switch x := ins.(type) {
				case *ssa.Panic:
					if isDocErr(x.X) {
						exit = x
					}
				case *ssa.Return:
					for _, rv := range x.Results {
						if isDocErr(rv) {
							exit = x
						}
					}
				}
				if exit == nil {
					continue
				}
				p := exit
				n++
				key := fmt.Sprintf("rebase|%s|re-raise#%d", load.FuncKey(fn), n)
				var missing []string
				for _, want := range []*ssa.Function{setFile, setIndex} {
					ok := false
					for _, cs := range callSites(h, want) {
						if dominatesInstr(cs, p) {
							ok = true
						}
					}
					if !ok {
						missing = append(missing, want.Name())
					}
				}
				if len(missing) > 0 {
					r.Bad(key, c.Pos(p.Pos()), fmt.Sprintf("the positioned error is re-raised on a path that does not pass %s: its position stays relative to the added type's own text", strings.Join(missing, " and ")))
				} else {
					r.OK(key, c.Pos(p.Pos()), "SetFile and SetIndex dominate the re-raise")
				}
			}
		}
	}
	if n == 0 {
		r.Bad("rebase|"+load.FuncKey(fn), c.Pos(fn.Pos()), "checkType has no handler that re-raises a positioned error: errors inside added types keep the type's own file and offsets")
	}
}
