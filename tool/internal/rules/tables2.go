package rules

import (
	"fmt"
	"go/types"
	"sort"
	"strings"

	"verif/internal/load"
	"verif/internal/pe"
	"verif/internal/report"
)

func init() {
	register(&Rule{ID: "T5", Min: 3, Run: runT5,
		Doc: "paired bounds: checkMinAndMax / checkMinLengthAndMaxLength / checkMinItemsAndMaxItems accept iff a bound is missing or min <= max (min < max when either bound is exclusive), for all orderings and flag values"})
	register(&Rule{ID: "T6", Min: 2, Run: runT6,
		Doc: "exclusive flags: exclusiveMinimum/exclusiveMaximum without their bound are rejected; with the bound, a true flag makes exactly the matching bound exclusive, a false flag leaves it alone, and the helper rule is removed"})
	register(&Rule{ID: "T7", Min: 40, Run: runT7,
		Doc: "JSON-kind compatibility of a scalar document value with a scalar example node: accepted iff same kind, or integer for float, or null where nullable is present; the check is skipped only when an enum rule is present"})
	register(&Rule{ID: "T8", Min: 6, Run: runT8,
		Doc: "required keys: a property is added to its object's required keys iff it is not optional — optional absent and keys not optional by default, or optional:false; optional on a node whose parent is not an object is rejected"})
}

// callWithNode explores fn(recv, node, extra...) with the abstract node.
func (e *absNodeEnv) callWithNode(rel, fnName string, extra func(in *pe.Interp) []pe.Value, recvFields map[string]pe.Value) ([]*pe.Outcome, string, string) {
	fn := e.c.Func(rel, fnName)
	if fn == nil {
		return nil, "", "function " + rel + "." + fnName + " not found"
	}
	outs := pe.ExploreFn(e.cfg, func(in *pe.Interp) pe.Value {
		var args []pe.Value
		for i, p := range fn.Params {
			switch {
			case types.Identical(p.Type(), e.nodeT):
				args = append(args, pe.NewSym("node", e.nodeT))
			case i == 0 && fn.Signature.Recv() != nil:
				// receiver: a struct value whose fields are symbols (or the given values)
				t := p.Type()
				if named, ok := t.(*types.Named); ok {
					if st, ok := named.Underlying().(*types.Struct); ok {
						sv := &pe.StructV{T: named, F: make([]pe.Value, st.NumFields())}
						for k := 0; k < st.NumFields(); k++ {
							if v, ok := recvFields[st.Field(k).Name()]; ok {
								sv.F[k] = v
							} else {
								sv.F[k] = pe.NewSym("recv."+st.Field(k).Name(), st.Field(k).Type())
							}
						}
						args = append(args, sv)
						continue
					}
				}
				args = append(args, pe.NewSym("recv", t))
			default:
				args = append(args, nil)
			}
		}
		if extra != nil {
			ex := extra(in)
			k := 0
			for i := range args {
				if args[i] == nil && k < len(ex) {
					args[i] = ex[k]
					k++
				}
			}
		}
		for i := range args {
			if args[i] == nil {
				args[i] = pe.NewSym(fn.Params[i].Name(), fn.Params[i].Type())
			}
		}
		return in.Call(fn, args)
	})
	return outs, e.c.Pos(fn.Pos()), ""
}

// verdictOf classifies an outcome of a checking function: accept (normal return of nil / no value),
// reject (library error returned or panicked), crash.
func verdictOf(o *pe.Outcome) (verdict string, code string) {
	switch {
	case o.Undecided != "":
		return "undecided", o.Undecided
	case o.Panicked:
		if code, ok := isLibraryReject(o.PanicVal); ok {
			return "reject", code
		}
		return "crash", pe.Show(o.PanicVal)
	}
	switch r := o.Ret.(type) {
	case nil, pe.NilV:
		return "accept", ""
	case *pe.Iface:
		if code, ok := isLibraryReject(r); ok {
			return "reject", code
		}
		return "reject", "?"
	}
	return "accept", ""
}

func valStr(val map[string]string, names ...string) string {
	var parts []string
	for _, n := range names {
		v, ok := val[n]
		if !ok {
			v = "-"
		}
		parts = append(parts, shortAtom(n)+"="+v)
	}
	return strings.Join(parts, ",")
}

func shortAtom(n string) string {
	n = strings.ReplaceAll(n, "ConstraintType", "")
	return n
}

func findOrd(val map[string]string, a, b string) (string, bool) {
	if v, ok := val["ord("+a+","+b+")"]; ok {
		return v, true
	}
	if v, ok := val["ord("+b+","+a+")"]; ok {
		return flipOrd(v), true
	}
	// rendered with symbol quotes
	if v, ok := val["ord(‹"+a+"›,‹"+b+"›)"]; ok {
		return v, true
	}
	if v, ok := val["ord(‹"+b+"›,‹"+a+"›)"]; ok {
		return flipOrd(v), true
	}
	return "", false
}

func runT5(c *load.Ctx, r *report.RuleResult) {
	e := newAbsNodeEnv(c)
	if e.problem != "" {
		r.Unk("anchor|schema.Node", "", e.problem)
		return
	}
	type pairSpec struct {
		fn, lo, hi, loFld, hiFld string
		excl                     bool
	}
	for _, sp := range []pairSpec{
		{"schemaCompiler.checkMinAndMax", "MinConstraintType", "MaxConstraintType", "Min.min", "Max.max", true},
		{"schemaCompiler.checkMinLengthAndMaxLength", "MinLengthConstraintType", "MaxLengthConstraintType", "MinLength.value", "MaxLength.value", false},
		{"schemaCompiler.checkMinItemsAndMaxItems", "MinItemsConstraintType", "MaxItemsConstraintType", "MinItems.value", "MaxItems.value", false},
	} {
		outs, pos, problem := e.callWithNode(pkgLoader, sp.fn, nil, nil)
		if problem != "" {
			r.Unk("anchor|"+sp.fn, "", problem)
			continue
		}
		bad := false
		n := 0
		for _, o := range outs {
			n++
			val := o.ChoiceMap()
			v, code := verdictOf(o)
			key := "pair|" + sp.fn
			desc := o.Valuation()
			if v == "undecided" || v == "crash" {
				r.Unk(key+"|"+desc, pos, v+": "+code)
				bad = true
				continue
			}
			hasLo, hasHi := val["has("+sp.lo+")"] == "true", val["has("+sp.hi+")"] == "true"
			want := "accept"
			if hasLo && hasHi {
				ord, ok := findOrd(val, sp.loFld, sp.hiFld)
				if !ok {
					r.Bad(key+"|no-comparison", pos, "both bounds present but the path does not compare them: "+desc+" => "+o.Exit())
					bad = true
					continue
				}
				excl := sp.excl && (val[strings.Split(sp.loFld, ".")[0]+".exclusive"] == "true" || val[strings.Split(sp.hiFld, ".")[0]+".exclusive"] == "true")
				switch {
				case ord == ">":
					want = "reject"
				case ord == "=" && excl:
					want = "reject"
				}
			}
			if v != want {
				r.Bad(fmt.Sprintf("%s|%s", key, desc), pos, fmt.Sprintf("under {%s} the pair check %ss; the property requires %s", desc, v, want))
				bad = true
			}
		}
		if !bad {
			r.OK("pair|"+sp.fn, pos, fmt.Sprintf("%d valuations agree with min<=max (strict when exclusive)", n))
		}
	}
}

func runT6(c *load.Ctx, r *report.RuleResult) {
	e := newAbsNodeEnv(c)
	if e.problem != "" {
		r.Unk("anchor|schema.Node", "", e.problem)
		return
	}
	for _, sp := range []struct{ fn, helper, bound, boundType, other string }{
		{"schemaCompiler.exclusiveMinimumConstraint", "ExclusiveMinimumConstraintType", "MinConstraintType", "Min", "MaxConstraintType"},
		{"schemaCompiler.exclusiveMaximumConstraint", "ExclusiveMaximumConstraintType", "MaxConstraintType", "Max", "MinConstraintType"},
	} {
		outs, pos, problem := e.callWithNode(pkgLoader, sp.fn, nil, nil)
		if problem != "" {
			r.Unk("anchor|"+sp.fn, "", problem)
			continue
		}
		bad := false
		for _, o := range outs {
			val := o.ChoiceMap()
			desc := o.Valuation()
			key := "exclusive|" + sp.fn + "|" + desc
			v, code := verdictOf(o)
			if v == "undecided" || v == "crash" {
				r.Unk(key, pos, v+": "+code)
				bad = true
				continue
			}
			hasH, hasB := val["has("+sp.helper+")"] == "true", val["has("+sp.bound+")"] == "true"
			deleted := false
			for _, ef := range o.Effects {
				if ef == "delete "+sp.helper {
					deleted = true
				}
				if strings.HasPrefix(ef, "delete ") && ef != "delete "+sp.helper {
					r.Bad(key+"|wrong-delete", pos, "removes "+strings.TrimPrefix(ef, "delete ")+" instead of the helper rule")
					bad = true
				}
			}
			// the flag of the bound object after the run
			boundExcl, otherTouched := "untouched", false
			if obj, ok := o.Interp.SymMem("node.c(" + sp.bound + ")"); ok {
				boundExcl = fieldOfConstraint(obj, "exclusive")
			}
			if obj, ok := o.Interp.SymMem("node.c(" + sp.other + ")"); ok {
				if f := fieldOfConstraint(obj, "exclusive"); f == "true" || f == "false" {
					otherTouched = true
				}
			}
			flag := ""
			for n, l := range val {
				if strings.HasPrefix(n, strings.TrimSuffix(sp.helper, "ConstraintType")+".") {
					flag = l
				}
			}
			switch {
			case !hasH:
				if v != "accept" || deleted || len(o.Effects) != 0 {
					r.Bad(key, pos, "without the helper rule nothing must happen: "+o.Exit()+" effects "+fmt.Sprint(o.Effects))
					bad = true
				}
			case hasH && !hasB:
				if v != "reject" {
					r.Bad(key, pos, "the exclusive flag is present without its bound but the node is not rejected")
					bad = true
				}
			default:
				switch {
				case flag == "":
					r.Bad(key, pos, "the flag's value is not consulted: the bound ends up "+map[string]string{"true": "exclusive", "false": "inclusive", "symbolic": "unchanged", "untouched": "unchanged"}[boundExcl]+" whatever the rule says (a false flag must be inert, a true one must apply)")
					bad = true
				case v != "accept":
					r.Bad(key, pos, "flag and bound present but rejected: "+o.Exit())
					bad = true
				case !deleted:
					r.Bad(key, pos, "the helper rule is not removed from the node")
					bad = true
				case flag == "true" && boundExcl != "true":
					r.Bad(key, pos, "flag true but the matching bound is not made exclusive (bound.exclusive = "+boundExcl+")")
					bad = true
				case flag == "false" && boundExcl == "true":
					r.Bad(key, pos, "flag false but the bound is made exclusive")
					bad = true
				case otherTouched:
					r.Bad(key, pos, "the flag is applied to the opposite bound")
					bad = true
				}
			}
		}
		if !bad {
			r.OK("exclusive|"+sp.fn, pos, fmt.Sprintf("%d valuations", len(outs)))
		}
	}
}

// fieldOfConstraint reads a field of the heap object standing for a constraint.
func fieldOfConstraint(obj pe.Value, field string) string {
	i, ok := obj.(*pe.Iface)
	if !ok {
		return "?"
	}
	p, ok := i.V.(*pe.Ptr)
	if !ok || p.Obj == nil {
		return "?"
	}
	sv, ok := p.Obj.Val.(*pe.StructV)
	if !ok {
		return "?"
	}
	st := sv.T.Underlying().(*types.Struct)
	for k := 0; k < st.NumFields(); k++ {
		if st.Field(k).Name() == field {
			if b, ok := sv.F[k].(bool); ok {
				return fmt.Sprint(b)
			}
			return "symbolic"
		}
	}
	return "?"
}

func runT7(c *load.Ctx, r *report.RuleResult) {
	e := newAbsNodeEnv(c)
	if e.problem != "" {
		r.Unk("anchor|schema.Node", "", e.problem)
		return
	}
	jsonT := namedType(c, pkgJSON, "Type")
	if f := c.Func(pkgJSON, "GuessData.LiteralJsonType"); f != nil {
		e.cfg.Intrinsics[f.String()] = func(in *pe.Interp, args []pe.Value) (pe.Value, bool) {
			return pe.NewSym("kind(value)", jsonT), true
		}
	} else {
		r.Unk("anchor|json.GuessData.LiteralJsonType", "", "not found")
		return
	}
	outs, pos, problem := e.callWithNode(pkgValidator, "checkNotAnEnum", nil, nil)
	if problem != "" {
		r.Unk("anchor|validator.checkNotAnEnum", "", problem)
		return
	}
	literal := map[string]bool{"TypeString": true, "TypeInteger": true, "TypeFloat": true, "TypeBoolean": true, "TypeNull": true}
	provBad := false
	defer func() {
		if !provBad {
			r.OK("kind|provenance", pos, "every deciding path without an enum rule asks the exact-number classifier for the kind of the document value")
		}
	}()
	for _, o := range outs {
		val := o.ChoiceMap()
		v, code := verdictOf(o)
		hasEnum := val["has(EnumConstraintType)"] == "true"
		if hasEnum {
			key := "kind|enum-present"
			if v != "accept" || len(val) != 1 {
				r.Bad(key, pos, "with an enum rule the kind check must be skipped: "+o.Valuation()+" => "+o.Exit())
			} else {
				r.OK(key, pos, "skipped (membership decides)")
			}
			continue
		}
		kind, typ := val["kind(value)"], val["node.type"]
		nullable, nullableAsked := val["has(NullableConstraintType)"]
		first := val["value[0]"]
		spelled := first == "34" || first == "116" || first == "102" || first == "110" // " t f n: the first byte settles the kind
		if _, asked := val["kind(value)"]; !asked && v != "undecided" && v != "crash" && !spelled {
			// decided without asking the exact-number classifier what kind the document value is: a kind
			// read off the spelling (a point makes a float) calls 2.5e1 a float
			key := "kind|provenance"
			if !provBad {
				provBad = true
				r.Bad(key, pos, "the kind check is decided on a path that never asks json.Guess(value).LiteralJsonType() for the kind of the document value: "+o.Valuation()+" => "+o.Exit())
			}
			continue
		}
		if _, asked := val["kind(value)"]; !asked {
			continue
		}
		if !literal[kind] || typ == "TypeUndefined" || typ == "TypeMixed" || kind == "" || typ == "" {
			continue // cells the property does not pin down
		}
		key := fmt.Sprintf("kind|doc=%s|example=%s|nullable=%s", kind, typ, orDash(nullable, nullableAsked))
		if v == "undecided" || v == "crash" {
			r.Unk(key, pos, v+": "+code)
			continue
		}
		want := kind == typ || (kind == "TypeInteger" && typ == "TypeFloat")
		if kind == "TypeNull" && kind != typ {
			if !nullableAsked {
				r.Bad(key, pos, "a null document value is decided without consulting the nullable rule: "+o.Exit())
				continue
			}
			want = nullable == "true"
		}
		if (v == "accept") != want {
			r.Bad(key, pos, fmt.Sprintf("document kind %s against example kind %s (nullable %s) is %sed; the property requires %s", kind, typ, orDash(nullable, nullableAsked), v, verdictWord2(want)))
		} else {
			r.OK(key, pos, v)
		}
	}
}

func orDash(s string, ok bool) string {
	if !ok {
		return "-"
	}
	return s
}

func runT8(c *load.Ctx, r *report.RuleResult) {
	e := newAbsNodeEnv(c)
	if e.problem != "" {
		r.Unk("anchor|schema.Node", "", e.problem)
		return
	}
	objT := namedType(c, pkgSchema, "ObjectNode")
	ark := c.Func(pkgLoader, "addRequiredKey")
	keyFn := c.Func(pkgSchema, "ObjectNode.Key")
	if objT == nil || ark == nil || keyFn == nil {
		r.Unk("anchor|addRequiredKey/ObjectNode.Key", "", "anchor functions not found")
		return
	}
	e.cfg.Intrinsics[ark.String()] = func(in *pe.Interp, args []pe.Value) (pe.Value, bool) {
		in.Effect("addRequiredKey(" + pe.Show(args[1]) + ")")
		return nil, true
	}
	e.cfg.Intrinsics[keyFn.String()] = func(in *pe.Interp, args []pe.Value) (pe.Value, bool) {
		return pe.NewSym("key("+strings.Trim(pe.Show(args[1]), "‹›")+")", keyFn.Signature.Results().At(0).Type()), true
	}
	prefix := "invoke:" + types.TypeString(e.nodeT, nil) + "."
	e.cfg.Intrinsics[prefix+"Parent"] = func(in *pe.Interp, args []pe.Value) (pe.Value, bool) {
		switch in.Choose("parent", []string{"none", "object", "array"}) {
		case 0:
			return pe.NilV{}, true
		case 1:
			return &pe.Iface{T: types.NewPointer(objT), V: pe.NewSym("parentObject", types.NewPointer(objT))}, true
		}
		arrT := namedType(c, pkgSchema, "ArrayNode")
		return &pe.Iface{T: types.NewPointer(arrT), V: pe.NewSym("parentArray", types.NewPointer(arrT))}, true
	}
	outs, pos, problem := e.callWithNode(pkgLoader, "schemaCompiler.optionalConstraints", nil, nil)
	if problem != "" {
		r.Unk("anchor|schemaCompiler.optionalConstraints", "", problem)
		return
	}
	for _, o := range outs {
		val := o.ChoiceMap()
		v, code := verdictOf(o)
		opt := "absent"
		if val["has(OptionalConstraintType)"] == "true" {
			opt = "present"
			for n, l := range val {
				if strings.HasPrefix(n, "Optional.") {
					opt = l
				}
			}
		}
		byDefault, asked := val["recv.areKeysOptionalByDefault"]
		key := fmt.Sprintf("required|parent=%s|optional=%s|optionalByDefault=%s", val["parent"], opt, orDash(byDefault, asked))
		if v == "undecided" || v == "crash" {
			r.Unk(key, pos, v+": "+code)
			continue
		}
		added := 0
		keyOK := true
		for _, ef := range o.Effects {
			if strings.HasPrefix(ef, "addRequiredKey(") {
				added++
				if !strings.Contains(ef, "key(indexOfNode)") {
					keyOK = false
				}
			}
		}
		wantVerdict, wantAdd := "accept", false
		switch {
		case val["parent"] != "object":
			if opt != "absent" {
				wantVerdict = "reject"
			}
		case opt == "absent":
			if !asked {
				r.Bad(key, pos, "an unmarked property is decided without consulting KeysAreOptionalByDefault")
				continue
			}
			wantAdd = byDefault == "false"
		case opt == "false":
			wantAdd = true
		case opt == "true":
			wantAdd = false
		default:
			r.Unk(key, pos, "the optional rule's value is not consulted: "+o.Valuation())
			continue
		}
		switch {
		case v != wantVerdict:
			r.Bad(key, pos, fmt.Sprintf("%sed; the property requires %s", v, wantVerdict))
		case wantVerdict == "accept" && (added == 1) != wantAdd:
			r.Bad(key, pos, fmt.Sprintf("required-key registration: %d call(s); expected required=%v", added, wantAdd))
		case added > 1:
			r.Bad(key, pos, "the key is registered more than once")
		case added == 1 && !keyOK:
			r.Bad(key, pos, "the registered key is not the key at the node's own index: "+fmt.Sprint(o.Effects))
		default:
			r.OK(key, pos, fmt.Sprintf("%s, required=%v", v, wantAdd))
		}
	}
}

func init() {
	register(&Rule{ID: "T14", Min: 10, Run: runT14,
		Doc: "ValidateLiteralValue: every LiteralValidator rule of the node is run exactly once on the document literal, except that a null admitted by nullable:true is accepted without running any other rule (whatever rules are present)"})
}

// literalValidatorImpls: constraint struct types implementing constraint.LiteralValidator.
func literalValidatorImpls(c *load.Ctx) []*types.Named {
	p := c.Pkg(pkgConstraint)
	if p == nil {
		return nil
	}
	itn, _ := p.Types.Scope().Lookup("LiteralValidator").(*types.TypeName)
	if itn == nil {
		return nil
	}
	iface, _ := itn.Type().Underlying().(*types.Interface)
	var out []*types.Named
	for _, named := range constraintImpls(c) {
		if types.Implements(named, iface) || types.Implements(types.NewPointer(named), iface) {
			out = append(out, named)
		}
	}
	return out
}

func runT14(c *load.Ctx, r *report.RuleResult) {
	e := newAbsNodeEnv(c)
	if e.problem != "" {
		r.Unk("anchor|schema.Node", "", e.problem)
		return
	}
	fn := c.Func(pkgValidator, "ValidateLiteralValue")
	setFn := c.Func(pkgSchema, "Constraints.Set")
	cne := c.Func(pkgValidator, "checkNotAnEnum")
	consT := namedType(c, pkgSchema, "Constraints")
	if fn == nil || setFn == nil || consT == nil {
		r.Unk("anchor|validator.ValidateLiteralValue", "", "ValidateLiteralValue / Constraints.Set not found")
		return
	}
	pos := c.Pos(fn.Pos())
	if cne != nil {
		e.cfg.Opaque[cne.String()] = true // the kind check is table T7
	}
	e.cfg.Intrinsics["sort.Ints"] = func(in *pe.Interp, args []pe.Value) (pe.Value, bool) {
		elems, ok := pe.SliceElems(args[0])
		if !ok {
			return nil, false
		}
		for i := 1; i < len(elems); i++ {
			for j := i; j > 0; j-- {
				a, ok1 := elems[j-1].(int64)
				b, ok2 := elems[j].(int64)
				if !ok1 || !ok2 {
					return nil, false
				}
				if a > b {
					elems[j-1], elems[j] = elems[j], elems[j-1]
				}
			}
		}
		return nil, true
	}
	for _, op := range []string{"Lock", "Unlock", "RLock", "RUnlock"} {
		e.cfg.Intrinsics["(*sync.RWMutex)."+op] = func(in *pe.Interp, args []pe.Value) (pe.Value, bool) { return nil, true }
	}
	validators := literalValidatorImpls(c)
	typeOf := map[*types.Named]*constraintInfo{}
	for _, ci := range e.byVal {
		if ci.named != nil {
			typeOf[ci.named] = ci
		}
	}
	// every Validate is observed, not interpreted
	for _, v := range validators {
		v := v
		if f := c.Func(pkgConstraint, v.Obj().Name()+".Validate"); f != nil {
			e.cfg.Intrinsics[f.String()] = func(in *pe.Interp, args []pe.Value) (pe.Value, bool) {
				in.Effect("validate " + v.Obj().Name() + "(" + pe.Show(args[1]) + ")")
				return nil, true
			}
		}
	}
	nullableCI := e.byName["NullableConstraintType"]
	if nullableCI == nil || nullableCI.named == nil {
		r.Unk("anchor|constraint.Nullable", pos, "nullable constraint type not found")
		return
	}
	prefix := "invoke:" + types.TypeString(e.nodeT, nil) + "."
	for _, v := range validators {
		ci := typeOf[v]
		if ci == nil {
			r.Unk("anchor|"+v.Obj().Name(), pos, "constraint type constant of "+v.Obj().Name()+" not resolved")
			continue
		}
		e.cfg.Intrinsics[prefix+"ConstraintMap"] = func(in *pe.Interp, args []pe.Value) (pe.Value, bool) {
			m := in.NewStruct(consT, "constraints")
			add := func(ci *constraintInfo, fields map[string]pe.Value) {
				st := ci.named.Underlying().(*types.Struct)
				sv := &pe.StructV{T: ci.named, F: make([]pe.Value, st.NumFields())}
				for i := 0; i < st.NumFields(); i++ {
					if fv, ok := fields[st.Field(i).Name()]; ok {
						sv.F[i] = fv
					} else {
						sv.F[i] = pe.NewSym(ci.named.Obj().Name()+"."+st.Field(i).Name(), st.Field(i).Type())
					}
				}
				obj := &pe.Iface{T: types.NewPointer(ci.named), V: &pe.Ptr{Obj: in.NewObj(ci.named, sv, ci.named.Obj().Name()), T: ci.named}}
				in.Call(setFn, []pe.Value{m, ci.val, obj})
			}
			switch in.Choose("nullable", []string{"absent", "true", "false"}) {
			case 1:
				add(nullableCI, map[string]pe.Value{"value": true})
			case 2:
				add(nullableCI, map[string]pe.Value{"value": false})
			}
			add(ci, nil)
			return m, true
		}
		outs := pe.ExploreFn(e.cfg, func(in *pe.Interp) pe.Value {
			return in.Call(fn, []pe.Value{pe.NewSym("node", e.nodeT), pe.NewSym("value", fn.Params[1].Type())})
		})
		for _, o := range outs {
			val := o.ChoiceMap()
			isNull := "-"
			for n, l := range val {
				if strings.HasPrefix(n, "eq(") && strings.Contains(n, `"null"`) {
					isNull = l
				}
			}
			key := fmt.Sprintf("literal|rule=%s|nullable=%s|value-is-null=%s", v.Obj().Name(), val["nullable"], isNull)
			verdict, code := verdictOf(o)
			if verdict == "undecided" || verdict == "crash" {
				r.Unk(key, pos, verdict+": "+code)
				continue
			}
			runs := 0
			onValue := true
			for _, ef := range o.Effects {
				if strings.HasPrefix(ef, "validate "+v.Obj().Name()+"(") {
					runs++
					if !strings.Contains(ef, "‹value›") {
						onValue = false
					}
				}
			}
			nullAdmitted := val["nullable"] == "true" && isNull == "true"
			switch {
			case val["nullable"] == "true" && isNull == "-":
				r.Bad(key, pos, "with nullable:true the rules are run without asking whether the value is null: "+fmt.Sprint(o.Effects))
			case nullAdmitted && runs != 0:
				r.Bad(key, pos, fmt.Sprintf("a null admitted by nullable:true is still checked against %s (the rule then rejects it)", v.Obj().Name()))
			case !nullAdmitted && runs != 1:
				r.Bad(key, pos, fmt.Sprintf("the rule %s is run %d times on this path; every rule of the node must be run exactly once", v.Obj().Name(), runs))
			case !onValue:
				r.Bad(key, pos, "the rule is not run on the document literal: "+fmt.Sprint(o.Effects))
			default:
				r.OK(key, pos, fmt.Sprintf("%d run(s)", runs))
			}
		}
	}
	// no rule hides another: with const on the node, every other rule still runs (and const itself)
	constCI := e.byName["ConstConstraintType"]
	if constCI == nil || constCI.named == nil {
		r.Unk("anchor|constraint.Const", pos, "const constraint type not found")
		return
	}
	for _, v := range validators {
		ci := typeOf[v]
		if ci == nil || ci == constCI {
			continue
		}
		e.cfg.Intrinsics[prefix+"ConstraintMap"] = func(in *pe.Interp, args []pe.Value) (pe.Value, bool) {
			m := in.NewStruct(consT, "constraints")
			for _, x := range []*constraintInfo{constCI, ci} {
				st := x.named.Underlying().(*types.Struct)
				sv := &pe.StructV{T: x.named, F: make([]pe.Value, st.NumFields())}
				for i := 0; i < st.NumFields(); i++ {
					sv.F[i] = pe.NewSym(x.named.Obj().Name()+"."+st.Field(i).Name(), st.Field(i).Type())
				}
				obj := &pe.Iface{T: types.NewPointer(x.named), V: &pe.Ptr{Obj: in.NewObj(x.named, sv, x.named.Obj().Name()), T: x.named}}
				in.Call(setFn, []pe.Value{m, x.val, obj})
			}
			return m, true
		}
		outs := pe.ExploreFn(e.cfg, func(in *pe.Interp) pe.Value {
			return in.Call(fn, []pe.Value{pe.NewSym("node", e.nodeT), pe.NewSym("value", fn.Params[1].Type())})
		})
		for _, o := range outs {
			val := o.ChoiceMap()
			var asked []string
			for n, l := range val {
				if strings.HasPrefix(n, "Const.") {
					asked = append(asked, n+"="+l)
				}
			}
			sort.Strings(asked)
			key := fmt.Sprintf("literal-pair|rule=%s|with=Const|%s", v.Obj().Name(), strings.Join(asked, ","))
			verdict, code := verdictOf(o)
			if verdict == "undecided" || verdict == "crash" {
				r.Unk(key, pos, verdict+": "+code)
				continue
			}
			runs := map[string]int{}
			for _, ef := range o.Effects {
				for _, n := range []string{v.Obj().Name(), "Const"} {
					if strings.HasPrefix(ef, "validate "+n+"(") {
						runs[n]++
					}
				}
			}
			if runs[v.Obj().Name()] != 1 || runs["Const"] != 1 {
				r.Bad(key, pos, fmt.Sprintf("on a node carrying const and %s, %s is run %d time(s) and const %d time(s); every rule of the node must be run exactly once, whatever the other rules are", v.Obj().Name(), v.Obj().Name(), runs[v.Obj().Name()], runs["Const"]))
			} else {
				r.OK(key, pos, "both rules run once")
			}
		}
	}
}

func init() {
	register(&Rule{ID: "T-pairs", Min: 1, Run: runTPairs,
		Doc: "paired bounds are checked on every node: checkPairConstraints, interpreted over an abstract node of every JSON kind with the three pair checks (min/max, minLength/maxLength, minItems/maxItems) as recorded effects, runs the pair that applies to a plain JSON kind and all three where the kind does not decide (rule-sets inside or are compiled on nodes of kind mixed)"})
}

func runTPairs(c *load.Ctx, r *report.RuleResult) {
	e := newAbsNodeEnv(c)
	if e.problem != "" {
		r.Unk("anchor|schema.Node", "", e.problem)
		return
	}
	pairs := []string{"schemaCompiler.checkMinAndMax", "schemaCompiler.checkMinLengthAndMaxLength", "schemaCompiler.checkMinItemsAndMaxItems"}
	for _, n := range pairs {
		f := c.Func(pkgLoader, n)
		if f == nil {
			r.Unk("anchor|"+n, "", "pair check not found")
			return
		}
		name := n
		e.cfg.Intrinsics[f.String()] = func(in *pe.Interp, args []pe.Value) (pe.Value, bool) {
			in.Effect("pair " + name)
			return pe.NilV{}, true
		}
	}
	outs, pos, problem := e.callWithNode(pkgLoader, "schemaCompiler.checkPairConstraints", nil, nil)
	if problem != "" {
		r.Unk("anchor|schemaCompiler.checkPairConstraints", "", problem)
		return
	}
	bad := false
	for _, o := range outs {
		if o.Undecided != "" || o.Panicked {
			r.Unk("pairs|"+o.Valuation(), pos, "not interpretable: "+o.Exit())
			bad = true
			continue
		}
		// which pairs matter for this kind of node: the applicable one for a plain JSON kind (the other
		// bounds are rejected there as not applicable), all of them where the kind does not decide
		// (mixed / undefined: rule-sets of an or rule) and when the path did not ask for the kind
		kind := o.ChoiceMap()["node.type"]
		needed := map[string]bool{}
		switch kind {
		case "TypeInteger", "TypeFloat":
			needed[pairs[0]] = true
		case "TypeString":
			needed[pairs[1]] = true
		case "TypeArray":
			needed[pairs[2]] = true
		case "TypeObject", "TypeBoolean", "TypeNull":
		default:
			for _, n := range pairs {
				needed[n] = true
			}
		}
		var missing []string
		for _, n := range pairs {
			if !needed[n] {
				continue
			}
			found := false
			for _, ef := range o.Effects {
				if ef == "pair "+n {
					found = true
				}
			}
			if !found {
				missing = append(missing, strings.TrimPrefix(n, "schemaCompiler."))
			}
		}
		if len(missing) > 0 {
			bad = true
			r.Bad("pairs|"+o.Valuation(), pos, fmt.Sprintf("on a node with {%s} the pair check(s) %s are not run: an inconsistent pair of bounds on such a node (for instance in a rule-set of an or rule, whose node is of kind mixed) is accepted", o.Valuation(), strings.Join(missing, ", ")))
		}
	}
	if !bad {
		r.OK("pairs|all three on every node", pos, fmt.Sprintf("%d path(s): min/max, minLength/maxLength and minItems/maxItems are all checked whatever the node is", len(outs)))
	}
}
