package rules

import (
	"fmt"
	"go/types"
	"sort"
	"strings"

	"golang.org/x/tools/go/ssa"

	"verif/internal/load"
	"verif/internal/report"
)

// AL-2: a slice handed out by a getter still belongs to the object it came from.
//
// Many getters of the library return an internal slice as it is (Enum.Values, TypesList.Names,
// ObjectNode.Children, RequiredKeys.Keys ...). A client that filters such a slice in place
// (`res := vv[:0]; res = append(res, …)`), stores into its elements or sorts it rewrites the owner's
// state: the rule object, the compiled schema or the AST then changes under later calls (C18: Values
// and GetAST of a rule; C11: values never change after later API calls; C12: read-only sharing).

func init() {
	register(&Rule{ID: "AL-2", Min: 20, Run: runAL2,
		Doc: "slices handed out by getters are not rewritten by their clients: for every call of a method that returns one of its receiver's slice fields as it is, the caller neither stores into an element of the result, nor appends onto a shortened reslice of it (the filter-in-place idiom, which overwrites the owner's elements), nor sorts it in place"})
}

func runAL2(c *load.Ctx, r *report.RuleResult) {
	// getters that return an internal slice as it is
	getters := map[*ssa.Function]string{}
	for _, fn := range c.ModuleFunctions() {
		if fn.Signature.Recv() == nil || len(fn.Params) == 0 || load.IsAux(load.FuncPkgRel(fn)) {
			continue
		}
		res := fn.Signature.Results()
		if res.Len() == 0 {
			continue
		}
		// the first result is the slice (possibly followed by an error)
		if _, ok := res.At(0).Type().Underlying().(*types.Slice); !ok {
			continue
		}
		recv := fn.Params[0]
		for _, b := range fn.Blocks {
			for _, ins := range b.Instrs {
				ret, ok := ins.(*ssa.Return)
				if !ok || len(ret.Results) == 0 {
					continue
				}
				if fld, ok := internalField(ret.Results[0], recv, 0); ok {
					getters[fn] = fld
				}
			}
		}
	}
	if len(getters) == 0 {
		r.Unk("anchor|getters", "", "no getter returning an internal slice found")
		return
	}
	isGetterCall := func(cc *ssa.CallCommon) (string, bool) {
		if sc := cc.StaticCallee(); sc != nil {
			if f, ok := getters[sc]; ok {
				return sc.Name() + " (field " + f + ")", true
			}
			// promoted-method wrappers
			if sc.Synthetic != "" {
				for g, f := range getters {
					if g.Name() == sc.Name() && strings.Contains(sc.Synthetic, g.String()) {
						return sc.Name() + " (field " + f + ")", true
					}
				}
			}
			return "", false
		}
		if cc.IsInvoke() {
			for g, f := range getters {
				if g.Name() == cc.Method.Name() {
					if iface, ok := cc.Value.Type().Underlying().(*types.Interface); ok {
						rt := g.Signature.Recv().Type()
						if types.Implements(rt, iface) || types.Implements(types.NewPointer(rt), iface) {
							return g.Name() + " (field " + f + ")", true
						}
					}
				}
			}
		}
		return "", false
	}
	sites := 0
	perFn := map[string]int{}
	// local derivation: getter results, tainted parameters, and what is resliced / merged from them
	paramTaint := map[*ssa.Parameter]string{}
	derive := func(fn *ssa.Function, count bool) map[ssa.Value]string {
		derived := map[ssa.Value]string{}
		for _, p := range fn.Params {
			if g := paramTaint[p]; g != "" {
				derived[p] = g
			}
		}
		for _, b := range fn.Blocks {
			for _, ins := range b.Instrs {
				if call, ok := ins.(*ssa.Call); ok {
					if g, ok := isGetterCall(call.Common()); ok {
						derived[call] = g
						if count {
							sites++
						}
					}
				}
			}
		}
		if len(derived) == 0 {
			return derived
		}
		for changed := true; changed; {
			changed = false
			for _, b := range fn.Blocks {
				for _, ins := range b.Instrs {
					v, ok := ins.(ssa.Value)
					if !ok || derived[v] != "" {
						continue
					}
					switch x := ins.(type) {
					case *ssa.Slice:
						if g := derived[x.X]; g != "" {
							derived[v] = g
							changed = true
						}
					case *ssa.Extract:
						if g := derived[x.Tuple]; g != "" && x.Index == 0 {
							derived[v] = g
							changed = true
						}
					case *ssa.Phi:
						for _, e := range x.Edges {
							if g := derived[e]; g != "" {
								derived[v] = g
								changed = true
							}
						}
					case *ssa.ChangeType:
						if g := derived[x.X]; g != "" {
							derived[v] = g
							changed = true
						}
					}
				}
			}
		}
		return derived
	}
	// parameters that receive a getter result at some call site (a helper doing the filtering)
	for round := 0; round < 6; round++ {
		grew := false
		for _, fn := range c.ModuleFunctions() {
			if load.IsAux(load.FuncPkgRel(fn)) {
				continue
			}
			derived := derive(fn, false)
			if len(derived) == 0 {
				continue
			}
			for _, b := range fn.Blocks {
				for _, ins := range b.Instrs {
					call, ok := ins.(ssa.CallInstruction)
					if !ok {
						continue
					}
					sc := call.Common().StaticCallee()
					if sc == nil || !load.FuncInModule(sc) || len(sc.Params) != len(call.Common().Args) {
						continue
					}
					for i, a := range call.Common().Args {
						if g := derived[a]; g != "" && paramTaint[sc.Params[i]] == "" {
							if _, isSlice := sc.Params[i].Type().Underlying().(*types.Slice); isSlice {
								paramTaint[sc.Params[i]] = g + " via " + fn.Name()
								grew = true
							}
						}
					}
				}
			}
		}
		if !grew {
			break
		}
	}
	for _, fn := range c.ModuleFunctions() {
		if load.IsAux(load.FuncPkgRel(fn)) {
			continue
		}
		derived := derive(fn, true)
		if len(derived) == 0 {
			continue
		}
		var bad []string
		for _, b := range fn.Blocks {
			for _, ins := range b.Instrs {
				switch x := ins.(type) {
				case *ssa.Store:
					if ia, ok := x.Addr.(*ssa.IndexAddr); ok {
						if g := derived[ia.X]; g != "" {
							bad = append(bad, fmt.Sprintf("stores into an element of the slice returned by %s at %s", g, c.Pos(x.Pos())))
						}
					}
				case *ssa.Call:
					cc := x.Common()
					if bi, ok := cc.Value.(*ssa.Builtin); ok && bi.Name() == "append" && len(cc.Args) > 0 {
						if sl, ok := cc.Args[0].(*ssa.Slice); ok && derived[sl.X] != "" && sl.High != nil {
							bad = append(bad, fmt.Sprintf("appends onto a shortened reslice of the slice returned by %s at %s: the owner's elements are overwritten", derived[sl.X], c.Pos(x.Pos())))
						}
						// a phi of such a reslice (the accumulator of a filter loop)
						if ph, ok := cc.Args[0].(*ssa.Phi); ok {
							for _, e := range ph.Edges {
								if sl, ok := e.(*ssa.Slice); ok && derived[sl.X] != "" && sl.High != nil {
									bad = append(bad, fmt.Sprintf("filters the slice returned by %s in place at %s: the owner's elements are overwritten", derived[sl.X], c.Pos(x.Pos())))
								}
							}
						}
					}
					if sc := cc.StaticCallee(); sc != nil && sc.Pkg != nil && !load.FuncInModule(sc) {
						p := sc.Pkg.Pkg.Path()
						if (p == "sort" || p == "slices") && len(cc.Args) > 0 {
							arg := cc.Args[0]
							if mi, ok := arg.(*ssa.MakeInterface); ok {
								arg = mi.X
							}
							if ct, ok := arg.(*ssa.ChangeType); ok {
								arg = ct.X
							}
							if g := derived[arg]; g != "" && (strings.HasPrefix(sc.Name(), "Sort") || sc.Name() == "Strings" || sc.Name() == "Ints" || sc.Name() == "Slice" || sc.Name() == "SliceStable" || sc.Name() == "Stable" || sc.Name() == "Reverse") {
								bad = append(bad, fmt.Sprintf("sorts the slice returned by %s in place at %s", g, c.Pos(x.Pos())))
							}
						}
					}
				}
			}
		}
		key := "getterslice|" + load.FuncKey(fn)
		perFn[key]++
		if len(bad) > 0 {
			r.Bad(key, c.Pos(fn.Pos()), strings.Join(uniq(bad), "; "))
		} else {
			r.OK(key, c.Pos(fn.Pos()), "uses getter results read-only")
		}
	}
	var gs []string
	for g, f := range getters {
		gs = append(gs, load.FuncKey(g)+"→"+f)
	}
	sort.Strings(gs)
	r.Note("%d getters return an internal slice as it is; %d call sites examined", len(getters), sites)
	r.Stat("getters", len(getters))
	r.Stat("sites", sites)
}

// internalField: v is a load of a (possibly nested) field of recv.
func internalField(v ssa.Value, recv ssa.Value, depth int) (string, bool) {
	if depth > 4 {
		return "", false
	}
	switch x := v.(type) {
	case *ssa.UnOp:
		if fa, ok := x.X.(*ssa.FieldAddr); ok {
			base, _ := addrRoot(fa.X)
			if base == recv || fa.X == recv {
				return fieldName(fa.X.Type(), fa.Field), true
			}
			// value receiver spilled to a local
			if al, ok := base.(*ssa.Alloc); ok {
				for _, ref := range *al.Referrers() {
					if st, ok := ref.(*ssa.Store); ok && st.Val == recv {
						return fieldName(fa.X.Type(), fa.Field), true
					}
				}
			}
		}
	case *ssa.Field:
		if x.X == recv {
			if st, ok := x.X.Type().Underlying().(*types.Struct); ok {
				return st.Field(x.Field).Name(), true
			}
		}
	case *ssa.ChangeType:
		return internalField(x.X, recv, depth+1)
	case *ssa.Phi:
		for _, e := range x.Edges {
			if f, ok := internalField(e, recv, depth+1); ok {
				return f, true
			}
		}
	}
	return "", false
}
