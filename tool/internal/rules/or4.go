package rules

import (
	"fmt"
	"go/types"
	"sort"
	"strings"

	"golang.org/x/tools/go/ssa"

	"verif/internal/load"
	"verif/internal/report"
)

// OR-4: recursion that follows user-type references is guarded.
//
// User types may refer to each other in cycles (@a = @a | @b is a legal text to *write*). Every
// function that resolves a type name through a type table and then, with the resolved type, calls
// something that can come back to the same function, recurses as deep as the reference graph is
// cyclic — unless a visited / in-progress set or a bounded counter stands before the descent. OR-2
// checks that existing guards are set before the descent; this rule finds the descents that have no
// guard at all.

func init() {
	register(&Rule{ID: "OR-4", Min: 5, Run: runOR4,
		Doc: "recursion along user-type references is guarded: wherever a function resolves a type name through a type table (Schema.Type / MustType / getType / a lookup in a map of schema.Type) and hands the resolved type, or something derived from it, to a call that can reach the same function again, a test on a string-keyed set or counter (a map lookup) dominates that call in the same function — otherwise a cycle of type references recurses until the stack is exhausted, which no recover can stop"})
}

// or4Reviewed: descents that cannot happen for a reason outside the function (one line each).
var or4Reviewed = map[string]string{
	"notations/jschema.(exampleBuilder).buildObjectKey|Build":                          "the type behind a key shortcut resolves to a string or Check — which Example runs first — fails with code 1304 (checked on {@k: 1} with @k an object, an array and an alias cycle); a string type's root is a literal or a chain of aliases, and aliases descend through buildExampleForMixedValueNode, which counts",
	"notations/jschema/internal/checker.(checkSchema).checkArrayItems|checkArrayItems": "an array node cannot carry a types list: the rule loader rejects type / or rules on a node written as an array or object literal (codes 1107, 1108), and type shortcuts make mixed-value nodes, not array nodes — the loop body is dead",
}

func isTypeResolution(c *load.Ctx, call *ssa.CallCommon) bool {
	if sc := call.StaticCallee(); sc != nil {
		if sc.Signature.Recv() != nil {
			if o, ok := isSchemaOwnedType(sc.Signature.Recv().Type()); ok && o == pkgSchema+".Schema" {
				switch sc.Name() {
				case "Type", "MustType":
					return true
				}
			}
		}
		if sc.Name() == "getType" && load.FuncPkgRel(sc) == pkgChecker {
			return true
		}
	}
	return false
}

func isTypeMapLookup(x *ssa.Lookup) bool {
	mt, ok := x.X.Type().Underlying().(*types.Map)
	if !ok {
		return false
	}
	if o, ok := isSchemaOwnedType(mt.Elem()); ok && o == pkgSchema+".Type" {
		return true
	}
	return false
}

func runOR4(c *load.Ctx, r *report.RuleResult) {
	cg := c.VTA()
	reachMemo := map[*ssa.Function]map[*ssa.Function]bool{}
	reach := func(f *ssa.Function) map[*ssa.Function]bool {
		if m, ok := reachMemo[f]; ok {
			return m
		}
		m := map[*ssa.Function]bool{}
		reachMemo[f] = m
		stack := []*ssa.Function{f}
		for len(stack) > 0 {
			x := stack[len(stack)-1]
			stack = stack[:len(stack)-1]
			n := cg.Nodes[x]
			if n == nil {
				continue
			}
			for _, e := range n.Out {
				g := e.Callee.Func
				if g == nil || m[g] || !load.FuncInModule(g) {
					continue
				}
				m[g] = true
				stack = append(stack, g)
			}
		}
		return m
	}
	// only code the public API can reach: an unguarded descent in a function nothing calls cannot
	// overflow anybody's stack
	var roots []*ssa.Function
	for _, fn := range c.ModuleFunctions() {
		if fn.Parent() != nil || strings.Contains(load.FuncPkgRel(fn), "internal") {
			continue
		}
		if obj := fn.Object(); obj != nil && obj.Exported() {
			roots = append(roots, fn)
		}
	}
	live := reachableFrom(c, roots...)
	var fns []*ssa.Function
	for _, fn := range c.ModuleFunctions() {
		if _, ok := live[fn]; ok && !load.IsAux(load.FuncPkgRel(fn)) {
			fns = append(fns, fn)
		}
	}
	sort.Slice(fns, func(i, j int) bool { return load.FuncKey(fns[i]) < load.FuncKey(fns[j]) })
	r.Stat("live_functions", len(fns))
	for _, fn := range fns {
		// values derived from a resolved type
		derived := map[ssa.Value]bool{}
		for _, b := range fn.Blocks {
			for _, ins := range b.Instrs {
				switch x := ins.(type) {
				case *ssa.Call:
					if isTypeResolution(c, x.Common()) {
						derived[x] = true
					}
				case *ssa.Lookup:
					if isTypeMapLookup(x) {
						derived[x] = true
					}
				}
			}
		}
		if len(derived) == 0 {
			continue
		}
		for changed := true; changed; {
			changed = false
			for _, b := range fn.Blocks {
				for _, ins := range b.Instrs {
					if st, isStore := ins.(*ssa.Store); isStore {
						// a resolved type kept in a local cell (pointer-receiver getters need its address)
						if a, isAlloc := st.Addr.(*ssa.Alloc); isAlloc && derived[st.Val] && !derived[a] {
							derived[a] = true
							changed = true
						}
						continue
					}
					v, ok := ins.(ssa.Value)
					if !ok || derived[v] {
						continue
					}
					var ops []*ssa.Value
					ops = ins.Operands(ops)
					switch x := ins.(type) {
					case *ssa.Extract, *ssa.UnOp, *ssa.FieldAddr, *ssa.Field, *ssa.TypeAssert, *ssa.ChangeType, *ssa.ChangeInterface, *ssa.MakeInterface, *ssa.Phi:
						for _, op := range ops {
							if op != nil && *op != nil && derived[*op] {
								derived[v] = true
								changed = true
							}
						}
					case *ssa.Call:
						// getters on a resolved type (Schema(), RootNode(), …) keep the derivation
						cc := x.Common()
						var recv ssa.Value
						if cc.IsInvoke() {
							recv = cc.Value
						} else if sc := cc.StaticCallee(); sc != nil && sc.Signature.Recv() != nil && len(cc.Args) > 0 {
							recv = cc.Args[0]
						}
						if recv != nil && derived[recv] && ownedResult(x.Type()) {
							derived[v] = true
							changed = true
						}
					}
				}
			}
		}
		// descents: calls with a derived argument that can reach fn again
		n := 0
		for _, b := range fn.Blocks {
			for _, ins := range b.Instrs {
				call, ok := ins.(*ssa.Call)
				if !ok {
					continue
				}
				cc := call.Common()
				args := cc.Args
				if cc.IsInvoke() {
					args = append([]ssa.Value{cc.Value}, args...)
				}
				has := false
				for _, a := range args {
					if derived[a] {
						has = true
					}
				}
				if !has {
					continue
				}
				var callees []*ssa.Function
				if sc := cc.StaticCallee(); sc != nil {
					callees = []*ssa.Function{sc}
				} else if node := cg.Nodes[fn]; node != nil {
					for _, e := range node.Out {
						if e.Site == call && e.Callee.Func != nil {
							callees = append(callees, e.Callee.Func)
						}
					}
				}
				back := false
				var via string
				for _, g := range callees {
					if !load.FuncInModule(g) {
						continue
					}
					if g == fn || reach(g)[fn] {
						back = true
						via = g.Name()
					}
				}
				if !back {
					continue
				}
				n++
				// a guard: a lookup in a string-keyed map (set / counter) dominating the call
				guarded := ""
				for _, b2 := range fn.Blocks {
					for _, ins2 := range b2.Instrs {
						lk, ok := ins2.(*ssa.Lookup)
						if !ok || isTypeMapLookup(lk) {
							continue
						}
						mt, ok := lk.X.Type().Underlying().(*types.Map)
						if !ok {
							continue
						}
						if bt, ok := mt.Key().Underlying().(*types.Basic); !ok || bt.Info()&types.IsString == 0 {
							continue
						}
						if dominatesInstr(lk, call) {
							guarded = describeValue(lk.X)
						}
					}
				}
				if guarded == "" {
					// the test may sit in a helper (visit(name) / seen(name)): a call of a module
					// function that makes such a lookup, whose result is branched on, dominating the descent
					for _, b2 := range fn.Blocks {
						for _, ins2 := range b2.Instrs {
							hc, ok := ins2.(*ssa.Call)
							if !ok || hc == call || !dominatesInstr(hc, call) {
								continue
							}
							g := hc.Call.StaticCallee()
							if g == nil || !load.FuncInModule(g) || g.Blocks == nil || !branchedOn(hc) {
								continue
							}
							for _, gb := range g.Blocks {
								for _, gi := range gb.Instrs {
									lk, ok := gi.(*ssa.Lookup)
									if !ok || isTypeMapLookup(lk) {
										continue
									}
									mt, ok := lk.X.Type().Underlying().(*types.Map)
									if !ok {
										continue
									}
									if bt, ok := mt.Key().Underlying().(*types.Basic); ok && bt.Info()&types.IsString != 0 {
										guarded = describeValue(lk.X) + " (inside " + g.Name() + ")"
									}
								}
							}
						}
					}
				}
				key := fmt.Sprintf("descent|%s|call %s#%d", load.FuncKey(fn), via, n)
				if why, ok := or4Reviewed[load.FuncKey(fn)+"|"+via]; ok && guarded == "" {
					r.OK(key, c.Pos(call.Pos()), "reviewed: "+why)
				} else if guarded != "" {
					r.OK(key, c.Pos(call.Pos()), "guarded by a lookup in "+guarded)
				} else {
					r.Bad(key, c.Pos(call.Pos()), fmt.Sprintf("%s resolves a user type and descends into it through %s, which can come back here, without consulting a visited set or counter: a cycle of type references (for instance @a = @a | @b) recurses until the stack overflows — a fatal error that no recover handler stops", fn.Name(), via))
				}
			}
		}
	}
}

var _ = strings.TrimSpace

// OR-5: a set that *reports* a cycle when a key is met again must forget the key when the descent
// returns. A set that is only ever grown reports a cycle for every diamond — two alternatives that
// lead to the same type — although nothing is cyclic.

func init() {
	register(&Rule{ID: "OR-5", Min: 2, Run: runOR5,
		Doc: "cycle detectors follow stack discipline: wherever a function raises an error because a key is already in a string-keyed set, otherwise inserts the key and descends with a call that can reach the function again, the key is deleted from the set after the descent returns — a set that only grows reports recursion for acyclic diamonds (two alternatives leading to the same type)"})
}

func runOR5(c *load.Ctx, r *report.RuleResult) {
	cg := c.VTA()
	reachMemo := map[*ssa.Function]map[*ssa.Function]bool{}
	reach := func(f *ssa.Function) map[*ssa.Function]bool {
		if m, ok := reachMemo[f]; ok {
			return m
		}
		m := map[*ssa.Function]bool{}
		reachMemo[f] = m
		stack := []*ssa.Function{f}
		for len(stack) > 0 {
			x := stack[len(stack)-1]
			stack = stack[:len(stack)-1]
			if n := cg.Nodes[x]; n != nil {
				for _, e := range n.Out {
					g := e.Callee.Func
					if g == nil || m[g] || !load.FuncInModule(g) {
						continue
					}
					m[g] = true
					stack = append(stack, g)
				}
			}
		}
		return m
	}
	panics := func(b *ssa.BasicBlock) bool {
		// the block, or a straight line from it, ends in a panic
		for i := 0; i < 4 && b != nil; i++ {
			if len(b.Instrs) > 0 {
				if _, ok := b.Instrs[len(b.Instrs)-1].(*ssa.Panic); ok {
					return true
				}
			}
			if len(b.Succs) != 1 {
				return false
			}
			b = b.Succs[0]
		}
		return false
	}
	for _, fn := range c.ModuleFunctions() {
		if load.IsAux(load.FuncPkgRel(fn)) || fn.Synthetic != "" {
			continue
		}
		n := 0
		for _, b := range fn.Blocks {
			for _, ins := range b.Instrs {
				lk, ok := ins.(*ssa.Lookup)
				if !ok || !lk.CommaOk || isTypeMapLookup(lk) {
					continue
				}
				mt, ok := lk.X.Type().Underlying().(*types.Map)
				if !ok {
					continue
				}
				if bt, ok := mt.Key().Underlying().(*types.Basic); !ok || bt.Info()&types.IsString == 0 {
					continue
				}
				// the hit branch raises an error
				hitPanics := false
				for _, ref := range *lk.Referrers() {
					ex, ok := ref.(*ssa.Extract)
					if !ok || ex.Index != 1 {
						continue
					}
					for _, r2 := range *ex.Referrers() {
						if iff, ok := r2.(*ssa.If); ok && panics(iff.Block().Succs[0]) {
							hitPanics = true
						}
					}
				}
				if !hitPanics {
					continue
				}
				// insertion and descent
				for _, b2 := range fn.Blocks {
					for _, ins2 := range b2.Instrs {
						mu, ok := ins2.(*ssa.MapUpdate)
						if !ok || !sameOrigin(mu.Map, lk.X) || !(mu.Key == lk.Index || sameOrigin(mu.Key, lk.Index)) || !dominatesInstr(lk, mu) {
							continue
						}
						for _, b3 := range fn.Blocks {
							for _, ins3 := range b3.Instrs {
								call, ok := ins3.(*ssa.Call)
								if !ok || !dominatesInstr(mu, call) {
									continue
								}
								sc := call.Call.StaticCallee()
								if sc == nil || !load.FuncInModule(sc) || (sc != fn && !reach(sc)[fn]) {
									continue
								}
								n++
								key := fmt.Sprintf("unwind|%s|%s#%d", load.FuncKey(fn), describeValue(lk.X), n)
								undone := false
								for _, b4 := range fn.Blocks {
									for _, ins4 := range b4.Instrs {
										d, ok := ins4.(*ssa.Call)
										if !ok {
											continue
										}
										bi, ok := d.Call.Value.(*ssa.Builtin)
										if !ok || bi.Name() != "delete" || len(d.Call.Args) != 2 {
											continue
										}
										if sameOrigin(d.Call.Args[0], lk.X) && (d.Call.Args[1] == lk.Index || sameOrigin(d.Call.Args[1], lk.Index)) && dominatesInstr(call, d) {
											undone = true
										}
									}
								}
								if undone {
									r.OK(key, c.Pos(call.Pos()), "the key is deleted after the descent through "+sc.Name())
								} else {
									r.Bad(key, c.Pos(call.Pos()), fmt.Sprintf("meeting a key of %s again is reported as an error, the key is inserted before the descent through %s, but it is never deleted when the descent returns: two alternatives that lead to the same type (a diamond) are reported as recursion although nothing is cyclic", describeValue(lk.X), sc.Name()))
								}
							}
						}
					}
				}
			}
		}
	}
}

// OR-7: names met inside a type are resolved where the type itself was found.

func init() {
	register(&Rule{ID: "OR-7", Min: 1, Run: runOR7,
		Doc: "the recursion checker keeps resolving in the table it started from: wherever a checker function looks a type name up in a table of types it received as a parameter and then descends into the type found with a call that takes a table of types again, the table handed down is that same parameter — the added type's own table holds only its anonymous types, so names of other user types met inside it would never be found and a cycle through two types (@a = {b: @b}, @b = {a: @a}) goes unnoticed"})
}

func isTypeTable(t types.Type) bool {
	mt, ok := t.Underlying().(*types.Map)
	if !ok {
		return false
	}
	o, ok := isSchemaOwnedType(mt.Elem())
	return ok && o == pkgSchema+".Type"
}

func runOR7(c *load.Ctx, r *report.RuleResult) {
	n := 0
	for _, fn := range c.ModuleFunctions() {
		if load.FuncPkgRel(fn) != pkgChecker || fn.Synthetic != "" {
			continue
		}
		var table *ssa.Parameter
		for _, p := range fn.Params {
			if isTypeTable(p.Type()) {
				table = p
			}
		}
		if table == nil {
			continue
		}
		// a lookup in the parameter table …
		var found []ssa.Value
		for _, b := range fn.Blocks {
			for _, ins := range b.Instrs {
				if lk, ok := ins.(*ssa.Lookup); ok && lk.X == ssa.Value(table) {
					found = append(found, lk)
				}
			}
		}
		if len(found) == 0 {
			continue
		}
		// … followed by a descent that takes a table again
		for _, b := range fn.Blocks {
			for _, ins := range b.Instrs {
				call, ok := ins.(*ssa.Call)
				if !ok {
					continue
				}
				sc := call.Call.StaticCallee()
				if sc == nil || !load.FuncInModule(sc) {
					continue
				}
				for i, a := range call.Call.Args {
					if !isTypeTable(a.Type()) {
						continue
					}
					// only descents into what the lookup found
					uses := false
					for _, a2 := range call.Call.Args {
						for _, f := range found {
							if flowsFrom(a2, f, map[ssa.Value]bool{}, 0) {
								uses = true
							}
						}
					}
					if !uses {
						continue
					}
					n++
					key := fmt.Sprintf("sametable|%s|call %s arg %d", load.FuncKey(fn), sc.Name(), i)
					if a == ssa.Value(table) {
						r.OK(key, c.Pos(call.Pos()), "descends with the table the type was found in")
					} else {
						r.Bad(key, c.Pos(call.Pos()), fmt.Sprintf("the type is looked up in the table %s but the descent through %s gets %s: names of other user types met inside the type are not resolved, so a cycle through two or more types is not detected", table.Name(), sc.Name(), describeValue(a)))
					}
				}
			}
		}
	}
	if n == 0 {
		r.Unk("anchor|checker type-table descents", "", "no checker function looks a type up in a parameter table and descends with a table")
	}
}

// branchedOn: the call's (boolean) result, possibly negated, decides an If.
func branchedOn(call *ssa.Call) bool {
	refs := call.Referrers()
	if refs == nil {
		return false
	}
	for _, ref := range *refs {
		switch x := ref.(type) {
		case *ssa.If:
			return true
		case *ssa.UnOp:
			if rr := x.Referrers(); rr != nil {
				for _, r2 := range *rr {
					if _, ok := r2.(*ssa.If); ok {
						return true
					}
				}
			}
		}
	}
	return false
}
