package rules

import (
	"fmt"
	"go/types"
	"sort"
	"strings"

	"golang.org/x/tools/go/ssa"
	"golang.org/x/tools/go/ssa/ssautil"

	"verif/internal/load"
	"verif/internal/pe"
	"verif/internal/report"
)

// ST-model — the scanners' stack is a stack, at every depth.
//
// All three scanners keep their open lexemes (and the step functions to return to) in ds.Stack. The
// scanner products bound the nesting depth, so a stack that misbehaves only once it has grown (a
// shrinking step that loses its elements, say) is outside them. The stack is oblivious to what it
// stores; its behaviour is a function of the sequence of operations. This rule interprets Push, Pop,
// Peek, Get and Len on opaque elements from every reachable (length, capacity) state with up to 40
// elements and compares each result and the resulting content with a plain list.

func init() {
	register(&Rule{ID: "ST-model", Min: 5, Run: runSTModel,
		Doc: "the scanners' stack is a stack at every depth: ds.Stack's Push, Pop, Peek, Get and Len, interpreted on opaque elements from every reachable (length, capacity) state with up to 40 elements, agree with a plain list — Push adds the element on top, Pop returns and removes the top, Peek and Get return the element at their position, Len the number of elements, and the elements below are kept; reading from an empty stack raises the stack's own assertion"})
}

func runSTModel(c *load.Ctx, r *report.RuleResult) {
	c.BuildSSA()
	// one instantiation of the generic stack: the one holding lexical events
	methods := map[string]*ssa.Function{}
	var elemT types.Type
	var stackT types.Type
	for fn := range ssautil.AllFunctions(c.Prog) {
		o := fn.Origin()
		if o == nil || load.FuncPkgRel(fn) != "internal/ds" || fn.Signature.Recv() == nil {
			continue
		}
		rt := fn.Signature.Recv().Type()
		if p, ok := rt.(*types.Pointer); ok {
			rt = p.Elem()
		}
		named, ok := rt.(*types.Named)
		if !ok || named.Obj().Name() != "Stack" || named.TypeArgs() == nil || named.TypeArgs().Len() != 1 {
			continue
		}
		if !strings.HasSuffix(types.TypeString(named.TypeArgs().At(0), nil), "lexeme.LexEvent") {
			continue
		}
		if fn.Synthetic != "" && !strings.Contains(fn.Synthetic, "instance") {
			continue
		}
		methods[o.Name()] = fn
		elemT = named.TypeArgs().At(0)
		stackT = named
	}
	for _, n := range []string{"Push", "Pop", "Peek", "Get", "Len"} {
		if methods[n] == nil {
			r.Unk("anchor|ds.Stack."+n, "", "instantiation of ds.Stack for lexical events not found")
			return
		}
	}
	cfg := newPEConfig(c)
	const maxLen = 40
	type op struct {
		name string
		arg  int
	}
	// run replays a sequence of operations and returns, for the last one, what it returned / whether
	// it panicked, plus the content and capacity afterwards
	type result struct {
		ret      string
		panicked bool
		content  []string
		capacity int
		problem  string
	}
	run := func(seq []op) result {
		var res result
		outs := pe.ExploreFn(cfg, func(in *pe.Interp) pe.Value {
			st := in.NewStruct(stackT, "stack")
			pushed := 0
			var last pe.Value
			for i, o := range seq {
				isLast := i == len(seq)-1
				switch o.name {
				case "Push":
					last = in.Call(methods["Push"], []pe.Value{st, pe.NewSym(fmt.Sprintf("e%d", pushed), elemT)})
					pushed++
				case "Pop", "Peek", "Len":
					last = in.Call(methods[o.name], []pe.Value{st})
				case "Get":
					last = in.Call(methods["Get"], []pe.Value{st, int64(o.arg)})
				}
				_ = isLast
			}
			// observe: the struct's only field
			vals := in.Load(in.FieldPtr(st, "vals"))
			return &pe.Tuple{E: []pe.Value{last, vals}}
		})
		if len(outs) != 1 {
			res.problem = fmt.Sprintf("%d outcomes for a deterministic sequence", len(outs))
			return res
		}
		o := outs[0]
		if o.Undecided != "" {
			res.problem = "not interpretable: " + o.Undecided
			return res
		}
		if o.Panicked {
			res.panicked = true
			res.ret = pe.Show(o.PanicVal)
			return res
		}
		tp, ok := o.Ret.(*pe.Tuple)
		if !ok || len(tp.E) != 2 {
			res.problem = "unexpected observation " + pe.Show(o.Ret)
			return res
		}
		if tp.E[0] != nil {
			res.ret = strings.Trim(pe.Show(tp.E[0]), "‹›")
		}
		if sl, ok := tp.E[1].(*pe.SliceV); ok {
			elems, _ := pe.SliceElems(sl)
			for _, e := range elems {
				res.content = append(res.content, strings.Trim(pe.Show(e), "‹›"))
			}
			res.capacity = sl.Cap - sl.Lo
		} else if _, isNil := tp.E[1].(pe.NilV); !isNil && tp.E[1] != nil {
			res.problem = "the stack's storage is not a slice: " + pe.Show(tp.E[1])
		}
		return res
	}
	type state struct {
		seq []op
		ref []string
		cap int
	}
	seen := map[string]bool{"0/0": true}
	queue := []state{{}}
	perOp := map[string]int{}
	bad := map[string]string{}
	states := 0
	for len(queue) > 0 {
		s := queue[0]
		queue = queue[1:]
		states++
		pushed := 0
		for _, o := range s.seq {
			if o.name == "Push" {
				pushed++
			}
		}
		var ops []op
		if len(s.ref) < maxLen {
			ops = append(ops, op{"Push", 0})
		}
		ops = append(ops, op{"Pop", 0}, op{"Peek", 0}, op{"Len", 0})
		for _, i := range []int{0, len(s.ref) / 2, len(s.ref) - 1, len(s.ref)} {
			ops = append(ops, op{"Get", i})
		}
		for _, o := range ops {
			if bad[o.name] != "" {
				continue
			}
			res := run(append(append([]op{}, s.seq...), o))
			perOp[o.name]++
			where := fmt.Sprintf("with %d element(s) and capacity %d", len(s.ref), s.cap)
			if res.problem != "" {
				bad[o.name] = res.problem + " " + where
				continue
			}
			// expected
			ref := append([]string{}, s.ref...)
			wantRet, wantPanic := "", false
			switch o.name {
			case "Push":
				ref = append(ref, fmt.Sprintf("e%d", pushed))
			case "Pop":
				if len(ref) == 0 {
					wantPanic = true
				} else {
					wantRet = ref[len(ref)-1]
					ref = ref[:len(ref)-1]
				}
			case "Peek":
				if len(ref) == 0 {
					wantPanic = true
				} else {
					wantRet = ref[len(ref)-1]
				}
			case "Len":
				wantRet = fmt.Sprint(len(ref))
			case "Get":
				if o.arg < 0 || o.arg >= len(ref) {
					wantPanic = true
				} else {
					wantRet = ref[o.arg]
				}
			}
			switch {
			case wantPanic != res.panicked:
				bad[o.name] = fmt.Sprintf("%s(%d) %s: panics=%v, expected %v (%s)", o.name, o.arg, where, res.panicked, wantPanic, res.ret)
			case wantPanic:
				if strings.Contains(res.ret, "runtime error") {
					bad[o.name] = fmt.Sprintf("%s(%d) %s fails with a run-time error instead of the stack's own assertion: %s", o.name, o.arg, where, res.ret)
				}
			case o.name != "Push" && res.ret != wantRet:
				bad[o.name] = fmt.Sprintf("%s(%d) %s returns %s; the list says %s", o.name, o.arg, where, res.ret, wantRet)
			case strings.Join(res.content, ",") != strings.Join(ref, ","):
				bad[o.name] = fmt.Sprintf("after %s %s the stack holds [%s]; the list says [%s]", o.name, where, abbreviate(res.content), abbreviate(ref))
			}
			if bad[o.name] != "" || wantPanic {
				continue
			}
			if o.name == "Push" || o.name == "Pop" {
				k := fmt.Sprintf("%d/%d", len(ref), res.capacity)
				if !seen[k] {
					seen[k] = true
					queue = append(queue, state{append(append([]op{}, s.seq...), o), ref, res.capacity})
				}
			}
		}
	}
	pos := c.Pos(methods["Pop"].Pos())
	var names []string
	for n := range perOp {
		names = append(names, n)
	}
	sort.Strings(names)
	for _, n := range names {
		if bad[n] != "" {
			r.Bad("stack|"+n, pos, bad[n])
		} else {
			r.OK("stack|"+n, pos, fmt.Sprintf("%d runs from %d (length, capacity) states agree with a plain list", perOp[n], states))
		}
	}
	r.Stat("states", states)
}

func abbreviate(xs []string) string {
	if len(xs) > 8 {
		return strings.Join(xs[:4], ",") + ",…," + strings.Join(xs[len(xs)-3:], ",")
	}
	return strings.Join(xs, ",")
}
