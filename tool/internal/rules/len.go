package rules

import (
	"fmt"
	"go/types"
	"os"
	"sort"
	"strings"

	"golang.org/x/tools/go/ssa"

	"verif/internal/load"
	"verif/internal/pe"
	"verif/internal/report"
	"verif/internal/spec"
)

// LEN-*: where Len() says an embedded schema / document / enum ends (property C14).
//
// Length() drains the scanner and then steps back over trailing blanks. What it returns before the
// trimming loop is a function of the *last lexeme Next() delivered* (and, for the end-top marker, of
// the one before). Part A reads that function off Length()'s own code (PE, with Next() replaced by a
// staged oracle that delivers symbolic lexemes). Part B walks the product of the scanner model
// (extracted from Next(), in length mode) with the RFC 8259 reference in trailing mode and keeps, as
// ghost state, where the top-level value ended (V), where the first foreign byte is (F) and what
// Length() would return if the scan stopped now (G) — all as small offsets from the byte just
// consumed. The obligation at every stop (end-top marker, or end of input) is V+1 <= G <= F: the
// trimming loop then lands exactly on V+1 because only blanks lie between V and F.

func init() {
	register(&Rule{ID: "LEN-json", Min: 10, Run: func(c *load.Ctx, r *report.RuleResult) {
		runLen(c, r, lenSpec{rel: "formats/json", ctor: "newScanner", typ: "scanner", flag: "allowTrailingNonSpaceCharacters", name: "json"}, 2)
	},
		Doc: "formats/json Length(): for every reachable (scanner state, RFC 8259 reference state) pair in trailing mode, wherever the scan stops — the first foreign byte directly after the value or after blanks, or end of input — the value Length() holds before trimming blanks lies between the end of the top-level value + 1 and the first foreign byte, so the trimmed result is exactly the length of the value; and a text that is not a complete value yields an error"})
	register(&Rule{ID: "LEN-schema", Min: 8, Run: func(c *load.Ctx, r *report.RuleResult) {
		runLen(c, r, lenSpec{rel: "notations/jschema/internal/scanner", ctor: "New", typ: "Scanner", flag: "lengthComputing", name: "schema"}, 2)
	},
		Doc: "schema scanner Length() on plain-JSON schemas: same obligation as LEN-json (annotation and comment starters are not foreign bytes)"})
	register(&Rule{ID: "LEN-enum", Min: 5, Run: func(c *load.Ctx, r *report.RuleResult) {
		runLen(c, r, lenSpec{rel: "rules/enum", ctor: "newScanner", typ: "scanner", flag: "lengthComputing", name: "enum"}, 2)
	},
		Doc: "enum-rule scanner Length() on arrays of scalars: same obligation as LEN-json"})
	for _, sp := range []lenSpec{
		{rel: "formats/json", ctor: "newScanner", typ: "scanner", flag: "allowTrailingNonSpaceCharacters", name: "json"},
		{rel: "notations/jschema/internal/scanner", ctor: "New", typ: "Scanner", flag: "lengthComputing", name: "schema"},
		{rel: "rules/enum", ctor: "newScanner", typ: "scanner", flag: "lengthComputing", name: "enum"},
	} {
		sp := sp
		register(&Rule{ID: "LEN-" + sp.name + "-deep", Min: 5, Thorough: true, Run: func(c *load.Ctx, r *report.RuleResult) { runLen(c, r, sp, 4) },
			Doc: "LEN-" + sp.name + " with nesting bound 4"})
	}
	register(&Rule{ID: "LEN-trim", Min: 6, Run: runLenTrim,
		Doc: "the three Length() methods let a rejection by Next() through (no recover in them) and end by stepping back over trailing blanks: with the pre-trim value P, the byte tested is data[P-1], a blank byte decrements P and the test repeats, a non-blank byte (or P = 0) ends the loop and P is returned"})
}

type lenSpec struct {
	rel, ctor, typ, flag, name string
}

// lenSummary is what Length() computes from the lexemes Next() delivers.
type lenSummary struct {
	b       int64 // after a lexeme that is not the end-top marker: End + b
	bAtSize int64 // the same when End == dataSize
	hasSize bool  // Length() consults End == dataSize
	keep    bool  // the end-top marker leaves the length as it is
	a       int64 // otherwise: End + a
	trimOK  bool
	trimWhy string
}

func (s lenSummary) String() string {
	et := fmt.Sprintf("End%+d", s.a)
	if s.keep {
		et = "unchanged"
	}
	sz := ""
	if s.hasSize {
		sz = fmt.Sprintf(" (End%+d when End = dataSize)", s.bAtSize)
	}
	return fmt.Sprintf("lexeme: End%+d%s; end-top marker: %s", s.b, sz, et)
}

// lengthSummary interprets Length() with Next() staged.
func lengthSummary(c *load.Ctx, m *scanModel, sp lenSpec) (lenSummary, []string, error) {
	var sum lenSummary
	length := c.Func(sp.rel, sp.typ+".Length")
	if length == nil {
		return sum, nil, fmt.Errorf("method %s.Length not found", sp.typ)
	}
	newLex := c.Func("internal/lexeme", "NewLexEvent")
	isBlank := c.Func("bytes", "IsBlank")
	if newLex == nil || isBlank == nil {
		return sum, nil, fmt.Errorf("lexeme.NewLexEvent / bytes.IsBlank not found")
	}
	var endTop, other int64 = -1, -1
	for v, n := range m.evNames {
		switch n {
		case "EndTop":
			endTop = v
		case "LiteralEnd":
			other = v
		}
	}
	if endTop < 0 || other < 0 {
		return sum, nil, fmt.Errorf("lexeme types EndTop / LiteralEnd not found")
	}
	var eosVal pe.Value
	if m.retErr {
		for _, o := range pe.ExploreFn(m.cfg, func(in *pe.Interp) pe.Value {
			g, _ := c.SSAPkg(sp.rel).Members["errEOS"].(*ssa.Global)
			if g == nil {
				in.Undecided("global errEOS not found")
			}
			return in.Load(in.GlobalPtr(g))
		}) {
			if o.Undecided == "" && !o.Panicked {
				eosVal = o.Ret
			}
		}
		if eosVal == nil {
			return sum, nil, fmt.Errorf("errEOS not resolvable")
		}
	}
	cfg := *m.cfg
	cfg.Intrinsics = map[string]pe.Intrinsic{}
	for k, v := range m.cfg.Intrinsics {
		cfg.Intrinsics[k] = v
	}
	idxT := newLex.Params[1].Type()
	calls := 0
	cfg.Intrinsics[m.next.String()] = func(in *pe.Interp, args []pe.Value) (pe.Value, bool) {
		calls++
		n := calls
		labels := []string{"eof", "endtop", "lex"}
		if n >= 3 {
			labels = []string{"eof", "endtop"}
		}
		ch := labels[in.Choose(fmt.Sprintf("next#%d", n), labels)]
		zero := in.Zero(m.next.Signature.Results().At(0).Type())
		switch ch {
		case "eof":
			if m.retErr {
				return &pe.Tuple{E: []pe.Value{zero, eosVal}}, true
			}
			return &pe.Tuple{E: []pe.Value{zero, false}}, true
		}
		t := other
		if ch == "endtop" {
			t = endTop
		}
		e := pe.NewSym(fmt.Sprintf("e%d", n), idxT)
		lex := in.Call(newLex, []pe.Value{t, pe.NewSym(fmt.Sprintf("b%d", n), idxT), e, pe.NilV{}})
		if m.retErr {
			return &pe.Tuple{E: []pe.Value{lex, pe.NilV{}}}, true
		}
		return &pe.Tuple{E: []pe.Value{lex, true}}, true
	}
	blanks := 0
	var blankArgs []string
	cfg.Intrinsics[isBlank.String()] = func(in *pe.Interp, args []pe.Value) (pe.Value, bool) {
		blanks++
		blankArgs = append(blankArgs, pe.Show(args[0]))
		if blanks >= 3 {
			return false, true
		}
		return in.Choose(fmt.Sprintf("blank#%d", blanks), []string{"no", "yes"}) == 1, true
	}
	if m.retErr {
		// errors.Is(err, errEOS)
		cfg.Intrinsics["errors.Is"] = func(in *pe.Interp, args []pe.Value) (pe.Value, bool) {
			return pe.Show(args[0]) == pe.Show(eosVal) && !pe.IsNil(args[0]), true
		}
	}
	var argsPerRun [][]string
	outs := pe.ExploreFn(&cfg, func(in *pe.Interp) pe.Value {
		calls, blanks, blankArgs = 0, 0, nil
		root := pe.Clone(m.initial).(*pe.Ptr)
		in.Store(in.FieldPtr(root, sp.flag), true)
		sv := root.Obj.Val.(*pe.StructV)
		stT := sv.T.Underlying().(*types.Struct)
		for i := 0; i < stT.NumFields(); i++ {
			if stT.Field(i).Name() == "dataSize" {
				sv.F[i] = pe.NewSym("N", stT.Field(i).Type())
			}
		}
		ret := in.Call(length, []pe.Value{root})
		argsPerRun = append(argsPerRun, append([]string{}, blankArgs...))
		return ret
	})
	var table []string
	type row struct {
		val map[string]string
		ret *pe.Sym
		k   int64
		isK bool
		bl  []string
	}
	var rows []row
	for i, o := range outs {
		v := o.ChoiceMap()
		line := o.Valuation() + " => " + o.Exit()
		table = append(table, line)
		if o.Undecided != "" {
			return sum, table, fmt.Errorf("Length() is not interpretable on path {%s}: %s", o.Valuation(), o.Undecided)
		}
		if o.Panicked {
			// paths the staged oracle makes infeasible (for instance length > 0 false with a positive length)
			continue
		}
		ret := o.Ret
		if tp, ok := ret.(*pe.Tuple); ok && len(tp.E) == 2 {
			ret = tp.E[0]
		}
		rw := row{val: v}
		if i < len(argsPerRun) {
			rw.bl = argsPerRun[i]
		}
		switch x := ret.(type) {
		case *pe.Sym:
			rw.ret = x
		case int64:
			rw.k, rw.isK = x, true
		default:
			return sum, table, fmt.Errorf("Length() result not a linear form on path {%s}: %s", o.Valuation(), pe.Show(ret))
		}
		rows = append(rows, rw)
	}
	// Only paths on which every "length > 0" test succeeds matter (the others return early with the
	// same value or are infeasible for an unsigned length).
	var live []row
	for _, rw := range rows {
		ok := true
		for k, v := range rw.val {
			if strings.HasPrefix(k, "ord(") && strings.HasSuffix(k, ",0)") && v != ">" {
				ok = false
			}
		}
		if ok {
			live = append(live, rw)
		}
	}
	stage := func(rw row) string {
		var parts []string
		for n := 1; n <= 3; n++ {
			if v, ok := rw.val[fmt.Sprintf("next#%d", n)]; ok {
				parts = append(parts, v)
			}
		}
		return strings.Join(parts, ",")
	}
	nBlank := func(rw row) int64 {
		n := int64(0)
		for _, k := range []string{"blank#1", "blank#2"} {
			if rw.val[k] == "yes" {
				n++
			}
		}
		return n
	}
	// the result as (lexeme number, offset); lexeme number 0 = constant
	form := func(rw row) (int, int64, bool) {
		if rw.isK {
			return 0, rw.k, true
		}
		var n int
		if _, err := fmt.Sscanf(rw.ret.Expr, "e%d", &n); err == nil {
			return n, rw.ret.Off, true
		}
		return 0, 0, false
	}
	atSize := func(rw row, n int) bool {
		return rw.val[fmt.Sprintf("ord(‹e%d›,‹N›)", n)] == "=" || rw.val[fmt.Sprintf("eq(‹e%d›,‹N›)", n)] == "true"
	}
	seenB, seenBS := map[int64]bool{}, map[int64]bool{}
	for _, rw := range live {
		st := stage(rw)
		n, off, ok := form(rw)
		if !ok {
			return sum, table, fmt.Errorf("Length() result %s on path {%s} is not End+k of a delivered lexeme", pe.Show(rw.ret), st)
		}
		off += nBlank(rw) // undo the trimming: every "yes" must have cost exactly one
		switch st {
		case "lex,eof", "lex,lex,eof":
			last := strings.Count(st, "lex")
			if n != last {
				return sum, table, fmt.Errorf("after %s Length() is computed from lexeme %d, not from the last one", st, n)
			}
			if atSize(rw, n) {
				sum.hasSize = true
				seenBS[off] = true
			} else {
				seenB[off] = true
			}
		}
	}
	if len(seenB) != 1 || len(seenBS) > 1 {
		return sum, table, fmt.Errorf("Length() after a lexeme and end of stream has %d (+%d at End = dataSize) different forms, or trimming a blank does not cost exactly one", len(seenB), len(seenBS))
	}
	for k := range seenB {
		sum.b, sum.bAtSize = k, k
	}
	for k := range seenBS {
		sum.bAtSize = k
	}
	first := true
	for _, rw := range live {
		st := stage(rw)
		if st != "lex,endtop" && st != "lex,lex,endtop" {
			continue
		}
		last := strings.Count(st, "lex") + 1
		n, off, _ := form(rw)
		off += nBlank(rw)
		var keep bool
		switch {
		case n == last:
			keep = false
		case n == last-1 && (off == sum.b || atSize(rw, n) && off == sum.bAtSize):
			keep = true
		default:
			return sum, table, fmt.Errorf("after %s Length() returns %s: neither End of the marker + k nor the previous length", st, pe.Show(rw.ret))
		}
		if !first && (keep != sum.keep || !keep && off != sum.a) {
			return sum, table, fmt.Errorf("the end-top marker is handled in different ways on different paths")
		}
		first = false
		sum.keep = keep
		if !keep {
			sum.a = off
		}
	}
	if first {
		return sum, table, fmt.Errorf("no path for lexeme + end-top marker")
	}
	// Whatever the kind of a lexeme, a later lexeme replaces it: Length() stops at the end-top marker
	// and at the end of the stream only (an annotation after the closing bracket belongs to the text).
	{
		var tnames []string
		tvals := map[string]int64{}
		for v, n := range m.evNames {
			if n != "EndTop" {
				tnames = append(tnames, n)
				tvals[n] = v
			}
		}
		sort.Strings(tnames)
		for _, tn := range tnames {
			k := 0
			cfg2 := cfg
			cfg2.Intrinsics = map[string]pe.Intrinsic{}
			for key, v := range cfg.Intrinsics {
				cfg2.Intrinsics[key] = v
			}
			cfg2.Intrinsics[m.next.String()] = func(in *pe.Interp, args []pe.Value) (pe.Value, bool) {
				k++
				zero := in.Zero(m.next.Signature.Results().At(0).Type())
				if k >= 3 {
					if m.retErr {
						return &pe.Tuple{E: []pe.Value{zero, eosVal}}, true
					}
					return &pe.Tuple{E: []pe.Value{zero, false}}, true
				}
				t := tvals[tn]
				if k == 2 {
					t = other
				}
				lex := in.Call(newLex, []pe.Value{t, pe.NewSym(fmt.Sprintf("b%d", k), idxT), pe.NewSym(fmt.Sprintf("e%d", k), idxT), pe.NilV{}})
				if m.retErr {
					return &pe.Tuple{E: []pe.Value{lex, pe.NilV{}}}, true
				}
				return &pe.Tuple{E: []pe.Value{lex, true}}, true
			}
			cfg2.Intrinsics[isBlank.String()] = func(in *pe.Interp, args []pe.Value) (pe.Value, bool) { return false, true }
			for _, o := range pe.ExploreFn(&cfg2, func(in *pe.Interp) pe.Value {
				k = 0
				root := pe.Clone(m.initial).(*pe.Ptr)
				in.Store(in.FieldPtr(root, sp.flag), true)
				sv := root.Obj.Val.(*pe.StructV)
				stT := sv.T.Underlying().(*types.Struct)
				for i := 0; i < stT.NumFields(); i++ {
					if stT.Field(i).Name() == "dataSize" {
						sv.F[i] = pe.NewSym("N", stT.Field(i).Type())
					}
				}
				return in.Call(length, []pe.Value{root})
			}) {
				if o.Undecided != "" || o.Panicked {
					continue
				}
				skip := false
				for kk, v := range o.ChoiceMap() {
					if strings.HasPrefix(kk, "ord(") && strings.HasSuffix(kk, ",0)") && v != ">" {
						skip = true
					}
				}
				if skip {
					continue
				}
				ret := o.Ret
				if tp, ok := ret.(*pe.Tuple); ok && len(tp.E) == 2 {
					ret = tp.E[0]
				}
				if sy, ok := ret.(*pe.Sym); !ok || sy.Expr != "e2" {
					return sum, table, fmt.Errorf("after a lexeme of type %s followed by another lexeme Length() returns %s: it stops at the %s although the text goes on (an annotation after a closing bracket is part of the text)", tn, pe.Show(ret), tn)
				}
			}
		}
	}
	// the bytes tested by the trimming loop are data[P-1], data[P-2], ...
	sum.trimOK = true
	for _, rw := range live {
		n, off, _ := form(rw)
		if n == 0 {
			continue
		}
		p := off + nBlank(rw)
		for j, a := range rw.bl {
			want := (&pe.Sym{Expr: fmt.Sprintf("e%d", n), Off: p - int64(j) - 1}).Name()
			if !strings.Contains(a, "[‹"+want+"›]") {
				sum.trimOK, sum.trimWhy = false, fmt.Sprintf("trimming step %d tests %s, expected the byte at index %s", j+1, a, want)
			}
		}
		if nBlank(rw) > 0 && len(rw.bl) < int(nBlank(rw)) {
			sum.trimOK, sum.trimWhy = false, "a blank was trimmed without testing a byte"
		}
	}
	sort.Strings(table)
	return sum, table, nil
}

func runLenTrim(c *load.Ctx, r *report.RuleResult) {
	for _, sp := range []lenSpec{
		{rel: "formats/json", ctor: "newScanner", typ: "scanner", flag: "allowTrailingNonSpaceCharacters", name: "json"},
		{rel: "notations/jschema/internal/scanner", ctor: "New", typ: "Scanner", flag: "lengthComputing", name: "schema"},
		{rel: "rules/enum", ctor: "newScanner", typ: "scanner", flag: "lengthComputing", name: "enum"},
	} {
		m, err := newScanModel(c, sp.rel, sp.ctor, sp.typ, nil)
		if err != nil {
			r.Unk("anchor|"+sp.rel, "", err.Error())
			continue
		}
		if sp.name == "enum" {
			if err := prepareEnumModel(c, m); err != nil {
				r.Unk("anchor|"+sp.rel, "", err.Error())
				continue
			}
		}
		sum, table, err := lengthSummary(c, m, sp)
		key := "trim|" + sp.rel + "." + sp.typ + ".Length"
		if os.Getenv("JSV_DEBUG_LEN") != "" {
			for _, l := range table {
				r.Note("%s: %s", sp.name, l)
			}
		}
		if err != nil {
			r.Unk(key, c.Pos(m.next.Pos()), err.Error()+" — paths: "+strings.Join(table, " ; "))
			continue
		}
		if !sum.trimOK {
			r.Bad(key, "", sum.trimWhy)
			continue
		}
		r.OK(key, "", "pre-trim value: "+sum.String()+"; trailing blanks are stepped over one byte at a time")
		// Next()'s failure is Length()'s failure: the product rules read "the scanner rejects" as
		// "Len returns an error", which holds only while Length() lets the panic through
		pkey := "propagates|" + sp.rel + "." + sp.typ + ".Length"
		lf := c.Func(sp.rel, sp.typ+".Length")
		if lf == nil {
			r.Unk(pkey, "", "method Length not found")
			continue
		}
		where := ""
		var walk func(f *ssa.Function)
		walk = func(f *ssa.Function) {
			for _, b := range f.Blocks {
				for _, ins := range b.Instrs {
					if call, ok := ins.(ssa.CallInstruction); ok {
						if bi, ok := call.Common().Value.(*ssa.Builtin); ok && bi.Name() == "recover" {
							where = c.Pos(ins.Pos())
						}
					}
				}
			}
			for _, a := range f.AnonFuncs {
				walk(a)
			}
		}
		walk(lf)
		if where != "" {
			r.Bad(pkey, where, "Length() recovers from a panic of Next(): a text that the scanner rejects (cut short inside a value, broken syntax) then has a length instead of an error")
		} else {
			r.OK(pkey, c.Pos(lf.Pos()), "no recover in Length(): a rejection by Next() reaches the caller")
		}
	}
}

// lenGhost is the ghost state of the product walk (all offsets relative to the byte just consumed).
type lenGhost struct {
	vSet   bool
	v      int // V = L + v; capped at -6 ("at least six bytes back")
	fSet   bool
	post   int // bytes consumed after the first foreign byte
	gValid bool
	gDesc  string
}

func (g lenGhost) key() string {
	return fmt.Sprintf("v=%v/%d f=%v/%d g=%v", g.vSet, g.v, g.fSet, g.post, g.gValid)
}

func relOff(s string) (int, bool) {
	switch {
	case s == "L":
		return 0, true
	case strings.HasPrefix(s, "L+") || strings.HasPrefix(s, "L-"):
		var k int
		if _, err := fmt.Sscanf(s[1:], "%d", &k); err == nil {
			return k, true
		}
	}
	return 0, false
}

type lenState struct {
	impl  *implState
	ref   spec.JRef
	ghost lenGhost
	path  string
}

func runLen(c *load.Ctx, r *report.RuleResult, sp lenSpec, maxDepth int) {
	m, err := newScanModel(c, sp.rel, sp.ctor, sp.typ, func(m *scanModel, in *pe.Interp, s *pe.Ptr) {
		in.Store(in.FieldPtr(s, sp.flag), true)
	})
	if err != nil {
		r.Unk("anchor|"+sp.rel+" scanner", "", err.Error())
		return
	}
	enumMode := sp.name == "enum"
	jsonMode := sp.name == "json"
	if enumMode {
		if err := prepareEnumModel(c, m); err != nil {
			r.Unk("anchor|"+sp.rel, "", err.Error())
			return
		}
	}
	sum, table, err := lengthSummary(c, m, sp)
	if err != nil {
		r.Unk("summary|"+sp.rel+"."+sp.typ+".Length", c.Pos(m.next.Pos()), err.Error()+" — paths: "+strings.Join(table, " ; "))
		return
	}
	r.OK("summary|"+sp.rel+"."+sp.typ+".Length", "", "what Length() holds before trimming, read off its own code: "+sum.String())
	// apply processes the lexemes delivered on one step; stop reports that the end-top marker was seen
	apply := func(g *lenGhost, evs []spec.Ev, atEOF bool) (stop bool, problem string) {
		for _, e := range evs {
			end, ok := relOff(e.End)
			if !ok {
				return false, "span of " + e.String() + " is not a known offset from the consumed byte"
			}
			if e.Type == "EndTop" {
				if !sum.keep {
					g.set(end+int(sum.a), e, atEOF)
				}
				return true, ""
			}
			k := end + int(sum.b)
			if sum.hasSize {
				switch {
				case atEOF && end == 1:
					k = end + int(sum.bAtSize)
				case !atEOF && end >= 1:
					return false, "lexeme " + e.String() + " ends after the consumed byte: whether End = dataSize is not known"
				}
			}
			g.set(k, e, atEOF)
		}
		return false, ""
	}
	start := lenState{impl: m.Initial(), ref: spec.JRef{Trailing: true}}
	seen := map[string]bool{start.impl.key + "\x00" + start.ref.Key() + "\x00" + start.ghost.key(): true}
	queue := []lenState{start}
	reported := map[string]bool{}
	okClass := map[string]int{}
	bad := func(kind string, ps lenState, input, detail string) {
		key := fmt.Sprintf("%s|impl=%s|ref=%s", kind, implStepName(m, ps.impl), refName(ps.ref))
		if reported[key] {
			return
		}
		reported[key] = true
		r.Bad(key, c.Pos(m.next.Pos()), fmt.Sprintf("%s; shortest text reaching the state: %s then %s", detail, showInput(ps.path), input))
	}
	unk := func(kind string, ps lenState, input, detail string) {
		key := fmt.Sprintf("%s|impl=%s|ref=%s", kind, implStepName(m, ps.impl), refName(ps.ref))
		if reported[key] {
			return
		}
		reported[key] = true
		r.Unk(key, c.Pos(m.next.Pos()), fmt.Sprintf("%s; text: %s then %s", detail, showInput(ps.path), input))
	}
	pairs, transitions, stops := 0, 0, 0
	postBytes := []int{'x', 'G', '1', ' ', '\n', '\r', '\t', ':', '-'}
	for len(queue) > 0 {
		if len(reported) >= maxDivergences {
			r.Note("exploration stopped after %d divergences (breadth-first: the shortest texts are reported)", len(reported))
			break
		}
		ps := queue[0]
		queue = queue[1:]
		pairs++
		// ---- end of input
		{
			evR, accR := ps.ref.EOF()
			ir := m.Feed(ps.impl, -2)
			transitions++
			g := ps.ghost
			if !g.vSet && accR {
				for _, e := range evR {
					if e.Type == "LiteralEnd" {
						if k, ok := relOff(e.End); ok {
							g.vSet, g.v = true, k
						}
					}
				}
			}
			switch ir.Kind {
			case "undecided":
				unk("eof-undecided", ps, "end of input", ir.Detail)
			case "crash":
				bad("eof-crash", ps, "end of input", "Length() fails with a non-library panic at end of input: "+ir.Detail)
			case "end":
				if !accR {
					// A text of blanks only is a don't-care cell: the schema and enum notations accept the
					// empty text (Len 0 is then right), and for JSON the emptiness test lives in Document,
					// outside Length(). A text that has begun a value and is cut short must not get a length.
					if ps.ref.Any {
						bad("eof-incomplete", ps, "end of input", "Length() returns a length although the text is not a complete value")
					}
					break
				}
				_, problem := apply(&g, ir.Events, true)
				stops++
				switch {
				case problem != "":
					unk("eof-span", ps, "end of input", problem)
				case !g.gValid:
					bad("eof-length", ps, "end of input", "at end of input the value Length() holds before trimming is wrong: "+g.gDesc)
				default:
					okClass["eof|"+refName(ps.ref)]++
				}
			default: // reject
				if accR {
					bad("eof-error", ps, "end of input", "Length() fails ("+ir.Code+") although the text is a complete value")
				}
			}
		}
		if ps.ref.Depth() > maxDepth {
			continue
		}
		feed := func(b int, nref spec.JRef, evR []spec.Ev, foreign bool) {
			in := fmt.Sprintf("%q", string([]byte{byte(b)}))
			ir := m.Feed(ps.impl, b)
			transitions++
			switch ir.Kind {
			case "undecided", "lookahead":
				unk("byte-undecided", ps, in, ir.Kind+": "+ir.Detail)
				return
			case "crash":
				if !ir.EndedEarly {
					bad("crash", ps, in, "scanner fails with a non-library panic: "+ir.Detail)
					return
				}
			case "reject":
				if foreign || ps.ref.Ended {
					bad("foreign-error", ps, in, "Length() fails ("+ir.Code+") on a foreign byte after a complete value")
				}
				return
			}
			g := ps.ghost
			// one byte further
			if g.vSet && g.v > -6 {
				g.v--
			}
			if g.fSet && g.post < 3 {
				g.post++
			}
			if !g.vSet && len(nref.Stack) == 0 && nref.Any {
				for _, e := range evR {
					if e.Type == "LiteralEnd" || e.Type == "ObjectEnd" || e.Type == "ArrayEnd" {
						if k, ok := relOff(e.End); ok {
							g.vSet, g.v = true, k
						}
					}
				}
			}
			if foreign && !g.fSet {
				g.fSet, g.post = true, 0
			}
			stop, problem := apply(&g, ir.Events, false)
			if ir.EndedEarly {
				// Next reports the end of the stream at this byte: Length() stops with what it holds
				stop = true
			}
			if problem != "" {
				unk("span", ps, in, problem)
				return
			}
			if stop {
				stops++
				kind := "marker-after-blanks"
				if g.vSet && g.v == -1 && g.post == 0 {
					kind = "marker-direct"
				}
				if g.post > 0 {
					kind = "marker-late"
				}
				switch {
				case !g.vSet:
					bad(kind, ps, in, "the end-top marker is delivered before the top-level value is complete")
				case !g.gValid:
					bad(kind, ps, in, "when the scan stops at the end-top marker the value Length() holds before trimming is wrong: "+g.gDesc)
				default:
					okClass[kind+"|"+refName(ps.ref)]++
				}
				return
			}
			k := ir.Next.key + "\x00" + nref.Key() + "\x00" + g.key()
			if !seen[k] {
				seen[k] = true
				queue = append(queue, lenState{impl: ir.Next, ref: nref, ghost: g, path: ps.path + string([]byte{byte(b)})})
			}
		}
		if ps.ref.Ended {
			// after the first foreign byte: the scanner has not delivered the marker yet
			for _, b := range postBytes {
				feed(b, ps.ref, nil, false)
			}
			continue
		}
		for b := 0; b < 256; b++ {
			nref, evR, rejR := ps.ref.Step(byte(b))
			if rejR {
				continue
			}
			foreign := nref.Ended
			if !jsonMode {
				// annotation and comment starters continue a schema / enum text
				if foreign && (b == '/' || b == '#') {
					continue
				}
				// documented deviation: JSight examples may not use exponents
				if (b == 'e' || b == 'E') && ps.ref.Phase == 7 && ps.ref.Lit != nref.Lit && nref.Lit == 13 {
					continue
				}
			}
			if enumMode {
				if ps.ref.Phase == 0 && b != '[' && !isBlankByte(b) {
					continue
				}
				if (b == '[' || b == '{') && len(ps.ref.Stack) > 0 {
					continue
				}
			}
			feed(b, nref, evR, foreign)
		}
	}
	for _, k := range sortedKeys(okClass) {
		r.OK("stop|"+k, "", fmt.Sprintf("%d state(s): the pre-trim length lies between the end of the value + 1 and the first foreign byte", okClass[k]))
	}
	r.OK(fmt.Sprintf("product|depth<=%d", maxDepth), c.Pos(m.next.Pos()), fmt.Sprintf("%d (scanner state, reference state, ghost) triples, %d transitions, %d stops checked, %d interpreter runs", pairs, transitions, stops, m.runs))
	r.Stat("triples", pairs)
	r.Stat("transitions", transitions)
	r.Stat("stops", stops)
}

// set records that Length() now holds L+k, and whether that lies in [V+1, F].
func (g *lenGhost) set(k int, e spec.Ev, atEOF bool) {
	g.gValid, g.gDesc = true, ""
	if !g.vSet {
		g.gValid, g.gDesc = false, "it was last set by "+e.String()+", before the top-level value ended"
		return
	}
	// lower bound: V+1 <= L+k  (v capped at -6 means V <= L-6)
	if k < g.v+1 {
		g.gValid = false
		g.gDesc = fmt.Sprintf("after %s it is %s, but the top-level value ends at %s: the prefix cuts the value short", e.String(), offName(k), offName(g.v))
		return
	}
	// upper bound: L+k <= F (F = L-post when known; otherwise F >= L+1, or the input ends at L+1)
	hi := 1
	if g.fSet {
		hi = -g.post
		if g.post >= 3 { // capped: the first foreign byte is at least three bytes back
			hi = -1000
		}
	}
	if k > hi {
		g.gValid = false
		g.gDesc = fmt.Sprintf("after %s it is %s, beyond the first foreign byte (%s): the prefix includes foreign text", e.String(), offName(k), offName(hi))
	}
}

func offName(k int) string {
	switch {
	case k == 0:
		return "L"
	case k > 0:
		return fmt.Sprintf("L+%d", k)
	}
	return fmt.Sprintf("L%d", k)
}

// --- length mode is the normal mode until the first byte the normal mode refuses -------------------

func init() {
	for _, sp := range []lenSpec{
		{rel: "notations/jschema/internal/scanner", ctor: "New", typ: "Scanner", flag: "lengthComputing", name: "schema"},
		{rel: "rules/enum", ctor: "newScanner", typ: "scanner", flag: "lengthComputing", name: "enum"},
	} {
		sp := sp
		register(&Rule{ID: "LEN-mode-" + sp.name, Min: 2, Run: func(c *load.Ctx, r *report.RuleResult) { runLenMode(c, r, sp) },
			Doc: "scanner " + sp.name + ": computing a length reads the text exactly as checking it does, up to the first byte checking refuses: the scanner model with the length flag set and the one without it, explored side by side from the start over all 256 bytes, accept the same bytes with the same lexical events wherever the normal mode accepts — annotations, notes and comments included — so the length mode may differ only in what it does with a byte that is foreign to the notation (an annotation glued to a top-level scalar is part of the schema, not the beginning of the enclosing text)"})
	}
}

func runLenMode(c *load.Ctx, r *report.RuleResult, sp lenSpec) {
	normal, err := newScanModel(c, sp.rel, sp.ctor, sp.typ, nil)
	if err != nil {
		r.Unk("anchor|"+sp.rel+" scanner", "", err.Error())
		return
	}
	length, err := newScanModel(c, sp.rel, sp.ctor, sp.typ, func(m *scanModel, in *pe.Interp, s *pe.Ptr) {
		in.Store(in.FieldPtr(s, sp.flag), true)
	})
	if err != nil {
		r.Unk("anchor|"+sp.rel+" scanner", "", err.Error())
		return
	}
	if sp.name == "enum" {
		for _, m := range []*scanModel{normal, length} {
			if err := prepareEnumModel(c, m); err != nil {
				r.Unk("anchor|"+sp.rel, "", err.Error())
				return
			}
		}
	}
	type pair struct {
		n, l *implState
		path string
	}
	start := pair{normal.Initial(), length.Initial(), ""}
	seen := map[string]bool{start.n.key + "\x00" + start.l.key: true}
	queue := []pair{start}
	const maxPairs = 1500
	pairs, compared, skipped := 0, 0, 0
	perStep := map[string]int{}
	bad := map[string]bool{}
	for len(queue) > 0 && pairs < maxPairs {
		p := queue[0]
		queue = queue[1:]
		pairs++
		if len(normal.stackTypes(p.n)) > 4 {
			continue
		}
		step := baseStepName(implStepName(normal, p.n))
		for b := 0; b < 256; b++ {
			rn := normal.Feed(p.n, b)
			if rn.Kind != "ok" {
				if rn.Kind == "lookahead" || rn.Kind == "undecided" {
					skipped++
				}
				continue
			}
			rl := length.Feed(p.l, b)
			if rl.Kind == "lookahead" || rl.Kind == "undecided" {
				skipped++
				continue
			}
			compared++
			perStep[step]++
			key := "lenmode|impl=" + step
			in := fmt.Sprintf("%q", string([]byte{byte(b)}))
			switch {
			case bad[key]:
			case rl.Kind != "ok":
				bad[key] = true
				r.Bad(key, c.Pos(normal.next.Pos()), fmt.Sprintf("after %q the byte %s is accepted when the text is checked but ends the scan (%s %s) when its length is computed", p.path, in, rl.Kind, rl.Code))
			case evsString(rn.Events) != evsString(rl.Events):
				bad[key] = true
				r.Bad(key, c.Pos(normal.next.Pos()), fmt.Sprintf("after %q the byte %s delivers %s when the text is checked and %s when its length is computed: the length is that of another text", p.path, in, orNone(evsString(rn.Events)), orNone(evsString(rl.Events))))
			case baseStepName(implStepName(normal, rn.Next)) != baseStepName(implStepName(length, rl.Next)):
				bad[key] = true
				r.Bad(key, c.Pos(normal.next.Pos()), fmt.Sprintf("after %q the byte %s leads to %s when the text is checked and to %s when its length is computed", p.path, in, baseStepName(implStepName(normal, rn.Next)), baseStepName(implStepName(length, rl.Next))))
			}
			if rl.Kind != "ok" || bad[key] {
				continue
			}
			k := rn.Next.key + "\x00" + rl.Next.key
			if !seen[k] {
				seen[k] = true
				queue = append(queue, pair{rn.Next, rl.Next, p.path + string([]byte{byte(b)})})
			}
		}
	}
	for _, st := range sortedKeys(perStep) {
		if !bad["lenmode|impl="+st] {
			r.OK("lenmode|impl="+st, "", fmt.Sprintf("%d transitions: same verdict, events and successor in both modes", perStep[st]))
		}
	}
	r.Note("scanner %s: %d state pairs, %d transitions compared, %d with look-ahead skipped", sp.name, pairs, compared, skipped)
}

func orNone(s string) string {
	if s == "" {
		return "nothing"
	}
	return s
}
