package rules

import (
	"fmt"
	"sort"
	"strings"

	"golang.org/x/tools/go/ssa"

	"verif/internal/load"
	"verif/internal/report"
)

// PIPE-1 — every compile step is applied to every node.

func init() {
	register(&Rule{ID: "PIPE-1", Min: 8, Run: runPIPE1,
		Doc: "every compile step is applied to every node: in schemaCompiler.compileNode each call of a step (a method of the compiler taking the node) that stands outside the branch for container nodes is on every path from entry to a normal return — a step can be left only by panicking; an early return for \"nodes that need nothing more\" (a node of type any, a node without rules) silently skips the steps after it, such as the one that records the node's key as required in its parent"})
}

func runPIPE1(c *load.Ctx, r *report.RuleResult) {
	fn := c.Func(pkgLoader, "schemaCompiler.compileNode")
	if fn == nil {
		r.Unk("anchor|loader.schemaCompiler.compileNode", "", "not found")
		return
	}
	type step struct {
		name string
		call *ssa.Call
	}
	var steps []step
	for _, b := range fn.Blocks {
		for _, ins := range b.Instrs {
			call, ok := ins.(*ssa.Call)
			if !ok {
				continue
			}
			sc := call.Call.StaticCallee()
			if sc == nil || sc.Signature.Recv() == nil || load.FuncPkgRel(sc) != pkgLoader {
				continue
			}
			if !strings.Contains(sc.Signature.Recv().Type().String(), "schemaCompiler") {
				continue
			}
			steps = append(steps, step{sc.Name(), call})
		}
	}
	sort.Slice(steps, func(i, j int) bool { return steps[i].name < steps[j].name })
	// the branch for containers: blocks dominated by the success edge of the BranchNode assertion
	container := map[*ssa.BasicBlock]bool{}
	for _, b := range fn.Blocks {
		if fail := commaOkFailureEdge(b); fail >= 0 && len(b.Succs) == 2 {
			okSucc := b.Succs[1-fail]
			for _, x := range fn.Blocks {
				if okSucc.Dominates(x) {
					container[x] = true
				}
			}
		}
	}
	for _, s := range steps {
		key := "step|" + s.name
		if container[s.call.Block()] {
			r.OK(key, c.Pos(s.call.Pos()), "inside the branch for container nodes")
			continue
		}
		blk := s.call.Block()
		p := escapes(fn.Blocks[0], func(b *ssa.BasicBlock) bool { return b == blk }, endsInReturn)
		if p != nil {
			r.Bad(key, c.Pos(s.call.Pos()), fmt.Sprintf("compileNode can return normally without running %s (through %s): the step is skipped for the nodes that take that way", s.name, blockPath(c, p)))
		} else {
			r.OK(key, c.Pos(s.call.Pos()), "on every path to a normal return")
		}
	}
	r.Stat("steps", len(steps))
}

// PIPE-2 — the once-only compile step runs every stage.

func init() {
	register(&Rule{ID: "PIPE-2", Min: 4, Run: runPIPE2,
		Doc: "the once-only compile step runs every stage for every schema: in the function handed to compileOnce.Do by (*Schema).compile, the calls of loader.CompileAllOf, loader.AddUnnamedTypes, checker.CheckRootSchema and checker.CheckRecursion are each on every path from entry to a normal return, the way out after a failed load (the true edge of an `err != nil` test) aside — a stage that runs only for schemas registered under their own name, or only when some option is set, leaves the others unchecked (a required cycle below an anonymous root passes Check, and Example does not end)"})
}

func runPIPE2(c *load.Ctx, r *report.RuleResult) {
	compile := c.Func("notations/jschema", "Schema.compile")
	if compile == nil {
		r.Unk("anchor|jschema.Schema.compile", "", "not found")
		return
	}
	var step *ssa.Function
	for _, b := range compile.Blocks {
		for _, ins := range b.Instrs {
			if call, ok := ins.(*ssa.Call); ok && len(call.Call.Args) >= 2 {
				if sc := call.Call.StaticCallee(); sc != nil && load.FuncPkgRel(sc) == "internal/sync" {
					switch a := call.Call.Args[1].(type) {
					case *ssa.MakeClosure:
						step, _ = a.Fn.(*ssa.Function)
					case *ssa.Function:
						step = a
					}
				}
			}
		}
	}
	if step == nil {
		r.Unk("anchor|compileOnce.Do", c.Pos(compile.Pos()), "the function handed to the once-wrapper was not found")
		return
	}
	stages := []struct{ rel, name string }{
		{pkgLoader, "CompileAllOf"}, {pkgLoader, "AddUnnamedTypes"}, {pkgChecker, "CheckRootSchema"}, {pkgChecker, "CheckRecursion"},
	}
	// the failure edge of `err != nil`
	errFail := func(b *ssa.BasicBlock) int {
		if len(b.Instrs) == 0 {
			return -1
		}
		ifi, ok := b.Instrs[len(b.Instrs)-1].(*ssa.If)
		if !ok {
			return -1
		}
		bo, ok := ifi.Cond.(*ssa.BinOp)
		if !ok {
			return -1
		}
		isNil := func(v ssa.Value) bool { k, ok := v.(*ssa.Const); return ok && k.IsNil() }
		if !(isNil(bo.X) || isNil(bo.Y)) {
			return -1
		}
		other := bo.X
		if isNil(bo.X) {
			other = bo.Y
		}
		if !isErrType(other.Type()) {
			return -1
		}
		switch bo.Op.String() {
		case "!=":
			return 0
		case "==":
			return 1
		}
		return -1
	}
	for _, st := range stages {
		key := "stage|" + st.name
		callee := c.Func(st.rel, st.name)
		if callee == nil {
			r.Unk(key, "", "stage function not found")
			continue
		}
		sites := callSites(step, callee)
		if len(sites) == 0 {
			r.Bad(key, c.Pos(step.Pos()), "the compile step does not call "+st.name)
			continue
		}
		blk := map[*ssa.BasicBlock]bool{}
		for _, s := range sites {
			blk[s.Block()] = true
		}
		// search a path entry -> return avoiding the stage, not taking failure edges
		type item struct {
			b    *ssa.BasicBlock
			path []*ssa.BasicBlock
		}
		seen := map[*ssa.BasicBlock]bool{}
		queue := []item{{step.Blocks[0], []*ssa.BasicBlock{step.Blocks[0]}}}
		var escape []*ssa.BasicBlock
		for len(queue) > 0 && escape == nil {
			it := queue[0]
			queue = queue[1:]
			if seen[it.b] || blk[it.b] {
				continue
			}
			seen[it.b] = true
			if endsInReturn(it.b) {
				escape = it.path
				break
			}
			fail := errFail(it.b)
			for i, su := range it.b.Succs {
				if i == fail {
					continue
				}
				queue = append(queue, item{su, append(append([]*ssa.BasicBlock{}, it.path...), su)})
			}
		}
		if escape != nil {
			r.Bad(key, c.Pos(sites[0].Pos()), fmt.Sprintf("the compile step can return normally without running %s (through %s)", st.name, blockPath(c, escape)))
		} else {
			r.OK(key, c.Pos(sites[0].Pos()), "on every path to a normal return")
		}
	}
}

// PIPE-3 — every numeral is normalised.

func init() {
	register(&Rule{ID: "PIPE-3", Min: 3, Run: runPIPE3,
		Doc: "every numeral is normalised before it is handed out: in internal/json (*scanner).Scan, every path from entry to a return without error passes the call that trims the leading zeros of the integer part, the call that trims the trailing zeros of the fraction, and the test on the remaining digits that clears the sign of zero — comparison (Cmp), fraction length and String all assume the normal form, so a shortcut for \"plain integers\" makes 0 compare above 0.5 and -0 below 0"})
}

func runPIPE3(c *load.Ctx, r *report.RuleResult) {
	scan := c.Func(pkgJSON, "scanner.Scan")
	if scan == nil {
		r.Unk("anchor|json.scanner.Scan", "", "not found")
		return
	}
	// must-pass blocks
	must := map[string]map[*ssa.BasicBlock]bool{"trimLeadingZerosInTheIntegerPart": {}, "trimTrailingZerosInTheFractionalPart": {}, "sign-of-zero test": {}}
	for _, b := range scan.Blocks {
		for _, ins := range b.Instrs {
			switch x := ins.(type) {
			case *ssa.Call:
				if sc := x.Call.StaticCallee(); sc != nil {
					if m, ok := must[sc.Name()]; ok {
						m[b] = true
					}
				}
			case *ssa.Store:
				// n.neg = false under a test on the digits: the block that tests is the predecessor
				if fa, ok := x.Addr.(*ssa.FieldAddr); ok && fieldName(fa.X.Type(), fa.Field) == "neg" {
					if k, ok := x.Val.(*ssa.Const); ok && k.Value != nil && k.Value.String() == "false" {
						for _, p := range b.Preds {
							must["sign-of-zero test"][p] = true
						}
					}
				}
			}
		}
	}
	okReturn := func(b *ssa.BasicBlock) bool {
		if len(b.Instrs) == 0 {
			return false
		}
		ret, ok := b.Instrs[len(b.Instrs)-1].(*ssa.Return)
		if !ok || len(ret.Results) == 0 {
			return false
		}
		k, isConst := ret.Results[len(ret.Results)-1].(*ssa.Const)
		return isConst && k.IsNil()
	}
	for _, name := range sortedKeys(must) {
		key := "normalise|" + name
		blocks := must[name]
		if len(blocks) == 0 {
			r.Bad(key, c.Pos(scan.Pos()), "Scan does not contain the step "+name)
			continue
		}
		seen := map[*ssa.BasicBlock]bool{}
		type item struct {
			b    *ssa.BasicBlock
			path []*ssa.BasicBlock
		}
		queue := []item{{scan.Blocks[0], []*ssa.BasicBlock{scan.Blocks[0]}}}
		var escape []*ssa.BasicBlock
		for len(queue) > 0 && escape == nil {
			it := queue[0]
			queue = queue[1:]
			if seen[it.b] || blocks[it.b] {
				continue
			}
			seen[it.b] = true
			if okReturn(it.b) {
				escape = it.path
				break
			}
			for _, su := range it.b.Succs {
				queue = append(queue, item{su, append(append([]*ssa.BasicBlock{}, it.path...), su)})
			}
		}
		if escape != nil {
			r.Bad(key, c.Pos(scan.Pos()), fmt.Sprintf("Scan can return a number without %s (through %s): the number is handed out in a form Cmp and LengthOfFractionalPart do not expect", name, blockPath(c, escape)))
		} else {
			r.OK(key, c.Pos(scan.Pos()), "on every path to a successful return")
		}
	}
}
