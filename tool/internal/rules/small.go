package rules

import (
	"fmt"
	"go/types"
	"sort"
	"strings"

	"golang.org/x/tools/go/ssa"

	"verif/internal/load"
	"verif/internal/report"
)

// Small structural rules: ordering (dominance), who-may-call, effects.

func init() {
	register(&Rule{ID: "OR-1", Min: 4, Run: runOR1,
		Doc: "the AST is built from the loaded schema before any compilation step rewrites constraints: inside the once-only loader the call building the AST dominates loader.CompileBasic, and inside the once-only compiler the call of load() dominates CompileAllOf, AddUnnamedTypes and the checkers; GetAST returns the tree stored by load"})
	register(&Rule{ID: "FL-1", Min: 15, Run: runFL1,
		Doc: "no binary floating point on the numeric path: no library function holds a float/complex-typed value or calls strconv.ParseFloat/FormatFloat, math or math/big, except helpers that no library function calls"})
}

// callSites returns the call instructions in fn (not in nested closures) whose static callee is one
// of the given functions.
func callSites(fn *ssa.Function, callees ...*ssa.Function) []*ssa.Call {
	var out []*ssa.Call
	for _, b := range fn.Blocks {
		for _, ins := range b.Instrs {
			if call, ok := ins.(*ssa.Call); ok {
				if sc := call.Call.StaticCallee(); sc != nil {
					for _, c := range callees {
						if sc == c {
							out = append(out, call)
						}
					}
				}
			}
		}
	}
	return out
}

// dominatesInstr reports whether instruction a dominates instruction b (same function).
func dominatesInstr(a, b ssa.Instruction) bool {
	ba, bb := a.Block(), b.Block()
	if ba == bb {
		for _, ins := range ba.Instrs {
			if ins == a {
				return true
			}
			if ins == b {
				return false
			}
		}
		return false
	}
	return ba.Dominates(bb)
}

// findCaller returns the functions (including closures) of a package that statically call callee.
func findCallers(c *load.Ctx, callee *ssa.Function) []*ssa.Function {
	var out []*ssa.Function
	for _, fn := range c.ModuleFunctions() {
		if len(callSites(fn, callee)) > 0 {
			out = append(out, fn)
		}
	}
	return out
}

func runOR1(c *load.Ctx, r *report.RuleResult) {
	const rel = "notations/jschema"
	build := c.Func(rel, "Schema.buildASTNode")
	compileBasic := c.Func(pkgLoader, "CompileBasic")
	load_ := c.Func(rel, "Schema.load")
	allOf := c.Func(pkgLoader, "CompileAllOf")
	unnamed := c.Func(pkgLoader, "AddUnnamedTypes")
	checkRoot := c.Func(pkgChecker, "CheckRootSchema")
	for n, f := range map[string]*ssa.Function{"Schema.buildASTNode": build, "loader.CompileBasic": compileBasic, "Schema.load": load_,
		"loader.CompileAllOf": allOf, "loader.AddUnnamedTypes": unnamed, "checker.CheckRootSchema": checkRoot} {
		if f == nil {
			r.Unk("anchor|"+n, "", "function not found")
		}
	}
	if build == nil || compileBasic == nil || load_ == nil || allOf == nil || unnamed == nil || checkRoot == nil {
		return
	}
	// every call of a rewriting step anywhere in the library must be dominated, in its function, by
	// the step that has to come first
	check := func(key string, later *ssa.Function, first *ssa.Function, what string) {
		var callers []*ssa.Function
		for _, f := range findCallers(c, later) {
			// the public Schema object of notations/jschema is what GetAST belongs to; nested anonymous
			// schemas compiled inside the loader have no AST of their own
			if load.FuncPkgRel(f) == rel {
				callers = append(callers, f)
			}
		}
		if len(callers) == 0 {
			r.Unk(key, "", "no static call of "+later.Name()+" found")
			return
		}
		for _, fn := range callers {
			for _, site := range callSites(fn, later) {
				ok := false
				for _, f := range callSites(fn, first) {
					if dominatesInstr(f, site) {
						ok = true
					}
				}
				k := key + "|in=" + load.FuncKey(fn)
				if ok {
					r.OK(k, c.Pos(site.Pos()), what)
				} else {
					r.Bad(k, c.Pos(site.Pos()), fmt.Sprintf("%s is called without a dominating call of %s: %s would not hold", later.Name(), first.Name(), what))
				}
			}
		}
	}
	check("order|CompileBasic-after-buildASTNode", compileBasic, build, "the AST mirrors the schema text because it is built before the compiler rewrites constraints")
	check("order|CompileAllOf-after-load", allOf, load_, "allOf expansion works on a loaded schema and after the AST was taken")
	check("order|AddUnnamedTypes-after-load", unnamed, load_, "type hoisting happens after the AST was taken")
	check("order|CheckRootSchema-after-CompileAllOf", checkRoot, allOf, "the checker sees inherited properties")
	// the tree handed out is the one stored by the loader: GetAST reads the field buildASTNode's
	// result is stored to
	getAST := c.Func(rel, "Schema.GetAST")
	if getAST == nil {
		r.Unk("anchor|Schema.GetAST", "", "not found")
		return
	}
	stored := map[string]bool{}
	for _, fn := range findCallers(c, build) {
		for _, site := range callSites(fn, build) {
			for _, ref := range *site.Referrers() {
				if st, ok := ref.(*ssa.Store); ok {
					if fa, ok := st.Addr.(*ssa.FieldAddr); ok {
						stored[fieldName(fa.X.Type(), fa.Field)] = true
					}
				}
			}
		}
	}
	read := map[string]bool{}
	for _, b := range getAST.Blocks {
		for _, ins := range b.Instrs {
			if fa, ok := ins.(*ssa.FieldAddr); ok {
				read[fieldName(fa.X.Type(), fa.Field)] = true
			}
		}
	}
	common := ""
	for f := range stored {
		if read[f] {
			common = f
		}
	}
	if common == "" {
		r.Bad("ast|GetAST-returns-stored-tree", c.Pos(getAST.Pos()), fmt.Sprintf("buildASTNode's result is stored to %v but GetAST reads %v", sortedKeys(stored), sortedKeys(read)))
	} else {
		r.OK("ast|GetAST-returns-stored-tree", c.Pos(getAST.Pos()), "field "+common)
	}
}

func isFloatish(t types.Type) bool {
	if t == nil {
		return false
	}
	if b, ok := t.Underlying().(*types.Basic); ok {
		return b.Info()&(types.IsFloat|types.IsComplex) != 0
	}
	return false
}

func runFL1(c *load.Ctx, r *report.RuleResult) {
	floaty := map[*ssa.Function]string{}
	fns := c.ModuleFunctions()
	for _, fn := range fns {
		why := ""
		for _, p := range fn.Params {
			if isFloatish(p.Type()) {
				why = "parameter " + p.Name()
			}
		}
		if res := fn.Signature.Results(); res != nil {
			for i := 0; i < res.Len(); i++ {
				if isFloatish(res.At(i).Type()) {
					why = "result of floating-point type"
				}
			}
		}
		for _, b := range fn.Blocks {
			for _, ins := range b.Instrs {
				if v, ok := ins.(ssa.Value); ok && isFloatish(v.Type()) {
					why = "value " + v.Name() + " of type " + v.Type().String()
				}
				if call, ok := ins.(ssa.CallInstruction); ok {
					if sc := call.Common().StaticCallee(); sc != nil && sc.Pkg != nil && sc.Name() != "init" {
						switch p := sc.Pkg.Pkg.Path(); {
						case p == "math" || p == "math/big" || p == "math/cmplx":
							why = "call of " + p + "." + sc.Name()
						case p == "strconv" && (strings.Contains(sc.Name(), "Float") || strings.Contains(sc.Name(), "Complex")):
							why = "call of strconv." + sc.Name()
						}
					}
				}
			}
		}
		if why != "" {
			floaty[fn] = why
		}
	}
	// callers among library functions (CHA over-approximates dynamic calls)
	cg := c.CHA()
	var list []*ssa.Function
	for fn := range floaty {
		list = append(list, fn)
	}
	sort.Slice(list, func(i, j int) bool { return load.FuncKey(list[i]) < load.FuncKey(list[j]) })
	flagged := map[*ssa.Function]bool{}
	for _, fn := range list {
		key := "float|" + load.FuncKey(fn)
		node := cg.Nodes[fn]
		var callers []string
		var visit func(n *ssa.Function, depth int)
		seenW := map[*ssa.Function]bool{}
		visit = func(f *ssa.Function, depth int) {
			node := cg.Nodes[f]
			if node == nil || depth > 3 || seenW[f] {
				return
			}
			seenW[f] = true
			for _, e := range node.In {
				cf := e.Caller.Func
				if cf == nil || cf == fn || !load.FuncInModule(cf) || load.IsAux(load.FuncPkgRel(cf)) {
					continue
				}
				if cf.Synthetic != "" && cf.Name() == fn.Name() {
					visit(cf, depth+1) // method wrapper: look through it
					continue
				}
				callers = append(callers, load.FuncKey(cf))
			}
		}
		_ = node
		visit(fn, 0)
		flagged[fn] = true
		if len(callers) > 0 {
			sort.Strings(callers)
			r.Bad(key, c.Pos(fn.Pos()), fmt.Sprintf("binary floating point in library code (%s), called from %s", floaty[fn], strings.Join(uniq(callers), ", ")))
		} else {
			r.OK(key, c.Pos(fn.Pos()), "floating-point helper ("+floaty[fn]+") that no library function calls")
		}
	}
	n := 0
	for _, fn := range fns {
		if !flagged[fn] {
			n++
		}
	}
	// one obligation per package for the float-free functions
	perPkg := map[string]int{}
	for _, fn := range fns {
		if !flagged[fn] {
			perPkg[load.FuncPkgRel(fn)]++
		}
	}
	for _, p := range sortedKeys(perPkg) {
		r.OK("nofloat|"+p, "", fmt.Sprintf("%d functions without floating-point values or calls", perPkg[p]))
	}
	r.Stat("functions", len(fns))
	r.Note("%d library functions examined, %d without floating point", len(fns), n)
}

func uniq(s []string) []string {
	var out []string
	for i, x := range s {
		if i == 0 || s[i-1] != x {
			out = append(out, x)
		}
	}
	return out
}
