package rules

import (
	"fmt"
	"go/ast"
	"go/constant"
	"go/token"
	"go/types"
	"sort"
	"strings"

	"golang.org/x/tools/go/packages"

	"golang.org/x/tools/go/ssa"

	"verif/internal/load"
	"verif/internal/report"
)

// Small structural rules: ordering (dominance), who-may-call, effects.

func init() {
	register(&Rule{ID: "OR-1", Min: 4, Run: runOR1,
		Doc: "the AST is built from the loaded schema before any compilation step rewrites constraints: inside the once-only loader the call building the AST dominates loader.CompileBasic, and inside the once-only compiler the call of load() dominates CompileAllOf, AddUnnamedTypes and the checkers; GetAST returns the tree stored by load"})
	register(&Rule{ID: "FL-1", Min: 15, Run: runFL1,
		Doc: "no binary floating point on the numeric path: no library function holds a float/complex-typed value or calls strconv.ParseFloat/FormatFloat, math or math/big, except helpers that no library function calls"})
}

// callSites returns the call instructions in fn (not in nested closures) whose static callee is one
// of the given functions.
func callSites(fn *ssa.Function, callees ...*ssa.Function) []*ssa.Call {
	var out []*ssa.Call
	for _, b := range fn.Blocks {
		for _, ins := range b.Instrs {
			if call, ok := ins.(*ssa.Call); ok {
				if sc := call.Call.StaticCallee(); sc != nil {
					for _, c := range callees {
						if sc == c {
							out = append(out, call)
						}
					}
				}
			}
		}
	}
	return out
}

// dominatesInstr reports whether instruction a dominates instruction b (same function).
func dominatesInstr(a, b ssa.Instruction) bool {
	ba, bb := a.Block(), b.Block()
	if ba == bb {
		for _, ins := range ba.Instrs {
			if ins == a {
				return true
			}
			if ins == b {
				return false
			}
		}
		return false
	}
	return ba.Dominates(bb)
}

// findCaller returns the functions (including closures) of a package that statically call callee.
func findCallers(c *load.Ctx, callee *ssa.Function) []*ssa.Function {
	var out []*ssa.Function
	for _, fn := range c.ModuleFunctions() {
		if len(callSites(fn, callee)) > 0 {
			out = append(out, fn)
		}
	}
	return out
}

func runOR1(c *load.Ctx, r *report.RuleResult) {
	const rel = "notations/jschema"
	build := c.Func(rel, "Schema.buildASTNode")
	compileBasic := c.Func(pkgLoader, "CompileBasic")
	load_ := c.Func(rel, "Schema.load")
	allOf := c.Func(pkgLoader, "CompileAllOf")
	unnamed := c.Func(pkgLoader, "AddUnnamedTypes")
	checkRoot := c.Func(pkgChecker, "CheckRootSchema")
	for n, f := range map[string]*ssa.Function{"Schema.buildASTNode": build, "loader.CompileBasic": compileBasic, "Schema.load": load_,
		"loader.CompileAllOf": allOf, "loader.AddUnnamedTypes": unnamed, "checker.CheckRootSchema": checkRoot} {
		if f == nil {
			r.Unk("anchor|"+n, "", "function not found")
		}
	}
	if build == nil || compileBasic == nil || load_ == nil || allOf == nil || unnamed == nil || checkRoot == nil {
		return
	}
	// every call of a rewriting step anywhere in the library must be dominated, in its function, by
	// the step that has to come first
	check := func(key string, later *ssa.Function, first *ssa.Function, what string) {
		var callers []*ssa.Function
		for _, f := range findCallers(c, later) {
			// the public Schema object of notations/jschema is what GetAST belongs to; nested anonymous
			// schemas compiled inside the loader have no AST of their own
			if load.FuncPkgRel(f) == rel {
				callers = append(callers, f)
			}
		}
		if len(callers) == 0 {
			r.Unk(key, "", "no static call of "+later.Name()+" found")
			return
		}
		for _, fn := range callers {
			for _, site := range callSites(fn, later) {
				ok := false
				for _, f := range callSites(fn, first) {
					if dominatesInstr(f, site) {
						ok = true
					}
				}
				k := key + "|in=" + load.FuncKey(fn)
				if ok {
					r.OK(k, c.Pos(site.Pos()), what)
				} else {
					r.Bad(k, c.Pos(site.Pos()), fmt.Sprintf("%s is called without a dominating call of %s: %s would not hold", later.Name(), first.Name(), what))
				}
			}
		}
	}
	check("order|CompileBasic-after-buildASTNode", compileBasic, build, "the AST mirrors the schema text because it is built before the compiler rewrites constraints")
	check("order|CompileAllOf-after-load", allOf, load_, "allOf expansion works on a loaded schema and after the AST was taken")
	check("order|AddUnnamedTypes-after-load", unnamed, load_, "type hoisting happens after the AST was taken")
	check("order|CheckRootSchema-after-CompileAllOf", checkRoot, allOf, "the checker sees inherited properties")
	// the tree handed out is the one stored by the loader: GetAST reads the field buildASTNode's
	// result is stored to
	getAST := c.Func(rel, "Schema.GetAST")
	if getAST == nil {
		r.Unk("anchor|Schema.GetAST", "", "not found")
		return
	}
	stored := map[string]bool{}
	for _, fn := range findCallers(c, build) {
		for _, site := range callSites(fn, build) {
			for _, ref := range *site.Referrers() {
				if st, ok := ref.(*ssa.Store); ok {
					if fa, ok := st.Addr.(*ssa.FieldAddr); ok {
						stored[fieldName(fa.X.Type(), fa.Field)] = true
					}
				}
			}
		}
	}
	read := map[string]bool{}
	for _, b := range getAST.Blocks {
		for _, ins := range b.Instrs {
			if fa, ok := ins.(*ssa.FieldAddr); ok {
				read[fieldName(fa.X.Type(), fa.Field)] = true
			}
		}
	}
	common := ""
	for f := range stored {
		if read[f] {
			common = f
		}
	}
	if common == "" {
		r.Bad("ast|GetAST-returns-stored-tree", c.Pos(getAST.Pos()), fmt.Sprintf("buildASTNode's result is stored to %v but GetAST reads %v", sortedKeys(stored), sortedKeys(read)))
	} else {
		r.OK("ast|GetAST-returns-stored-tree", c.Pos(getAST.Pos()), "field "+common)
	}
}

func isFloatish(t types.Type) bool {
	if t == nil {
		return false
	}
	if b, ok := t.Underlying().(*types.Basic); ok {
		return b.Info()&(types.IsFloat|types.IsComplex) != 0
	}
	return false
}

func runFL1(c *load.Ctx, r *report.RuleResult) {
	floaty := map[*ssa.Function]string{}
	fns := c.ModuleFunctions()
	for _, fn := range fns {
		why := ""
		for _, p := range fn.Params {
			if isFloatish(p.Type()) {
				why = "parameter " + p.Name()
			}
		}
		if res := fn.Signature.Results(); res != nil {
			for i := 0; i < res.Len(); i++ {
				if isFloatish(res.At(i).Type()) {
					why = "result of floating-point type"
				}
			}
		}
		for _, b := range fn.Blocks {
			for _, ins := range b.Instrs {
				if v, ok := ins.(ssa.Value); ok && isFloatish(v.Type()) {
					why = "value " + v.Name() + " of type " + v.Type().String()
				}
				if call, ok := ins.(ssa.CallInstruction); ok {
					if sc := call.Common().StaticCallee(); sc != nil && sc.Pkg != nil && sc.Name() != "init" {
						switch p := sc.Pkg.Pkg.Path(); {
						case p == "math" || p == "math/big" || p == "math/cmplx":
							why = "call of " + p + "." + sc.Name()
						case p == "strconv" && (strings.Contains(sc.Name(), "Float") || strings.Contains(sc.Name(), "Complex")):
							why = "call of strconv." + sc.Name()
						}
					}
				}
			}
		}
		if why != "" {
			floaty[fn] = why
		}
	}
	// callers among library functions (CHA over-approximates dynamic calls)
	cg := c.CHA()
	var list []*ssa.Function
	for fn := range floaty {
		list = append(list, fn)
	}
	sort.Slice(list, func(i, j int) bool { return load.FuncKey(list[i]) < load.FuncKey(list[j]) })
	flagged := map[*ssa.Function]bool{}
	for _, fn := range list {
		key := "float|" + load.FuncKey(fn)
		node := cg.Nodes[fn]
		var callers []string
		var visit func(n *ssa.Function, depth int)
		seenW := map[*ssa.Function]bool{}
		visit = func(f *ssa.Function, depth int) {
			node := cg.Nodes[f]
			if node == nil || depth > 3 || seenW[f] {
				return
			}
			seenW[f] = true
			for _, e := range node.In {
				cf := e.Caller.Func
				if cf == nil || cf == fn || !load.FuncInModule(cf) || load.IsAux(load.FuncPkgRel(cf)) {
					continue
				}
				if cf.Synthetic != "" && cf.Name() == fn.Name() {
					visit(cf, depth+1) // method wrapper: look through it
					continue
				}
				callers = append(callers, load.FuncKey(cf))
			}
		}
		_ = node
		visit(fn, 0)
		flagged[fn] = true
		if len(callers) > 0 {
			sort.Strings(callers)
			r.Bad(key, c.Pos(fn.Pos()), fmt.Sprintf("binary floating point in library code (%s), called from %s", floaty[fn], strings.Join(uniq(callers), ", ")))
		} else {
			r.OK(key, c.Pos(fn.Pos()), "floating-point helper ("+floaty[fn]+") that no library function calls")
		}
	}
	n := 0
	for _, fn := range fns {
		if !flagged[fn] {
			n++
		}
	}
	// one obligation per package for the float-free functions
	perPkg := map[string]int{}
	for _, fn := range fns {
		if !flagged[fn] {
			perPkg[load.FuncPkgRel(fn)]++
		}
	}
	for _, p := range sortedKeys(perPkg) {
		r.OK("nofloat|"+p, "", fmt.Sprintf("%d functions without floating-point values or calls", perPkg[p]))
	}
	r.Stat("functions", len(fns))
	r.Note("%d library functions examined, %d without floating point", len(fns), n)
}

func uniq(s []string) []string {
	var out []string
	for i, x := range s {
		if i == 0 || s[i-1] != x {
			out = append(out, x)
		}
	}
	return out
}

func init() {
	register(&Rule{ID: "NR-1", Min: 3, Run: runNR1,
		Doc: "an empty schema has no root node: in the API package every use of the root schema's RootNode() result (passing it on, calling through it) is dominated by a comparison of that root node with nil that excludes nil — the other entry points check it, so an unchecked use is a contradiction (a nil dereference that a recover turns into a foreign runtime error)"})
}

func runNR1(c *load.Ctx, r *report.RuleResult) {
	const rel = "notations/jschema"
	rootNode := c.Func(pkgSchema, "Schema.RootNode")
	if rootNode == nil {
		r.Unk("anchor|schema.Schema.RootNode", "", "not found")
		return
	}
	// the receiver must be the API object's own inner schema: loaded through a field named inner
	isInner := func(v ssa.Value) bool {
		for depth := 0; depth < 6; depth++ {
			switch x := v.(type) {
			case *ssa.UnOp:
				v = x.X
			case *ssa.FieldAddr:
				return fieldName(x.X.Type(), x.Field) == "inner"
			default:
				return false
			}
		}
		return false
	}
	for _, fn := range c.ModuleFunctions() {
		if load.FuncPkgRel(fn) != rel {
			continue
		}
		var calls []*ssa.Call
		for _, call := range callSites(fn, rootNode) {
			if len(call.Call.Args) > 0 && isInner(call.Call.Args[0]) {
				calls = append(calls, call)
			}
		}
		if len(calls) == 0 {
			continue
		}
		// blocks in which the root node is known to be non-nil
		var nonNilBlocks []*ssa.BasicBlock
		for _, call := range calls {
			for _, ref := range *call.Referrers() {
				bo, ok := ref.(*ssa.BinOp)
				if !ok {
					continue
				}
				k, isConst := bo.Y.(*ssa.Const)
				if !isConst || !k.IsNil() {
					continue
				}
				for _, br := range *bo.Referrers() {
					if iff, ok := br.(*ssa.If); ok {
						blk := iff.Block()
						if bo.Op.String() == "==" {
							nonNilBlocks = append(nonNilBlocks, blk.Succs[1])
						} else if bo.Op.String() == "!=" {
							nonNilBlocks = append(nonNilBlocks, blk.Succs[0])
						}
					}
				}
			}
		}
		for i, call := range calls {
			key := fmt.Sprintf("rootnode|%s|use#%d", load.FuncKey(fn), i+1)
			var uses []ssa.Instruction
			for _, ref := range *call.Referrers() {
				switch x := ref.(type) {
				case *ssa.BinOp:
					continue // a comparison
				case *ssa.DebugRef:
					continue
				case *ssa.Store:
					// stored into a local and compared later: follow the local's loads
					if a, ok := x.Addr.(*ssa.Alloc); ok {
						for _, ar := range *a.Referrers() {
							if u, ok := ar.(*ssa.UnOp); ok {
								for _, ur := range *u.Referrers() {
									if _, isCmp := ur.(*ssa.BinOp); !isCmp {
										uses = append(uses, ur)
									}
								}
							}
						}
						continue
					}
					uses = append(uses, x)
				default:
					uses = append(uses, ref)
				}
			}
			if len(uses) == 0 {
				r.OK(key, c.Pos(call.Pos()), "only compared with nil")
				continue
			}
			bad := ""
			for _, u := range uses {
				ok := false
				for _, nb := range nonNilBlocks {
					if nb == u.Block() || nb.Dominates(u.Block()) {
						ok = true
					}
				}
				if !ok {
					bad = c.Pos(u.Pos())
				}
			}
			if bad != "" {
				r.Bad(key, c.Pos(call.Pos()), "the root node of a possibly empty schema is used at "+bad+" without a dominating nil check (Example, GetAST and the compiler check it): an empty schema makes this a nil dereference")
			} else {
				r.OK(key, c.Pos(call.Pos()), "use dominated by a nil check")
			}
		}
	}
}

func init() {
	register(&Rule{ID: "LB-const", Min: 3, Run: runLBConst,
		Doc: "constant-index reads are guarded: every read s[k] of a slice or string with a constant index k whose length is not fixed by construction is dominated by a test that establishes len(s) > k (an emptiness test for k = 0); otherwise an empty or short input indexes out of range"})
}

// lenGuarded: is instruction at dominated by a branch that guarantees len(s) > k ?
func lenGuarded(at ssa.Instruction, s ssa.Value, k int64) bool {
	fn := at.Parent()
	sameSlice := func(v ssa.Value) bool { return v == s || sameOrigin(v, s) }
	for _, b := range fn.Blocks {
		iff, ok := b.Instrs[len(b.Instrs)-1].(*ssa.If)
		if !ok {
			continue
		}
		bo, ok := iff.Cond.(*ssa.BinOp)
		if !ok {
			continue
		}
		// normalise to len(s) OP c
		var lenSide, other ssa.Value = bo.X, bo.Y
		op := bo.Op.String()
		if !isLenOf(lenSide, sameSlice) {
			lenSide, other = bo.Y, bo.X
			op = flipCmp(op)
		}
		if !isLenOf(lenSide, sameSlice) {
			continue
		}
		cst, ok := other.(*ssa.Const)
		if !ok || cst.Value == nil {
			continue
		}
		cv := cst.Int64()
		// which successor guarantees len > k ?
		var good *ssa.BasicBlock
		switch op {
		case ">":
			if cv >= k {
				good = b.Succs[0]
			}
		case ">=":
			if cv >= k+1 {
				good = b.Succs[0]
			}
		case "<":
			if cv >= k+1 {
				good = b.Succs[1]
			}
		case "<=":
			if cv >= k {
				good = b.Succs[1]
			}
		case "==":
			if cv == 0 && k == 0 {
				good = b.Succs[1]
			}
			if cv >= k+1 {
				good = b.Succs[0]
			}
		case "!=":
			if cv == 0 && k == 0 {
				good = b.Succs[0]
			}
			if cv >= k+1 {
				good = b.Succs[1]
			}
		}
		if good != nil && (good == at.Block() || good.Dominates(at.Block())) && len(good.Preds) == 1 {
			return true
		}
	}
	return false
}

func flipCmp(op string) string {
	switch op {
	case "<":
		return ">"
	case "<=":
		return ">="
	case ">":
		return "<"
	case ">=":
		return "<="
	}
	return op
}

func isLenOf(v ssa.Value, same func(ssa.Value) bool) bool {
	for depth := 0; depth < 4; depth++ {
		switch x := v.(type) {
		case *ssa.Convert:
			v = x.X
		case *ssa.ChangeType:
			v = x.X
		case *ssa.Call:
			if b, ok := x.Call.Value.(*ssa.Builtin); ok && b.Name() == "len" && len(x.Call.Args) == 1 {
				return same(x.Call.Args[0])
			}
			return false
		default:
			return false
		}
	}
	return false
}

// sameOrigin: two SSA values that are the same load of the same variable/field or conversions of one
// another.
func sameOrigin(a, b ssa.Value) bool {
	strip := func(v ssa.Value) ssa.Value {
		for depth := 0; depth < 4; depth++ {
			switch x := v.(type) {
			case *ssa.ChangeType:
				v = x.X
			case *ssa.Convert:
				v = x.X
			default:
				return v
			}
		}
		return v
	}
	a, b = strip(a), strip(b)
	if a == b {
		return true
	}
	ua, ok1 := a.(*ssa.UnOp)
	ub, ok2 := b.(*ssa.UnOp)
	if ok1 && ok2 {
		fa, ok3 := ua.X.(*ssa.FieldAddr)
		fb, ok4 := ub.X.(*ssa.FieldAddr)
		if ok3 && ok4 && fa.Field == fb.Field && fa.X == fb.X {
			return true
		}
		if ua.X == ub.X {
			return true
		}
	}
	return false
}

// lbConstReviewed: constant-index reads whose guard is relational or established elsewhere.
var lbConstReviewed = map[string]string{
	"constindex|formats/json.(scanner).newDocumentErrorAtCharacter|[]rune(…)[0]":                         "the runes come from data[index-1:], which holds at least the byte just consumed (index >= 1 after Next's increment)",
	"constindex|notations/jschema/internal/scanner.(Scanner).newDocumentErrorAtCharacter|[]rune(…)[0]":   "same: data[index-1:] is never empty inside a step function",
	"constindex|rules/enum.(scanner).newDocumentErrorAtCharacter|[]rune(…)[0]":                           "same: data[index-1:] is never empty inside a step function",
	"constindex|internal/json.(Number).trimLeadingZerosInTheIntegerPart|.nat[0]":                         "the loop runs at most len(nat)-exp times (exp <= len(nat) is checked first) and removes one byte per turn, so nat is not empty when read",
	"constindex|notations/jschema/internal/schema/constraint.(TypesList).AddNameWithASTNode|name[0]":     "names come from or-items and type shortcuts; the first name of a shortcut starts with @ and once hasUserTypes is true the index is short-circuited; or-items are validated as known types before they are recorded (an empty one is reported as code 102)",
	"constindex|notations/jschema/internal/loader.checkBranchNodeWithOrConstraint|element of Names()[0]": "same names as above: an empty or-item is rejected (code 102) before this check runs",
	"constindex|bytes.(Bytes).ParseInt|b[0]":                                                             "called with the exponent text of a scanned numeral (value[expBegin:]), which starts at a sign or digit",
	"constindex|bytes.(Bytes).TrimSquareBrackets|b[0]":                                                   "under lastCharIndex > 0 in the same condition (len(b) >= 2)",
	"constindex|notations/jschema/internal/schema/constraint.parseBytes|b[8]":                            "after the switch on len(b): every surviving case leaves b with exactly 36 bytes",
	"constindex|notations/jschema/internal/schema/constraint.parseBytes|b[13]":                           "same: len(b) == 36",
	"constindex|notations/jschema/internal/schema/constraint.parseBytes|b[18]":                           "same: len(b) == 36",
	"constindex|notations/jschema/internal/schema/constraint.parseBytes|b[23]":                           "same: len(b) == 36",
}

// lbConstShape: the conditions a reviewed read stood under when it was reviewed (where the reason
// depends on them). A read that has moved out from under its guard is reported again.
var lbConstShape = map[string]string{
	"constindex|notations/jschema/internal/schema/constraint.(TypesList).AddNameWithASTNode|name[0]": ".hasUserTypes=false",
}

// guardShape lists the branch outcomes that dominate an instruction (condition, outcome).
func guardShape(ins ssa.Instruction) string {
	var parts []string
	b := ins.Block()
	for d := b.Idom(); d != nil; d = d.Idom() {
		ifi, ok := d.Instrs[len(d.Instrs)-1].(*ssa.If)
		if !ok || len(d.Succs) != 2 {
			continue
		}
		t, f := d.Succs[0].Dominates(b), d.Succs[1].Dominates(b)
		if t == f {
			continue
		}
		parts = append(parts, fmt.Sprintf("%s=%v", describeValue(ifi.Cond), t))
	}
	sort.Strings(parts)
	return strings.Join(parts, ",")
}

func runLBConst(c *load.Ctx, r *report.RuleResult) {
	counts := map[string]int{}
	for _, fn := range c.ModuleFunctions() {
		for _, b := range fn.Blocks {
			for _, ins := range b.Instrs {
				var base, idx ssa.Value
				switch x := ins.(type) {
				case *ssa.IndexAddr:
					base, idx = x.X, x.Index
				case *ssa.Index:
					base, idx = x.X, x.Index
				case *ssa.Lookup:
					if _, isStr := x.X.Type().Underlying().(*types.Basic); isStr {
						base, idx = x.X, x.Index
					}
				}
				if base == nil {
					continue
				}
				k, ok := idx.(*ssa.Const)
				if !ok || k.Value == nil {
					continue
				}
				switch base.Type().Underlying().(type) {
				case *types.Slice, *types.Basic:
				default:
					continue // arrays / pointers to arrays have a static length
				}
				// slices built in this function with a known length
				if fixedLen(base, k.Int64()) {
					continue
				}
				keyBase := fmt.Sprintf("constindex|%s|%s[%d]", load.FuncKey(fn), describeValue(base), k.Int64())
				counts[keyBase]++
				key := keyBase
				if counts[keyBase] > 1 {
					key = fmt.Sprintf("%s|#%d", keyBase, counts[keyBase])
				}
				if lenGuarded(ins, base, k.Int64()) {
					r.OK(key, c.Pos(ins.Pos()), "dominated by a length test")
				} else if reason, ok := lbConstReviewed[key]; ok {
					if want, has := lbConstShape[key]; has {
						if got := guardShape(ins); got != want {
							r.Bad(key, c.Pos(ins.Pos()), fmt.Sprintf("the read was reviewed under the guard [%s]; it now stands under [%s], so the reason (%s) no longer covers it", want, got, reason))
							continue
						}
					}
					r.OK(key, c.Pos(ins.Pos()), "reviewed: "+reason)
				} else {
					r.Bad(key, c.Pos(ins.Pos()), fmt.Sprintf("reads element %d without a dominating test that the length exceeds %d: an empty or short value panics with index out of range", k.Int64(), k.Int64()))
				}
			}
		}
	}
}

func fixedLen(v ssa.Value, k int64) bool {
	for depth := 0; depth < 6; depth++ {
		switch x := v.(type) {
		case *ssa.Slice:
			// s[:n] of an array or with constant high bound
			if h, ok := x.High.(*ssa.Const); ok && h.Value != nil && h.Int64() > k {
				return true
			}
			if _, ok := x.X.Type().Underlying().(*types.Pointer); ok {
				return true // slice of a (pointer to) array: variadic packs, literals
			}
			v = x.X
		case *ssa.MakeSlice:
			if l, ok := x.Len.(*ssa.Const); ok && l.Value != nil && l.Int64() > k {
				return true
			}
			return false
		case *ssa.ChangeType:
			v = x.X
		case *ssa.Convert:
			if cst, ok := x.X.(*ssa.Const); ok && cst.Value != nil {
				return true
			}
			v = x.X
		case *ssa.Const:
			return true
		default:
			return false
		}
	}
	return false
}

func describeValue(v ssa.Value) string {
	switch x := v.(type) {
	case *ssa.UnOp:
		if fa, ok := x.X.(*ssa.FieldAddr); ok {
			return "." + fieldName(fa.X.Type(), fa.Field)
		}
		if a, ok := x.X.(*ssa.Alloc); ok && a.Comment != "" {
			return a.Comment
		}
		if ia, ok := x.X.(*ssa.IndexAddr); ok {
			return "element of " + describeValue(ia.X)
		}
		return "load of " + describeValue(x.X)
	case *ssa.Call:
		if sc := x.Call.StaticCallee(); sc != nil {
			return sc.Name() + "()"
		}
	case *ssa.Parameter:
		return x.Name()
	case *ssa.Convert:
		return types.TypeString(x.Type(), func(p *types.Package) string { return p.Name() }) + "(…)"
	case *ssa.Slice:
		return describeValue(x.X) + "[:]"
	case *ssa.Phi:
		if c := x.Comment; c != "" {
			return c
		}
	case *ssa.Extract:
		return "result of " + describeValue(x.Tuple)
	}
	return "value of type " + types.TypeString(v.Type(), func(p *types.Package) string { return p.Name() })
}

func init() {
	register(&Rule{ID: "FL-2", Min: 3, Run: runFL2,
		Doc: "the exact comparison stays digit-wise: no function reachable from Number.Cmp calls anything outside the library (no strconv/math parsing of digit strings into machine integers, whose range would silently bound the comparison)"})
	register(&Rule{ID: "EE-1", Min: 4, Run: runEE1,
		Doc: "exponent marker case symmetry: in the numeral code (internal/json and the root package's type guesser) every test of a byte against 'e' is paired with the same test against 'E' (same case clause or same || chain) and vice versa, so 1e5 and 1E5 are classified alike"})
}

func runFL2(c *load.Ctx, r *report.RuleResult) {
	cmp := c.Func(pkgJSON, "Number.Cmp")
	if cmp == nil {
		r.Unk("anchor|json.Number.Cmp", "", "not found")
		return
	}
	reach := reachableFrom(c, cmp)
	var fns []*ssa.Function
	for f := range reach {
		fns = append(fns, f)
	}
	sort.Slice(fns, func(i, j int) bool { return load.FuncKey(fns[i]) < load.FuncKey(fns[j]) })
	for _, fn := range fns {
		key := "digitwise|" + load.FuncKey(fn)
		var ext []string
		for _, b := range fn.Blocks {
			for _, ins := range b.Instrs {
				call, ok := ins.(ssa.CallInstruction)
				if !ok {
					continue
				}
				if sc := call.Common().StaticCallee(); sc != nil && !load.FuncInModule(sc) {
					ext = append(ext, sc.String()+" at "+c.Pos(ins.Pos()))
				}
			}
		}
		if len(ext) > 0 {
			r.Bad(key, c.Pos(fn.Pos()), "the exact comparison calls outside the library: "+strings.Join(ext, "; ")+" — digit strings of any length must be compared digit by digit")
		} else {
			r.OK(key, c.Pos(fn.Pos()), "no call outside the library")
		}
	}
}

func runEE1(c *load.Ctx, r *report.RuleResult) {
	isExp := func(p *packages.Package, e ast.Expr) (string, bool) {
		tv, ok := p.TypesInfo.Types[e]
		if !ok || tv.Value == nil {
			return "", false
		}
		if tv.Value.Kind() != constant.Int {
			return "", false
		}
		if v, ok := constant.Int64Val(tv.Value); ok && (v == 'e' || v == 'E') {
			if _, isLit := ast.Unparen(e).(*ast.BasicLit); isLit {
				return string(rune(v)), true
			}
		}
		return "", false
	}
	c.EachFuncDecl(func(p *packages.Package, _ *ast.File, fd *ast.FuncDecl) {
		rel := load.Rel(p.PkgPath)
		if fd.Body == nil || (rel != pkgJSON && rel != ".") {
			return
		}
		fkey := load.DeclKey(p, fd)
		n := 0
		ast.Inspect(fd.Body, func(node ast.Node) bool {
			switch x := node.(type) {
			case *ast.CaseClause:
				seen := map[string]bool{}
				for _, e := range x.List {
					if l, ok := isExp(p, e); ok {
						seen[l] = true
					}
				}
				if len(seen) > 0 {
					n++
					key := fmt.Sprintf("expcase|%s|case#%d", fkey, n)
					if seen["e"] && seen["E"] {
						r.OK(key, c.Pos(x.Pos()), "case lists both 'e' and 'E'")
					} else {
						r.Bad(key, c.Pos(x.Pos()), "a case tests only one spelling of the exponent marker: numerals written with the other case are classified differently")
					}
				}
			case *ast.BinaryExpr:
				if x.Op != token.LOR {
					// a lone comparison not inside an || chain
					if x.Op == token.EQL || x.Op == token.NEQ {
						if l, ok := isExp(p, x.Y); ok {
							if !inOrChainWithOther(p, fd.Body, x, l, isExp) {
								n++
								r.Bad(fmt.Sprintf("expcase|%s|cmp#%d", fkey, n), c.Pos(x.Pos()), "a byte is compared with '"+l+"' only: the other spelling of the exponent marker is not handled alike")
							}
						}
					}
					return true
				}
				// top of an || chain: collect its leaves
				if parentIsLor(fd.Body, x) {
					return true
				}
				seen := map[string]bool{}
				collectOr(x, func(leaf ast.Expr) {
					if be, ok := ast.Unparen(leaf).(*ast.BinaryExpr); ok && be.Op == token.EQL {
						if l, ok := isExp(p, be.Y); ok {
							seen[l] = true
						}
					}
				})
				if len(seen) > 0 {
					n++
					key := fmt.Sprintf("expcase|%s|or#%d", fkey, n)
					if seen["e"] && seen["E"] {
						r.OK(key, c.Pos(x.Pos()), "tests both 'e' and 'E'")
					} else {
						r.Bad(key, c.Pos(x.Pos()), "an || chain tests only one spelling of the exponent marker")
					}
				}
			}
			return true
		})
	})
}

func collectOr(e ast.Expr, leaf func(ast.Expr)) {
	if be, ok := ast.Unparen(e).(*ast.BinaryExpr); ok && be.Op == token.LOR {
		collectOr(be.X, leaf)
		collectOr(be.Y, leaf)
		return
	}
	leaf(e)
}

func parentIsLor(root ast.Node, x *ast.BinaryExpr) bool {
	found := false
	ast.Inspect(root, func(n ast.Node) bool {
		if be, ok := n.(*ast.BinaryExpr); ok && be.Op == token.LOR {
			if ast.Unparen(be.X) == ast.Expr(x) || ast.Unparen(be.Y) == ast.Expr(x) {
				found = true
			}
		}
		return !found
	})
	return found
}

// inOrChainWithOther: the comparison is a leaf of an || chain that also tests the other case.
func inOrChainWithOther(p *packages.Package, root ast.Node, x *ast.BinaryExpr, l string, isExp func(*packages.Package, ast.Expr) (string, bool)) bool {
	ok := false
	ast.Inspect(root, func(n ast.Node) bool {
		be, isBe := n.(*ast.BinaryExpr)
		if !isBe || be.Op != token.LOR {
			return true
		}
		has, other := false, false
		collectOr(be, func(leaf ast.Expr) {
			lb, isB := ast.Unparen(leaf).(*ast.BinaryExpr)
			if !isB {
				return
			}
			if lb == x {
				has = true
			}
			if ll, isE := isExp(p, lb.Y); isE && ll != l {
				other = true
			}
		})
		if has && other {
			ok = true
		}
		return true
	})
	return ok
}

func init() {
	register(&Rule{ID: "OR-2", Min: 3, Run: runOR2,
		Doc: "recursion guards are set before descending: wherever a function tests membership of a key in a visited/in-progress set and then (when absent) calls something that can reach the same function again, the key is put into the set on a path that dominates that call — marking it only afterwards lets a reference cycle recurse without bound"})
}

func runOR2(c *load.Ctx, r *report.RuleResult) {
	// which functions can reach which (callback-aware reachability per function is expensive; use the
	// VTA graph restricted to the module)
	cg := c.VTA()
	reachMemo := map[*ssa.Function]map[*ssa.Function]bool{}
	var reach func(f *ssa.Function) map[*ssa.Function]bool
	reach = func(f *ssa.Function) map[*ssa.Function]bool {
		if m, ok := reachMemo[f]; ok {
			return m
		}
		m := map[*ssa.Function]bool{}
		reachMemo[f] = m
		stack := []*ssa.Function{f}
		for len(stack) > 0 {
			x := stack[len(stack)-1]
			stack = stack[:len(stack)-1]
			n := cg.Nodes[x]
			if n == nil {
				continue
			}
			for _, e := range n.Out {
				g := e.Callee.Func
				if g == nil || m[g] || !load.FuncInModule(g) {
					continue
				}
				m[g] = true
				stack = append(stack, g)
			}
		}
		return m
	}
	for _, fn := range c.ModuleFunctions() {
		if fn.Synthetic != "" {
			continue
		}
		var lookups []*ssa.Lookup
		for _, b := range fn.Blocks {
			for _, ins := range b.Instrs {
				if lk, ok := ins.(*ssa.Lookup); ok && lk.CommaOk {
					if _, isMap := lk.X.Type().Underlying().(*types.Map); isMap {
						lookups = append(lookups, lk)
					}
				}
			}
		}
		if len(lookups) == 0 {
			continue
		}
		n := 0
		for _, b2 := range fn.Blocks {
			for _, ins2 := range b2.Instrs {
				call, ok := ins2.(*ssa.Call)
				if !ok {
					continue
				}
				sc := call.Call.StaticCallee()
				if sc == nil || !load.FuncInModule(sc) || (sc != fn && !reach(sc)[fn]) {
					continue
				}
				// membership tests on a key this recursive call depends on
				var guards []*ssa.Lookup
				for _, lk := range lookups {
					if dominatesInstr(lk, call) && usesValueOf(call, lk.Index) {
						guards = append(guards, lk)
					}
				}
				if len(guards) == 0 {
					continue
				}
				n++
				var names []string
				marked := false
				for _, lk := range guards {
					names = append(names, describeValue(lk.X))
					for _, b3 := range fn.Blocks {
						for _, ins3 := range b3.Instrs {
							if mu, ok := ins3.(*ssa.MapUpdate); ok && sameOrigin(mu.Map, lk.X) && (mu.Key == lk.Index || sameOrigin(mu.Key, lk.Index)) && dominatesInstr(mu, call) {
								marked = true
							}
						}
					}
				}
				sort.Strings(names)
				key := fmt.Sprintf("guard|%s|call %s#%d", load.FuncKey(fn), sc.Name(), n)
				if marked {
					r.OK(key, c.Pos(call.Pos()), "the key is put into a visited/in-progress set ("+strings.Join(names, ", ")+") before the recursive descent")
				} else {
					r.Bad(key, c.Pos(call.Pos()), fmt.Sprintf("%s is consulted as a recursion guard, but the key is not inserted before the call of %s, which can come back here: a cycle of references recurses without bound", strings.Join(names, ", "), sc.Name()))
				}
			}
		}
	}
}

// usesValueOf: some argument of the call is derived from v (directly, or through calls/conversions).
func usesValueOf(call *ssa.Call, v ssa.Value) bool {
	var derived func(x ssa.Value, depth int) bool
	derived = func(x ssa.Value, depth int) bool {
		if x == v || sameOrigin(x, v) {
			return true
		}
		if depth > 6 {
			return false
		}
		switch y := x.(type) {
		case *ssa.Call:
			for _, a := range y.Call.Args {
				if derived(a, depth+1) {
					return true
				}
			}
		case *ssa.UnOp:
			return derived(y.X, depth+1)
		case *ssa.Convert:
			return derived(y.X, depth+1)
		case *ssa.ChangeType:
			return derived(y.X, depth+1)
		case *ssa.Extract:
			return derived(y.Tuple, depth+1)
		case *ssa.FieldAddr:
			return derived(y.X, depth+1)
		case *ssa.Field:
			return derived(y.X, depth+1)
		case *ssa.Lookup:
			return derived(y.Index, depth+1) || derived(y.X, depth+1)
		case *ssa.IndexAddr:
			return derived(y.Index, depth+1) || derived(y.X, depth+1)
		}
		return false
	}
	for _, a := range call.Call.Args {
		if derived(a, 0) {
			return true
		}
	}
	return false
}

func init() {
	register(&Rule{ID: "OR-3", Min: 2, Run: runOR3,
		Doc: "the used-type list is read off the loaded tree before any compilation step rewrites it: every call chain that reaches the used-type walk (collectUserTypes) starts in the once-only loader, and there the walk dominates loader.CompileBasic (a walk made later, for instance lazily on the first UsedUserTypes call, would see allOf already expanded when Check or Validate ran first)"})
}

func runOR3(c *load.Ctx, r *report.RuleResult) {
	const rel = "notations/jschema"
	walk := c.Func(rel, "collectUserTypes")
	compileBasic := c.Func(pkgLoader, "CompileBasic")
	if walk == nil || compileBasic == nil {
		r.Unk("anchor|collectUserTypes/CompileBasic", "", "not found")
		return
	}
	// climb the static callers until a function that also calls CompileBasic (the loader step)
	type frame struct {
		fn   *ssa.Function
		via  *ssa.Function // the callee through which fn reaches the walk
		path []string
	}
	seen := map[*ssa.Function]bool{}
	queue := []frame{}
	for _, f := range findCallers(c, walk) {
		queue = append(queue, frame{f, walk, []string{walk.Name(), f.Name()}})
	}
	if len(queue) == 0 {
		r.Bad("usedtypes|never collected", c.Pos(walk.Pos()), "nothing calls the used-type walk")
		return
	}
	for len(queue) > 0 {
		fr := queue[0]
		queue = queue[1:]
		if seen[fr.fn] {
			continue
		}
		seen[fr.fn] = true
		key := "usedtypes|via " + load.FuncKey(fr.fn)
		if len(callSites(fr.fn, compileBasic)) > 0 {
			ok := true
			for _, cb := range callSites(fr.fn, compileBasic) {
				dom := false
				for _, w := range callSites(fr.fn, fr.via) {
					if dominatesInstr(w, cb) {
						dom = true
					}
				}
				if !dom {
					ok = false
				}
			}
			if ok {
				r.OK(key, c.Pos(fr.fn.Pos()), "the walk ("+strings.Join(fr.path, " ← ")+") runs before CompileBasic in the once-only loader")
			} else {
				r.Bad(key, c.Pos(fr.fn.Pos()), "CompileBasic is not dominated by the used-type walk: the list would be read off a rewritten tree")
			}
			continue
		}
		callers := findCallers(c, fr.fn)
		if fr.fn.Parent() != nil {
			// a closure: it runs where it is created / handed over
			callers = append(callers, fr.fn.Parent())
		}
		if len(callers) == 0 {
			r.Bad(key, c.Pos(fr.fn.Pos()), fmt.Sprintf("%s reaches the used-type walk (%s) but is not part of the loader step that precedes CompileBasic: the list depends on whether the schema was compiled before", fr.fn.Name(), strings.Join(fr.path, " ← ")))
			continue
		}
		r.OK(key, c.Pos(fr.fn.Pos()), "only passes the walk on to its callers")
		for _, cl := range callers {
			queue = append(queue, frame{cl, fr.fn, append(append([]string{}, fr.path...), cl.Name())})
		}
	}
}

func init() {
	register(&Rule{ID: "NR-2", Min: 1, Run: runNR2,
		Doc: "added types are never empty: wherever the API package puts the inner schema of a *foreign* Schema object (one it did not build itself from a non-empty text) into a type table (AddNamedType), the call is dominated by a test that this schema has a root node — the checker, the validators and the example builder dereference the root node of every added type, so an empty added type would turn into a nil dereference that the recover handlers hand back as a raw run-time error"})
}

func runNR2(c *load.Ctx, r *report.RuleResult) {
	const rel = "notations/jschema"
	addNamed := c.Func(pkgSchema, "Schema.AddNamedType")
	rootNode := c.Func(pkgSchema, "Schema.RootNode")
	if addNamed == nil || rootNode == nil {
		r.Unk("anchor|schema.Schema.AddNamedType/RootNode", "", "not found")
		return
	}
	// the API object whose `inner` field a value is loaded from
	ownerOfInner := func(v ssa.Value) ssa.Value {
		for depth := 0; depth < 6; depth++ {
			switch x := v.(type) {
			case *ssa.UnOp:
				v = x.X
			case *ssa.FieldAddr:
				if fieldName(x.X.Type(), x.Field) == "inner" {
					return x.X
				}
				return nil
			default:
				return nil
			}
		}
		return nil
	}
	n := 0
	for _, fn := range c.ModuleFunctions() {
		if load.FuncPkgRel(fn) != rel {
			continue
		}
		for _, site := range callSites(fn, addNamed) {
			if len(site.Call.Args) < 3 {
				continue
			}
			n++
			key := fmt.Sprintf("addedtype|%s|AddNamedType#%d", load.FuncKey(fn), n)
			owner := ownerOfInner(site.Call.Args[2])
			if owner == nil {
				r.Unk(key, c.Pos(site.Pos()), "the schema put into the type table is not the inner schema of an API object: "+describeValue(site.Call.Args[2]))
				continue
			}
			built := owner
			if u, ok := built.(*ssa.UnOp); ok {
				if al, ok := u.X.(*ssa.Alloc); ok {
					for _, ref := range *al.Referrers() {
						if st, ok := ref.(*ssa.Store); ok && st.Addr == al {
							built = st.Val
						}
					}
				}
			}
			if call, ok := built.(*ssa.Call); ok {
				sc := call.Call.StaticCallee()
				if sc != nil && sc.Origin() != nil {
					sc = sc.Origin()
				}
				if sc != nil && (sc.Name() == "New" || sc.Name() == "FromFile") {
					r.OK(key, c.Pos(site.Pos()), "the type is built here from a generated text (a quoted example with a regex rule): never empty")
					continue
				}
			}
			// a dominating `owner.inner.RootNode() ==/!= nil` whose non-nil side holds the call
			ok := false
			for _, rn := range callSites(fn, rootNode) {
				if len(rn.Call.Args) == 0 || ownerOfInner(rn.Call.Args[0]) != owner {
					continue
				}
				for _, ref := range *rn.Referrers() {
					bo, isCmp := ref.(*ssa.BinOp)
					if !isCmp {
						continue
					}
					k, isConst := bo.Y.(*ssa.Const)
					if !isConst || !k.IsNil() {
						continue
					}
					for _, br := range *bo.Referrers() {
						iff, isIf := br.(*ssa.If)
						if !isIf {
							continue
						}
						var nonNil *ssa.BasicBlock
						switch bo.Op.String() {
						case "==":
							nonNil = iff.Block().Succs[1]
						case "!=":
							nonNil = iff.Block().Succs[0]
						}
						if nonNil != nil && (nonNil == site.Block() || nonNil.Dominates(site.Block())) {
							ok = true
						}
					}
				}
			}
			if ok {
				r.OK(key, c.Pos(site.Pos()), "dominated by a test that the added schema has a root node")
			} else {
				r.Bad(key, c.Pos(site.Pos()), "a Schema object supplied by the caller is added as a type without testing that it has a root node: an empty type text makes Check, Validate and Example dereference nil (returned as a raw runtime error, not a structured one)")
			}
		}
	}
	if n == 0 {
		r.Unk("anchor|AddNamedType call sites", "", "the API package never calls AddNamedType")
	}
}

func init() {
	register(&Rule{ID: "OR-6", Min: 2, Run: runOR6,
		Doc: "paired bounds are compared after the exclusive flags are in place: wherever the compiler calls checkPairConstraints (whose min/max comparison is strict when a bound carries its exclusive flag — T5), the calls that fold exclusiveMinimum / exclusiveMaximum into the bounds (T6) dominate it; in the other order the flags are still unset when the pair is compared and min = max with an exclusive bound is accepted"})
}

func runOR6(c *load.Ctx, r *report.RuleResult) {
	pair := c.Func(pkgLoader, "schemaCompiler.checkPairConstraints")
	exMin := c.Func(pkgLoader, "schemaCompiler.exclusiveMinimumConstraint")
	exMax := c.Func(pkgLoader, "schemaCompiler.exclusiveMaximumConstraint")
	if pair == nil || exMin == nil || exMax == nil {
		r.Unk("anchor|schemaCompiler pair / exclusive steps", "", "not found")
		return
	}
	n := 0
	for _, fn := range findCallers(c, pair) {
		for _, site := range callSites(fn, pair) {
			for _, step := range []*ssa.Function{exMin, exMax} {
				n++
				key := fmt.Sprintf("order|%s|%s-before-checkPairConstraints", load.FuncKey(fn), step.Name())
				ok := false
				for _, s := range callSites(fn, step) {
					if dominatesInstr(s, site) {
						ok = true
					}
				}
				if ok {
					r.OK(key, c.Pos(site.Pos()), "the flag is folded into its bound before the pair is compared")
				} else {
					r.Bad(key, c.Pos(site.Pos()), fmt.Sprintf("checkPairConstraints is called without a dominating call of %s: the exclusive flag is not yet on the bound when min and max are compared, so a pair with min = max and an exclusive bound passes (inside an or rule-set nothing else rejects it)", step.Name()))
				}
			}
		}
	}
	if n == 0 {
		r.Unk("anchor|callers of checkPairConstraints", "", "checkPairConstraints is never called")
	}
}

func init() {
	register(&Rule{ID: "NZ-1", Min: 1, Run: runNZ1,
		Doc: "zero has no sign: the function that builds an exact Number from a numeral (it stores the scanned sign into Number.neg) also clears neg under a condition on the remaining digits (the length of Number.nat after trimming) — Number.Cmp orders by sign first (T-cmp), so a zero that keeps the minus sign of \"-0\" or \"-0.00\" compares below 0 and fails {min: 0}"})
}

func runNZ1(c *load.Ctx, r *report.RuleResult) {
	numT := namedType(c, pkgJSON, "Number")
	if numT == nil {
		r.Unk("anchor|internal/json.Number", "", "not found")
		return
	}
	st, _ := numT.Underlying().(*types.Struct)
	negIdx, natIdx := -1, -1
	for i := 0; st != nil && i < st.NumFields(); i++ {
		switch st.Field(i).Name() {
		case "neg":
			negIdx = i
		case "nat":
			natIdx = i
		}
	}
	if negIdx < 0 || natIdx < 0 {
		r.Unk("anchor|Number.neg / Number.nat", "", "fields not found")
		return
	}
	isNumField := func(v ssa.Value, idx int) bool {
		fa, ok := v.(*ssa.FieldAddr)
		if !ok || fa.Field != idx {
			return false
		}
		pt, ok := fa.X.Type().Underlying().(*types.Pointer)
		return ok && types.Identical(pt.Elem(), numT)
	}
	n := 0
	for _, fn := range c.ModuleFunctions() {
		if load.FuncPkgRel(fn) != pkgJSON {
			continue
		}
		builds := false
		var clears []*ssa.Store
		for _, b := range fn.Blocks {
			for _, ins := range b.Instrs {
				s, ok := ins.(*ssa.Store)
				if !ok || !isNumField(s.Addr, negIdx) {
					continue
				}
				if k, isConst := s.Val.(*ssa.Const); isConst {
					if k.Value != nil && k.Value.String() == "false" {
						clears = append(clears, s)
					}
					continue
				}
				builds = true
			}
		}
		if !builds {
			continue
		}
		n++
		key := "signzero|" + load.FuncKey(fn)
		ok := false
		for _, s := range clears {
			// the clearing store is conditional on the digits: some If that dominates it tests len(nat)
			for _, b := range fn.Blocks {
				if len(b.Instrs) == 0 || !b.Dominates(s.Block()) || b == s.Block() {
					continue
				}
				iff, isIf := b.Instrs[len(b.Instrs)-1].(*ssa.If)
				if !isIf {
					continue
				}
				if condOnField(iff.Cond, func(v ssa.Value) bool { return isNumField(v, natIdx) }, 0) {
					ok = true
				}
			}
		}
		if ok {
			r.OK(key, c.Pos(fn.Pos()), "the sign is cleared when no significant digit is left")
		} else {
			r.Bad(key, c.Pos(fn.Pos()), "the scanned minus sign is stored into Number.neg and never cleared for a zero magnitude: -0, -0.0 and -0.00 become negative numbers, which Number.Cmp orders below 0 (they fail {min: 0} and differ from 0)")
		}
	}
	if n == 0 {
		r.Unk("anchor|Number construction", "", "no function stores a computed sign into Number.neg")
	}
}

// condOnField: the condition is computed from a load of the field (through len, comparisons, calls on it).
func condOnField(v ssa.Value, isField func(ssa.Value) bool, depth int) bool {
	if depth > 6 || v == nil {
		return false
	}
	switch x := v.(type) {
	case *ssa.BinOp:
		return condOnField(x.X, isField, depth+1) || condOnField(x.Y, isField, depth+1)
	case *ssa.UnOp:
		if isField(x.X) {
			return true
		}
		return condOnField(x.X, isField, depth+1)
	case *ssa.Call:
		for _, a := range x.Call.Args {
			if condOnField(a, isField, depth+1) {
				return true
			}
			// a method on the number itself (isZero(), int() …) reads its fields
			if al, ok := a.(*ssa.Alloc); ok {
				if pt, ok := al.Type().Underlying().(*types.Pointer); ok {
					if _, ok := pt.Elem().(*types.Named); ok && x.Call.StaticCallee() != nil && x.Call.StaticCallee().Signature.Recv() != nil {
						return true
					}
				}
			}
		}
	case *ssa.Convert:
		return condOnField(x.X, isField, depth+1)
	case *ssa.Phi:
		for _, e := range x.Edges {
			if condOnField(e, isField, depth+1) {
				return true
			}
		}
	}
	return false
}

func init() {
	register(&Rule{ID: "KS-1", Min: 1, Run: runKS1,
		Doc: "a key shortcut admits any number of keys: the function that matches an unknown document key against the key shortcuts of an object (objectValidator.validateTypeRules) decides from the shortcut's type alone — no branch in it depends on the validator's set of keys still owed; tying the match to that set lets a shortcut match once only (a second conforming key is rejected) and never when it is optional"})
}

func runKS1(c *load.Ctx, r *report.RuleResult) {
	fn := c.Func(pkgValidator, "objectValidator.validateTypeRules")
	ovT := namedType(c, pkgValidator, "objectValidator")
	if fn == nil || ovT == nil {
		r.Unk("anchor|validator.objectValidator.validateTypeRules", "", "not found")
		return
	}
	st := ovT.Underlying().(*types.Struct)
	owed := -1
	for i := 0; i < st.NumFields(); i++ {
		if st.Field(i).Name() == "requiredKeys" {
			owed = i
		}
	}
	if owed < 0 {
		r.Unk("anchor|objectValidator.requiredKeys", "", "field not found")
		return
	}
	fromOwed := func(v ssa.Value) bool {
		for depth := 0; depth < 6; depth++ {
			switch x := v.(type) {
			case *ssa.UnOp:
				v = x.X
			case *ssa.FieldAddr:
				return x.Field == owed && types.Identical(derefType(x.X.Type()), ovT)
			case *ssa.Field:
				return x.Field == owed && types.Identical(x.X.Type(), ovT)
			default:
				return false
			}
		}
		return false
	}
	var bad []string
	for _, b := range fn.Blocks {
		for _, ins := range b.Instrs {
			switch x := ins.(type) {
			case *ssa.Lookup:
				if fromOwed(x.X) {
					bad = append(bad, "looks the shortcut up in the set of keys still owed at "+c.Pos(x.Pos()))
				}
			case *ssa.Range:
				if fromOwed(x.X) {
					bad = append(bad, "ranges over the set of keys still owed at "+c.Pos(x.Pos()))
				}
			}
		}
	}
	if len(bad) > 0 {
		r.Bad("keyshortcut|validateTypeRules", c.Pos(fn.Pos()), strings.Join(uniq(bad), "; ")+": a shortcut that was matched once (or is optional) is no longer tried, so {@K: 1} accepts {\"a\":1} but rejects {\"a\":1,\"b\":2}")
	} else {
		r.OK("keyshortcut|validateTypeRules", c.Pos(fn.Pos()), "the match does not consult the set of keys still owed")
	}
}

func derefType(t types.Type) types.Type {
	if p, ok := t.Underlying().(*types.Pointer); ok {
		return p.Elem()
	}
	return t
}

func init() {
	register(&Rule{ID: "KS-2", Min: 1, Run: runKS2,
		Doc: "every key shortcut of an object is tried: in objectValidator.validateTypeRules the loop over the object's keys is left by a return only with a positive answer — every return inside a loop of that function gives the constant true as its found-flag, or a value the return is reached by only on that value's true branch; answering for the first shortcut whether or not it matched means that with {@A: 1, @B: 2} a key conforming only to @B is rejected"})
}

func runKS2(c *load.Ctx, r *report.RuleResult) {
	fn := c.Func(pkgValidator, "objectValidator.validateTypeRules")
	if fn == nil {
		r.Unk("anchor|validator.objectValidator.validateTypeRules", "", "not found")
		return
	}
	key := "keyshortcut-all|validateTypeRules"
	inLoop := loopBlocks(fn)
	if len(inLoop) == 0 {
		r.Bad(key, c.Pos(fn.Pos()), "the function has no loop over the object's keys: at most one shortcut can be tried")
		return
	}
	var bad []string
	returns := 0
	for _, b := range fn.Blocks {
		if !inLoop[b] {
			continue
		}
		ret, ok := b.Instrs[len(b.Instrs)-1].(*ssa.Return)
		if !ok || len(ret.Results) == 0 {
			continue
		}
		returns++
		flag := ret.Results[len(ret.Results)-1]
		if k, ok := flag.(*ssa.Const); ok && k.Value != nil && k.Value.String() == "true" {
			continue
		}
		if reachedOnlyWhenTrue(b, flag) {
			continue
		}
		bad = append(bad, "the return at "+c.Pos(ret.Pos())+" leaves the loop with the found-flag "+flag.String()+", which may be false")
	}
	if len(bad) > 0 {
		r.Bad(key, c.Pos(fn.Pos()), strings.Join(bad, "; ")+": the shortcuts after the first one tried are never looked at")
	} else {
		r.OK(key, c.Pos(fn.Pos()), fmt.Sprintf("%d return(s) inside the loop, each with a positive answer", returns))
	}
}

// loopBlocks: the blocks that lie on a cycle of the function's control-flow graph.
func loopBlocks(fn *ssa.Function) map[*ssa.BasicBlock]bool {
	out := map[*ssa.BasicBlock]bool{}
	for _, b := range fn.Blocks {
		// b is in a loop iff b is reachable from one of its successors
		seen := map[*ssa.BasicBlock]bool{}
		stack := append([]*ssa.BasicBlock{}, b.Succs...)
		for len(stack) > 0 {
			x := stack[len(stack)-1]
			stack = stack[:len(stack)-1]
			if seen[x] {
				continue
			}
			seen[x] = true
			stack = append(stack, x.Succs...)
		}
		if seen[b] {
			out[b] = true
		}
	}
	// loop headers: cycle blocks entered from outside the cycle; leaving from the header is the
	// loop's normal end, not a way out of its body
	header := map[*ssa.BasicBlock]bool{}
	for b := range out {
		for _, p := range b.Preds {
			if !out[p] {
				header[b] = true
			}
		}
	}
	// blocks that leave the loop by returning from its body belong to the body
	for changed := true; changed; {
		changed = false
		for _, b := range fn.Blocks {
			if out[b] || len(b.Preds) == 0 {
				continue
			}
			all := true
			for _, p := range b.Preds {
				if !out[p] || header[p] {
					all = false
				}
			}
			if all {
				out[b] = true
				changed = true
			}
		}
	}
	return out
}

// reachedOnlyWhenTrue: every predecessor edge into b is the true edge of a branch on v.
func reachedOnlyWhenTrue(b *ssa.BasicBlock, v ssa.Value) bool {
	if len(b.Preds) == 0 {
		return false
	}
	for _, p := range b.Preds {
		ifi, ok := p.Instrs[len(p.Instrs)-1].(*ssa.If)
		if !ok || p.Succs[0] != b || p.Succs[1] == b {
			return false
		}
		if ifi.Cond != v && !sameCellReadTwice(p, ifi.Cond, b, v) {
			return false
		}
	}
	return true
}

// sameCellReadTwice: cond (read at the end of block p) and v (read in block b) are two loads of the
// same local cell with nothing in between that could write it (go/ssa does not merge the two reads
// of a variable that a closure captures).
func sameCellReadTwice(p *ssa.BasicBlock, cond ssa.Value, b *ssa.BasicBlock, v ssa.Value) bool {
	l1, ok1 := cond.(*ssa.UnOp)
	l2, ok2 := v.(*ssa.UnOp)
	if !ok1 || !ok2 || l1.Op != token.MUL || l2.Op != token.MUL || l1.X != l2.X || l1.Block() != p || l2.Block() != b {
		return false
	}
	quiet := func(ins ssa.Instruction) bool {
		switch ins.(type) {
		case *ssa.Store, *ssa.Call, *ssa.MapUpdate, *ssa.Go, *ssa.Defer:
			return false
		}
		return true
	}
	after := false
	for _, ins := range p.Instrs {
		if ins == ssa.Instruction(l1) {
			after = true
			continue
		}
		if after && !quiet(ins) {
			return false
		}
	}
	for _, ins := range b.Instrs {
		if ins == ssa.Instruction(l2) {
			return true
		}
		if !quiet(ins) {
			return false
		}
	}
	return false
}

func init() {
	register(&Rule{ID: "NX-1", Min: 4, Run: runNX1,
		Doc: "a numeral the recogniser accepts is a Number, whatever its magnitude: among the functions NewNumber reaches inside internal/json, errors are made (fmt.Errorf / errors.New) only at the reviewed sites — the recogniser refusing a byte, the numeral ending early, and the two cannot-happen guards of the zero trimmers; every other error returned is a callee's error passed on — so no limit on the exponent, the number of digits or the value is imposed after the syntax was accepted (SA-N decides the syntax)"})
}

// nxReviewed: function -> number of error constructions in it, with the reason.
var nxReviewed = map[string]struct {
	n   int
	why string
}{
	"internal/json.(scanner).Scan":                                {2, "the automaton refused a byte; the numeral ended in a state that needs more bytes (both are SA-N's verdicts)"},
	"internal/json.(Number).trimLeadingZerosInTheIntegerPart":     {1, "guard exp < 0 || exp > len(nat): Scan sets exp = fraLen and nat of length intLen+fraLen padded by getNatural, so it cannot fire"},
	"internal/json.(Number).trimTrailingZerosInTheFractionalPart": {1, "same guard, same reason"},
}

func runNX1(c *load.Ctx, r *report.RuleResult) {
	root := c.Func(pkgJSON, "NewNumber")
	if root == nil {
		r.Unk("anchor|json.NewNumber", "", "not found")
		return
	}
	reach := reachableFrom(c, root)
	counts := map[string]int{}
	pos := map[string]string{}
	for fn := range reach {
		if load.FuncPkgRel(fn) != pkgJSON {
			continue
		}
		for _, b := range fn.Blocks {
			for _, ins := range b.Instrs {
				call, ok := ins.(*ssa.Call)
				if !ok {
					continue
				}
				sc := call.Call.StaticCallee()
				if sc == nil || sc.Pkg == nil {
					continue
				}
				p := sc.Pkg.Pkg.Path()
				if (p == "fmt" && sc.Name() == "Errorf") || (p == "errors" && sc.Name() == "New") {
					k := load.FuncKey(fn)
					counts[k]++
					pos[k] = c.Pos(call.Pos())
				}
			}
		}
	}
	for _, k := range sortedKeys(counts) {
		key := "number-error|" + k
		rev, ok := nxReviewed[k]
		switch {
		case !ok:
			r.Bad(key, pos[k], fmt.Sprintf("%s makes an error of its own (%d site(s)) on the way from an accepted numeral to its Number: a numeral that RFC 8259 admits is refused for what it denotes (its magnitude, its length), not for its syntax", k, counts[k]))
		case counts[k] != rev.n:
			r.Bad(key, pos[k], fmt.Sprintf("%s makes %d errors of its own, %d were reviewed (%s)", k, counts[k], rev.n, rev.why))
		default:
			r.OK(key, pos[k], "reviewed: "+rev.why)
		}
	}
	for k := range nxReviewed {
		if counts[k] == 0 {
			r.OK("number-error|"+k, "", "no error is made here any more")
		}
	}
	r.OK("number-error|reach", c.Pos(root.Pos()), fmt.Sprintf("%d functions reachable from NewNumber examined", len(reach)))
}

func init() {
	register(&Rule{ID: "OR-8", Min: 1, Run: runOR8,
		Doc: "a node keeps its allOf rule until its parents have been added: in allOfConstraintCompiler.processNode the call that expands the parents (extend) dominates the removal of the allOf rule (DeleteConstraint) — the schema under check is not in the in-progress set, so an allOf cycle that passes through it is noticed only because, when the expansion comes back to its root, the rule is still there and runs into the parent in progress; removing the rule first lets such a cycle pass (error 703 lost)"})
}

func runOR8(c *load.Ctx, r *report.RuleResult) {
	fn := c.Func(pkgLoader, "allOfConstraintCompiler.processNode")
	extend := c.Func(pkgLoader, "allOfConstraintCompiler.extend")
	key := "order|extend-before-delete-allOf"
	if fn == nil || extend == nil {
		r.Unk("anchor|loader.allOfConstraintCompiler.processNode", "", "processNode / extend not found")
		return
	}
	allOfConst := int64(-1)
	if p := c.Pkg(pkgConstraint); p != nil {
		if k, ok := p.Types.Scope().Lookup("AllOfConstraintType").(*types.Const); ok {
			if v, exact := constant.Int64Val(k.Val()); exact {
				allOfConst = v
			}
		}
	}
	var ext []*ssa.Call
	var del []ssa.Instruction
	for _, b := range fn.Blocks {
		for _, ins := range b.Instrs {
			call, ok := ins.(*ssa.Call)
			if !ok {
				continue
			}
			if call.Call.StaticCallee() == extend {
				ext = append(ext, call)
			}
			name := ""
			if call.Call.IsInvoke() {
				name = call.Call.Method.Name()
			} else if sc := call.Call.StaticCallee(); sc != nil {
				name = sc.Name()
			}
			if name == "DeleteConstraint" && len(call.Call.Args) > 0 {
				if k, ok := call.Call.Args[len(call.Call.Args)-1].(*ssa.Const); ok && k.Value != nil && k.Int64() == allOfConst {
					del = append(del, call)
				}
			}
		}
	}
	switch {
	case len(ext) == 0:
		r.Bad(key, c.Pos(fn.Pos()), "processNode does not expand the parents of an allOf rule")
	case len(del) == 0:
		r.OK(key, c.Pos(fn.Pos()), "the allOf rule is not removed in processNode")
	default:
		for _, d := range del {
			ok := false
			for _, e := range ext {
				if dominatesInstr(e, d) {
					ok = true
				}
			}
			if !ok {
				r.Bad(key, c.Pos(d.Pos()), "the allOf rule is removed from the node before (or without) its parents having been added: when the expansion of a parent comes back to this node — the root of the schema under check is not in the in-progress set — nothing is left to expand, and the cycle passes")
				return
			}
		}
		r.OK(key, c.Pos(del[0].Pos()), "extend dominates the removal of the allOf rule")
	}
}

func init() {
	register(&Rule{ID: "EN-1", Min: 4, Run: runEN1,
		Doc: "the value list of an enum rule only grows, one entry per literal or standalone comment: in rules/enum every store to Enum.values is an append onto the whole current list, and the only field of an entry written afterwards is its Comment — an entry is never removed, replaced or re-ordered, and the literal recorded in an entry is the text of its lexeme as it is, so Values() and GetAST() list the literals as written, in source order"})
}

func runEN1(c *load.Ctx, r *report.RuleResult) {
	enumT := namedType(c, "rules/enum", "Enum")
	if enumT == nil {
		r.Unk("anchor|enum.Enum", "", "type not found")
		return
	}
	st, _ := enumT.Underlying().(*types.Struct)
	vi := -1
	for i := 0; st != nil && i < st.NumFields(); i++ {
		if st.Field(i).Name() == "values" {
			vi = i
		}
	}
	if vi < 0 {
		r.Unk("anchor|enum.Enum.values", "", "field not found")
		return
	}
	isValuesAddr := func(v ssa.Value) bool {
		fa, ok := v.(*ssa.FieldAddr)
		return ok && fa.Field == vi && types.Identical(derefType(fa.X.Type()), enumT)
	}
	isValuesLoad := func(v ssa.Value) bool {
		u, ok := v.(*ssa.UnOp)
		return ok && u.Op == token.MUL && isValuesAddr(u.X)
	}
	stores, elemWrites := 0, 0
	for _, fn := range c.ModuleFunctions() {
		if load.FuncPkgRel(fn) != "rules/enum" {
			continue
		}
		for _, b := range fn.Blocks {
			for _, ins := range b.Instrs {
				sto, ok := ins.(*ssa.Store)
				if !ok {
					continue
				}
				key := "enum-values|" + load.FuncKey(fn)
				if isValuesAddr(sto.Addr) {
					stores++
					call, ok := sto.Val.(*ssa.Call)
					bi, _ := func() (*ssa.Builtin, bool) {
						if !ok {
							return nil, false
						}
						b, ok2 := call.Call.Value.(*ssa.Builtin)
						return b, ok2
					}()
					switch {
					case bi == nil || bi.Name() != "append":
						r.Bad(key, c.Pos(sto.Pos()), "Enum.values is replaced by "+describeValue(sto.Val)+", not extended by an append")
					case !isValuesLoad(call.Call.Args[0]):
						r.Bad(key, c.Pos(sto.Pos()), "Enum.values is rebuilt by appending onto "+describeValue(call.Call.Args[0])+" instead of onto the whole current list: entries read earlier are dropped or moved")
					default:
						r.OK(key, c.Pos(sto.Pos()), "append onto the whole list")
					}
					continue
				}
				// a write into an entry of the list
				if fa, ok := sto.Addr.(*ssa.FieldAddr); ok {
					if ia, ok := fa.X.(*ssa.IndexAddr); ok && isValuesLoad(ia.X) {
						elemWrites++
						fname := fieldName(fa.X.Type(), fa.Field)
						k2 := "enum-entry|" + load.FuncKey(fn) + "|" + fname
						if fname == "Comment" {
							r.OK(k2, c.Pos(sto.Pos()), "the note of an entry is filled in")
						} else {
							r.Bad(k2, c.Pos(sto.Pos()), "field "+fname+" of an entry already in the list is overwritten")
						}
					}
				} else if ia, ok := sto.Addr.(*ssa.IndexAddr); ok && isValuesLoad(ia.X) {
					r.Bad("enum-entry|"+load.FuncKey(fn)+"|whole", c.Pos(sto.Pos()), "an entry already in the list is replaced")
				}
			}
		}
	}
	// what an entry says its literal is: the text of the lexeme, as it is
	valueT := namedType(c, "rules/enum", "Value")
	for _, fn := range c.ModuleFunctions() {
		if load.FuncPkgRel(fn) != "rules/enum" || valueT == nil {
			continue
		}
		for _, b := range fn.Blocks {
			for _, ins := range b.Instrs {
				sto, ok := ins.(*ssa.Store)
				if !ok {
					continue
				}
				fa, ok := sto.Addr.(*ssa.FieldAddr)
				if !ok || !types.Identical(derefType(fa.X.Type()), valueT) || fieldName(fa.X.Type(), fa.Field) != "Value" {
					continue
				}
				key := "enum-literal|" + load.FuncKey(fn)
				v := sto.Val
				asIs := false
				if call, ok := v.(*ssa.Call); ok {
					if sc := call.Call.StaticCallee(); sc != nil && sc.Name() == "Value" && load.FuncPkgRel(sc) == "internal/lexeme" {
						asIs = true
					}
				}
				if asIs {
					r.OK(key, c.Pos(sto.Pos()), "the literal of an entry is the lexeme's text as it is")
				} else {
					r.Bad(key, c.Pos(sto.Pos()), "the literal of an entry is "+describeValue(v)+", not the text of the lexeme as it was written: Values() and GetAST() no longer list what the rule says, and the named rule compares differently from its inline spelling")
				}
			}
		}
	}
	if stores == 0 {
		r.Bad("enum-values|none", "", "nothing stores into Enum.values")
	}
	r.Stat("stores", stores)
	r.Stat("entry_writes", elemWrites)
}
