package rules

import (
	"fmt"
	"go/types"
	"strings"

	"golang.org/x/tools/go/ssa"

	"verif/internal/load"
	"verif/internal/pe"
	"verif/internal/report"
)

// NL-1 — a line break inside a rule's value is layout.
//
// Inside a multi-line annotation the value of `or`, `enum` or `allOf` may run over several lines; the
// scanner delivers the line breaks as NewLine events, and the rule loader hands every event of the
// value to the value loader. Whether the filter sits in the rule loader or in each value loader is a
// matter of taste; what C13 needs is that for every implementation of the value-loader interface a
// NewLine never reaches the loader's state machine. Decided by interpreting
// ruleLoader.loadEmbeddedValue on a NewLine event with an abstract loader of each implementing type
// installed (its state function is a symbol; calling it is an effect).

func init() {
	register(&Rule{ID: "NL-1", Min: 3, Run: runNL1,
		Doc: "a line break inside the value of a rule is layout for every kind of value: ruleLoader.loadEmbeddedValue, interpreted on a NewLine event with an abstract value loader of each implementing type (or, enum, allOf — every type of the loader package that implements the embeddedLoader interface) installed, never runs that loader's state function, leaves the value loader installed and the rule loader's own state unchanged; a filter that one value loader lacks makes `allOf: [⏎ \"@a\",⏎ \"@b\"]` fail (801) where the one-line spelling loads"})
}

func runNL1(c *load.Ctx, r *report.RuleResult) {
	fn := c.Func(pkgLoader, "ruleLoader.loadEmbeddedValue")
	rlT := namedType(c, pkgLoader, "ruleLoader")
	lexTypeFn := c.Func("internal/lexeme", "LexEvent.Type")
	p := c.Pkg(pkgLoader)
	if fn == nil || rlT == nil || lexTypeFn == nil || p == nil {
		r.Unk("anchor|loader.ruleLoader.loadEmbeddedValue", "", "not found")
		return
	}
	ifaceTN, _ := p.Types.Scope().Lookup("embeddedLoader").(*types.TypeName)
	if ifaceTN == nil {
		r.Unk("anchor|loader.embeddedLoader", "", "interface not found")
		return
	}
	iface, _ := ifaceTN.Type().Underlying().(*types.Interface)
	var newLine int64 = -1
	for v, n := range lexEventNames(c) {
		if n == "NewLine" {
			newLine = v
		}
	}
	if iface == nil || newLine < 0 {
		r.Unk("anchor|lexeme.NewLine", "", "not found")
		return
	}
	var impls []*types.Named
	for _, n := range p.Types.Scope().Names() {
		tn, ok := p.Types.Scope().Lookup(n).(*types.TypeName)
		if !ok || tn == ifaceTN {
			continue
		}
		nt, ok := tn.Type().(*types.Named)
		if !ok {
			continue
		}
		if _, isStruct := nt.Underlying().(*types.Struct); !isStruct {
			continue
		}
		if types.Implements(types.NewPointer(nt), iface) {
			impls = append(impls, nt)
		}
	}
	// only the kinds the rule loader installs (a rule-set loader is driven by the or loader, never by the
	// rule loader itself)
	installed := map[*types.Named]bool{}
	for _, f := range c.ModuleFunctions() {
		if load.FuncPkgRel(f) != pkgLoader {
			continue
		}
		// the methods of the rule loader (and their closures): a loader converted to the interface there is
		// one the rule loader installs, whether it stores it itself or hands it to a helper of its own
		owner := f
		for owner.Parent() != nil {
			owner = owner.Parent()
		}
		recv := owner.Signature.Recv()
		if recv == nil {
			continue
		}
		rt := recv.Type()
		if pt, ok := rt.(*types.Pointer); ok {
			rt = pt.Elem()
		}
		if rt != types.Type(rlT) {
			continue
		}
		for _, b := range f.Blocks {
			for _, ins := range b.Instrs {
				mi, ok := ins.(*ssa.MakeInterface)
				if !ok || !types.Identical(mi.Type(), ifaceTN.Type()) {
					continue
				}
				if pt, ok := mi.X.Type().(*types.Pointer); ok {
					if nt, ok := pt.Elem().(*types.Named); ok {
						installed[nt] = true
					}
				}
			}
		}
	}
	var kept []*types.Named
	for _, nt := range impls {
		if installed[nt] {
			kept = append(kept, nt)
		}
	}
	impls = kept
	if len(impls) == 0 {
		r.Unk("anchor|value loaders", "", "no implementation of embeddedLoader is installed by the rule loader")
		return
	}
	catch := c.Func("internal/lexeme", "CatchLexEventError")
	for _, impl := range impls {
		key := "newline|value loader " + impl.Obj().Name()
		cfg := newPEConfig(c)
		if catch != nil {
			cfg.Opaque[catch.String()] = true
		}
		cfg.Intrinsics[lexTypeFn.String()] = func(in *pe.Interp, args []pe.Value) (pe.Value, bool) {
			return newLine, true
		}
		cfg.Intrinsics["callsym:valueLoader.stateFunc"] = func(in *pe.Interp, args []pe.Value) (pe.Value, bool) {
			in.Effect("call valueLoader.stateFunc")
			return nil, true
		}
		var rl *pe.Ptr
		outs := pe.ExploreFn(cfg, func(in *pe.Interp) pe.Value {
			vl := symStruct(in, impl, "valueLoader", nil)
			rl = symStruct(in, rlT, "rl", map[string]pe.Value{
				"embeddedValueLoader": &pe.Iface{T: types.NewPointer(impl), V: vl},
			})
			return in.Call(fn, []pe.Value{rl, pe.NewSym("lex", fn.Params[1].Type())})
		})
		pos := c.Pos(fn.Pos())
		problem := ""
		for _, o := range outs {
			switch {
			case o.Undecided != "":
				problem = "not interpretable: " + o.Undecided
			case o.Panicked:
				problem = "a line break inside the value is refused: " + o.Exit()
			default:
				for _, ef := range o.Effects {
					if strings.Contains(ef, "stateFunc") || strings.Contains(ef, "Func") {
						problem = "the line break reaches a state function: " + ef
					}
				}
				if sv, ok := rl.Obj.Val.(*pe.StructV); ok && problem == "" {
					st := rlT.Underlying().(*types.Struct)
					for i := 0; i < st.NumFields(); i++ {
						switch st.Field(i).Name() {
						case "embeddedValueLoader":
							if _, still := sv.F[i].(*pe.Iface); !still {
								problem = "the value loader is dropped on a line break"
							}
						case "stateFunc":
							if s := pe.Show(sv.F[i]); !strings.Contains(s, "rl.stateFunc") {
								problem = "the rule loader changes state on a line break: " + s
							}
						}
					}
				}
			}
			if problem != "" {
				break
			}
		}
		if problem != "" {
			r.Bad(key, pos, problem)
		} else {
			r.OK(key, pos, fmt.Sprintf("%d path(s): the event goes nowhere", len(outs)))
		}
	}
}

var _ = load.Module
