package rules

import (
	stdbytes "bytes"
	"fmt"
	"go/types"
	"strings"

	"golang.org/x/tools/go/ssa"

	"verif/internal/load"
	"verif/internal/pe"
	"verif/internal/report"
)

// T-intfloat — integer or float.
//
// Two guessers classify a numeral (json.GuessData for nodes and documents, the root package's
// typeGuesser behind GuessSchemaType). Both scan the text for a decimal point and an exponent mark and
// then ask the exact number for the length of its fractional part. The classification is a function
// of (point present, exponent present, numeral parses, fraction left after normalisation); the table
// is decided by interpreting each method on every text of up to three bytes over {., e, E, digit},
// with the parser and the fraction length as atoms.

func init() {
	register(&Rule{ID: "T-intfloat", Min: 6, Run: runTIntFloat,
		Doc: "integer or float depends on the spelling only through \"a decimal point and no exponent\": each of the four classifiers (json.GuessData.IsInteger / IsFloat, typeGuesser.isInteger / isFloat) and the two dispatchers that call them (GuessData.LiteralJsonType / JsonType, asked about numerals of up to four bytes with a sign in the alphabet), interpreted on every text of up to three bytes over {'.', 'e', 'E', digit} with the exact parser and the normalised fraction length as atoms, answers float iff the text has a point and no exponent mark, or it parses and a fraction is left after normalisation; integer iff it is not of the first form, parses, and no fraction is left (1e2 and 1.5e1 are integers, 1.0 is a float)"})
}

func runTIntFloat(c *load.Ctx, r *report.RuleResult) {
	type target struct {
		rel, typ, method, field string
		float                   bool
	}
	targets := []target{
		{pkgJSON, "GuessData", "LiteralJsonType", "bytes", false},
		{pkgJSON, "GuessData", "JsonType", "bytes", false},
		{pkgJSON, "GuessData", "IsInteger", "bytes", false},
		{pkgJSON, "GuessData", "IsFloat", "bytes", true},
		{".", "typeGuesser", "isInteger", "data", false},
		{".", "typeGuesser", "isFloat", "data", true},
	}
	newNumber := c.Func(pkgJSON, "NewNumber")
	fracLen := c.Func(pkgJSON, "Number.LengthOfFractionalPart")
	if newNumber == nil || fracLen == nil {
		r.Unk("anchor|json.NewNumber", "", "NewNumber / LengthOfFractionalPart not found")
		return
	}
	var tInt, tFloat int64 = -1, -1
	if p := c.Pkg(pkgJSON); p != nil {
		for name, dst := range map[string]*int64{"TypeInteger": &tInt, "TypeFloat": &tFloat} {
			if k, ok := p.Types.Scope().Lookup(name).(*types.Const); ok {
				if v, ok := constInt(k); ok {
					*dst = v
				}
			}
		}
	}
	// the dispatchers are asked about numerals only (first byte a digit), over an alphabet with the sign
	// of an exponent in it and one byte more
	var numerals [][]byte
	{
		al := []byte{'.', 'e', 'E', '-', '7'}
		var gen func(prefix []byte, n int)
		gen = func(prefix []byte, n int) {
			numerals = append(numerals, append([]byte{}, prefix...))
			if n == 0 {
				return
			}
			for _, a := range al {
				gen(append(prefix, a), n-1)
			}
		}
		gen([]byte{'7'}, 3)
	}
	alphabet := []byte{'.', 'e', 'E', '7'}
	var texts [][]byte
	texts = append(texts, []byte{})
	for _, a := range alphabet {
		texts = append(texts, []byte{a})
		for _, b := range alphabet {
			texts = append(texts, []byte{a, b})
			for _, d := range alphabet {
				texts = append(texts, []byte{a, b, d})
			}
		}
	}
	for _, tg := range targets {
		key := fmt.Sprintf("intfloat|%s.%s", tg.typ, tg.method)
		fn := c.Func(tg.rel, tg.typ+"."+tg.method)
		named := namedType(c, tg.rel, tg.typ)
		if fn == nil || named == nil {
			r.Unk(key, "", "classifier not found")
			continue
		}
		e := newTableEnv(c)
		concreteBytesIntrinsics(e.cfg)
		numPtr := newNumber.Signature.Results().At(0).Type()
		errT := types.Universe.Lookup("error").Type()
		e.cfg.Intrinsics[newNumber.String()] = func(in *pe.Interp, args []pe.Value) (pe.Value, bool) {
			if in.Choose("parses", []string{"no", "yes"}) == 0 {
				return &pe.Tuple{E: []pe.Value{pe.NilV{}, &pe.Iface{T: errT, V: pe.NewSym("parse-error", errT)}}}, true
			}
			return &pe.Tuple{E: []pe.Value{pe.NewSym("number", numPtr), pe.NilV{}}}, true
		}
		e.cfg.Intrinsics[fracLen.String()] = func(in *pe.Interp, args []pe.Value) (pe.Value, bool) {
			return int64(in.Choose("fraction", []string{"none", "some"})), true
		}
		problem := ""
		paths := 0
		dispatcher := tg.method == "LiteralJsonType" || tg.method == "JsonType"
		mine := texts
		if dispatcher {
			mine = numerals
			if tInt < 0 || tFloat < 0 {
				r.Unk(key, "", "json.TypeInteger / TypeFloat not found")
				continue
			}
		}
		for _, txt := range mine {
			txt := txt
			outs := pe.ExploreFn(e.cfg, func(in *pe.Interp) pe.Value {
				st := named.Underlying().(*types.Struct)
				sv := in.Zero(named).(*pe.StructV)
				for i := 0; i < st.NumFields(); i++ {
					if st.Field(i).Name() == tg.field {
						var vals []pe.Value
						for _, b := range txt {
							vals = append(vals, int64(b))
						}
						sv.F[i] = in.MakeSliceOf(vals, len(vals))
					}
				}
				var recv pe.Value = sv
				if _, isPtr := fn.Params[0].Type().Underlying().(*types.Pointer); isPtr {
					recv = &pe.Ptr{Obj: in.NewObj(named, sv, "g"), T: named}
				}
				return in.Call(fn, []pe.Value{recv})
			})
			dot := strings.ContainsRune(string(txt), '.')
			exp := strings.ContainsAny(string(txt), "eE")
			for _, o := range outs {
				paths++
				if dispatcher && o.Panicked && o.Undecided == "" {
					// "the kind cannot be guessed": admissible when the exact parser was asked and refused
					if cm := o.ChoiceMap(); cm["parses"] == "no" {
						continue
					}
					if dot && !exp {
						continue // a point form that the float test itself refuses (".", "7..")
					}
					problem = fmt.Sprintf("%q is refused without the exact parser having refused it: %s", txt, o.Exit())
					break
				}
				if o.Undecided != "" || o.Panicked {
					problem = fmt.Sprintf("not interpretable on %q: %s", txt, o.Exit())
					break
				}
				val := o.ChoiceMap()
				if dispatcher {
					k, ok := o.Ret.(int64)
					if !ok {
						problem = fmt.Sprintf("undecided answer on %q: %s", txt, pe.Show(o.Ret))
						break
					}
					parses, asked := val["parses"]
					frac := val["fraction"]
					isNum := k == tInt || k == tFloat
					switch {
					case dot && !exp:
						if k != tFloat && !(asked && parses == "no") {
							problem = fmt.Sprintf("%q (a point and no exponent) is not classified as a float", txt)
						}
					case isNum && !asked:
						problem = fmt.Sprintf("%q is classified as a number kind without the exact number being built: integer or float is a property of the value (7e-1 is a float, 70e-1 an integer)", txt)
					case isNum && parses != "yes":
						problem = fmt.Sprintf("%q does not parse and is classified as a number", txt)
					case isNum && frac == "":
						problem = fmt.Sprintf("on %q the kind does not depend on whether a fraction is left after normalisation", txt)
					case isNum && (k == tFloat) != (frac == "some"):
						problem = fmt.Sprintf("%q with fraction=%s is classified wrongly", txt, frac)
					case !isNum && asked && parses == "yes":
						problem = fmt.Sprintf("%q parses as a number and is classified as something else", txt)
					}
					if problem != "" {
						break
					}
					continue
				}
				got, ok := o.Ret.(bool)
				if !ok {
					problem = fmt.Sprintf("undecided answer on %q: %s", txt, pe.Show(o.Ret))
					break
				}
				parses, asked := val["parses"]
				frac := val["fraction"]
				pointForm := dot && !exp
				var want bool
				switch {
				case pointForm:
					want = tg.float
				case asked && parses == "yes":
					want = (frac == "some") == tg.float
					if frac == "" {
						problem = fmt.Sprintf("on %q the answer does not depend on whether a fraction is left after normalisation", txt)
					}
				case asked:
					want = false
				default:
					problem = fmt.Sprintf("on %q (no point-without-exponent form) the numeral is classified without being parsed", txt)
				}
				if problem == "" && got != want {
					problem = fmt.Sprintf("%q with {parses=%s, fraction=%s} is answered %v; expected %v", txt, parses, frac, got, want)
				}
				if problem != "" {
					break
				}
			}
			if problem != "" {
				break
			}
		}
		if problem != "" {
			r.Bad(key, c.Pos(fn.Pos()), problem)
		} else {
			r.OK(key, c.Pos(fn.Pos()), fmt.Sprintf("%d texts, %d paths", len(mine), paths))
		}
	}
}

var _ = ssa.Function{}
var _ = load.Module

// concreteBytesIntrinsics interprets a few helpers of the standard library's bytes package on
// concrete arguments (the classifier texts are concrete), so that a hand-written scan and the library
// call that replaces it are read alike.
func concreteBytesIntrinsics(cfg *pe.Config) {
	text := func(v pe.Value) ([]byte, bool) {
		if s, ok := v.(string); ok {
			return []byte(s), true
		}
		es, ok := pe.SliceElems(v)
		if !ok {
			return nil, false
		}
		out := make([]byte, len(es))
		for i, e := range es {
			k, ok := e.(int64)
			if !ok {
				return nil, false
			}
			out[i] = byte(k)
		}
		return out, true
	}
	num := func(v pe.Value) (int64, bool) { k, ok := v.(int64); return k, ok }
	cfg.Intrinsics["bytes.IndexByte"] = func(in *pe.Interp, args []pe.Value) (pe.Value, bool) {
		b, ok1 := text(args[0])
		c, ok2 := num(args[1])
		if !ok1 || !ok2 {
			return nil, false
		}
		return int64(stdbytes.IndexByte(b, byte(c))), true
	}
	cfg.Intrinsics["bytes.ContainsAny"] = func(in *pe.Interp, args []pe.Value) (pe.Value, bool) {
		b, ok1 := text(args[0])
		cs, ok2 := text(args[1])
		if !ok1 || !ok2 {
			return nil, false
		}
		return stdbytes.ContainsAny(b, string(cs)), true
	}
	cfg.Intrinsics["bytes.IndexAny"] = func(in *pe.Interp, args []pe.Value) (pe.Value, bool) {
		b, ok1 := text(args[0])
		cs, ok2 := text(args[1])
		if !ok1 || !ok2 {
			return nil, false
		}
		return int64(stdbytes.IndexAny(b, string(cs))), true
	}
	cfg.Intrinsics["bytes.Contains"] = func(in *pe.Interp, args []pe.Value) (pe.Value, bool) {
		b, ok1 := text(args[0])
		sub, ok2 := text(args[1])
		if !ok1 || !ok2 {
			return nil, false
		}
		return stdbytes.Contains(b, sub), true
	}
	cfg.Intrinsics["bytes.ContainsRune"] = func(in *pe.Interp, args []pe.Value) (pe.Value, bool) {
		b, ok1 := text(args[0])
		c, ok2 := num(args[1])
		if !ok1 || !ok2 {
			return nil, false
		}
		return stdbytes.ContainsRune(b, rune(c)), true
	}
	cfg.Intrinsics["bytes.Count"] = func(in *pe.Interp, args []pe.Value) (pe.Value, bool) {
		b, ok1 := text(args[0])
		sub, ok2 := text(args[1])
		if !ok1 || !ok2 {
			return nil, false
		}
		return int64(stdbytes.Count(b, sub)), true
	}
}
