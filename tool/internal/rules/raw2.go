package rules

import (
	"fmt"

	"golang.org/x/tools/go/ssa"

	"verif/internal/load"
	"verif/internal/report"
)

// RAW-2 — two JSON tokens are not compared byte for byte.

func init() {
	register(&Rule{ID: "RAW-2", Min: 1, Run: runRAW2,
		Doc: "two JSON tokens are compared by what they denote, not by how they are spelled: no call of bytes.Equal / bytes.Compare / Bytes.Equals in the library has an operand that is the raw text of a lexeme or of a schema node (the result of a Value() accessor, directly or through a parameter that only ever receives one) unless that operand went through Unquote — the same string written with another escape sequence (\"a\\u0062c\" for \"abc\") must compare equal"})
}

func runRAW2(c *load.Ctx, r *report.RuleResult) {
	isCompare := func(sc *ssa.Function) bool {
		if sc == nil {
			return false
		}
		if sc.Pkg != nil && sc.Pkg.Pkg.Path() == "bytes" && (sc.Name() == "Equal" || sc.Name() == "Compare") {
			return true
		}
		return load.FuncInModule(sc) && load.FuncPkgRel(sc) == "bytes" && sc.Name() == "Equals"
	}
	var rawOrigin func(v ssa.Value, fn *ssa.Function, depth int) string
	rawOrigin = func(v ssa.Value, fn *ssa.Function, depth int) string {
		if depth > 8 {
			return ""
		}
		switch x := v.(type) {
		case *ssa.ChangeType:
			return rawOrigin(x.X, fn, depth+1)
		case *ssa.Convert:
			return rawOrigin(x.X, fn, depth+1)
		case *ssa.Slice:
			return rawOrigin(x.X, fn, depth+1)
		case *ssa.Phi:
			for _, e := range x.Edges {
				if o := rawOrigin(e, fn, depth+1); o != "" {
					return o
				}
			}
		case *ssa.Call:
			name := ""
			if x.Call.IsInvoke() {
				name = x.Call.Method.Name()
			} else if sc := x.Call.StaticCallee(); sc != nil {
				name = sc.Name()
			}
			switch name {
			case "Unquote":
				return ""
			case "Value":
				return "the raw text returned by " + describeValue(x)
			case "TrimSpaces", "TrimSpacesFromLeft":
				if len(x.Call.Args) > 0 {
					return rawOrigin(x.Call.Args[0], fn, depth+1)
				}
			}
		case *ssa.Parameter:
			// what do the callers pass?
			idx := -1
			for i, p := range fn.Params {
				if p == x {
					idx = i
				}
			}
			if idx < 0 {
				return ""
			}
			for _, caller := range c.ModuleFunctions() {
				for _, call := range callSites(caller, fn) {
					args := call.Common().Args
					if idx < len(args) {
						if o := rawOrigin(args[idx], caller, depth+1); o != "" {
							return o + " (passed by " + caller.Name() + ")"
						}
					}
				}
			}
		}
		return ""
	}
	n := 0
	for _, fn := range c.ModuleFunctions() {
		if load.IsAux(load.FuncPkgRel(fn)) {
			continue
		}
		for _, b := range fn.Blocks {
			for _, ins := range b.Instrs {
				call, ok := ins.(*ssa.Call)
				if !ok || !isCompare(call.Call.StaticCallee()) {
					continue
				}
				n++
				key := fmt.Sprintf("rawcompare|%s|%s", load.FuncKey(fn), call.Call.StaticCallee().Name())
				var raws []string
				for _, a := range call.Call.Args {
					if o := rawOrigin(a, fn, 0); o != "" {
						raws = append(raws, o)
					}
				}
				if len(raws) > 0 {
					r.Bad(key, c.Pos(call.Pos()), fmt.Sprintf("compares %s byte for byte: a token spelled with another escape sequence denotes the same string and must match", raws[0]))
				} else {
					r.OK(key, c.Pos(call.Pos()), "no operand is the raw text of a token")
				}
			}
		}
	}
	if n == 0 {
		r.OK("rawcompare|none", "", "the library makes no byte-for-byte comparison")
	}
}
