package rules

import (
	"fmt"
	"go/types"
	"regexp"
	"strings"

	"golang.org/x/tools/go/ssa"

	"verif/internal/load"
	"verif/internal/pe"
	"verif/internal/report"
)

// EX — shape of the text assembled by the example builder.

func init() {
	register(&Rule{ID: "EX-shape-deep", Min: 20, Thorough: true, Run: func(c *load.Ctx, r *report.RuleResult) { runEXShapeN(c, r, 5) },
		Doc: "EX-shape for containers with up to 5 children"})
	register(&Rule{ID: "EX-shape", Min: 20, Run: runEXShape,
		Doc: "example assembly: for containers with 0..3 children, each child either emitted or omitted (recursion cut-off), the sequence of writes made by the object and array builders is well-formed — opening bracket, the emitted elements in order exactly once, exactly one separator between two emitted elements and none dangling, closing bracket; object keys are written from their source token or through an encoder, never from the decoded key text"})
}

func runEXShape(c *load.Ctx, r *report.RuleResult) { runEXShapeN(c, r, 3) }

func runEXShapeN(c *load.Ctx, r *report.RuleResult, maxChildren int) {
	const rel = "notations/jschema"
	e := newAbsNodeEnv(c)
	build := c.Func(rel, "exampleBuilder.Build")
	objFn := c.Func(rel, "exampleBuilder.buildExampleForObjectNode")
	arrFn := c.Func(rel, "exampleBuilder.buildExampleForArrayNode")
	if build == nil || objFn == nil || arrFn == nil {
		r.Unk("anchor|exampleBuilder", "", "exampleBuilder.Build / buildExampleForObjectNode / buildExampleForArrayNode not found")
		return
	}
	// children's examples: emitted bytes, omitted (nil, nil) or error
	e.cfg.Intrinsics[build.String()] = func(in *pe.Interp, args []pe.Value) (pe.Value, bool) {
		name := strings.Trim(pe.Show(args[1]), "‹›")
		switch in.Choose("ex("+name+")", []string{"emitted", "omitted"}) {
		case 0:
			// a non-nil slice whose content is opaque
			return &pe.Tuple{E: []pe.Value{in.MakeSliceOf([]pe.Value{pe.NewSym("ex("+name+")", types.Typ[types.Byte])}, 1), pe.NilV{}}}, true
		}
		return &pe.Tuple{E: []pe.Value{pe.NilV{}, pe.NilV{}}}, true
	}
	// buffer operations are recorded
	bufT := types.NewPointer(namedOf(c, "bytes", "Buffer"))
	if get := c.Func("internal/sync", "BufferPool.Get"); get != nil {
		e.cfg.Intrinsics[get.String()] = func(in *pe.Interp, args []pe.Value) (pe.Value, bool) {
			return pe.NewSym("buf", bufT), true
		}
	}
	if put := c.Func("internal/sync", "BufferPool.Put"); put != nil {
		e.cfg.Intrinsics[put.String()] = func(in *pe.Interp, args []pe.Value) (pe.Value, bool) { return nil, true }
	}
	rec := func(kind string) pe.Intrinsic {
		return func(in *pe.Interp, args []pe.Value) (pe.Value, bool) {
			v := args[1]
			s := pe.Show(v)
			if n, ok := v.(int64); ok && kind == "rune" {
				s = string(rune(n))
			} else if str, ok := v.(string); ok {
				s = str
			}
			in.Effect("w:" + s)
			return &pe.Tuple{E: []pe.Value{int64(0), pe.NilV{}}}, true
		}
	}
	e.cfg.Intrinsics["(*bytes.Buffer).WriteRune"] = rec("rune")
	e.cfg.Intrinsics["(*bytes.Buffer).WriteByte"] = func(in *pe.Interp, args []pe.Value) (pe.Value, bool) {
		if n, ok := args[1].(int64); ok {
			in.Effect("w:" + string(rune(n)))
		} else {
			in.Effect("w:" + pe.Show(args[1]))
		}
		return pe.NilV{}, true
	}
	e.cfg.Intrinsics["(*bytes.Buffer).WriteString"] = rec("string")
	e.cfg.Intrinsics["(*bytes.Buffer).Write"] = rec("bytes")
	nodeT := e.nodeT
	keyT := namedType(c, pkgSchema, "ObjectNodeKey")
	keyReported, keyRuns := false, 0
	defer func() {
		if !keyReported && keyRuns > 0 {
			r.OK("keyenc|object", c.Pos(objFn.Pos()), fmt.Sprintf("%d assembled objects: keys written from the source token or through an encoder", keyRuns))
		}
	}()
	// a key shortcut (@key: value) is written as the example of the key's type, built like any value
	if bk := c.Func("notations/jschema", "exampleBuilder.buildObjectKey"); bk != nil && keyT != nil {
		if f := c.Func("internal/lexeme", "LexEvent.Value"); f != nil {
			e.cfg.Intrinsics[f.String()] = func(in *pe.Interp, args []pe.Value) (pe.Value, bool) {
				return pe.NewSym("token("+strings.Trim(pe.Show(args[0]), "‹›")+")", f.Signature.Results().At(0).Type()), true
			}
		}
		outs := pe.ExploreFn(e.cfg, func(in *pe.Interp) pe.Value {
			st := keyT.Underlying().(*types.Struct)
			sv := &pe.StructV{T: keyT, F: make([]pe.Value, st.NumFields())}
			for k := 0; k < st.NumFields(); k++ {
				f := st.Field(k)
				if f.Name() == "IsShortcut" {
					sv.F[k] = true
				} else {
					sv.F[k] = pe.NewSym("key."+f.Name(), f.Type())
				}
			}
			return in.Call(bk, []pe.Value{pe.NewSym("builder", bk.Params[0].Type()), sv})
		})
		var problems []string
		built := 0
		for _, o := range outs {
			if o.Undecided != "" || o.Panicked {
				problems = append(problems, "not interpretable: "+o.Exit())
				continue
			}
			tp, ok := o.Ret.(*pe.Tuple)
			if !ok || len(tp.E) != 2 {
				continue
			}
			if !pe.IsNil(tp.E[1]) || pe.IsNil(tp.E[0]) {
				continue // an error, or nothing to write
			}
			shown := pe.Show(tp.E[0])
			if strings.Contains(shown, "ex(") && strings.Contains(strings.ToLower(shown), "rootnode") {
				built++
			} else {
				problems = append(problems, "a key shortcut is written as "+shown+", not as the built example of the key's type (a type that is itself a reference or an or-list has no literal token of its own)")
			}
		}
		if built == 0 && len(problems) == 0 {
			problems = append(problems, "no path writes the example of the key's type")
		}
		if len(problems) > 0 {
			r.Bad("keyshortcut|object", c.Pos(bk.Pos()), strings.Join(uniq(problems), "; "))
		} else {
			r.OK("keyshortcut|object", c.Pos(bk.Pos()), "a key shortcut is written as the example built for the root node of its type")
		}
	}
	for _, kind := range []struct {
		name string
		fn   *ssa.Function
		typ  string
		open string
		clos string
	}{{"object", objFn, "ObjectNode", "{", "}"}, {"array", arrFn, "ArrayNode", "[", "]"}} {
		nt := namedType(c, pkgSchema, kind.typ)
		if nt == nil {
			r.Unk("anchor|schema."+kind.typ, "", "not found")
			continue
		}
		for n := 0; n <= maxChildren; n++ {
			n := n
			// the container's children and keys
			if f := c.Func(pkgSchema, kind.typ+".Children"); f != nil {
				e.cfg.Intrinsics[f.String()] = func(in *pe.Interp, args []pe.Value) (pe.Value, bool) {
					var ch []pe.Value
					for i := 0; i < n; i++ {
						ch = append(ch, pe.NewSym(fmt.Sprintf("child%d", i), nodeT))
					}
					return in.MakeSliceOf(ch, n), true
				}
			}
			if f := c.Func(pkgSchema, kind.typ+".Constraint"); f != nil {
				e.cfg.Intrinsics[f.String()] = func(in *pe.Interp, args []pe.Value) (pe.Value, bool) { return pe.NilV{}, true }
			}
			// baseNode.Constraint through embedding
			if f := c.Func(pkgSchema, "baseNode.Constraint"); f != nil {
				e.cfg.Intrinsics[f.String()] = func(in *pe.Interp, args []pe.Value) (pe.Value, bool) { return pe.NilV{}, true }
			}
			if kind.name == "object" {
				if f := c.Func(pkgSchema, "ObjectNode.Key"); f != nil && keyT != nil {
					e.cfg.Intrinsics[f.String()] = func(in *pe.Interp, args []pe.Value) (pe.Value, bool) {
						i := pe.Show(args[1])
						st := keyT.Underlying().(*types.Struct)
						sv := &pe.StructV{T: keyT, F: make([]pe.Value, st.NumFields())}
						for k := 0; k < st.NumFields(); k++ {
							f := st.Field(k)
							switch f.Name() {
							case "IsShortcut":
								sv.F[k] = false
							default:
								sv.F[k] = pe.NewSym(fmt.Sprintf("key%s.%s", i, f.Name()), f.Type())
							}
						}
						return sv, true
					}
				}
				if f := c.Func("internal/lexeme", "LexEvent.Value"); f != nil {
					e.cfg.Intrinsics[f.String()] = func(in *pe.Interp, args []pe.Value) (pe.Value, bool) {
						return pe.NewSym("token("+strings.Trim(pe.Show(args[0]), "‹›")+")", f.Signature.Results().At(0).Type()), true
					}
				}
			}
			outs := pe.ExploreFn(e.cfg, func(in *pe.Interp) pe.Value {
				recvT := kind.fn.Params[0].Type()
				return in.Call(kind.fn, []pe.Value{pe.NewSym("builder", recvT), pe.NewSym("container", types.NewPointer(nt))})
			})
			pos := c.Pos(kind.fn.Pos())
			for _, o := range outs {
				val := o.ChoiceMap()
				if tp, ok := o.Ret.(*pe.Tuple); ok && len(tp.E) == 2 && !pe.IsNil(tp.E[1]) && o.Undecided == "" && !o.Panicked {
					// an error exit (a container that carries a types list, a failing child): nothing is written
					// for the caller; which errors may leave is XF's business
					hasWrite := false
					for _, ef := range o.Effects {
						if strings.HasPrefix(ef, "w:") {
							hasWrite = true
						}
					}
					if !hasWrite {
						continue
					}
				}
				var emitted []string
				pattern := ""
				for i := 0; i < n; i++ {
					v := val[fmt.Sprintf("ex(child%d)", i)]
					switch v {
					case "emitted":
						emitted = append(emitted, fmt.Sprintf("‹ex(child%d)›", i))
						pattern += "E"
					case "omitted":
						pattern += "o"
					default:
						pattern += "?"
					}
				}
				key := fmt.Sprintf("shape|%s|children=%d|%s", kind.name, n, pattern)
				if o.Undecided != "" || o.Panicked {
					r.Unk(key, pos, o.Exit())
					continue
				}
				if strings.Contains(pattern, "?") {
					r.Bad(key, pos, "a child is neither emitted nor omitted on this path (its example is never requested): "+o.Valuation())
					continue
				}
				var writes []string
				for _, ef := range o.Effects {
					if strings.HasPrefix(ef, "w:") {
						writes = append(writes, strings.TrimPrefix(ef, "w:"))
					}
				}
				problem, keyProblem := shapeProblem(writes, emitted, kind.open, kind.clos, kind.name == "object")
				if keyProblem != "" && !keyReported {
					keyReported = true
					r.Bad("keyenc|"+kind.name, pos, fmt.Sprintf("%s; writes: %s", keyProblem, strings.Join(writes, " ")))
				}
				if kind.name == "object" && len(emitted) > 0 {
					keyRuns++
				}
				if problem != "" {
					r.Bad(key, pos, fmt.Sprintf("%s; writes: %s", problem, strings.Join(writes, " ")))
				} else {
					r.OK(key, pos, strings.Join(writes, " "))
				}
			}
		}
	}
}

func namedOf(c *load.Ctx, pkgPath, name string) *types.Named {
	c.BuildSSA()
	for _, p := range c.Prog.AllPackages() {
		if p.Pkg.Path() == pkgPath {
			if tn, ok := p.Pkg.Scope().Lookup(name).(*types.TypeName); ok {
				n, _ := tn.Type().(*types.Named)
				return n
			}
		}
	}
	return nil
}

// shapeProblem checks the write sequence of a container.
func shapeProblem(writes, emitted []string, open, clos string, object bool) (problem, keyProblem string) {
	problem = shapeProblem1(writes, emitted, open, clos, object)
	if object {
		for _, w := range writes {
			if !strings.Contains(w, "‹") || strings.Contains(w, "‹ex(") {
				continue // punctuation or a child's example
			}
			// a key: the verbatim source token, or the output of an encoder
			verbatim := strings.HasPrefix(w, "‹token(key") && strings.HasSuffix(w, ".Lex)›") && strings.Count(w, "‹") == 1
			encoded := strings.Contains(w, "Marshal") || strings.Contains(w, "Quote")
			switch {
			case verbatim || encoded:
			case strings.Contains(w, ".Key›"):
				keyProblem = "the member key is written from the decoded key text without re-encoding (quotes, backslashes and control characters in a key come out unescaped)"
			default:
				keyProblem = "the member key is neither the verbatim source token nor the output of a JSON encoder, but a transformation of it (" + w + "): trimming or slicing a quoted token is wrong for keys that contain or end with escaped quotes"
			}
		}
	}
	return
}

var (
	reKeyIdx   = regexp.MustCompile(`key(\d+)\.`)
	reChildIdx = regexp.MustCompile(`ex\(child(\d+)\)`)
)

func shapeProblem1(writes, emitted []string, open, clos string, object bool) string {
	// split multi-character constant writes such as `":` into characters for bracket/comma analysis
	var toks []string
	for _, w := range writes {
		if strings.HasPrefix(w, "‹") || strings.HasPrefix(w, "[") && strings.Contains(w, "‹") {
			toks = append(toks, w)
			continue
		}
		for _, ch := range w {
			toks = append(toks, string(ch))
		}
	}
	if len(toks) < 2 || toks[0] != open || toks[len(toks)-1] != clos {
		return "the text does not start with " + open + " and end with " + clos
	}
	inner := toks[1 : len(toks)-1]
	// group into elements separated by top-level commas
	var elems [][]string
	cur := []string{}
	commas := 0
	for _, t := range inner {
		if t == "," {
			commas++
			elems = append(elems, cur)
			cur = []string{}
			continue
		}
		cur = append(cur, t)
	}
	elems = append(elems, cur)
	if len(emitted) == 0 {
		if len(inner) != 0 {
			return "nothing is emitted but the brackets are not empty"
		}
		return ""
	}
	if commas != len(emitted)-1 {
		return fmt.Sprintf("%d emitted element(s) but %d separator(s)", len(emitted), commas)
	}
	for i, el := range elems {
		if len(el) == 0 {
			return "dangling or doubled separator (an empty slot between separators or next to a bracket)"
		}
		joined := strings.Join(el, "")
		if !strings.Contains(joined, emitted[i]) {
			return fmt.Sprintf("element %d of the text is not the example of emitted child %d (%s)", i, i, emitted[i])
		}
		if strings.Count(joined, "‹ex(") != 1 {
			return "an element slot holds more or less than one child example"
		}
		if object {
			if !strings.Contains(joined, ":") {
				return "an object member without a colon"
			}
			// the key written with a child is that child's own key
			km := reKeyIdx.FindStringSubmatch(joined)
			cm := reChildIdx.FindStringSubmatch(joined)
			if km != nil && cm != nil && km[1] != cm[1] {
				return fmt.Sprintf("the example of child %s is written under the key of child %s: after an omitted member the following members get the wrong keys", cm[1], km[1])
			}
		}
	}
	return ""
}
