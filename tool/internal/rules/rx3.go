package rules

import (
	"fmt"
	"go/constant"
	"go/token"
	"go/types"
	"strings"

	"golang.org/x/tools/go/ssa"

	"verif/internal/load"
	"verif/internal/report"
)

// RX-3 — where the pattern of /P/ ends.
//
// regex.(*Schema).doCompile walks the bytes after the opening slash with a one-bit memory ("the
// previous byte was an unpaired backslash"). The loop body is a finite function of (memory, byte):
// it is evaluated here for all 2 x 256 arguments directly on the SSA form and compared with the
// automaton the property describes — the pattern ends at the first slash preceded by an even number
// of backslashes. Nothing is run; the evaluator knows comparisons of the current byte with constants,
// negation, branches and phis, and gives up (undecided) on anything else the verdict depends on.

func init() {
	register(&Rule{ID: "RX-3", Min: 4, Run: runRX3,
		Doc: "the pattern of a regex type /P/ ends at the first unescaped slash: the loop of regex.(Schema).doCompile over the bytes after the opening slash, read as a function of (its boolean loop-carried state, the current byte) and evaluated for every state and all 256 byte values on the SSA form, is the two-state automaton \"a backslash flips the escape state, any other byte clears it, a slash in the clear state ends the pattern\" started in the clear state, the text scanned is the file's Content() itself (so that Len, the pattern length + 2, is counted from the first byte of the file), and the pattern taken is the text between the opening slash and that slash"})
}

type rx3Result struct {
	exit    bool
	next    []bool // state after the byte (when !exit)
	stored  *ssa.Slice
	problem string
}

func runRX3(c *load.Ctx, r *report.RuleResult) {
	fn := c.Func("notations/regex", "Schema.doCompile")
	if fn == nil {
		r.Unk("anchor|regex.Schema.doCompile", "", "not found")
		return
	}
	// the loop may live in a helper of the package that doCompile calls (`findPattern`)
	hasBoolLoop := func(f *ssa.Function) bool {
		for _, b := range f.Blocks {
			back := false
			for _, p := range b.Preds {
				if b.Dominates(p) {
					back = true
				}
			}
			if !back {
				continue
			}
			for _, ins := range b.Instrs {
				if phi, ok := ins.(*ssa.Phi); ok && isBoolType(phi.Type()) {
					return true
				}
			}
		}
		return false
	}
	origFn := fn
	if !hasBoolLoop(fn) {
		for _, b := range fn.Blocks {
			for _, ins := range b.Instrs {
				if call, ok := ins.(*ssa.Call); ok {
					if h := call.Call.StaticCallee(); h != nil && h.Blocks != nil && load.FuncPkgRel(h) == "notations/regex" && hasBoolLoop(h) {
						fn = h
					}
				}
			}
		}
	}
	pos := c.Pos(fn.Pos())
	// the loop: a header with a boolean phi
	var header *ssa.BasicBlock
	for _, b := range fn.Blocks {
		isHeader := false
		for _, p := range b.Preds {
			if b.Dominates(p) {
				isHeader = true // a back edge
			}
		}
		if !isHeader {
			continue
		}
		for _, ins := range b.Instrs {
			if phi, ok := ins.(*ssa.Phi); ok && isBoolType(phi.Type()) {
				header = b
			}
		}
	}
	if header == nil {
		r.Bad("terminator|loop", pos, "doCompile has no loop with a boolean loop-carried state: the end of the pattern cannot depend on whether the slash is escaped")
		return
	}
	var statePhis []*ssa.Phi
	var indexPhi *ssa.Phi
	for _, ins := range header.Instrs {
		phi, ok := ins.(*ssa.Phi)
		if !ok {
			continue
		}
		if isBoolType(phi.Type()) {
			statePhis = append(statePhis, phi)
		} else {
			indexPhi = phi
		}
	}
	if len(statePhis) != 1 {
		r.Unk("terminator|state", pos, fmt.Sprintf("the loop carries %d boolean variables; the reference automaton has one (escaped)", len(statePhis)))
		return
	}
	// loop body = blocks that can reach the header again
	inLoop := map[*ssa.BasicBlock]bool{header: true}
	for changed := true; changed; {
		changed = false
		for _, b := range fn.Blocks {
			if inLoop[b] || !header.Dominates(b) {
				continue
			}
			for _, s := range b.Succs {
				if inLoop[s] {
					inLoop[b] = true
					changed = true
				}
			}
		}
	}
	ifH, ok := header.Instrs[len(header.Instrs)-1].(*ssa.If)
	if !ok {
		r.Unk("terminator|loop", pos, "the loop header does not end in a bounds test")
		return
	}
	_ = ifH
	var entry *ssa.BasicBlock
	for _, s := range header.Succs {
		if inLoop[s] && s != header {
			entry = s
		}
	}
	if entry == nil {
		r.Unk("terminator|loop", pos, "loop body not found")
		return
	}
	var done *ssa.BasicBlock // where the loop goes when the text is exhausted
	for _, s := range header.Succs {
		if !inLoop[s] {
			done = s
		}
	}
	// initial state: the phi's value on the edge from outside the loop
	initial := ""
	for i, p := range header.Preds {
		if !inLoop[p] {
			if k, ok := statePhis[0].Edges[i].(*ssa.Const); ok {
				initial = k.Value.String()
			} else {
				initial = "?"
			}
		}
	}
	eval := func(state bool, c byte) rx3Result {
		env := map[ssa.Value]any{statePhis[0]: state}
		var val func(v ssa.Value) (any, bool)
		val = func(v ssa.Value) (any, bool) {
			if x, ok := env[v]; ok {
				return x, true
			}
			if k, ok := v.(*ssa.Const); ok && k.Value != nil {
				switch k.Value.Kind() {
				case constant.Bool:
					return constant.BoolVal(k.Value), true
				case constant.Int:
					if n, exact := constant.Int64Val(k.Value); exact {
						return n, true
					}
				}
			}
			return nil, false
		}
		res := rx3Result{}
		b := entry
		var prev *ssa.BasicBlock = header
		for steps := 0; steps < 200; steps++ {
			if b == header {
				// continue: the new state is the phi's operand for the edge we came along
				for i, p := range header.Preds {
					if p == prev {
						x, ok := val(statePhis[0].Edges[i])
						bv, isB := x.(bool)
						if !ok || !isB {
							res.problem = "the next state is not decided by the state and the byte"
							return res
						}
						res.next = []bool{bv}
						return res
					}
				}
				res.problem = "back edge not found"
				return res
			}
			if !inLoop[b] {
				// left the loop from its body: what the way out stores is the pattern taken
				res.exit = true
				for hops := 0; hops < 4 && b != done; hops++ {
					for _, ins := range b.Instrs {
						if x, ok := ins.(*ssa.Store); ok {
							if fa, ok := x.Addr.(*ssa.FieldAddr); ok && fieldName(fa.X.Type(), fa.Field) == "pattern" {
								v := x.Val
								if cv, ok := v.(*ssa.Convert); ok {
									v = cv.X
								}
								if sl, ok := v.(*ssa.Slice); ok {
									res.stored = sl
								}
							}
						}
						// a helper hands the pattern back instead of storing it
						if x, ok := ins.(*ssa.Return); ok && len(x.Results) >= 1 {
							v := x.Results[0]
							if cv, ok := v.(*ssa.Convert); ok {
								v = cv.X
							}
							if sl, ok := v.(*ssa.Slice); ok {
								res.stored = sl
							}
						}
					}
					if _, isJump := b.Instrs[len(b.Instrs)-1].(*ssa.Jump); !isJump {
						break
					}
					b = b.Succs[0]
				}
				return res
			}
			for _, ins := range b.Instrs {
				switch x := ins.(type) {
				case *ssa.Phi:
					for i, p := range b.Preds {
						if p == prev {
							if v, ok := val(x.Edges[i]); ok {
								env[x] = v
							}
						}
					}
				case *ssa.IndexAddr:
					env[x] = "elem" // the address of the current byte (any other element is not modelled)
					if !sameIndex(x.Index, indexPhi) {
						env[x] = "other-elem"
					}
				case *ssa.UnOp:
					switch x.Op {
					case token.MUL:
						if env[x.X] == "elem" {
							env[x] = int64(c)
						}
					case token.NOT:
						if v, ok := val(x.X); ok {
							if bv, isB := v.(bool); isB {
								env[x] = !bv
							}
						}
					}
				case *ssa.BinOp:
					l, okl := val(x.X)
					rr, okr := val(x.Y)
					if !okl || !okr {
						continue
					}
					switch x.Op {
					case token.EQL:
						env[x] = l == rr
					case token.NEQ:
						env[x] = l != rr
					case token.LAND:
						if lb, ok := l.(bool); ok {
							if rb, ok := rr.(bool); ok {
								env[x] = lb && rb
							}
						}
					case token.LOR:
						if lb, ok := l.(bool); ok {
							if rb, ok := rr.(bool); ok {
								env[x] = lb || rb
							}
						}
					}
				case *ssa.Store:
					if fa, ok := x.Addr.(*ssa.FieldAddr); ok && fieldName(fa.X.Type(), fa.Field) == "pattern" {
						v := x.Val
						if cv, ok := v.(*ssa.Convert); ok {
							v = cv.X
						}
						if sl, ok := v.(*ssa.Slice); ok {
							res.stored = sl
						}
					}
				case *ssa.If:
					v, ok := val(x.Cond)
					bv, isB := v.(bool)
					if !ok || !isB {
						res.problem = "a branch inside the loop depends on something other than the state and the current byte (" + x.Cond.String() + " at " + c0pos(b) + ")"
						return res
					}
					prev = b
					if bv {
						b = b.Succs[0]
					} else {
						b = b.Succs[1]
					}
				case *ssa.Jump:
					prev = b
					b = b.Succs[0]
				case *ssa.Call, *ssa.Panic, *ssa.Return, *ssa.MapUpdate, *ssa.Defer, *ssa.Go:
					res.problem = "the loop body does more than classify the byte (" + strings.TrimSpace(ins.String()) + ")"
					return res
				}
			}
		}
		res.problem = "evaluation did not end"
		return res
	}
	// compare with the reference automaton
	var problems []string
	count := 0
	var stored *ssa.Slice
	for _, st := range []bool{false, true} {
		for b := 0; b < 256; b++ {
			got := eval(st, byte(b))
			if got.problem != "" {
				r.Unk("terminator|transitions", pos, "the loop cannot be read as an automaton over (escaped, byte): "+got.problem)
				return
			}
			count++
			wantExit := b == '/' && !st
			wantNext := b == '\\' && !st
			switch {
			case got.exit != wantExit:
				problems = append(problems, fmt.Sprintf("in state escaped=%v the byte %q %s the pattern; the first unescaped slash must end it and nothing else", st, string([]byte{byte(b)}), map[bool]string{true: "ends", false: "does not end"}[got.exit]))
			case !got.exit && got.next[0] != wantNext:
				problems = append(problems, fmt.Sprintf("after the byte %q in state escaped=%v the state is escaped=%v; a backslash flips it and every other byte clears it", string([]byte{byte(b)}), st, got.next[0]))
			}
			if got.exit && got.stored != nil {
				stored = got.stored
			}
		}
	}
	if initial != "false" {
		problems = append(problems, "the scan does not start in the clear state (initial value "+initial+")")
	}
	if len(problems) > 0 {
		if len(problems) > 3 {
			problems = append(problems[:3], fmt.Sprintf("… and %d more", len(problems)-3))
		}
		r.Bad("terminator|transitions", pos, strings.Join(problems, "; "))
	} else {
		r.OK("terminator|transitions", pos, fmt.Sprintf("%d (state, byte) pairs agree with the reference automaton", count))
	}
	r.OK("terminator|initial", pos, "initial state read off the loop's entry edge: "+initial)
	// the text taken: between the opening slash and the closing one
	switch {
	case stored == nil:
		r.Bad("terminator|pattern", pos, "leaving the loop at the closing slash does not store the pattern")
	default:
		// relate the slice taken to the element the loop was looking at when it left
		var elem *ssa.IndexAddr
		for _, ins := range entry.Instrs {
			if ia, ok := ins.(*ssa.IndexAddr); ok && sameIndexValue(ia.Index, indexPhi) {
				elem = ia
			}
		}
		isConst := func(v ssa.Value, want string) bool {
			k, ok := v.(*ssa.Const)
			return ok && k.Value != nil && k.Value.String() == want
		}
		plusOne := func(v, base ssa.Value) bool {
			bo, ok := v.(*ssa.BinOp)
			return ok && bo.Op == token.ADD && bo.X == base && isConst(bo.Y, "1")
		}
		ok := false
		why := ""
		if elem != nil {
			switch {
			case stored.X == elem.X && stored.High == elem.Index && isConst(stored.Low, "1"):
				ok, why = true, "text[1:i] with text[i] the closing slash"
			case stored.X == elem.X && stored.High == elem.Index && (stored.Low == nil || isConst(stored.Low, "0")):
				if sl, isSl := elem.X.(*ssa.Slice); isSl && isConst(sl.Low, "1") {
					ok, why = true, "rest[:i] with rest the text after the opening slash and rest[i] the closing slash"
				}
			default:
				if sl, isSl := elem.X.(*ssa.Slice); isSl && isConst(sl.Low, "1") && sl.High == nil && stored.X == sl.X && isConst(stored.Low, "1") && plusOne(stored.High, elem.Index) {
					ok, why = true, "content[1:i+1] with i counting from the byte after the opening slash and that byte the closing slash"
				}
			}
		}
		// the text scanned is the file's content itself (Len is counted from its first byte)
		if elem != nil {
			base := elem.X
			if sl, isSl := base.(*ssa.Slice); isSl {
				base = sl.X
			}
			isContent := false
			isContentCall := func(v ssa.Value) bool {
				if call, isCall := v.(*ssa.Call); isCall {
					if sc := call.Call.StaticCallee(); sc != nil && sc.Name() == "Content" && load.FuncPkgRel(sc) == "fs" {
						return true
					}
				}
				return false
			}
			if isContentCall(base) {
				isContent = true
			}
			if prm, isParam := base.(*ssa.Parameter); isParam && fn != origFn {
				// the loop lives in a helper: every call of it in doCompile hands it the content
				idx := -1
				for i, p := range fn.Params {
					if p == prm {
						idx = i
					}
				}
				sites := callSites(origFn, fn)
				all := len(sites) > 0 && idx >= 0
				for _, cs := range sites {
					if idx >= len(cs.Call.Args) || !isContentCall(cs.Call.Args[idx]) {
						all = false
					}
				}
				isContent = all
			}
			if isContent {
				r.OK("terminator|text", c.Pos(elem.Pos()), "the loop reads the file's Content() itself")
			} else {
				r.Bad("terminator|text", c.Pos(elem.Pos()), "the loop does not read the file's Content() itself but "+describeValue(base)+": the pattern's place in the file is shifted, while Len() (pattern length + 2) is counted from the first byte of the file")
			}
		}
		if ok {
			r.OK("terminator|pattern", c.Pos(stored.Pos()), "the pattern is "+why+": the text between the two slashes")
		} else {
			r.Unk("terminator|pattern", c.Pos(stored.Pos()), "the slice stored as the pattern ("+stored.String()+") could not be related to the position of the closing slash")
		}
	}
}

func isBoolType(t types.Type) bool {
	b, ok := t.Underlying().(*types.Basic)
	return ok && b.Kind() == types.Bool
}

// sameIndex: the index expression is the loop's current index (phi + 1 in a range loop, or the phi).
func sameIndex(v ssa.Value, phi *ssa.Phi) bool { return sameIndexValue(v, phi) }

func sameIndexValue(v ssa.Value, phi *ssa.Phi) bool {
	if phi == nil || v == nil {
		return false
	}
	if v == ssa.Value(phi) {
		return true
	}
	if bo, ok := v.(*ssa.BinOp); ok && bo.Op == token.ADD && bo.X == ssa.Value(phi) {
		if k, ok := bo.Y.(*ssa.Const); ok && k.Value != nil && k.Value.String() == "1" {
			return true
		}
	}
	return false
}

// rangedSlice: the slice whose elements the loop reads (t31 = slice content[1:]).
func rangedSlice(entry *ssa.BasicBlock, phi *ssa.Phi) *ssa.Slice {
	for _, ins := range entry.Instrs {
		if ia, ok := ins.(*ssa.IndexAddr); ok && sameIndexValue(ia.Index, phi) {
			if sl, ok := ia.X.(*ssa.Slice); ok {
				return sl
			}
		}
	}
	return nil
}

func c0pos(b *ssa.BasicBlock) string { return fmt.Sprintf("block %d", b.Index) }

var _ = load.Module
