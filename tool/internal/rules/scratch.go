package rules

import (
	"fmt"
	"go/types"
	"sort"

	"golang.org/x/tools/go/ssa"

	"verif/internal/load"
	"verif/internal/report"
)

// SC-1: per-node scratch state.
//
// The example checker decides "is the kind of this example among the kinds its types admit" from
// maps kept in the checker object and filled by a recursive collector. The verdict for one node may
// only use what was collected for that node: the maps the collector fills must be emptied before
// every collection (or each insertion undone in the same block, a stack discipline).

func init() {
	register(&Rule{ID: "SC-1", Min: 2, Run: runSC1,
		Doc: "per-node scratch state: every map field of the checker object that the recursive collector reachable from checkLinksOfNode fills is emptied (range+delete over the same field, clear(), or a fresh make) on a path that dominates the collecting call and the verdict lookup, or each insertion is undone by a delete of the same key in the same block — otherwise what an earlier node admitted leaks into the verdict for a later one"})
}

// scratchRoots: the functions that produce a per-node verdict from receiver scratch maps.
var scratchRoots = []struct{ rel, name string }{
	{pkgChecker, "checkSchema.checkLinksOfNode"},
}

func runSC1(c *load.Ctx, r *report.RuleResult) {
	for _, sr := range scratchRoots {
		root := c.Func(sr.rel, sr.name)
		if root == nil || root.Signature.Recv() == nil {
			r.Unk("anchor|"+sr.name, "", "function not found")
			continue
		}
		recvT := root.Signature.Recv().Type()
		if p, ok := recvT.Underlying().(*types.Pointer); ok {
			recvT = p.Elem()
		}
		st, ok := recvT.Underlying().(*types.Struct)
		if !ok {
			r.Unk("anchor|"+sr.name, "", "receiver is not a struct")
			continue
		}
		fieldOf := func(v ssa.Value) (int, bool) {
			u, ok := v.(*ssa.UnOp)
			if !ok {
				return 0, false
			}
			fa, ok := u.X.(*ssa.FieldAddr)
			if !ok {
				return 0, false
			}
			pt, ok := fa.X.Type().Underlying().(*types.Pointer)
			if !ok || !types.Identical(pt.Elem(), recvT) {
				return 0, false
			}
			return fa.Field, true
		}
		// functions reachable through static calls (methods and helpers of the module)
		reach := map[*ssa.Function]bool{root: true}
		stack := []*ssa.Function{root}
		for len(stack) > 0 {
			f := stack[len(stack)-1]
			stack = stack[:len(stack)-1]
			for _, b := range f.Blocks {
				for _, ins := range b.Instrs {
					if call, ok := ins.(ssa.CallInstruction); ok {
						if sc := call.Common().StaticCallee(); sc != nil && load.FuncInModule(sc) && !reach[sc] && sc.Signature.Recv() != nil && sameRecv(sc, recvT) {
							reach[sc] = true
							stack = append(stack, sc)
						}
					}
				}
			}
		}
		// direct writers per field
		writes := map[int]map[*ssa.Function][]*ssa.MapUpdate{}
		for f := range reach {
			for _, b := range f.Blocks {
				for _, ins := range b.Instrs {
					if mu, ok := ins.(*ssa.MapUpdate); ok {
						if fi, ok := fieldOf(mu.Map); ok {
							if writes[fi] == nil {
								writes[fi] = map[*ssa.Function][]*ssa.MapUpdate{}
							}
							writes[fi][f] = append(writes[fi][f], mu)
						}
					}
				}
			}
		}
		var fields []int
		for fi := range writes {
			fields = append(fields, fi)
		}
		sort.Ints(fields)
		if len(fields) == 0 {
			r.Unk("anchor|"+sr.name, c.Pos(root.Pos()), "no scratch map of the receiver is filled from here: the rule has no instance")
			continue
		}
		// transitive writers
		writesTrans := func(fi int) map[*ssa.Function]bool {
			m := map[*ssa.Function]bool{}
			for f := range writes[fi] {
				m[f] = true
			}
			for changed := true; changed; {
				changed = false
				for f := range reach {
					if m[f] {
						continue
					}
					for _, b := range f.Blocks {
						for _, ins := range b.Instrs {
							if call, ok := ins.(ssa.CallInstruction); ok {
								if sc := call.Common().StaticCallee(); sc != nil && m[sc] {
									m[f] = true
									changed = true
								}
							}
						}
					}
				}
			}
			return m
		}
		for _, fi := range fields {
			name := st.Field(fi).Name()
			key := fmt.Sprintf("reset|%s|%s", load.FuncKey(root), name)
			wt := writesTrans(fi)
			// uses in root that must see a fresh map: calls of writers, direct updates and lookups
			var uses []ssa.Instruction
			var resets []ssa.Instruction
			for _, b := range root.Blocks {
				for _, ins := range b.Instrs {
					switch x := ins.(type) {
					case *ssa.Call:
						if sc := x.Call.StaticCallee(); sc != nil && sc != root && wt[sc] {
							uses = append(uses, ins)
						}
						if bi, ok := x.Call.Value.(*ssa.Builtin); ok {
							switch bi.Name() {
							case "clear":
								if f2, ok := fieldOf(x.Call.Args[0]); ok && f2 == fi {
									resets = append(resets, ins)
								}
							case "delete":
								if f2, ok := fieldOf(x.Call.Args[0]); ok && f2 == fi {
									if rg := rangeKeyOf(x.Call.Args[1]); rg != nil {
										if f3, ok := fieldOf(rg.X); ok && f3 == fi {
											resets = append(resets, rg)
										}
									}
								}
							}
						}
					case *ssa.Lookup:
						if f2, ok := fieldOf(x.X); ok && f2 == fi {
							uses = append(uses, ins)
						}
					case *ssa.MapUpdate:
						if f2, ok := fieldOf(x.Map); ok && f2 == fi {
							uses = append(uses, ins)
						}
					case *ssa.Store:
						if fa, ok := x.Addr.(*ssa.FieldAddr); ok && fa.Field == fi {
							if pt, ok := fa.X.Type().Underlying().(*types.Pointer); ok && types.Identical(pt.Elem(), recvT) {
								if _, ok := x.Val.(*ssa.MakeMap); ok {
									resets = append(resets, ins)
								}
							}
						}
					}
				}
			}
			if len(uses) == 0 {
				r.Unk(key, c.Pos(root.Pos()), "the map is filled by a callee but "+root.Name()+" neither calls a writer nor reads it")
				continue
			}
			covered := true
			var firstBad ssa.Instruction
			for _, u := range uses {
				ok := false
				for _, rs := range resets {
					if dominatesInstr(rs, u) {
						ok = true
					}
				}
				if !ok {
					covered = false
					if firstBad == nil {
						firstBad = u
					}
				}
			}
			if covered {
				r.OK(key, c.Pos(root.Pos()), fmt.Sprintf("emptied before each of the %d collecting call(s)/lookups in %s", len(uses), root.Name()))
				continue
			}
			// stack discipline: every insertion undone in the same block
			balanced := true
			for f, mus := range writes[fi] {
				for _, mu := range mus {
					if !undoneInBlock(mu, fi, fieldOf) {
						balanced = false
						_ = f
					}
				}
			}
			if balanced {
				r.OK(key, c.Pos(root.Pos()), "every insertion is undone by a delete of the same key in the same block (stack discipline)")
				continue
			}
			r.Bad(key, c.Pos(firstBad.Pos()), fmt.Sprintf("receiver map %s is filled by the collector and consulted for the verdict on this node, but it is not emptied on every path before %s: what an earlier node admitted leaks into the verdict for a later one", name, describeInstr(firstBad)))
		}
	}
}

func sameRecv(f *ssa.Function, recvT types.Type) bool {
	t := f.Signature.Recv().Type()
	if p, ok := t.Underlying().(*types.Pointer); ok {
		t = p.Elem()
	}
	return types.Identical(t, recvT)
}

// rangeKeyOf: v is the key of a range loop (Extract #1 of Next of Range); returns the Range.
func rangeKeyOf(v ssa.Value) *ssa.Range {
	ex, ok := v.(*ssa.Extract)
	if !ok || ex.Index != 1 {
		return nil
	}
	nx, ok := ex.Tuple.(*ssa.Next)
	if !ok {
		return nil
	}
	rg, _ := nx.Iter.(*ssa.Range)
	return rg
}

func undoneInBlock(mu *ssa.MapUpdate, fi int, fieldOf func(ssa.Value) (int, bool)) bool {
	after := false
	for _, ins := range mu.Block().Instrs {
		if ins == ssa.Instruction(mu) {
			after = true
			continue
		}
		if !after {
			continue
		}
		if call, ok := ins.(*ssa.Call); ok {
			if bi, ok := call.Call.Value.(*ssa.Builtin); ok && bi.Name() == "delete" {
				if f2, ok := fieldOf(call.Call.Args[0]); ok && f2 == fi && (call.Call.Args[1] == mu.Key || sameOrigin(call.Call.Args[1], mu.Key)) {
					return true
				}
			}
		}
	}
	return false
}

func describeInstr(ins ssa.Instruction) string {
	switch x := ins.(type) {
	case *ssa.Call:
		if sc := x.Call.StaticCallee(); sc != nil {
			return "the call of " + sc.Name()
		}
	case *ssa.Lookup:
		return "the lookup " + describeValue(x.X) + "[…]"
	case *ssa.MapUpdate:
		return "the update of " + describeValue(x.Map)
	}
	return "its use"
}
