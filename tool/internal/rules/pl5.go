package rules

import (
	"fmt"
	"go/token"
	"go/types"
	"sort"
	"strings"

	"golang.org/x/tools/go/ssa"

	"verif/internal/load"
	"verif/internal/report"
)

// PL-5 — a reset method resets everything the object's own methods change.

func init() {
	register(&Rule{ID: "PL-5", Min: 1, Run: runPL5,
		Doc: "an object that is reused after reset() starts from scratch: for every method named reset or Reset of a struct type of the library, every field that some other function of the library changes — by storing into it, by writing through it (elements of a slice, entries of a map), or by calling on it a method that changes its receiver (computed effect summary) — outside the functions that create the object, is assigned or cleared by the reset method; a field left out (a queue of pending lexemes, a stack, a counter) carries what the previous use left behind into the next one"})
}

func runPL5(c *load.Ctx, r *report.RuleResult) {
	eff := newFSEffects(c)
	type target struct {
		m     *ssa.Function
		named *types.Named
	}
	var targets []target
	for _, fn := range c.ModuleFunctions() {
		if load.IsAux(load.FuncPkgRel(fn)) || fn.Signature.Recv() == nil || fn.Parent() != nil {
			continue
		}
		if fn.Name() != "reset" && fn.Name() != "Reset" {
			continue
		}
		rt := fn.Signature.Recv().Type()
		if p, ok := rt.(*types.Pointer); ok {
			rt = p.Elem()
		}
		named, ok := rt.(*types.Named)
		if !ok {
			continue
		}
		if _, isStruct := named.Underlying().(*types.Struct); !isStruct {
			continue
		}
		targets = append(targets, target{fn, named})
	}
	sort.Slice(targets, func(i, j int) bool { return load.FuncKey(targets[i].m) < load.FuncKey(targets[j].m) })
	if len(targets) == 0 {
		r.Unk("anchor|reset methods", "", "no reset method in the library")
		return
	}
	for _, t := range targets {
		st := t.named.Underlying().(*types.Struct)
		isT := func(ty types.Type) bool { return types.Identical(derefType(ty), t.named) }
		// what does a function do to the fields of a T?
		touches := func(fn *ssa.Function) map[int]string {
			out := map[int]string{}
			fieldOf := func(v ssa.Value) (int, bool) {
				// the value is (the address of / a load of / an element address in) field f of a T
				for depth := 0; depth < 6; depth++ {
					switch x := v.(type) {
					case *ssa.FieldAddr:
						if isT(x.X.Type()) {
							return x.Field, true
						}
						v = x.X
					case *ssa.UnOp:
						if x.Op != token.MUL {
							return 0, false
						}
						v = x.X
					case *ssa.IndexAddr:
						v = x.X
					case *ssa.Slice:
						v = x.X
					default:
						return 0, false
					}
				}
				return 0, false
			}
			for _, b := range fn.Blocks {
				for _, ins := range b.Instrs {
					switch x := ins.(type) {
					case *ssa.Store:
						if f, ok := fieldOf(x.Addr); ok {
							out[f] = "stores at " + c.Pos(x.Pos())
						}
					case *ssa.MapUpdate:
						if f, ok := fieldOf(x.Map); ok {
							out[f] = "updates the map at " + c.Pos(x.Pos())
						}
					case ssa.CallInstruction:
						cc := x.Common()
						sc := cc.StaticCallee()
						if sc == nil {
							continue
						}
						for i, a := range cc.Args {
							f, ok := fieldOf(a)
							if !ok {
								continue
							}
							if _, isAddr := a.(*ssa.FieldAddr); !isAddr {
								if _, isLoad := a.(*ssa.UnOp); !isLoad {
									continue
								}
							}
							if eff.writes(sc, i) {
								out[f] = "calls " + sc.Name() + " on it at " + c.Pos(x.Pos())
							}
						}
					}
				}
			}
			return out
		}
		creates := func(fn *ssa.Function) bool {
			for _, b := range fn.Blocks {
				for _, ins := range b.Instrs {
					if a, ok := ins.(*ssa.Alloc); ok && isT(a.Type()) {
						return true
					}
				}
			}
			return false
		}
		inReset := touches(t.m)
		mutable := map[int]string{}
		for _, fn := range c.ModuleFunctions() {
			if fn == t.m || load.IsAux(load.FuncPkgRel(fn)) || creates(fn) || len(callSites(fn, t.m)) > 0 {
				continue // the reset method itself, constructors, and the callers of reset (they complete it)
			}
			if load.FuncPkgRel(fn) != load.FuncPkgRel(t.m) {
				continue // unexported fields: only the package itself can reach them
			}
			for f, why := range touches(fn) {
				if mutable[f] == "" {
					mutable[f] = load.FuncKey(fn) + " " + why
				}
			}
		}
		var fs []int
		for f := range mutable {
			fs = append(fs, f)
		}
		sort.Ints(fs)
		base := "reset-all|" + load.Rel(t.named.Obj().Pkg().Path()) + "." + t.named.Obj().Name()
		for _, f := range fs {
			key := base + "." + st.Field(f).Name()
			if inReset[f] != "" {
				r.OK(key, c.Pos(st.Field(f).Pos()), "changed by "+strings.SplitN(mutable[f], " ", 2)[0]+"; reset "+inReset[f])
			} else {
				r.Bad(key, c.Pos(t.m.Pos()), fmt.Sprintf("field %s is changed by %s but not reset by %s: what one use leaves in it is seen by the next", st.Field(f).Name(), mutable[f], t.m.Name()))
			}
		}
		if len(fs) == 0 {
			r.OK(base, c.Pos(t.m.Pos()), "no field is changed outside the functions that create the object")
		}
	}
}
