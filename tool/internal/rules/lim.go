package rules

import (
	"fmt"
	"go/constant"
	"go/token"
	"go/types"

	"golang.org/x/tools/go/ssa"

	"verif/internal/load"
	"verif/internal/report"
)

// LIM-1 — no size limits in the recognisers.

func init() {
	register(&Rule{ID: "LIM-1", Min: 1, Run: runLIM1,
		Doc: "the recognisers impose no size limit: in the scanner packages (formats/json, the schema scanner, rules/enum, internal/json) and the example builder, no branch compares a counter — an integer that is not a byte, not an index into the text and not a length of it — with a constant between 8 and 4096 (what a text of the quantified sizes, up to 4 KiB, can reach); RFC 8259 texts of any nesting depth, numerals of any length and exponents of any size are within the properties' quantifiers, and a \"hardening\" limit (maximal nesting 128, maximal exponent 308, maximal example depth 32) rejects or truncates valid input that no test reaches"})
}

var limPkgs = map[string]bool{
	"formats/json": true, "notations/jschema/internal/scanner": true, "rules/enum": true, "internal/json": true,
	"notations/jschema": true, "notations/regex": true,
}

func runLIM1(c *load.Ctx, r *report.RuleResult) {
	n := 0
	for _, fn := range c.ModuleFunctions() {
		if !limPkgs[load.FuncPkgRel(fn)] {
			continue
		}
		for _, b := range fn.Blocks {
			for _, ins := range b.Instrs {
				bo, ok := ins.(*ssa.BinOp)
				if !ok {
					continue
				}
				switch bo.Op {
				case token.LSS, token.GTR, token.LEQ, token.GEQ:
				default:
					continue
				}
				var k *ssa.Const
				var other ssa.Value
				if x, ok := bo.Y.(*ssa.Const); ok {
					k, other = x, bo.X
				} else if x, ok := bo.X.(*ssa.Const); ok {
					k, other = x, bo.Y
				}
				if k == nil || k.Value == nil || k.Value.Kind() != constant.Int {
					continue
				}
				bt, ok := other.Type().Underlying().(*types.Basic)
				if !ok || bt.Info()&types.IsInteger == 0 || bt.Kind() == types.Uint8 || bt.Kind() == types.Int32 {
					continue // bytes and runes are character classes
				}
				v, exact := constant.Int64Val(k.Value)
				if !exact || (v < 8 && v > -8) || v > 4096 || v < -4096 {
					continue // small constants are structure; beyond 4096 no text of the quantified sizes (4 KiB) gets there
				}
				if call, ok := other.(*ssa.Call); ok {
					if bi, ok := call.Call.Value.(*ssa.Builtin); ok && bi.Name() == "cap" {
						continue // a capacity is memory, not input
					}
				}
				n++
				key := fmt.Sprintf("limit|%s|%s %s %d", load.FuncKey(fn), describeValue(other), bo.Op, v)
				if why, ok := limReviewed[load.FuncKey(fn)]; ok {
					r.OK(key, c.Pos(bo.Pos()), "reviewed: "+why)
					continue
				}
				r.Bad(key, c.Pos(bo.Pos()), fmt.Sprintf("%s compares a counter (%s) with the constant %d: a size limit in a recogniser — input beyond it is valid for the properties' quantifiers and is now rejected or cut", fn.Name(), describeValue(other), v))
			}
		}
	}
	if n == 0 {
		r.OK("limit|none", "", "no counter is compared with a constant of 8 or more in the recogniser packages")
	}
}

// limReviewed: comparisons with a large constant that are not limits on the input.
var limReviewed = map[string]string{}
