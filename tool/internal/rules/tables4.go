package rules

import (
	"fmt"
	"go/types"
	"strings"

	"verif/internal/load"
	"verif/internal/pe"
	"verif/internal/report"
)

func init() {
	register(&Rule{ID: "T11", Min: 12, Run: runT11,
		Doc: "opening/closing classification: LexEventType.IsOpening is true for exactly the begin events of the JSON event protocol (literal, object, key, value, array, item) and false for their end events, so a depth counter driven by it returns to zero exactly at the event that closes the value it started on"})
	register(&Rule{ID: "T-any", Min: 4, Run: runTAny,
		Doc: "type any / additionalProperties any swallow one whole value by depth counting: the feed functions add one to the depth on an opening event, subtract one on any other event, hand back no child validators, and report completion exactly when the new depth is zero"})
	register(&Rule{ID: "T10", Min: 8, Run: runT10,
		Doc: "additionalProperties dispatch: the rule text selects the mode (any/true => any; false => not allowed; @name => user type; a schema type name => that type; anything else rejected) and the validator built for each mode is the matching one (any => accept any value; not allowed => reject the key; object/array/scalar kind => the kind check; user type => the validators of that type); the mode switch is exhaustive over the declared modes"})
}

func runT11(c *load.Ctx, r *report.RuleResult) {
	e := newTableEnv(c)
	fn := c.Func("internal/lexeme", "LexEventType.IsOpening")
	if fn == nil {
		r.Unk("anchor|lexeme.LexEventType.IsOpening", "", "not found")
		return
	}
	names := lexEventNames(c)
	want := map[string]bool{
		"LiteralBegin": true, "ObjectBegin": true, "ObjectKeyBegin": true, "ObjectValueBegin": true, "ArrayBegin": true, "ArrayItemBegin": true,
		"LiteralEnd": false, "ObjectEnd": false, "ObjectKeyEnd": false, "ObjectValueEnd": false, "ArrayEnd": false, "ArrayItemEnd": false,
	}
	byName := map[string]int64{}
	for v, n := range names {
		byName[n] = v
	}
	for _, n := range sortedKeys(want) {
		v, ok := byName[n]
		key := "opening|" + n
		if !ok {
			r.Unk(key, "", "event type constant not found")
			continue
		}
		outs := pe.ExploreFn(e.cfg, func(in *pe.Interp) pe.Value { return in.Call(fn, []pe.Value{v}) })
		if len(outs) != 1 || outs[0].Undecided != "" || outs[0].Panicked {
			r.Unk(key, c.Pos(fn.Pos()), "not a constant")
			continue
		}
		got, _ := outs[0].Ret.(bool)
		if got != want[n] {
			r.Bad(key, c.Pos(fn.Pos()), fmt.Sprintf("IsOpening(%s) = %v; the event protocol needs %v (depth counters and the scanners' stacks rely on it)", n, got, want[n]))
		} else {
			r.OK(key, c.Pos(fn.Pos()), fmt.Sprint(got))
		}
	}
}

func runTAny(c *load.Ctx, r *report.RuleResult) {
	e := newTableEnv(c)
	isOpening := c.Func("internal/lexeme", "LexEventType.IsOpening")
	if isOpening == nil {
		r.Unk("anchor|lexeme.LexEventType.IsOpening", "", "not found")
		return
	}
	e.cfg.Intrinsics[isOpening.String()] = func(in *pe.Interp, args []pe.Value) (pe.Value, bool) {
		return in.Choose("opening", []string{"false", "true"}) == 1, true
	}
	for _, sp := range []struct{ typ, method string }{{"anyNestedStructure", "feed"}, {"additionalPropertiesValidator", "feedAny"}} {
		fn := c.Func(pkgValidator, sp.typ+"."+sp.method)
		named := namedType(c, pkgValidator, sp.typ)
		if fn == nil || named == nil {
			r.Unk("anchor|validator."+sp.typ+"."+sp.method, "", "not found")
			continue
		}
		pos := c.Pos(fn.Pos())
		var objs []*pe.Ptr
		outs := pe.ExploreFn(e.cfg, func(in *pe.Interp) pe.Value {
			st := named.Underlying().(*types.Struct)
			sv := &pe.StructV{T: named, F: make([]pe.Value, st.NumFields())}
			for i := 0; i < st.NumFields(); i++ {
				sv.F[i] = pe.NewSym("v."+st.Field(i).Name(), st.Field(i).Type())
			}
			p := &pe.Ptr{Obj: in.NewObj(named, sv, "v"), T: named}
			objs = append(objs, p)
			return in.Call(fn, []pe.Value{p, pe.NewSym("lex", fn.Params[1].Type())})
		})
		for i, o := range outs {
			val := o.ChoiceMap()
			opening := val["opening"]
			zero := ""
			for n, l := range val {
				if strings.HasPrefix(n, "ord(") && strings.Contains(n, "v.depth") {
					zero = l
				}
			}
			key := fmt.Sprintf("depth|%s.%s|opening=%s|newdepth%s0", sp.typ, sp.method, opening, zero)
			if o.Undecided != "" || o.Panicked {
				r.Unk(key, pos, o.Exit())
				continue
			}
			// new depth
			depth := "?"
			if i < len(objs) {
				sv := objs[i].Obj.Val.(*pe.StructV)
				st := named.Underlying().(*types.Struct)
				for k := 0; k < st.NumFields(); k++ {
					if st.Field(k).Name() == "depth" {
						depth = pe.Show(sv.F[k])
					}
				}
			}
			wantDepth := "‹v.depth-1›"
			if opening == "true" {
				wantDepth = "‹v.depth+1›"
			}
			tp, ok := o.Ret.(*pe.Tuple)
			switch {
			case depth != wantDepth:
				r.Bad(key, pos, fmt.Sprintf("the depth becomes %s; an %s event must make it %s", depth, map[string]string{"true": "opening", "false": "closing"}[opening], wantDepth))
			case !ok || len(tp.E) != 2:
				r.Unk(key, pos, "unexpected result "+pe.Show(o.Ret))
			case !pe.IsNil(tp.E[0]):
				r.Bad(key, pos, "hands back child validators: "+pe.Show(tp.E[0]))
			default:
				done, isB := tp.E[1].(bool)
				if !isB || zero == "" {
					r.Bad(key, pos, "completion is not decided by comparing the new depth with zero: "+o.Valuation()+" => "+o.Exit())
				} else if done != (zero == "=") {
					r.Bad(key, pos, fmt.Sprintf("reports done=%v when the new depth is %s zero", done, map[string]string{"<": "below", "=": "equal to", ">": "above"}[zero]))
				} else {
					r.OK(key, pos, fmt.Sprintf("depth %s, done=%v", depth, done))
				}
			}
		}
	}
}

func runT10(c *load.Ctx, r *report.RuleResult) {
	e := newAbsNodeEnv(c)
	// (1) mode -> validator
	fn := c.Func(pkgValidator, "newAdditionalPropertiesValidator")
	apT := namedType(c, pkgConstraint, "AdditionalProperties")
	if fn == nil || apT == nil {
		r.Unk("anchor|validator.newAdditionalPropertiesValidator", "", "not found")
		return
	}
	pos := c.Pos(fn.Pos())
	if nvl := c.Func(pkgValidator, "NodeValidatorList"); nvl != nil {
		e.cfg.Intrinsics[nvl.String()] = func(in *pe.Interp, args []pe.Value) (pe.Value, bool) {
			in.Effect("validators-of(" + pe.Show(args[0]) + ")")
			return pe.NewSym("validatorsOfType", nvl.Signature.Results().At(0).Type()), true
		}
	}
	if mt := c.Func(pkgSchema, "Schema.MustType"); mt != nil {
		e.cfg.Intrinsics[mt.String()] = func(in *pe.Interp, args []pe.Value) (pe.Value, bool) {
			return pe.NewSym("type("+strings.Trim(pe.Show(args[1]), "‹›")+")", mt.Signature.Results().At(0).Type()), true
		}
	}
	objV := namedType(c, pkgValidator, "objectValidator")
	var results []pe.Value
	outs := pe.ExploreFn(e.cfg, func(in *pe.Interp) pe.Value {
		st := apT.Underlying().(*types.Struct)
		sv := &pe.StructV{T: apT, F: make([]pe.Value, st.NumFields())}
		for i := 0; i < st.NumFields(); i++ {
			sv.F[i] = pe.NewSym("ap."+st.Field(i).Name(), st.Field(i).Type())
		}
		cons := &pe.Ptr{Obj: in.NewObj(apT, sv, "ap"), T: apT}
		var parent pe.Value = pe.NewSym("parent", fn.Params[1].Type())
		if objV != nil {
			parent = &pe.Iface{T: types.NewPointer(objV), V: pe.NewSym("parentObjectValidator", types.NewPointer(objV))}
		}
		ret := in.Call(fn, []pe.Value{pe.NewSym("node", e.nodeT), parent, cons})
		results = append(results, ret)
		return ret
	})
	modeWant := map[string]string{
		"AdditionalPropertiesCanBeAny":   "feedAny",
		"AdditionalPropertiesNotAllowed": "feedNotAllowed",
	}
	seenModes := map[string]bool{}
	for _, o := range outs {
		val := o.ChoiceMap()
		mode := val["ap.mode"]
		seenModes[mode] = true
		st := ""
		for n, l := range val {
			if strings.HasPrefix(n, "eq(") && strings.Contains(n, "ap.schemaType") && l == "true" {
				if i := strings.Index(n, `"`); i >= 0 {
					if j := strings.Index(n[i+1:], `"`); j >= 0 {
						st = n[i+1 : i+1+j]
					}
				}
			}
		}
		key := "apmode|" + mode
		if mode == "AdditionalPropertiesMustBeSchemaType" {
			if st == "" {
				st = "other"
			}
			key += "|" + st
		}
		if o.Undecided != "" {
			r.Unk(key, pos, o.Undecided)
			continue
		}
		feed := feedFuncOf(o.Ret)
		switch mode {
		case "AdditionalPropertiesCanBeAny", "AdditionalPropertiesNotAllowed":
			if o.Panicked || feed != modeWant[mode] {
				r.Bad(key, pos, fmt.Sprintf("mode %s builds %s (%s); it must build the %s validator", mode, feed, o.Exit(), modeWant[mode]))
			} else {
				r.OK(key, pos, feed)
			}
		case "AdditionalPropertiesMustBeSchemaType":
			want := map[string]string{"object": "feedObject", "array": "feedArray", "other": "feedLiteral"}[st]
			if want == "" {
				want = "feedLiteral"
			}
			if o.Panicked || feed != want {
				r.Bad(key, pos, fmt.Sprintf("schema type %q builds %s (%s); it must build %s", st, feed, o.Exit(), want))
			} else {
				r.OK(key, pos, feed)
			}
		case "AdditionalPropertiesMustBeUserType":
			ok := false
			for _, ef := range o.Effects {
				if strings.HasPrefix(ef, "validators-of(") && strings.Contains(ef, "ap.typeName") {
					ok = true
				}
			}
			if o.Panicked || !ok {
				r.Bad(key, pos, "the user-type mode must validate the value against the named type's validators: "+o.Exit()+" "+fmt.Sprint(o.Effects))
			} else {
				r.OK(key, pos, "validators of the named type")
			}
		default:
			// a value outside the declared modes must be rejected
			if !o.Panicked {
				r.Bad(key, pos, "an undeclared mode value is accepted: "+o.Exit())
			}
		}
	}
	for _, m := range []string{"AdditionalPropertiesCanBeAny", "AdditionalPropertiesNotAllowed", "AdditionalPropertiesMustBeSchemaType", "AdditionalPropertiesMustBeUserType"} {
		if !seenModes[m] {
			r.Unk("apmode|"+m, pos, "mode not enumerated (constant missing?)")
		}
	}
	// (2) feedNotAllowed rejects, feedLiteral compares the guessed type softly
	if f := c.Func(pkgValidator, "additionalPropertiesValidator.feedNotAllowed"); f != nil {
		outs := pe.ExploreFn(e.cfg, func(in *pe.Interp) pe.Value {
			return in.Call(f, []pe.Value{pe.NewSym("v", f.Params[0].Type()), pe.NewSym("lex", f.Params[1].Type())})
		})
		bad := false
		for _, o := range outs {
			if !o.Panicked {
				bad = true
			}
		}
		if bad || len(outs) == 0 {
			r.Bad("apfeed|notallowed", c.Pos(f.Pos()), "the not-allowed validator lets a key through")
		} else {
			r.OK("apfeed|notallowed", c.Pos(f.Pos()), "always rejects")
		}
	}
	// (3) text -> mode is table T10b below
	runT10Text(c, r, e)
}

func runT10Text(c *load.Ctx, r *report.RuleResult, e *absNodeEnv) {
	fn := c.Func(pkgConstraint, "NewAdditionalProperties")
	if fn == nil {
		r.Unk("anchor|constraint.NewAdditionalProperties", "", "not found")
		return
	}
	pos := c.Pos(fn.Pos())
	cases := []struct{ text, mode string }{
		{`"any"`, "AdditionalPropertiesCanBeAny"}, {`true`, "AdditionalPropertiesCanBeAny"}, {`false`, "AdditionalPropertiesNotAllowed"},
		{`"@T"`, "AdditionalPropertiesMustBeUserType"}, {`"string"`, "AdditionalPropertiesMustBeSchemaType"}, {`"object"`, "AdditionalPropertiesMustBeSchemaType"},
		{`"integer"`, "AdditionalPropertiesMustBeSchemaType"}, {`"no-such-type"`, "reject"},
	}
	modes := map[string]int64{}
	if p := c.Pkg(pkgConstraint); p != nil {
		if tn, ok := p.Types.Scope().Lookup("AdditionalPropertiesMode").(*types.TypeName); ok {
			for _, n := range p.Types.Scope().Names() {
				if k, ok := p.Types.Scope().Lookup(n).(*types.Const); ok && types.Identical(k.Type(), tn.Type()) {
					if v, ok := constInt(k); ok {
						modes[n] = v
					}
				}
			}
		}
	}
	// the rule text is concrete here: the helper functions of bytes.Bytes are interpreted on it
	delete(e.cfg.Intrinsics, c.Func(pkgBytes, "Bytes.Unquote").String())
	for _, cs := range cases {
		key := "aptext|" + cs.text
		var finalObj pe.Value
		outs := pe.ExploreFn(e.cfg, func(in *pe.Interp) pe.Value {
			var bs []pe.Value
			for i := 0; i < len(cs.text); i++ {
				bs = append(bs, int64(cs.text[i]))
			}
			ret := in.Call(fn, []pe.Value{in.MakeSliceOf(bs, len(bs))})
			if p, ok := ret.(*pe.Ptr); ok && p.Obj != nil {
				finalObj = p.Obj.Val
			}
			return ret
		})
		if len(outs) != 1 || outs[0].Undecided != "" {
			why := "several outcomes"
			if len(outs) == 1 {
				why = outs[0].Undecided
			}
			r.Unk(key, pos, "not interpretable on the concrete text: "+why)
			continue
		}
		o := outs[0]
		if cs.mode == "reject" {
			if _, ok := rejectCodeDeep(o); ok {
				r.OK(key, pos, "rejected")
			} else {
				r.Bad(key, pos, "an unknown type name is accepted as additionalProperties value: "+o.Exit())
			}
			continue
		}
		got := "?"
		if sv, ok := finalObj.(*pe.StructV); ok {
			st := sv.T.Underlying().(*types.Struct)
			for i := 0; i < st.NumFields(); i++ {
				if st.Field(i).Name() == "mode" {
					got = pe.Show(sv.F[i])
				}
			}
		}
		if o.Panicked || got != fmt.Sprint(modes[cs.mode]) {
			r.Bad(key, pos, fmt.Sprintf("additionalProperties: %s selects mode %s (%s); the property requires %s", cs.text, got, o.Exit(), cs.mode))
		} else {
			r.OK(key, pos, cs.mode)
		}
	}
}

// feedFuncOf digs the feedFunc of the validator returned in a one-element list.
func feedFuncOf(ret pe.Value) string {
	elems, ok := pe.SliceElems(ret)
	if !ok || len(elems) != 1 {
		return ""
	}
	i, ok := elems[0].(*pe.Iface)
	if !ok {
		return ""
	}
	p, ok := i.V.(*pe.Ptr)
	if !ok || p.Obj == nil {
		return ""
	}
	sv, ok := p.Obj.Val.(*pe.StructV)
	if !ok {
		return ""
	}
	st := sv.T.Underlying().(*types.Struct)
	for k := 0; k < st.NumFields(); k++ {
		if st.Field(k).Name() == "feedFunc" {
			if cl, ok := sv.F[k].(*pe.Closure); ok {
				name := pe.FuncName(cl.Fn)
				name = strings.TrimSuffix(name, "$bound")
				if j := strings.LastIndex(name, "."); j >= 0 {
					name = name[j+1:]
				}
				return name
			}
		}
	}
	return ""
}
