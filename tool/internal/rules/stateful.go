package rules

import (
	"fmt"
	"go/types"
	"sort"
	"strings"

	"golang.org/x/tools/go/ssa"

	"verif/internal/load"
	"verif/internal/report"
)

// FS-1 — foreign stateful objects kept in long-lived objects.
//
// C11 wants equal calls to give equal results however often they are made, C12 wants one schema
// (and one added type) to be usable from many goroutines. Both break when a long-lived object keeps
// an object of a foreign package (standard library or third party) whose methods change it: the
// regex example generator kept one *reggen.Generator per regex type, and every Generate advanced
// its random source — the second Example() differed from the first and two goroutines raced.
//
// The rule: for every foreign struct type T that a field of a long-lived type (or a package
// variable) can hold, every method the library calls on a T that it did not make in the same
// function must leave its receiver unchanged. "Leaves unchanged" is computed from the SSA of the
// dependency itself (stores through addresses derived from the receiver, transitively through
// callees; interface calls resolved by CHA), except for the types documented as internally
// synchronised, which are listed with the methods the documentation excludes.

func init() {
	register(&Rule{ID: "FS-1", Min: 8, Run: runFS1,
		Doc: "long-lived objects keep no foreign object that operations change: for every struct type of another package (standard library, third party) that a field of a long-lived type (API objects, compiled schema, constraints, once-wrappers instantiated in them) or a package variable can hold, every method the library calls on such an object — other than on one made in the same function — leaves its receiver's memory unchanged (write effects computed over the dependency's own SSA, interface calls by CHA) or belongs to a type documented as safe for concurrent use (sync.*, *regexp.Regexp without Longest); a cached generator, buffer or random source makes a result depend on the calls before it and races under concurrent use"})
}

// fsSafe: foreign types that are internally synchronised, with the methods their documentation
// excludes from that promise.
var fsSafe = map[string]struct {
	reason string
	banned []string
}{
	"sync.Once":     {"synchronisation primitive", nil},
	"sync.Mutex":    {"synchronisation primitive", nil},
	"sync.RWMutex":  {"synchronisation primitive", nil},
	"sync.Pool":     {"safe for use by multiple goroutines simultaneously (package documentation)", nil},
	"sync.Map":      {"safe for concurrent use (package documentation)", nil},
	"regexp.Regexp": {"a Regexp is safe for concurrent use by multiple goroutines, except for configuration methods such as Longest (package documentation)", []string{"Longest"}},
}

type fsSlot struct {
	where string
	pos   string
	typ   *types.Named
}

// foreignHeld lists the foreign named struct types a slot of this type can hold. Module named types
// are entered only through their instantiated generic form (the once-wrappers); ordinary module
// structs are judged where they are declared.
func foreignHeld(t types.Type, seen map[types.Type]bool, out map[*types.Named]bool) {
	if seen[t] {
		return
	}
	seen[t] = true
	switch x := t.(type) {
	case *types.Named:
		if x.Obj().Pkg() == nil {
			return
		}
		if load.InModule(x.Obj().Pkg()) {
			if x.TypeArgs() != nil && x.TypeArgs().Len() > 0 {
				foreignHeld(x.Underlying(), seen, out)
			}
			return
		}
		if _, ok := x.Underlying().(*types.Struct); ok {
			out[x] = true
		}
	case *types.Pointer:
		foreignHeld(x.Elem(), seen, out)
	case *types.Slice:
		foreignHeld(x.Elem(), seen, out)
	case *types.Array:
		foreignHeld(x.Elem(), seen, out)
	case *types.Map:
		foreignHeld(x.Key(), seen, out)
		foreignHeld(x.Elem(), seen, out)
	case *types.Chan:
		foreignHeld(x.Elem(), seen, out)
	case *types.Struct:
		for i := 0; i < x.NumFields(); i++ {
			foreignHeld(x.Field(i).Type(), seen, out)
		}
	}
}

func fsTypeName(n *types.Named) string {
	return n.Obj().Pkg().Path() + "." + n.Obj().Name()
}

// fsEffects computes, per function and parameter index, whether the function may store through
// memory reachable from that parameter.
type fsEffects struct {
	c     *load.Ctx
	memo  map[fsKey]int // 0 unknown, 1 in progress, 2 no, 3 yes
	why   map[fsKey]string
	chaOf map[ssa.CallInstruction][]*ssa.Function
}

type fsKey struct {
	fn *ssa.Function
	i  int
}

func newFSEffects(c *load.Ctx) *fsEffects {
	return &fsEffects{c: c, memo: map[fsKey]int{}, why: map[fsKey]string{}}
}

func (e *fsEffects) callees(fn *ssa.Function, call ssa.CallInstruction) []*ssa.Function {
	cc := call.Common()
	if sc := cc.StaticCallee(); sc != nil {
		return []*ssa.Function{sc}
	}
	if e.chaOf == nil {
		e.chaOf = map[ssa.CallInstruction][]*ssa.Function{}
		for _, n := range e.c.CHA().Nodes {
			for _, ed := range n.Out {
				if ed.Site != nil {
					e.chaOf[ed.Site] = append(e.chaOf[ed.Site], ed.Callee.Func)
				}
			}
		}
	}
	return e.chaOf[call]
}

// synchronised: writes inside these packages are the synchronisation itself.
func fsSynchronised(fn *ssa.Function) bool {
	if fn.Pkg == nil {
		if o := fn.Origin(); o != nil && o.Pkg != nil {
			p := o.Pkg.Pkg.Path()
			return p == "sync" || p == "sync/atomic" || strings.HasPrefix(p, "internal/") || p == "runtime"
		}
		return false
	}
	p := fn.Pkg.Pkg.Path()
	return p == "sync" || p == "sync/atomic" || p == "runtime" || strings.HasPrefix(p, "internal/")
}

func (e *fsEffects) writes(fn *ssa.Function, i int) bool {
	k := fsKey{fn, i}
	switch e.memo[k] {
	case 1, 2:
		return false
	case 3:
		return true
	}
	e.memo[k] = 1
	res := e.compute(fn, i)
	if res {
		e.memo[k] = 3
	} else {
		e.memo[k] = 2
	}
	return res
}

func (e *fsEffects) compute(fn *ssa.Function, i int) bool {
	if fn.Blocks == nil || i >= len(fn.Params) || fsSynchronised(fn) {
		return false
	}
	k := fsKey{fn, i}
	derived := map[ssa.Value]bool{fn.Params[i]: true}
	holds := map[*ssa.Alloc]bool{} // local cells that were assigned a derived value
	// stripAddr follows address arithmetic (no loads) to the root of an address.
	stripAddr := func(v ssa.Value) ssa.Value {
		for d := 0; d < 30; d++ {
			switch x := v.(type) {
			case *ssa.FieldAddr:
				v = x.X
			case *ssa.IndexAddr:
				v = x.X
			default:
				return v
			}
		}
		return v
	}
	for changed, rounds := true, 0; changed && rounds < 20; rounds++ {
		changed = false
		mark := func(v ssa.Value) {
			if !derived[v] {
				derived[v] = true
				changed = true
			}
		}
		for _, b := range fn.Blocks {
			for _, ins := range b.Instrs {
				switch x := ins.(type) {
				case *ssa.FieldAddr:
					if derived[x.X] {
						mark(x)
					}
				case *ssa.IndexAddr:
					if derived[x.X] {
						mark(x)
					}
				case *ssa.Field:
					if derived[x.X] {
						mark(x)
					}
				case *ssa.Index:
					if derived[x.X] {
						mark(x)
					}
				case *ssa.Lookup:
					if derived[x.X] {
						mark(x)
					}
				case *ssa.Slice:
					if derived[x.X] {
						mark(x)
					}
				case *ssa.ChangeType:
					if derived[x.X] {
						mark(x)
					}
				case *ssa.Convert:
					if derived[x.X] {
						mark(x)
					}
				case *ssa.ChangeInterface:
					if derived[x.X] {
						mark(x)
					}
				case *ssa.MakeInterface:
					if derived[x.X] {
						mark(x)
					}
				case *ssa.TypeAssert:
					if derived[x.X] {
						mark(x)
					}
				case *ssa.Extract:
					if derived[x.Tuple] {
						mark(x)
					}
				case *ssa.Phi:
					for _, ed := range x.Edges {
						if derived[ed] {
							mark(x)
						}
					}
				case *ssa.UnOp:
					if x.Op.String() != "*" {
						continue
					}
					if derived[x.X] {
						mark(x)
					} else if a, ok := stripAddr(x.X).(*ssa.Alloc); ok && holds[a] {
						mark(x)
					}
				case *ssa.Store:
					if derived[x.Val] {
						if a, ok := stripAddr(x.Addr).(*ssa.Alloc); ok && !holds[a] {
							holds[a] = true
							changed = true
						}
					}
				}
			}
		}
	}
	pointerLike := func(t types.Type) bool {
		switch t.Underlying().(type) {
		case *types.Pointer, *types.Slice, *types.Map, *types.Interface, *types.Signature, *types.Chan:
			return true
		}
		return false
	}
	for _, b := range fn.Blocks {
		for _, ins := range b.Instrs {
			switch x := ins.(type) {
			case *ssa.Store:
				root := stripAddr(x.Addr)
				if _, local := root.(*ssa.Alloc); local {
					continue
				}
				if derived[root] {
					e.why[k] = fmt.Sprintf("%s stores through its receiver/argument at %s", fn.String(), e.c.Pos(x.Pos()))
					return true
				}
			case *ssa.MapUpdate:
				if derived[x.Map] {
					e.why[k] = fmt.Sprintf("%s updates a map of its receiver/argument at %s", fn.String(), e.c.Pos(x.Pos()))
					return true
				}
			case ssa.CallInstruction:
				cc := x.Common()
				var args []ssa.Value
				if cc.IsInvoke() {
					args = append([]ssa.Value{cc.Value}, cc.Args...)
				} else {
					args = cc.Args
				}
				for j, a := range args {
					if !derived[a] || !pointerLike(a.Type()) {
						continue
					}
					for _, callee := range e.callees(fn, x) {
						if e.writes(callee, j) {
							e.why[k] = fmt.Sprintf("%s -> %s", fn.String(), e.why[fsKey{callee, j}])
							return true
						}
					}
				}
			}
		}
	}
	return false
}

// fsFresh: the value was made in this function (constructor of a foreign package, composite
// literal, new) or by a module function all of whose results are.
func fsFresh(v ssa.Value, depth int) bool {
	if depth > 6 {
		return false
	}
	switch x := v.(type) {
	case *ssa.Alloc:
		return true
	case *ssa.Extract:
		return fsFresh(x.Tuple, depth+1)
	case *ssa.ChangeType:
		return fsFresh(x.X, depth+1)
	case *ssa.Phi:
		for _, ed := range x.Edges {
			if !fsFresh(ed, depth+1) {
				return false
			}
		}
		return len(x.Edges) > 0
	case *ssa.Call:
		sc := x.Call.StaticCallee()
		if sc == nil {
			return false
		}
		if !load.FuncInModule(sc) {
			return sc.Signature.Recv() == nil // a package-level constructor of the foreign package
		}
		if sc.Blocks == nil {
			return false
		}
		// a module helper: every returned value at that result position is fresh
		for _, b := range sc.Blocks {
			for _, ins := range b.Instrs {
				ret, ok := ins.(*ssa.Return)
				if !ok {
					continue
				}
				for _, rv := range ret.Results {
					if types.Identical(rv.Type(), v.Type()) || isTupleOf(x.Type(), rv.Type()) {
						if c, isConst := rv.(*ssa.Const); isConst && c.IsNil() {
							continue
						}
						if !fsFresh(rv, depth+1) {
							return false
						}
					}
				}
			}
		}
		return true
	}
	return false
}

func isTupleOf(t types.Type, elem types.Type) bool {
	tup, ok := t.(*types.Tuple)
	if !ok {
		return false
	}
	for i := 0; i < tup.Len(); i++ {
		if types.Identical(tup.At(i).Type(), elem) {
			return true
		}
	}
	return false
}

func runFS1(c *load.Ctx, r *report.RuleResult) {
	// 1. slots
	var slots []fsSlot
	addSlot := func(where, pos string, t types.Type) {
		held := map[*types.Named]bool{}
		foreignHeld(t, map[types.Type]bool{}, held)
		for n := range held {
			slots = append(slots, fsSlot{where, pos, n})
		}
	}
	ll := longLivedTypes(c)
	for _, rel := range []string{"internal/sync", "fs", "bytes"} {
		if p := c.Pkg(rel); p != nil {
			for _, n := range p.Types.Scope().Names() {
				if tn, ok := p.Types.Scope().Lookup(n).(*types.TypeName); ok {
					ll = append(ll, tn)
				}
			}
		}
	}
	for _, tn := range ll {
		st, ok := tn.Type().Underlying().(*types.Struct)
		if !ok {
			continue
		}
		for i := 0; i < st.NumFields(); i++ {
			addSlot(load.Rel(tn.Pkg().Path())+"."+tn.Name()+"."+st.Field(i).Name(), c.Pos(st.Field(i).Pos()), st.Field(i).Type())
		}
	}
	for _, p := range c.Pkgs {
		sc := p.Types.Scope()
		for _, n := range sc.Names() {
			if v, ok := sc.Lookup(n).(*types.Var); ok {
				addSlot(load.Rel(p.PkgPath)+"."+n, c.Pos(v.Pos()), v.Type())
			}
		}
	}
	sort.Slice(slots, func(i, j int) bool {
		if slots[i].where != slots[j].where {
			return slots[i].where < slots[j].where
		}
		return fsTypeName(slots[i].typ) < fsTypeName(slots[j].typ)
	})
	keptTypes := map[string]*types.Named{}
	for _, s := range slots {
		keptTypes[fsTypeName(s.typ)] = s.typ
	}
	// 2. method calls of the library on kept foreign types
	type use struct {
		fn     *ssa.Function
		callee *ssa.Function
		pos    string
		fresh  bool
	}
	uses := map[string][]use{}
	for _, fn := range c.ModuleFunctions() {
		for _, b := range fn.Blocks {
			for _, ins := range b.Instrs {
				call, ok := ins.(ssa.CallInstruction)
				if !ok {
					continue
				}
				cc := call.Common()
				sc := cc.StaticCallee()
				if sc == nil || sc.Signature.Recv() == nil || load.FuncInModule(sc) || len(cc.Args) == 0 {
					continue
				}
				rt := sc.Signature.Recv().Type()
				if p, ok := rt.(*types.Pointer); ok {
					rt = p.Elem()
				}
				named, ok := rt.(*types.Named)
				if !ok || named.Obj().Pkg() == nil {
					continue
				}
				name := fsTypeName(named)
				if keptTypes[name] == nil {
					continue
				}
				uses[name] = append(uses[name], use{fn, sc, c.Pos(ins.Pos()), fsFresh(cc.Args[0], 0)})
			}
		}
	}
	eff := newFSEffects(c)
	// 3. verdict per slot
	for _, s := range slots {
		name := fsTypeName(s.typ)
		key := "kept|" + s.where + "|" + name
		if safe, ok := fsSafe[name]; ok {
			var bad []string
			for _, u := range uses[name] {
				for _, bn := range safe.banned {
					if u.callee.Name() == bn {
						bad = append(bad, fmt.Sprintf("%s calls %s at %s", load.FuncKey(u.fn), bn, u.pos))
					}
				}
			}
			if len(bad) > 0 {
				r.Bad(key, s.pos, name+" is safe for concurrent use except for "+strings.Join(safe.banned, ", ")+": "+strings.Join(bad, "; "))
			} else {
				r.OK(key, s.pos, name+": "+safe.reason)
			}
			continue
		}
		var bad []string
		n := 0
		for _, u := range uses[name] {
			if u.fresh {
				continue
			}
			n++
			if eff.writes(u.callee, 0) {
				bad = append(bad, fmt.Sprintf("%s calls %s at %s on an object it did not make there, and %s", load.FuncKey(u.fn), u.callee.Name(), u.pos, eff.why[fsKey{u.callee, 0}]))
			}
		}
		if len(bad) > 0 {
			sort.Strings(bad)
			r.Bad(key, s.pos, fmt.Sprintf("the slot keeps a %s between operations and the library changes it: %s — the result of a call then depends on the calls before it, and goroutines sharing the owner race", name, strings.Join(uniq(bad), "; ")))
		} else {
			r.OK(key, s.pos, fmt.Sprintf("%s: %d method calls on kept objects, none changes its receiver", name, n))
		}
	}
	r.Stat("slots", len(slots))
	r.Stat("foreign_types", len(keptTypes))
}
