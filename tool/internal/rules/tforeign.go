package rules

import (
	"fmt"
	"go/types"
	"sort"
	"strings"

	"verif/internal/load"
	"verif/internal/pe"
	"verif/internal/report"
)

// T-foreign — enum, or, any and type references tolerate only their listed companions.
//
// The four checks of the compiler count the rules on the node and subtract one for every permitted
// companion that is present; what is left must be zero. The count is the node's own
// NumberOfConstraints(), which the abstract node models as (number of the queried rules that are
// present) + (number of other rules present): the queried rules are discovered by a first
// interpretation, the others are an atom with the values 0, 1 and 2.

func init() {
	register(&Rule{ID: "T-foreign", Min: 4, Run: runTForeign,
		Doc: "enum, or, any and type references are not combined with foreign rules: schemaCompiler.enumConstraint / orConstraint / anyConstraint / typeConstraintForUserType, interpreted over an abstract node (presence of every rule the function asks for as an atom, the number of further rules as an atom 0/1/2, the node's rule count being their sum), reject the node whenever a further rule is present, never raise the no-other-rules error when none is, and ask for no rule outside the reviewed list of permitted companions (optional and nullable everywhere; const with enum and any; the type rule with enum and or; the types list with or)"})
}

type foreignSpec struct {
	fn        string
	own       string   // the rule that triggers the check ("" for the type-reference helper)
	permitted []string // companions the check may subtract
	code      string   // the error raised for foreign rules
	implicit  int64    // rules known to be present without being asked for (the type rule in the helper called for it)
}

var foreignSpecs = []foreignSpec{
	{"schemaCompiler.enumConstraint", "Enum", []string{"Optional", "Nullable", "Const", "Type"}, "ErrShouldBeNoOtherRulesInSetWithEnum", 0},
	{"schemaCompiler.orConstraint", "Or", []string{"TypesList", "Optional", "Nullable", "Type"}, "ErrShouldBeNoOtherRulesInSetWithOr", 0},
	{"schemaCompiler.anyConstraint", "Any", []string{"Optional", "Nullable", "Const"}, "ErrShouldBeNoOtherRulesInSetWithAny", 0},
	{"schemaCompiler.typeConstraintForUserType", "", []string{"Optional", "Nullable", "Type"}, "ErrCannotSpecifyOtherRulesWithTypeReference", 1},
}

func runTForeign(c *load.Ctx, r *report.RuleResult) {
	errPkg := c.Pkg("errors")
	for _, sp := range foreignSpecs {
		key := "foreign|" + sp.fn
		fn := c.Func(pkgLoader, sp.fn)
		var codeConst *types.Const
		if errPkg != nil {
			codeConst, _ = errPkg.Types.Scope().Lookup(sp.code).(*types.Const)
		}
		if fn == nil || codeConst == nil {
			r.Unk("anchor|"+sp.fn, "", "function or error code "+sp.code+" not found")
			continue
		}
		wantCode := "E" + codeConst.Val().ExactString()
		run := func(count func(e *absNodeEnv, in *pe.Interp) int64) ([]*pe.Outcome, string, string) {
			e := newAbsNodeEnv(c)
			if e.problem != "" {
				return nil, "", e.problem
			}
			e.cfg.MaxPaths = 60000
			prefix := "invoke:" + types.TypeString(e.nodeT, nil) + "."
			e.cfg.Intrinsics[prefix+"NumberOfConstraints"] = func(in *pe.Interp, args []pe.Value) (pe.Value, bool) {
				return count(e, in), true
			}
			// what follows the count (shape of the node, rewriting the rule) is not this rule's business
			for _, n := range []string{"ensureCanUseORConstraint", "checkBranchNodeWithOrConstraint"} {
				if f := c.Func(pkgLoader, n); f != nil {
					e.cfg.Opaque[f.String()] = true
				}
			}
			return e.callWithNode(pkgLoader, sp.fn, nil, nil)
		}
		// pass 1: which rules does the check ask for?
		outs, pos, problem := run(func(*absNodeEnv, *pe.Interp) int64 { return 0 })
		if problem != "" {
			r.Unk(key, "", problem)
			continue
		}
		asked := map[string]bool{}
		for _, o := range outs {
			for n := range o.ChoiceMap() {
				if strings.HasPrefix(n, "has(") {
					asked[strings.TrimSuffix(strings.TrimPrefix(n, "has("), "ConstraintType)")] = true
				}
			}
		}
		var problems []string
		permitted := map[string]bool{}
		for _, p := range sp.permitted {
			permitted[p] = true
		}
		var queried []string
		for n := range asked {
			queried = append(queried, n)
			if n != sp.own && !permitted[n] {
				problems = append(problems, "asks for the rule "+n+", which is not among the companions this rule tolerates ("+strings.Join(sp.permitted, ", ")+")")
			}
		}
		sort.Strings(queried)
		if sp.own != "" && !asked[sp.own] {
			problems = append(problems, "does not ask whether the node carries "+sp.own)
		}
		// pass 2: the count is the sum of the queried rules present and the others
		outs, _, problem = run(func(e *absNodeEnv, in *pe.Interp) int64 {
			var n int64
			for _, q := range queried {
				ci := e.byName[q+"ConstraintType"]
				if ci == nil {
					in.Undecided("constraint type %s not found", q)
				}
				if e.has(in, ci) {
					n++
				}
			}
			if !asked["Type"] {
				n += sp.implicit
			}
			return n + int64(in.Choose("others", []string{"0", "1", "2"}))
		})
		if problem != "" {
			r.Unk(key, "", problem)
			continue
		}
		decided := 0
		for _, o := range outs {
			val := o.ChoiceMap()
			others, countAsked := val["others"]
			if !countAsked {
				continue // left before counting (the rule is absent, or an earlier check failed)
			}
			v, code := verdictOf(o)
			if v == "undecided" || v == "crash" {
				problems = append(problems, "not interpretable: "+code+" {"+o.Valuation()+"}")
				continue
			}
			if sp.own == "" && asked["Type"] && val["has(TypeConstraintType)"] == "false" {
				continue // the helper is only called with the type rule present
			}
			decided++
			switch {
			case others != "0" && v != "reject":
				problems = append(problems, fmt.Sprintf("accepts a node that carries %s further rule(s): {%s}", others, o.Valuation()))
			case others == "0" && v == "reject" && code == wantCode:
				problems = append(problems, fmt.Sprintf("raises the no-other-rules error on a node that carries only permitted companions: {%s}", o.Valuation()))
			}
		}
		if decided == 0 {
			problems = append(problems, "no path reaches the count")
		}
		sort.Strings(problems)
		problems = uniq(problems)
		if len(problems) > 0 {
			if len(problems) > 4 {
				problems = append(problems[:4], fmt.Sprintf("… and %d more", len(problems)-4))
			}
			r.Bad(key, pos, strings.Join(problems, "; "))
		} else {
			r.OK(key, pos, fmt.Sprintf("%d paths past the count; rules asked for: %s", decided, strings.Join(queried, ", ")))
		}
	}
}
