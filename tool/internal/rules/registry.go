// Package rules contains the repository-specific static rules. Every rule inspects the type-checked
// syntax and/or SSA of the current tree and emits obligations keyed by resolved constructs.
package rules

import (
	"sort"

	"verif/internal/load"
	"verif/internal/report"
)

// Rule is one rule template with its slots filled for this repository.
type Rule struct {
	ID       string
	Doc      string
	Min      int  // minimum number of obligations confirmed by hand on the reference tree
	Thorough bool // only run in the thorough tier
	Run      func(c *load.Ctx, r *report.RuleResult)
}

var registry = map[string]*Rule{}

func register(r *Rule) {
	if _, dup := registry[r.ID]; dup {
		panic("duplicate rule " + r.ID)
	}
	registry[r.ID] = r
}

// Get returns a registered rule.
func Get(id string) *Rule { return registry[id] }

// All returns all rule ids, sorted.
func All() []string {
	var ids []string
	for id := range registry {
		ids = append(ids, id)
	}
	sort.Strings(ids)
	return ids
}

// Property describes which rules decide which clauses of a property.
type Property struct {
	ID        string
	Rules     []string
	Explain   string   // what is decided, in words (goes into evidence.coverage.explanation)
	Assume    []string // assumptions / what is not covered
	Technique string   // MANIFEST technique
	Level     string   // MANIFEST level_claimed.text
	Note      string   // MANIFEST level_note
	DesignRef string
}

// NotApplicable lists the properties that are not claimed, with the reason.
var NotApplicable = map[string]string{}

var properties = map[string]*Property{}

func property(p *Property) { properties[p.ID] = p }

// Prop returns the property description, or nil when the property is not claimed.
func Prop(id string) *Property { return properties[id] }

// Props lists claimed property ids.
func Props() []string {
	var ids []string
	for id := range properties {
		ids = append(ids, id)
	}
	sort.Strings(ids)
	return ids
}
