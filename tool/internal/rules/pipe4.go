package rules

import (
	"fmt"
	"go/types"

	"golang.org/x/tools/go/ssa"

	"verif/internal/load"
	"verif/internal/report"
)

// PIPE-4 — the checks of a node kind are all reached.

func init() {
	register(&Rule{ID: "PIPE-4", Min: 10, Run: runPIPE4,
		Doc: "every check of a node's kind is applied to every node of that kind: in checkSchema.checkNode, from the branch taken for a node kind (the success edge of the type test) every path to a normal return reaches each of the checks of that kind — checkCompatibilityOfConstraints and checkLinksOfNode for all five kinds, checkLiteralNode for literals, checkArrayItems and checkArrayNode for arrays, ensureShortcutKeysAreValid and checkAdditionalPropertiesConstraint for objects — either called there or in a helper every path through which calls it (must-call summaries, panics aside). An early return in a new helper (\"no keys, nothing to check\") lets an object without properties name a missing type in additionalProperties"})
}

// mustCallSummary: does every path from fn's entry to a normal return call target (directly, or through
// a callee that must call it)?
func mustCallSummary(fn, target *ssa.Function, memo map[*ssa.Function]int, depth int) bool {
	if fn == nil || fn.Blocks == nil || depth > 4 {
		return false
	}
	switch memo[fn] {
	case 1:
		return true
	case 2, 3:
		return false // 3 = in progress (recursion): assume not
	}
	memo[fn] = 3
	ok := mustReach(fn.Blocks[0], 0, target, memo, depth)
	if ok {
		memo[fn] = 1
	} else {
		memo[fn] = 2
	}
	return ok
}

// mustReach: every path from instruction idx of block b to a Return passes a call that must call target.
func mustReach(b *ssa.BasicBlock, idx int, target *ssa.Function, memo map[*ssa.Function]int, depth int) bool {
	seen := map[*ssa.BasicBlock]bool{}
	var walk func(b *ssa.BasicBlock, from int) bool
	walk = func(b *ssa.BasicBlock, from int) bool {
		if from == 0 {
			if seen[b] {
				return true // a cycle without the call is judged on its exits
			}
			seen[b] = true
		}
		for i := from; i < len(b.Instrs); i++ {
			switch x := b.Instrs[i].(type) {
			case *ssa.Call:
				if sc := x.Call.StaticCallee(); sc != nil {
					if sc == target || (sc.Origin() != nil && sc.Origin() == target) {
						return true
					}
					if load.FuncInModule(sc) && mustCallSummary(sc, target, memo, depth+1) {
						return true
					}
				}
			case *ssa.Return:
				return false
			case *ssa.Panic:
				return true
			}
		}
		for _, s := range b.Succs {
			if !walk(s, 0) {
				return false
			}
		}
		return true
	}
	return walk(b, idx)
}

func runPIPE4(c *load.Ctx, r *report.RuleResult) {
	fn := c.Func(pkgChecker, "checkSchema.checkNode")
	if fn == nil {
		r.Unk("anchor|checker.checkSchema.checkNode", "", "not found")
		return
	}
	all := []string{"checkCompatibilityOfConstraints", "checkLinksOfNode"}
	kinds := []struct {
		typ    string
		checks []string
	}{
		{"LiteralNode", append(append([]string{}, all...), "checkLiteralNode")},
		{"ArrayNode", append(append([]string{}, all...), "checkArrayItems", "checkArrayNode")},
		{"ObjectNode", append(append([]string{}, all...), "ensureShortcutKeysAreValid", "checkAdditionalPropertiesConstraint")},
		{"MixedNode", all},
		{"MixedValueNode", all},
	}
	for _, k := range kinds {
		// the success edge of the type test for *schema.<typ>
		var start *ssa.BasicBlock
		for _, b := range fn.Blocks {
			for _, ins := range b.Instrs {
				ta, ok := ins.(*ssa.TypeAssert)
				if !ok || !ta.CommaOk {
					continue
				}
				pt, ok := ta.AssertedType.(*types.Pointer)
				if !ok {
					continue
				}
				nt, ok := pt.Elem().(*types.Named)
				if !ok || nt.Obj().Name() != k.typ || nt.Obj().Pkg() == nil || load.Rel(nt.Obj().Pkg().Path()) != pkgSchema {
					continue
				}
				if fail := commaOkFailureEdge(b); fail >= 0 && len(b.Succs) == 2 {
					start = b.Succs[1-fail]
				}
			}
		}
		kindStart := start
		for _, name := range k.checks {
			start := kindStart
			key := fmt.Sprintf("kindcheck|%s|%s", k.typ, name)
			target := c.Func(pkgChecker, "checkSchema."+name)
			if target == nil {
				r.Unk(key, c.Pos(fn.Pos()), "the check function was not found")
				continue
			}
			if start == nil {
				// no branch of its own for this kind: its checks are the ones made for every node
				start = fn.Blocks[0]
			}
			memo := map[*ssa.Function]int{}
			// a call made for every kind before the kinds are told apart counts as well: a call site (of the
			// check or of a helper that always makes it) whose block dominates the branch
			before := false
			for _, b := range fn.Blocks {
				if !(b == start || b.Dominates(start)) {
					continue
				}
				for _, ins := range b.Instrs {
					if call, ok := ins.(*ssa.Call); ok {
						if sc := call.Call.StaticCallee(); sc != nil {
							if sc == target || (load.FuncInModule(sc) && mustCallSummary(sc, target, memo, 1)) {
								before = true
							}
						}
					}
				}
			}
			if before || mustReach(start, 0, target, memo, 0) {
				r.OK(key, c.Pos(fn.Pos()), "reached on every path from the branch of this kind to a normal return")
			} else {
				r.Bad(key, c.Pos(fn.Pos()), fmt.Sprintf("a %s can pass checkNode without %s being applied to it (a path from the branch of this kind to a normal return calls it neither directly nor through a helper that always does)", k.typ, name))
			}
		}
	}
}
