package rules

import (
	"fmt"
	"go/types"
	"sort"
	"strings"

	"golang.org/x/tools/go/ssa"

	"verif/internal/load"
	"verif/internal/pe"
	"verif/internal/report"
	"verif/internal/spec"
)

// SA-N: the numeral recogniser of internal/json (used by NewNumber for every numeric rule) against
// the RFC 8259 number automaton.

func init() {
	register(&Rule{ID: "SA-N", Min: 8, Run: runSANum,
		Doc: "internal/json numeral scanner = RFC 8259 number: the automaton extracted from the scanner's state functions (counters abstracted) accepts exactly the strings of the RFC 8259 number grammar — compared by product construction over all 256 byte values in every reachable state pair, including where a numeral may end"})
}

func runSANum(c *load.Ctx, r *report.RuleResult) {
	cfg := newPEConfig(c)
	ctor := c.Func("internal/json", "newScanner")
	scan := c.Func("internal/json", "scanner.Scan")
	if ctor == nil || scan == nil {
		r.Unk("anchor|internal/json.newScanner/Scan", "", "numeral scanner constructor or Scan method not found")
		return
	}
	pos := c.Pos(scan.Pos())
	// The driver models Scan's loop as read on the tree: for each byte, index := i; finished := true;
	// ok := stateFn(c); at the end the numeral is accepted iff finished. That shape is checked here.
	if why := checkScanLoopShape(c); why != "" {
		r.Unk("shape|internal/json.(scanner).Scan", pos, "Scan no longer has the loop shape the model assumes: "+why)
		return
	}
	var init pe.Value
	for _, o := range pe.ExploreFn(cfg, func(in *pe.Interp) pe.Value { return in.Call(ctor, nil) }) {
		if o.Undecided != "" || o.Panicked {
			r.Unk("anchor|newScanner", pos, "constructor not interpretable: "+o.Exit())
			return
		}
		init = o.Ret
	}
	type implSt struct {
		root pe.Value
		name string // state function
		fin  bool   // finished after the last byte
	}
	stateOf := func(root pe.Value, first bool) (implSt, string) {
		sv := root.(*pe.Ptr).Obj.Val.(*pe.StructV)
		st := sv.T.Underlying().(*types.Struct)
		res := implSt{root: root}
		for i := 0; i < st.NumFields(); i++ {
			switch st.Field(i).Name() {
			case "stateFn":
				cl, ok := sv.F[i].(*pe.Closure)
				if !ok {
					return res, "stateFn is not a known function: " + pe.Show(sv.F[i])
				}
				res.name = pe.FuncName(cl.Fn)
			case "finished":
				b, ok := sv.F[i].(bool)
				if !ok {
					return res, "finished is not concrete"
				}
				res.fin = b
			}
		}
		if res.name == "" {
			return res, "no stateFn field"
		}
		return res, ""
	}
	step := func(st implSt, b int) (next implSt, ok bool, why string) {
		var finals []pe.Value
		outs := pe.ExploreFn(cfg, func(in *pe.Interp) pe.Value {
			root := pe.Clone(st.root).(*pe.Ptr)
			finals = append(finals, root)
			sv := root.Obj.Val.(*pe.StructV)
			stT := sv.T.Underlying().(*types.Struct)
			var fn pe.Value
			for i := 0; i < stT.NumFields(); i++ {
				f := stT.Field(i)
				switch {
				case f.Name() == "stateFn":
					fn = sv.F[i]
				case f.Name() == "finished":
					sv.F[i] = true
				case isIntType(f.Type()):
					sv.F[i] = pe.NewSym("n."+f.Name(), f.Type()) // counters are abstracted
				}
			}
			cl, isCl := fn.(*pe.Closure)
			if !isCl {
				in.Undecided("stateFn is not a function value")
			}
			return in.CallValue(cl, []pe.Value{int64(b)})
		})
		sig := ""
		for i, o := range outs {
			if o.Undecided != "" || o.Panicked {
				return next, false, "state function not interpretable: " + o.Exit()
			}
			okv, isB := o.Ret.(bool)
			if !isB {
				return next, false, "state function result not concrete: " + pe.Show(o.Ret)
			}
			n, w := stateOf(finals[i], false)
			if w != "" {
				return next, false, w
			}
			s := fmt.Sprintf("%v|%s|%v", okv, n.name, n.fin)
			if !okv {
				s = "false"
			}
			if sig != "" && sig != s {
				return next, false, "the transition depends on a counter value: " + sig + " versus " + s + " under " + o.Valuation()
			}
			sig = s
			next, ok = n, okv
		}
		return next, ok, ""
	}
	start, why := stateOf(init, true)
	if why != "" {
		r.Unk("anchor|initial state", pos, why)
		return
	}
	type pair struct {
		impl implSt
		ref  spec.NumRef
		path string
	}
	seen := map[string]bool{}
	key := func(p pair) string { return fmt.Sprintf("%s|%v|%s", p.impl.name, p.impl.fin, p.ref) }
	q := []pair{{impl: start, ref: spec.NumStart}}
	seen[key(q[0])] = true
	npairs := 0
	for len(q) > 0 {
		p := q[0]
		q = q[1:]
		npairs++
		lbl := fmt.Sprintf("impl=%s|ref=%s", p.impl.name, p.ref)
		// may the numeral end here?
		if p.impl.fin != p.ref.Accepting() {
			r.Bad("end|"+lbl, pos, fmt.Sprintf("after %q the scanner %s the end of the numeral but RFC 8259 %s it", p.path, verdict(p.impl.fin), verdict(p.ref.Accepting())))
		} else {
			r.OK("end|"+lbl, pos, "")
		}
		var accOnly, rejOnly []byte
		undec := ""
		for b := 0; b < 256; b++ {
			nref, okR := p.ref.Step(byte(b))
			nimpl, okI, w := step(p.impl, b)
			if w != "" {
				undec = w
				break
			}
			switch {
			case okI && !okR:
				accOnly = append(accOnly, byte(b))
			case !okI && okR:
				rejOnly = append(rejOnly, byte(b))
			case okI && okR:
				np := pair{impl: nimpl, ref: nref, path: p.path + string([]byte{byte(b)})}
				if !seen[key(np)] {
					seen[key(np)] = true
					q = append(q, np)
				}
			}
		}
		switch {
		case undec != "":
			r.Unk("step|"+lbl, pos, undec)
		case len(accOnly) > 0 || len(rejOnly) > 0:
			if len(accOnly) > 0 {
				r.Bad(fmt.Sprintf("step|%s|accepts=%s", lbl, byteClass(accOnly)), pos, fmt.Sprintf("after %q the scanner accepts the byte(s) %s which cannot continue an RFC 8259 number", p.path, byteClass(accOnly)))
			}
			if len(rejOnly) > 0 {
				r.Bad(fmt.Sprintf("step|%s|rejects=%s", lbl, byteClass(rejOnly)), pos, fmt.Sprintf("after %q the scanner rejects the byte(s) %s which continue an RFC 8259 number", p.path, byteClass(rejOnly)))
			}
		default:
			r.OK("step|"+lbl, pos, "all 256 bytes agree")
		}
	}
	r.Note("%d state pairs explored", npairs)
}

func byteClass(bs []byte) string {
	sort.Slice(bs, func(i, j int) bool { return bs[i] < bs[j] })
	var sb strings.Builder
	for _, b := range bs {
		if b > 0x20 && b < 0x7f {
			sb.WriteByte(b)
		} else {
			fmt.Fprintf(&sb, "\\x%02x", b)
		}
	}
	return sb.String()
}

// checkScanLoopShape verifies, on the SSA of (*scanner).Scan, the loop protocol the model assumes:
// the constant true is stored to the finished flag, the function stored in stateFn is called
// dynamically with the byte, and a branch after the loop depends on the finished flag.
func checkScanLoopShape(c *load.Ctx) string {
	scan := c.Func("internal/json", "scanner.Scan")
	fieldOf := func(v ssa.Value) string {
		if fa, ok := v.(*ssa.FieldAddr); ok {
			return fieldName(fa.X.Type(), fa.Field)
		}
		return ""
	}
	storesTrue, callsFn, branchesOnFinished := false, false, false
	for _, b := range scan.Blocks {
		for _, ins := range b.Instrs {
			switch x := ins.(type) {
			case *ssa.Store:
				if k, ok := x.Val.(*ssa.Const); ok && k.Value != nil && k.Value.String() == "true" && fieldOf(x.Addr) == "finished" {
					storesTrue = true
				}
			case *ssa.Call:
				if u, ok := x.Call.Value.(*ssa.UnOp); ok && fieldOf(u.X) == "stateFn" {
					callsFn = true
				}
			case *ssa.If:
				if u, ok := x.Cond.(*ssa.UnOp); ok && fieldOf(u.X) == "finished" {
					branchesOnFinished = true
				}
				if u, ok := x.Cond.(*ssa.UnOp); ok {
					if u2, ok := u.X.(*ssa.UnOp); ok && fieldOf(u2.X) == "finished" {
						branchesOnFinished = true
					}
				}
			}
		}
	}
	switch {
	case !storesTrue:
		return "no store of true to the finished flag before each byte"
	case !callsFn:
		return "the function stored in stateFn is not called"
	case !branchesOnFinished:
		return "no branch on the finished flag"
	}
	return ""
}

func fieldName(ptrT types.Type, i int) string {
	t := ptrT
	if p, ok := t.Underlying().(*types.Pointer); ok {
		t = p.Elem()
	}
	if st, ok := t.Underlying().(*types.Struct); ok && i < st.NumFields() {
		return st.Field(i).Name()
	}
	return ""
}
