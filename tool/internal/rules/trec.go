package rules

import (
	"fmt"
	"go/types"
	"sort"
	"strings"

	"verif/internal/load"
	"verif/internal/pe"
	"verif/internal/report"
)

// T-rec — what the recursion checker follows and what it skips.

func init() {
	register(&Rule{ID: "T-rec", Min: 4, Run: runTRec,
		Doc: "the recursion checker skips a node only because it is optional or cannot lead anywhere: recursionChecker.check, interpreted over an abstract node (presence and value of every rule it asks for as atoms, the node's kind as an atom, its own recursive calls and the mixed-value helper as recorded effects), returns without descending exactly when the node carries optional: true or is an array, a literal or a mixed node; a mixed-value node is handed to the alternatives check, an object has every child followed and the first error returned — and no rule other than optional is consulted (treating nullable, or any other rule, as a way out accepts graphs whose Example cannot be completed)"})
}

func runTRec(c *load.Ctx, r *report.RuleResult) {
	e := newAbsNodeEnv(c)
	if e.problem != "" {
		r.Unk("anchor|schema.Node", "", e.problem)
		return
	}
	fn := c.Func(pkgChecker, "recursionChecker.check")
	mixed := c.Func(pkgChecker, "recursionChecker.checkMixedValueNode")
	children := c.Func(pkgSchema, "ObjectNode.Children")
	if fn == nil || mixed == nil || children == nil {
		r.Unk("anchor|checker.recursionChecker.check", "", "check / checkMixedValueNode / ObjectNode.Children not found")
		return
	}
	pos := c.Pos(fn.Pos())
	errT := types.Universe.Lookup("error").Type()
	outcome := func(in *pe.Interp, name string) pe.Value {
		if in.Choose(name, []string{"nil", "error"}) == 0 {
			return pe.NilV{}
		}
		return &pe.Iface{T: errT, V: pe.NewSym(name+"-error", errT)}
	}
	e.cfg.Intrinsics[fn.String()] = func(in *pe.Interp, args []pe.Value) (pe.Value, bool) {
		if _, entered := in.SymMem("rec.entered"); !entered {
			in.SetSymMem("rec.entered", true)
			return nil, false
		}
		n := strings.Trim(pe.Show(args[1]), "‹›")
		in.Effect("descend " + n)
		return outcome(in, "descend("+n+")"), true
	}
	e.cfg.Intrinsics[mixed.String()] = func(in *pe.Interp, args []pe.Value) (pe.Value, bool) {
		in.Effect("alternatives " + strings.Trim(pe.Show(args[1]), "‹›"))
		return outcome(in, "alternatives"), true
	}
	e.cfg.Intrinsics[children.String()] = func(in *pe.Interp, args []pe.Value) (pe.Value, bool) {
		return in.MakeSliceOf([]pe.Value{pe.NewSym("child0", e.nodeT), pe.NewSym("child1", e.nodeT)}, 2), true
	}
	outs := pe.ExploreFn(e.cfg, func(in *pe.Interp) pe.Value {
		recv := pe.NewSym("c", fn.Params[0].Type())
		return in.Call(fn, []pe.Value{recv, pe.NewSym("node", e.nodeT), pe.NewSym("types", fn.Params[2].Type())})
	})
	counts := map[string]int{}
	bad := map[string]string{}
	for _, o := range outs {
		val := o.ChoiceMap()
		// which rules were consulted
		var foreign []string
		for n := range val {
			if strings.HasPrefix(n, "has(") && n != "has(OptionalConstraintType)" {
				foreign = append(foreign, strings.TrimSuffix(strings.TrimPrefix(n, "has("), "ConstraintType)"))
			}
		}
		sort.Strings(foreign)
		optional := val["has(OptionalConstraintType)"] == "true"
		if optional {
			for n, l := range val {
				if strings.HasPrefix(n, "Optional.") && l == "false" {
					optional = false
				}
				if strings.HasPrefix(n, "is(") && strings.Contains(n, "BoolKeeper") && l == "false" {
					optional = false
				}
			}
		}
		kind := "other"
		for n, l := range val {
			if !strings.HasPrefix(n, "is(node.(") || l != "true" {
				continue
			}
			for _, k := range []string{"ArrayNode", "LiteralNode", "MixedValueNode", "MixedNode", "ObjectNode"} {
				if strings.Contains(n, "."+k+")") {
					kind = k
				}
			}
		}
		key := fmt.Sprintf("recursion|optional=%v|kind=%s", optional, kind)
		counts[key]++
		if bad[key] != "" {
			continue
		}
		if o.Undecided != "" {
			bad[key] = "not interpretable: " + o.Undecided
			continue
		}
		if len(foreign) > 0 {
			bad[key] = "the verdict consults the rule(s) " + strings.Join(foreign, ", ") + "; only optional makes a reference skippable: {" + o.Valuation() + "}"
			continue
		}
		descends, alternatives := 0, 0
		for _, ef := range o.Effects {
			if strings.HasPrefix(ef, "descend ") {
				descends++
			}
			if strings.HasPrefix(ef, "alternatives ") {
				alternatives++
			}
		}
		returnsNil := !o.Panicked && pe.Show(o.Ret) == pe.Show(pe.NilV{})
		firstErr := -1
		for i := 0; i < 2; i++ {
			if val[fmt.Sprintf("descend(child%d)", i)] == "error" && firstErr < 0 {
				firstErr = i
			}
		}
		switch {
		case o.Panicked:
			bad[key] = "panics: " + pe.Show(o.PanicVal)
		case optional || kind == "ArrayNode" || kind == "LiteralNode" || kind == "MixedNode":
			if descends != 0 || alternatives != 0 || !returnsNil {
				bad[key] = fmt.Sprintf("a node that leads nowhere is followed or refused (%d descents, %d alternative checks, returns %s)", descends, alternatives, pe.Show(o.Ret))
			}
		case kind == "MixedValueNode":
			if alternatives != 1 || descends != 0 || returnsNil != (val["alternatives"] == "nil") {
				bad[key] = fmt.Sprintf("a type reference is not handed to the alternatives check exactly once, or its verdict is not returned (%d calls, returns %s, the check said %s)", alternatives, pe.Show(o.Ret), val["alternatives"])
			}
		case kind == "ObjectNode":
			want := 2
			if firstErr >= 0 {
				want = firstErr + 1
			}
			if descends != want || returnsNil != (firstErr < 0) {
				bad[key] = fmt.Sprintf("the properties of an object are not all followed up to the first error (%d of 2 followed, first error at %d, returns %s): {%s}", descends, firstErr, pe.Show(o.Ret), o.Valuation())
			}
		default:
			if returnsNil {
				bad[key] = "a node of no known kind passes for harmless"
			}
		}
	}
	for _, k := range sortedKeys(counts) {
		if bad[k] != "" {
			r.Bad(k, pos, bad[k])
		} else {
			r.OK(k, pos, fmt.Sprintf("%d paths", counts[k]))
		}
	}
	if len(counts) == 0 {
		r.Unk("anchor|paths", pos, "no path")
	}
	// whether a type leads back to itself depends on the path it is reached by (an or-alternative
	// that loops under one root terminates under another): the checker may remember the current path
	// and nothing else — a per-type memo of verdicts is unsound
	if rc := namedType(c, pkgChecker, "recursionChecker"); rc != nil {
		st, _ := rc.Underlying().(*types.Struct)
		var extra []string
		for i := 0; st != nil && i < st.NumFields(); i++ {
			f := st.Field(i)
			switch t := f.Type().Underlying().(type) {
			case *types.Map:
				if el, ok := t.Elem().Underlying().(*types.Struct); ok && el.NumFields() == 0 {
					continue // a set of names: the path being expanded
				}
				extra = append(extra, f.Name()+" "+types.TypeString(f.Type(), func(p *types.Package) string { return p.Name() }))
			case *types.Slice:
				if b, ok := t.Elem().Underlying().(*types.Basic); ok && b.Kind() == types.String {
					continue // the path, for the message
				}
				extra = append(extra, f.Name()+" "+types.TypeString(f.Type(), func(p *types.Package) string { return p.Name() }))
			default:
				extra = append(extra, f.Name()+" "+types.TypeString(f.Type(), func(p *types.Package) string { return p.Name() }))
			}
		}
		if len(extra) > 0 {
			r.Bad("recursion-state|recursionChecker", c.Pos(rc.Obj().Pos()), "the recursion checker keeps more than the path being expanded ("+strings.Join(extra, "; ")+"): a verdict remembered per type name is reused under another path, where the same type may terminate (or loop)")
		} else {
			r.OK("recursion-state|recursionChecker", c.Pos(rc.Obj().Pos()), "fields: a set of names and the path")
		}
	} else {
		r.Unk("anchor|checker.recursionChecker", "", "type not found")
	}
}
