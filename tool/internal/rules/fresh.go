package rules

import (
	"fmt"
	"go/types"
	"sort"
	"strings"

	"golang.org/x/tools/go/ssa"

	"verif/internal/load"
	"verif/internal/report"
)

// FR-1 / VF-1: per-operation helpers are per operation.
//
// Validation, example building, checking and collecting keep their bookkeeping in helper objects
// that are created for one operation and thrown away (validator tree and validators, example
// builder with its recursion counters, checker scratch maps, used-type collector, allOf compiler).
// "Validation allocates its validator tree per call and only reads the compiled schema" is the
// mechanism C12 names; C01/C11 need verdicts not to depend on earlier documents. The structural
// necessary condition checked here: a long-lived object (the API objects, the compiled schema, its
// constraints, package variables) has no slot in which such a helper could live, and a validator has
// no slot for other validators except the link to its parent.

func init() {
	register(&Rule{ID: "FR-1", Min: 20, Run: runFR1,
		Doc: "per-operation helpers cannot outlive the operation: no field of a long-lived type (the API objects jschema.Schema / regex.Schema / enum.Enum / json.Document, every struct of the compiled schema and its constraints) and no package variable has a type that can hold a per-operation helper (validator tree, validators, example builder, used-type collector, checker and allOf-compiler state), and no such helper is boxed into an interface-typed field of a long-lived object"})
	register(&Rule{ID: "VF-1", Min: 5, Run: runVF1,
		Doc: "validators are single-use leaves: a validator type has no field that can hold another validator except the parent link (the field its setParent method stores) — child validators are handed to the tree for one value and never kept, so bookkeeping such as owed keys and item counters starts fresh for every value"})
}

// scratchTypes: the per-operation helper types (struct types; validators are added by interface).
var scratchTypeNames = map[string][]string{
	"notations/jschema": {"exampleBuilder", "userTypesCollector"},
	pkgValidator:        {"Tree", "validatorListConstructor"},
	pkgChecker:          {"checkSchema", "recursionChecker", "nodeCheckerListConstructor"},
	pkgLoader:           {"allOfConstraintCompiler"},
}

func scratchTypes(c *load.Ctx) (map[*types.TypeName]bool, *types.Interface, []string) {
	out := map[*types.TypeName]bool{}
	var missing []string
	for rel, names := range scratchTypeNames {
		p := c.Pkg(rel)
		if p == nil {
			missing = append(missing, rel)
			continue
		}
		for _, n := range names {
			tn, _ := p.Types.Scope().Lookup(n).(*types.TypeName)
			if tn == nil {
				missing = append(missing, rel+"."+n)
				continue
			}
			out[tn] = true
		}
	}
	var viface *types.Interface
	if p := c.Pkg(pkgValidator); p != nil {
		if tn, ok := p.Types.Scope().Lookup("validator").(*types.TypeName); ok {
			out[tn] = true
			viface, _ = tn.Type().Underlying().(*types.Interface)
			for _, n := range p.Types.Scope().Names() {
				t2, ok := p.Types.Scope().Lookup(n).(*types.TypeName)
				if !ok || t2 == tn {
					continue
				}
				if _, isStruct := t2.Type().Underlying().(*types.Struct); !isStruct {
					continue
				}
				if viface != nil && (types.Implements(t2.Type(), viface) || types.Implements(types.NewPointer(t2.Type()), viface)) {
					out[t2] = true
				}
			}
		} else {
			missing = append(missing, pkgValidator+".validator")
		}
	}
	return out, viface, missing
}

// mentions: the type can hold a value of one of the named types.
func mentions(t types.Type, set map[*types.TypeName]bool, seen map[types.Type]bool) *types.TypeName {
	if seen[t] {
		return nil
	}
	seen[t] = true
	switch x := t.(type) {
	case *types.Named:
		if set[x.Obj()] {
			return x.Obj()
		}
		// an instantiated generic type (a once-wrapper with a value, a pool, a stack) holds what its type
		// arguments say
		if ta := x.TypeArgs(); ta != nil {
			for i := 0; i < ta.Len(); i++ {
				if tn := mentions(ta.At(i), set, seen); tn != nil {
					return tn
				}
			}
		}
		// otherwise do not look inside other named types: their own fields are judged where they are declared
		return nil
	case *types.Pointer:
		return mentions(x.Elem(), set, seen)
	case *types.Slice:
		return mentions(x.Elem(), set, seen)
	case *types.Array:
		return mentions(x.Elem(), set, seen)
	case *types.Map:
		if tn := mentions(x.Key(), set, seen); tn != nil {
			return tn
		}
		return mentions(x.Elem(), set, seen)
	case *types.Chan:
		return mentions(x.Elem(), set, seen)
	case *types.Struct:
		for i := 0; i < x.NumFields(); i++ {
			if tn := mentions(x.Field(i).Type(), set, seen); tn != nil {
				return tn
			}
		}
	case *types.Signature:
		return nil
	}
	return nil
}

func longLivedTypes(c *load.Ctx) []*types.TypeName {
	var out []*types.TypeName
	add := func(rel string, names ...string) {
		p := c.Pkg(rel)
		if p == nil {
			return
		}
		if len(names) == 0 {
			for _, n := range p.Types.Scope().Names() {
				if tn, ok := p.Types.Scope().Lookup(n).(*types.TypeName); ok {
					if _, isStruct := tn.Type().Underlying().(*types.Struct); isStruct {
						out = append(out, tn)
					}
				}
			}
			return
		}
		for _, n := range names {
			if tn, ok := p.Types.Scope().Lookup(n).(*types.TypeName); ok {
				out = append(out, tn)
			}
		}
	}
	add("notations/jschema", "Schema")
	add("notations/regex", "Schema")
	add("rules/enum", "Enum")
	add("formats/json", "Document")
	add(pkgSchema)
	add(pkgConstraint)
	return out
}

func runFR1(c *load.Ctx, r *report.RuleResult) {
	scratch, _, missing := scratchTypes(c)
	for _, m := range missing {
		r.Unk("anchor|"+m, "", "per-operation helper type not found")
	}
	ll := longLivedTypes(c)
	llSet := map[*types.TypeName]bool{}
	for _, tn := range ll {
		llSet[tn] = true
		st, ok := tn.Type().Underlying().(*types.Struct)
		if !ok {
			continue
		}
		key := "slot|" + load.Rel(tn.Pkg().Path()) + "." + tn.Name()
		var bad []string
		for i := 0; i < st.NumFields(); i++ {
			if h := mentions(st.Field(i).Type(), scratch, map[types.Type]bool{}); h != nil {
				bad = append(bad, fmt.Sprintf("field %s (%s) can hold a %s", st.Field(i).Name(), types.TypeString(st.Field(i).Type(), func(p *types.Package) string { return p.Name() }), h.Name()))
			}
		}
		if len(bad) > 0 {
			r.Bad(key, c.Pos(tn.Pos()), strings.Join(bad, "; ")+": a helper made for one operation would be kept between operations (shared by concurrent calls, carrying state from one document to the next)")
		} else {
			r.OK(key, c.Pos(tn.Pos()), fmt.Sprintf("%d fields, none can hold a per-operation helper", st.NumFields()))
		}
	}
	// package variables
	for _, p := range c.Pkgs {
		sc := p.Types.Scope()
		for _, n := range sc.Names() {
			v, ok := sc.Lookup(n).(*types.Var)
			if !ok {
				continue
			}
			if h := mentions(v.Type(), scratch, map[types.Type]bool{}); h != nil {
				r.Bad("global|"+load.Rel(p.PkgPath)+"."+n, c.Pos(v.Pos()), fmt.Sprintf("package variable of type %s can hold a %s", v.Type(), h.Name()))
			}
		}
	}
	// helpers boxed into interface-typed fields of long-lived objects
	boxed := 0
	for _, fn := range c.ModuleFunctions() {
		for _, b := range fn.Blocks {
			for _, ins := range b.Instrs {
				st, ok := ins.(*ssa.Store)
				if !ok {
					continue
				}
				mi, ok := st.Val.(*ssa.MakeInterface)
				if !ok {
					continue
				}
				h := mentions(mi.X.Type(), scratch, map[types.Type]bool{})
				if h == nil {
					continue
				}
				fa, ok := st.Addr.(*ssa.FieldAddr)
				if !ok {
					if _, isG := st.Addr.(*ssa.Global); isG {
						boxed++
						r.Bad("boxed|"+load.FuncKey(fn)+"|"+h.Name(), c.Pos(st.Pos()), "a "+h.Name()+" is stored into a package variable")
					}
					continue
				}
				pt, _ := fa.X.Type().Underlying().(*types.Pointer)
				if pt == nil {
					continue
				}
				if named, ok := pt.Elem().(*types.Named); ok && llSet[named.Obj()] {
					boxed++
					r.Bad("boxed|"+load.FuncKey(fn)+"|"+h.Name(), c.Pos(st.Pos()), fmt.Sprintf("a %s is stored into field %s of the long-lived %s", h.Name(), fieldName(fa.X.Type(), fa.Field), named.Obj().Name()))
				}
			}
		}
	}
	var names []string
	for tn := range scratch {
		names = append(names, tn.Name())
	}
	sort.Strings(names)
	r.Note("%d per-operation helper types (%s); %d long-lived struct types", len(scratch), strings.Join(names, ", "), len(ll))
}

func runVF1(c *load.Ctx, r *report.RuleResult) {
	scratch, viface, missing := scratchTypes(c)
	if viface == nil || len(missing) > 0 {
		r.Unk("anchor|validator interface", "", "validator interface or helper types not found: "+strings.Join(missing, ", "))
		return
	}
	// only validators count here
	vset := map[*types.TypeName]bool{}
	for tn := range scratch {
		if load.Rel(tn.Pkg().Path()) != pkgValidator {
			continue
		}
		if tn.Name() == "validator" {
			vset[tn] = true
			continue
		}
		if types.Implements(tn.Type(), viface) || types.Implements(types.NewPointer(tn.Type()), viface) {
			vset[tn] = true
		}
	}
	var impls []*types.TypeName
	for tn := range vset {
		if tn.Name() != "validator" {
			impls = append(impls, tn)
		}
	}
	sort.Slice(impls, func(i, j int) bool { return impls[i].Name() < impls[j].Name() })
	for _, tn := range impls {
		st := tn.Type().Underlying().(*types.Struct)
		key := "leaf|" + tn.Name()
		// the parent link: the field(s) stored by setParent
		parentFields := map[int]bool{}
		if sp := c.Func(pkgValidator, tn.Name()+".setParent"); sp != nil {
			for _, b := range sp.Blocks {
				for _, ins := range b.Instrs {
					if s, ok := ins.(*ssa.Store); ok {
						if fa, ok := s.Addr.(*ssa.FieldAddr); ok {
							parentFields[fa.Field] = true
						}
					}
				}
			}
		}
		var bad []string
		for i := 0; i < st.NumFields(); i++ {
			if parentFields[i] {
				continue
			}
			if h := mentions(st.Field(i).Type(), vset, map[types.Type]bool{}); h != nil {
				bad = append(bad, fmt.Sprintf("field %s (%s)", st.Field(i).Name(), types.TypeString(st.Field(i).Type(), func(p *types.Package) string { return p.Name() })))
			}
		}
		if len(bad) > 0 {
			r.Bad(key, c.Pos(tn.Pos()), "the validator keeps other validators in "+strings.Join(bad, ", ")+": they are reused for later values with the state (owed keys, counters, depth) the earlier value left in them")
		} else {
			r.OK(key, c.Pos(tn.Pos()), fmt.Sprintf("no field besides the parent link (%d) can hold a validator", len(parentFields)))
		}
	}
}
