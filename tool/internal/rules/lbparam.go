package rules

import (
	"fmt"
	"go/token"
	"go/types"
	"sort"

	"golang.org/x/tools/go/ssa"

	"verif/internal/load"
	"verif/internal/report"
)

// LB-param — an index handed in by a caller is checked by the callee or is in range at every call.

func init() {
	register(&Rule{ID: "LB-param", Min: 3, Run: runLBParam,
		Doc: "an index that comes in as a parameter is tested before it is used: wherever a function of the library indexes a slice, array or string of its receiver or arguments with a value derived from an integer parameter, a comparison involving that parameter (against a length or a constant) dominates the access — or the site is in the reviewed table with the reason why every caller passes an index in range; an unchecked index turns a caller's slip (a note before the first enum value) into a raw run-time error instead of a positioned library error"})
}

// lbParamReviewed: function|indexed -> why every caller is in range.
var lbParamReviewed = map[string]string{
	"notations/jschema/internal/scanner.(Scanner).processingFoundLexemeClosingTag|.data[i]": "part of Next(): the scanner model interprets this read in every reachable abstract state (SX-crash-schema); i is the index of the byte just consumed and a mixed value has at least one byte before it",
	"rules/enum.(scanner).processingFoundLexemeClosingTag|.data[i]":                         "same code in the enum scanner (SX-crash-enum)",
}

func runLBParam(c *load.Ctx, r *report.RuleResult) {
	type site struct {
		fn   *ssa.Function
		ins  ssa.Instruction
		what string
		par  *ssa.Parameter
	}
	var sites []site
	derivesFromParamInt := func(v ssa.Value) *ssa.Parameter {
		for depth := 0; depth < 6; depth++ {
			switch x := v.(type) {
			case *ssa.Parameter:
				if b, ok := x.Type().Underlying().(*types.Basic); ok && b.Info()&types.IsInteger != 0 {
					return x
				}
				return nil
			case *ssa.Convert:
				v = x.X
			case *ssa.ChangeType:
				v = x.X
			case *ssa.BinOp:
				if _, isConst := x.Y.(*ssa.Const); isConst && (x.Op == token.ADD || x.Op == token.SUB) {
					v = x.X
					continue
				}
				return nil
			default:
				return nil
			}
		}
		return nil
	}
	for _, fn := range c.ModuleFunctions() {
		if load.IsAux(load.FuncPkgRel(fn)) || fn.Parent() != nil {
			continue
		}
		for _, b := range fn.Blocks {
			for _, ins := range b.Instrs {
				var idx ssa.Value
				var base ssa.Value
				switch x := ins.(type) {
				case *ssa.IndexAddr:
					idx, base = x.Index, x.X
				case *ssa.Index:
					idx, base = x.Index, x.X
				default:
					continue
				}
				p := derivesFromParamInt(idx)
				if p == nil {
					continue
				}
				// an index whose type cannot exceed the array (a byte into a [256]T table)
				if at, ok := derefType(base.Type()).Underlying().(*types.Array); ok {
					if bt, ok := idx.Type().Underlying().(*types.Basic); ok && (bt.Kind() == types.Uint8 || bt.Kind() == types.Byte) && at.Len() >= 256 {
						continue
					}
				}
				sites = append(sites, site{fn, ins, describeValue(base), p})
			}
		}
	}
	sort.Slice(sites, func(i, j int) bool { return load.FuncKey(sites[i].fn) < load.FuncKey(sites[j].fn) })
	seen := map[string]int{}
	for _, s := range sites {
		base := fmt.Sprintf("%s|%s[%s]", load.FuncKey(s.fn), s.what, s.par.Name())
		seen[base]++
		key := "param-index|" + base
		if seen[base] > 1 {
			key = fmt.Sprintf("%s|#%d", key, seen[base])
		}
		// a dominating comparison that involves the parameter
		guarded := false
		for _, b := range s.fn.Blocks {
			ifi, ok := b.Instrs[len(b.Instrs)-1].(*ssa.If)
			if !ok || !b.Dominates(s.ins.Block()) || b == s.ins.Block() {
				continue
			}
			if condMentions(ifi.Cond, s.par, 0) {
				guarded = true
			}
		}
		callers := ""
		if !guarded && lbParamReviewed[base] == "" {
			// the callee trusts its callers: then every call site must test what it passes
			ok, desc := callersGuard(c, s.fn, s.par)
			if ok {
				guarded, callers = true, desc
			}
		}
		switch {
		case guarded && callers != "":
			r.OK(key, c.Pos(s.ins.Pos()), "not tested here; every caller tests what it passes: "+callers)
		case guarded:
			r.OK(key, c.Pos(s.ins.Pos()), "a test on "+s.par.Name()+" dominates the access")
		case lbParamReviewed[base] != "":
			r.OK(key, c.Pos(s.ins.Pos()), "reviewed: "+lbParamReviewed[base])
		default:
			r.Bad(key, c.Pos(s.ins.Pos()), fmt.Sprintf("%s indexes %s with its parameter %s without testing it: a caller that passes an index out of range gets a raw run-time error", s.fn.Name(), s.what, s.par.Name()))
		}
	}
	r.Stat("sites", len(sites))
}

func condMentions(v ssa.Value, p *ssa.Parameter, depth int) bool {
	if depth > 6 || v == nil {
		return false
	}
	if v == ssa.Value(p) {
		return true
	}
	switch x := v.(type) {
	case *ssa.BinOp:
		return condMentions(x.X, p, depth+1) || condMentions(x.Y, p, depth+1)
	case *ssa.UnOp:
		return condMentions(x.X, p, depth+1)
	case *ssa.Convert:
		return condMentions(x.X, p, depth+1)
	case *ssa.ChangeType:
		return condMentions(x.X, p, depth+1)
	case *ssa.Phi:
		for _, e := range x.Edges {
			if condMentions(e, p, depth+1) {
				return true
			}
		}
	}
	return false
}

// callersGuard: every static call site of fn passes, at the parameter's position, a value read from
// a field that a dominating branch of the caller tests (if l.lastIdx >= 0 { c.SetComment(l.lastIdx, …) }),
// or a value derived from an integer parameter of the caller that the caller tests.
func callersGuard(c *load.Ctx, fn *ssa.Function, par *ssa.Parameter) (bool, string) {
	pos := -1
	for i, p := range fn.Params {
		if p == par {
			pos = i
		}
	}
	if pos < 0 {
		return false, ""
	}
	n := 0
	var descs []string
	for _, caller := range c.ModuleFunctions() {
		if load.IsAux(load.FuncPkgRel(caller)) {
			continue
		}
		for _, call := range callSites(caller, fn) {
			n++
			args := call.Common().Args
			if pos >= len(args) {
				return false, ""
			}
			a := args[pos]
			ld, isLoad := a.(*ssa.UnOp)
			var fa *ssa.FieldAddr
			if isLoad && ld.Op == token.MUL {
				fa, _ = ld.X.(*ssa.FieldAddr)
			}
			if fa == nil {
				return false, ""
			}
			found := false
			for _, b := range caller.Blocks {
				ifi, ok := b.Instrs[len(b.Instrs)-1].(*ssa.If)
				if !ok || !b.Dominates(call.Block()) || b == call.Block() {
					continue
				}
				if condMentionsField(ifi.Cond, fa, 0) {
					found = true
				}
			}
			if !found {
				return false, ""
			}
			descs = append(descs, load.FuncKey(caller)+" tests ."+fieldName(fa.X.Type(), fa.Field))
		}
	}
	if n == 0 {
		return false, ""
	}
	sort.Strings(descs)
	return true, fmt.Sprint(descs)
}

func condMentionsField(v ssa.Value, fa *ssa.FieldAddr, depth int) bool {
	if depth > 6 || v == nil {
		return false
	}
	switch x := v.(type) {
	case *ssa.UnOp:
		if x.Op == token.MUL {
			if f2, ok := x.X.(*ssa.FieldAddr); ok && f2.Field == fa.Field && types.Identical(f2.X.Type(), fa.X.Type()) {
				return true
			}
		}
		return condMentionsField(x.X, fa, depth+1)
	case *ssa.BinOp:
		return condMentionsField(x.X, fa, depth+1) || condMentionsField(x.Y, fa, depth+1)
	case *ssa.Convert:
		return condMentionsField(x.X, fa, depth+1)
	}
	return false
}
