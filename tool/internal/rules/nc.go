package rules

import (
	"fmt"
	"go/constant"
	"go/token"
	"go/types"
	"sort"
	"strings"

	"golang.org/x/tools/go/ssa"

	"verif/internal/load"
	"verif/internal/report"
)

// NC — normalise before compare.

func init() {
	register(&Rule{ID: "NC-1", Min: 3, Run: runNC1,
		Doc: "quoted and bare names mean the same: every comparison of the text of a lexeme (LexEvent.Value()) with a string constant — rule names such as \"enum\", \"type\", \"or\" — is made on the unquoted text (the value passes through Bytes.Unquote before it is compared); comparing the raw token makes {\"enum\": …} and {enum: …} differ"})
}

func runNC1(c *load.Ctx, r *report.RuleResult) {
	lexValue := c.Func("internal/lexeme", "LexEvent.Value")
	unquote := c.Func(pkgBytes, "Bytes.Unquote")
	if lexValue == nil || unquote == nil {
		r.Unk("anchor|LexEvent.Value/Bytes.Unquote", "", "not found")
		return
	}
	// chain: is v derived from a LexEvent.Value() call through Bytes methods / conversions; does the
	// chain contain Unquote?
	var derive func(v ssa.Value, depth int) (fromLex, unq bool)
	derive = func(v ssa.Value, depth int) (bool, bool) {
		if depth > 10 {
			return false, false
		}
		switch x := v.(type) {
		case *ssa.Call:
			sc := x.Call.StaticCallee()
			if sc == nil {
				return false, false
			}
			if sc == lexValue {
				return true, false
			}
			if sc.Signature.Recv() != nil && len(x.Call.Args) > 0 && isBytesMethod(sc) {
				f, u := derive(x.Call.Args[0], depth+1)
				return f, u || sc == unquote
			}
		case *ssa.Convert:
			return derive(x.X, depth+1)
		case *ssa.ChangeType:
			return derive(x.X, depth+1)
		case *ssa.UnOp:
			if a, ok := x.X.(*ssa.Alloc); ok {
				for _, ref := range *a.Referrers() {
					if st, ok := ref.(*ssa.Store); ok && st.Addr == a {
						return derive(st.Val, depth+1)
					}
				}
			}
		case *ssa.Phi:
			from, unq := false, true
			for _, ed := range x.Edges {
				f, u := derive(ed, depth+1)
				if f {
					from = true
					unq = unq && u
				}
			}
			return from, from && unq
		}
		return false, false
	}
	counts := map[string]int{}
	oneOf := c.Func(pkgBytes, "Bytes.OneOf")
	for _, fn := range c.ModuleFunctions() {
		// the rule is about names written in a *schema* (bare or quoted); the validators and the JSON
		// document code see document lexemes, where null / true / false are literals, not names
		if rel := load.FuncPkgRel(fn); rel == pkgValidator || rel == "formats/json" {
			continue
		}
		for _, b := range fn.Blocks {
			for _, ins := range b.Instrs {
				// raw.OneOf("name", "\"name\""): both spellings of every name must be listed
				if call, ok := ins.(*ssa.Call); ok && oneOf != nil && call.Call.StaticCallee() == oneOf && len(call.Call.Args) == 2 {
					from, unq := derive(call.Call.Args[0], 0)
					if !from || unq {
						continue
					}
					names := variadicStringConsts(call.Call.Args[1])
					bare, quoted := map[string]bool{}, map[string]bool{}
					identLike := false
					for _, n := range names {
						if len(n) >= 2 && n[0] == '"' && n[len(n)-1] == '"' {
							quoted[n[1:len(n)-1]] = true
						} else {
							bare[n] = true
						}
						if len(strings.Trim(n, `"`)) >= 2 && !strings.ContainsAny(strings.Trim(n, `"`), "{}[]@| ") {
							identLike = true
						}
					}
					if !identLike {
						continue
					}
					base := fmt.Sprintf("namecmp|%s|OneOf(%s)", load.FuncKey(fn), strings.Join(sortedKeys(bare), ","))
					counts[base]++
					key := base
					if counts[base] > 1 {
						key = fmt.Sprintf("%s|#%d", base, counts[base])
					}
					var missing []string
					for n := range bare {
						if !quoted[n] {
							missing = append(missing, `"`+n+`"`)
						}
					}
					for n := range quoted {
						if !bare[n] {
							missing = append(missing, n)
						}
					}
					sort.Strings(missing)
					if len(missing) > 0 {
						r.Bad(key, c.Pos(call.Pos()), "the raw token text is compared with a list of spellings that is not closed under quoting: no counterpart for "+strings.Join(missing, ", ")+" — the quoted and the bare spelling of a name must be treated alike")
					} else {
						r.OK(key, c.Pos(call.Pos()), "bare and quoted spelling of every name listed")
					}
					continue
				}
				bo, ok := ins.(*ssa.BinOp)
				if !ok || (bo.Op != token.EQL && bo.Op != token.NEQ) {
					continue
				}
				var k *ssa.Const
				var other ssa.Value
				if kc, ok := bo.Y.(*ssa.Const); ok {
					k, other = kc, bo.X
				} else if kc, ok := bo.X.(*ssa.Const); ok {
					k, other = kc, bo.Y
				}
				if k == nil || k.Value == nil {
					continue
				}
				if b, ok := k.Type().Underlying().(*types.Basic); !ok || b.Info()&types.IsString == 0 {
					continue
				}
				from, unq := derive(other, 0)
				if !from {
					continue
				}
				text := constant.StringVal(k.Value)
				// constants that are themselves quoted tokens or punctuation compare the raw text on purpose
				if strings.ContainsAny(text, "\"{}[]@|") || len(text) < 2 {
					continue
				}
				base := fmt.Sprintf("namecmp|%s|%s", load.FuncKey(fn), text)
				counts[base]++
				key := base
				if counts[base] > 1 {
					key = fmt.Sprintf("%s|#%d", base, counts[base])
				}
				if unq {
					r.OK(key, c.Pos(bo.Pos()), "compared after Unquote")
				} else {
					r.Bad(key, c.Pos(bo.Pos()), fmt.Sprintf("the raw token text is compared with %s: the quoted spelling of the same name (\"…\") does not match", text))
				}
			}
		}
	}
}

func isBytesMethod(f *ssa.Function) bool {
	rt := f.Signature.Recv().Type()
	if p, ok := rt.(*types.Pointer); ok {
		rt = p.Elem()
	}
	n, ok := rt.(*types.Named)
	return ok && n.Obj().Pkg() != nil && n.Obj().Pkg().Path() == load.Module+"/bytes" && n.Obj().Name() == "Bytes"
}

// variadicStringConsts: the constant strings packed into a variadic argument.
func variadicStringConsts(v ssa.Value) []string {
	sl, ok := v.(*ssa.Slice)
	if !ok {
		return nil
	}
	a, ok := sl.X.(*ssa.Alloc)
	if !ok {
		return nil
	}
	var out []string
	for _, ref := range *a.Referrers() {
		ia, ok := ref.(*ssa.IndexAddr)
		if !ok {
			continue
		}
		for _, r2 := range *ia.Referrers() {
			if st, ok := r2.(*ssa.Store); ok {
				if k, ok := st.Val.(*ssa.Const); ok && k.Value != nil && k.Value.Kind() == constant.String {
					out = append(out, constant.StringVal(k.Value))
				}
			}
		}
	}
	return out
}
