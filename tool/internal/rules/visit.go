package rules

import (
	"fmt"
	"go/token"
	"go/types"

	"golang.org/x/tools/go/ssa"

	"verif/internal/load"
	"verif/internal/report"
)

// VIS-1: tree walkers visit every child / every type.
//
// The checker, the allOf compiler and the used-type collector are recursive walks over the schema
// tree and loops over the type table. Their results quantify over *every* node ("a schema whose
// examples violate their own constraints fails to load", "every reference is resolved"), so a walk that
// can skip a child under some condition is wrong for the schemas meeting that condition. The rule is a
// must-pass-through check on the control-flow graph: inside the loop over the children (types), every
// path from the top of the loop body to the next iteration or out of the loop goes through the
// visiting call; and every path from the function's entry to a normal return goes through the loop —
// where the only admissible bypass is the failure edge of a comma-ok test (a type assertion that does
// not hold, a lookup that finds nothing) and the exhaustion of the loop itself.

func init() {
	const doc = "the visiting call is on every path through the loop body and the loop is on every path from entry to a normal return — the only admissible bypasses are the failure edge of a comma-ok test (type assertion, lookup) and the exhaustion of the loop"
	register(&Rule{ID: "VIS-check", Min: 2, Run: func(c *load.Ctx, r *report.RuleResult) { runVIS1(c, r, "check") },
		Doc: "the schema checker reaches every node and every added type (checkNode over Children(), CheckRootSchema over the type table): " + doc})
	register(&Rule{ID: "VIS-allof", Min: 2, Run: func(c *load.Ctx, r *report.RuleResult) { runVIS1(c, r, "allof") },
		Doc: "the allOf compiler reaches every node and every added type (processNode over Children(), CompileAllOf over the type table): " + doc})
	register(&Rule{ID: "VIS-rec", Min: 1, Run: func(c *load.Ctx, r *report.RuleResult) { runVIS1(c, r, "rec") },
		Doc: "the recursion checker follows every property of an object, the visited node being an element of Children(): " + doc})
	register(&Rule{ID: "VIS-unnamed", Min: 1, Run: func(c *load.Ctx, r *report.RuleResult) { runVIS1(c, r, "unnamed") },
		Doc: "every type an added type knows is handed on to the root (AddUnnamedTypes: the AddType call is on every path through the inner loop body) — the or rule-set types as well as the named types that were added to the added type, which is how a reference two AddType levels down is resolved: " + doc})
	register(&Rule{ID: "VIS-collect", Min: 3, Run: func(c *load.Ctx, r *report.RuleResult) { runVIS1(c, r, "collect") },
		Doc: "the used-type collector reaches every property (key shortcuts included) and every array element: " + doc})
}

type visInstance struct {
	group       string
	rel, fn     string // the walker
	crel, cname string // the visiting callee
	loopOnly    bool   // only the loop-body obligation (the loop itself is one of several cases)
	why         string
	argFrom     string // the visited node is an element of what this getter returns ("" = not required)
}

var visInstances = []visInstance{
	{"check", pkgChecker, "checkSchema.checkNode", pkgChecker, "checkSchema.checkNode", false, "every child of a branch node is checked against its rules", "Children"},
	{"check", pkgChecker, "CheckRootSchema", pkgChecker, "checkSchema.checkType", false, "every added type is checked", ""},
	{"allof", pkgLoader, "allOfConstraintCompiler.processNode", pkgLoader, "allOfConstraintCompiler.processNode", false, "allOf is expanded in every node of the tree", "Children"},
	{"allof", pkgLoader, "CompileAllOf", pkgLoader, "allOfConstraintCompiler.processType", false, "allOf is expanded inside every added type", ""},
	{"collect", "notations/jschema", "userTypesCollector.collectUserTypesObjectNode", "notations/jschema", "userTypesCollector.collect", false, "type references are collected below every property, including key shortcuts", ""},
	{"collect", "notations/jschema", "userTypesCollector.collect", "notations/jschema", "userTypesCollector.collect", true, "type references are collected below every array element", "Children"},
	{"collect", "notations/jschema", "userTypesCollector.collect", "notations/jschema", "userTypesCollector.collectUserTypesObjectNode", true, "the properties of every object node are walked", ""},
	{"unnamed", pkgLoader, "AddUnnamedTypes", pkgSchema, "Schema.AddType", true, "every type in an added type's own table reaches the root's table, whatever its name looks like", ""},
	{"rec", pkgChecker, "recursionChecker.check", pkgChecker, "recursionChecker.check", true, "the recursion check follows every property of an object (optional ones are skipped by the callee itself), key shortcuts included: a walk over the recorded required keys misses them", "Children"},
}

// commaOkFailureEdge reports which successor (0 = true edge, 1 = false edge) of the If ending block b
// is the failure edge of a comma-ok test, or -1.
func commaOkFailureEdge(b *ssa.BasicBlock) int {
	if len(b.Instrs) == 0 {
		return -1
	}
	iff, ok := b.Instrs[len(b.Instrs)-1].(*ssa.If)
	if !ok {
		return -1
	}
	cond := iff.Cond
	neg := false
	if u, ok := cond.(*ssa.UnOp); ok && u.Op == token.NOT {
		cond, neg = u.X, true
	}
	isOK := false
	switch x := cond.(type) {
	case *ssa.Extract:
		if x.Index >= 1 {
			if bt, ok := x.Type().Underlying().(*types.Basic); ok && bt.Kind() == types.Bool {
				switch x.Tuple.(type) {
				case *ssa.TypeAssert, *ssa.Lookup, *ssa.Call, *ssa.UnOp, *ssa.Next:
					isOK = true
				}
			}
		}
	}
	if !isOK {
		return -1
	}
	if neg {
		return 0
	}
	return 1
}

func isNilConst(v ssa.Value) bool {
	k, ok := v.(*ssa.Const)
	return ok && k.Value == nil
}

// escapes searches a path from start to a block satisfying goal that does not enter a block satisfying
// through and does not take the failure edge of a comma-ok test.
func escapes(start *ssa.BasicBlock, through, goal func(*ssa.BasicBlock) bool) []*ssa.BasicBlock {
	type item struct {
		b    *ssa.BasicBlock
		path []*ssa.BasicBlock
	}
	seen := map[*ssa.BasicBlock]bool{}
	queue := []item{{start, []*ssa.BasicBlock{start}}}
	for len(queue) > 0 {
		it := queue[0]
		queue = queue[1:]
		if seen[it.b] || through(it.b) {
			continue
		}
		seen[it.b] = true
		if goal(it.b) && len(it.path) > 0 && (it.b != start || len(it.path) > 1) {
			return it.path
		}
		fail := commaOkFailureEdge(it.b)
		for i, s := range it.b.Succs {
			if i == fail {
				continue
			}
			queue = append(queue, item{s, append(append([]*ssa.BasicBlock{}, it.path...), s)})
		}
	}
	return nil
}

func endsInReturn(b *ssa.BasicBlock) bool {
	if len(b.Instrs) == 0 {
		return false
	}
	_, ok := b.Instrs[len(b.Instrs)-1].(*ssa.Return)
	return ok
}

// innermostLoop returns the header and the body of the innermost natural loop containing b.
func innermostLoop(fn *ssa.Function, b *ssa.BasicBlock) (*ssa.BasicBlock, map[*ssa.BasicBlock]bool) {
	var bestH *ssa.BasicBlock
	var best map[*ssa.BasicBlock]bool
	for _, u := range fn.Blocks {
		for _, h := range u.Succs {
			if !h.Dominates(u) {
				continue
			}
			// natural loop of back edge u -> h
			body := map[*ssa.BasicBlock]bool{h: true}
			stack := []*ssa.BasicBlock{u}
			for len(stack) > 0 {
				x := stack[len(stack)-1]
				stack = stack[:len(stack)-1]
				if body[x] {
					continue
				}
				body[x] = true
				stack = append(stack, x.Preds...)
			}
			if body[b] && (best == nil || len(body) < len(best)) {
				bestH, best = h, body
			}
		}
	}
	return bestH, best
}

func runVIS1(c *load.Ctx, r *report.RuleResult, group string) {
	for _, vi := range visInstances {
		if vi.group != group {
			continue
		}
		fn := c.Func(vi.rel, vi.fn)
		callee := c.Func(vi.crel, vi.cname)
		key := fmt.Sprintf("visit|%s|%s", vi.fn, vi.cname)
		if fn == nil || callee == nil {
			r.Unk(key, "", "walker or visiting function not found")
			continue
		}
		sites := callSites(fn, callee)
		// a helper of the same package in whose own loop every iteration makes the visiting call stands
		// for the call (the loop moved into `addTypesOf`, `checkChildren`)
		helperNote := ""
		for _, b := range fn.Blocks {
			for _, ins := range b.Instrs {
				call, ok := ins.(*ssa.Call)
				if !ok {
					continue
				}
				h := call.Call.StaticCallee()
				if h == nil || h == callee || h == fn || h.Blocks == nil || load.FuncPkgRel(h) != load.FuncPkgRel(fn) {
					continue
				}
				hs := callSites(h, callee)
				if len(hs) == 0 {
					continue
				}
				okH := true
				hBlocks := map[*ssa.BasicBlock]bool{}
				for _, x := range hs {
					hBlocks[x.Block()] = true
				}
				inLoopH := false
				for _, x := range hs {
					hh, body := innermostLoop(h, x.Block())
					if hh == nil {
						continue
					}
					inLoopH = true
					for _, entry := range hh.Succs {
						if !body[entry] || entry == hh {
							continue
						}
						if p := escapes(entry, func(b *ssa.BasicBlock) bool { return hBlocks[b] },
							func(b *ssa.BasicBlock) bool { return b == hh || !body[b] || endsInReturn(b) }); p != nil {
							okH = false
						}
					}
					if vi.argFrom != "" {
						fromOK := false
						for _, a := range x.Common().Args {
							if elementOf(a, vi.argFrom, 0) {
								fromOK = true
							}
						}
						if !fromOK {
							okH = false
						}
					}
				}
				if okH && inLoopH {
					sites = append(sites, call)
					helperNote = " (through " + h.Name() + ")"
				}
			}
		}
		_ = helperNote
		if len(sites) == 0 {
			r.Bad(key, c.Pos(fn.Pos()), fmt.Sprintf("%s never calls %s: %s", fn.Name(), callee.Name(), vi.why))
			continue
		}
		siteBlock := map[*ssa.BasicBlock]bool{}
		for _, s := range sites {
			siteBlock[s.Block()] = true
		}
		problem := ""
		inLoop := false
		for _, s := range sites {
			h, body := innermostLoop(fn, s.Block())
			if h == nil {
				continue
			}
			inLoop = true
			// loop level: from each body entry (successor of the header inside the loop) every way to the
			// header again, out of the loop, or to a return goes through a visiting call
			for _, entry := range h.Succs {
				if !body[entry] || entry == h {
					continue
				}
				p := escapes(entry, func(b *ssa.BasicBlock) bool { return siteBlock[b] },
					func(b *ssa.BasicBlock) bool { return b == h || !body[b] || endsInReturn(b) })
				if p != nil {
					problem = fmt.Sprintf("an iteration of the loop can end without calling %s (through %s)", callee.Name(), blockPath(c, p))
				}
			}
			if !vi.loopOnly && problem == "" {
				p := escapes(fn.Blocks[0], func(b *ssa.BasicBlock) bool { return b == h }, endsInReturn)
				if p != nil {
					problem = fmt.Sprintf("%s can return without entering the loop that calls %s (through %s)", fn.Name(), callee.Name(), blockPath(c, p))
				}
			}
		}
		if !inLoop {
			// a plain call (one case of a type switch): every way from the entry to a return that does
			// not fail a comma-ok test goes through it
			if vi.loopOnly {
				p := escapes(fn.Blocks[0], func(b *ssa.BasicBlock) bool { return siteBlock[b] }, endsInReturn)
				_ = p // the other cases of the switch return without it by design: nothing to require
			}
		}
		if problem == "" && vi.argFrom != "" {
			for _, s := range sites {
				if h, _ := innermostLoop(fn, s.Block()); h == nil {
					continue
				}
				if sc := s.Call.StaticCallee(); sc != callee {
					continue // a helper: the node it visits was judged in the helper's own loop
				}
				ok := false
				for _, a := range s.Common().Args {
					if elementOf(a, vi.argFrom, 0) {
						ok = true
					}
				}
				if !ok {
					problem = fmt.Sprintf("the node handed to %s at %s is not an element of %s(): the walk follows a selection of the children, not all of them", callee.Name(), c.Pos(s.Pos()), vi.argFrom)
				}
			}
		}
		if problem != "" {
			r.Bad(key, c.Pos(sites[0].Pos()), problem+" — "+vi.why)
		} else {
			r.OK(key, c.Pos(sites[0].Pos()), vi.why)
		}
	}
}

func blockPath(c *load.Ctx, p []*ssa.BasicBlock) string {
	s := ""
	for i, b := range p {
		if i > 0 {
			s += "→"
		}
		pos := ""
		for _, ins := range b.Instrs {
			if ins.Pos().IsValid() {
				pos = c.Pos(ins.Pos())
				break
			}
		}
		if pos == "" {
			pos = fmt.Sprintf("b%d", b.Index)
		}
		s += pos
		if i >= 5 {
			s += "→…"
			break
		}
	}
	return s
}

var _ = load.Module

// elementOf: the value is an element of the slice a getter of the given name returned (range over
// the result of Children()).
func elementOf(v ssa.Value, getter string, depth int) bool {
	if depth > 8 {
		return false
	}
	switch x := v.(type) {
	case *ssa.UnOp:
		return elementOf(x.X, getter, depth+1)
	case *ssa.IndexAddr:
		return elementOf(x.X, getter, depth+1)
	case *ssa.Index:
		return elementOf(x.X, getter, depth+1)
	case *ssa.TypeAssert:
		return elementOf(x.X, getter, depth+1)
	case *ssa.MakeInterface:
		return elementOf(x.X, getter, depth+1)
	case *ssa.ChangeInterface:
		return elementOf(x.X, getter, depth+1)
	case *ssa.ChangeType:
		return elementOf(x.X, getter, depth+1)
	case *ssa.Phi:
		for _, e := range x.Edges {
			if elementOf(e, getter, depth+1) {
				return true
			}
		}
	case *ssa.Call:
		if x.Call.IsInvoke() {
			return x.Call.Method.Name() == getter
		}
		if sc := x.Call.StaticCallee(); sc != nil {
			return sc.Name() == getter
		}
	}
	return false
}
