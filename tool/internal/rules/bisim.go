package rules

import (
	"fmt"
	"sort"
	"strings"
	"sync"

	"verif/internal/load"
	"verif/internal/report"
)

// Bisimulation over the explored transition graph of a scanner: two abstract states are taken to mean
// the same when, for every byte, both reject (with the same error code) or both accept delivering the
// same kinds of events, and the successors again mean the same; and when the end of input is accepted
// by both or by neither. Spans are not compared (the two texts differ in length by construction), only
// the kinds of the events and the verdicts.

type xIndex struct {
	byKey map[string]*xNode
	out   map[*xNode]map[int][]*xEdge
}

var (
	xIndexCache = map[*xGraph]*xIndex{}
	xIndexMu    sync.Mutex
)

func (g *xGraph) index() *xIndex {
	xIndexMu.Lock()
	defer xIndexMu.Unlock()
	if ix, ok := xIndexCache[g]; ok {
		return ix
	}
	ix := &xIndex{byKey: map[string]*xNode{}, out: map[*xNode]map[int][]*xEdge{}}
	for _, n := range g.nodes {
		ix.byKey[n.st.key+"\x00"+pendingKey(n.pending)] = n
	}
	for i := range g.edges {
		e := &g.edges[i]
		m := ix.out[e.from]
		if m == nil {
			m = map[int][]*xEdge{}
			ix.out[e.from] = m
		}
		m[e.input] = append(m[e.input], e)
	}
	xIndexCache[g] = ix
	return ix
}

func laSig(e *xEdge) string {
	var ks []string
	for off, v := range e.res.LA {
		ks = append(ks, fmt.Sprintf("%d=%d", off, v))
	}
	sort.Strings(ks)
	return strings.Join(ks, ",")
}

func evKinds(r *stepResult) string {
	var b []string
	for _, e := range r.Events {
		b = append(b, e.Type)
	}
	return strings.Join(b, " ")
}

type bisimResult struct {
	differ  string // non-empty: a distinguishing continuation was found
	bounded int    // pairs that could not be followed (nesting bound, node cap, look-ahead mismatch)
	pairs   int
}

// bisimilar compares a and b. proven is a memo of pairs already shown equivalent by completed runs.
func (g *xGraph) bisimilar(a, b *xNode, maxPairs int, proven map[[2]*xNode]bool) bisimResult {
	ix := g.index()
	var res bisimResult
	type pair struct {
		p, q *xNode
		via  string
	}
	seen := map[[2]*xNode]bool{}
	queue := []pair{{a, b, ""}}
	seen[[2]*xNode{a, b}] = true
	for len(queue) > 0 {
		cur := queue[0]
		queue = queue[1:]
		p, q := cur.p, cur.q
		if p == q || proven[[2]*xNode{p, q}] {
			continue
		}
		res.pairs++
		if res.pairs > maxPairs {
			res.bounded++
			return res
		}
		// end of input
		if len(p.pending) == 0 && len(q.pending) == 0 {
			ep, eq := g.eof[p], g.eof[q]
			if ep != nil && eq != nil {
				ap, aq := ep.Kind == "end", eq.Kind == "end"
				if ap != aq {
					res.differ = fmt.Sprintf("after %q the end of input is %s in one and %s in the other", cur.via, verdict(ap), verdict(aq))
					return res
				}
			}
		}
		op, oq := ix.out[p], ix.out[q]
		if len(op) == 0 || len(oq) == 0 {
			res.bounded++
			continue
		}
		for c := 0; c < 256; c++ {
			lp, lq := op[c], oq[c]
			if len(lp) == 0 && len(lq) == 0 {
				continue
			}
			if len(lp) != len(lq) {
				res.bounded++
				continue
			}
			if len(lp) > 1 {
				sort.Slice(lp, func(i, j int) bool { return laSig(lp[i]) < laSig(lp[j]) })
				sort.Slice(lq, func(i, j int) bool { return laSig(lq[i]) < laSig(lq[j]) })
			}
			for i := range lp {
				x, y := lp[i], lq[i]
				if len(lp) > 1 && laSig(x) != laSig(y) {
					res.bounded++
					continue
				}
				via := cur.via + string([]byte{byte(c)})
				kx, ky := x.res.Kind, y.res.Kind
				if kx == "undecided" || ky == "undecided" || kx == "crash" || ky == "crash" {
					res.bounded++ // SX-crash reports these
					continue
				}
				if kx != ky {
					res.differ = fmt.Sprintf("the continuation %q is %s by one (%s %s) and %s by the other (%s %s)", via, kindWord(kx), x.res.Code, x.res.Detail, kindWord(ky), y.res.Code, y.res.Detail)
					return res
				}
				if kx == "reject" {
					if x.res.Code != y.res.Code {
						res.differ = fmt.Sprintf("the continuation %q is refused with %s by one and %s by the other", via, x.res.Code, y.res.Code)
						return res
					}
					continue
				}
				if kx != "ok" {
					continue
				}
				if evKinds(x.res) != evKinds(y.res) {
					res.differ = fmt.Sprintf("on the continuation %q one delivers [%s] and the other [%s]", via, evKinds(x.res), evKinds(y.res))
					return res
				}
				np, nq := ix.byKey[x.to], ix.byKey[y.to]
				if np == nil || nq == nil {
					res.bounded++
					continue
				}
				k := [2]*xNode{np, nq}
				if np != nq && !seen[k] {
					seen[k] = true
					queue = append(queue, pair{np, nq, via})
				}
			}
		}
	}
	if res.bounded == 0 {
		for k := range seen {
			proven[k] = true
		}
	}
	return res
}

func kindWord(k string) string {
	switch k {
	case "ok":
		return "accepted"
	case "reject":
		return "refused"
	}
	return k
}

// succ returns the successor of n on byte c when it is unique and accepted.
func (g *xGraph) succ(n *xNode, c int) *xNode {
	ix := g.index()
	es := ix.out[n][c]
	if len(es) != 1 || es[0].res.Kind != "ok" {
		return nil
	}
	return ix.byKey[es[0].to]
}

// --- a blank line is a line break ----------------------------------------------------------------------

func init() {
	for _, name := range []string{"schema", "enum", "schema-deep", "schema-long"} {
		name := name
		doc := "scanner " + name + ": a second line break directly after a line break changes nothing: for every reachable abstract state n in which a line-break byte is accepted, the state after one line break and the state after two mean the same (bisimulation over the explored transition graph: same verdict and error code for every continuation, same kinds of events, end of input accepted by both or neither). With SX-nl (LF and CR act alike in every state) this is what makes a CRLF file scan like an LF file: the LF of the pair is a second line break. A state that is left by the first line break only when the line break arrives in it — and not when an inline annotation or comment before it has swallowed the line break — gives `…, // {rule}` + LF + `// note` one verdict and the same text with CRLF another"
		if name == "schema-deep" {
			doc = "SX-nlnl-schema over the deep exploration (40,000 abstract states)"
		}
		if name == "schema-long" {
			doc = "SX-nlnl-schema over the long exploration (nesting up to 3, 40,000 abstract states, texts of up to 13 bytes: long enough for `{\"k\":1, // {}` and a line break)"
		}
		register(&Rule{ID: "SX-nlnl-" + name, Min: 10, Thorough: name == "schema-deep", Doc: doc,
			Run: func(c *load.Ctx, r *report.RuleResult) { runSXNlNl(c, r, name) }})
	}
}

func runSXNlNl(c *load.Ctx, r *report.RuleResult, name string) {
	sp := scannerSpecs[name]
	g := exploreScanner(c, name, sp)
	if g.err != nil {
		r.Unk("anchor|"+sp.rel, "", g.err.Error())
		return
	}
	proven := map[[2]*xNode]bool{}
	type agg struct{ n, bounded int }
	count := map[string]*agg{}
	bad := map[string]bool{}
	done := map[[2]*xNode]bisimResult{}
	for _, n := range g.nodes {
		if len(n.pending) != 0 {
			continue
		}
		for _, nl := range []int{'\n', '\r'} {
			n1 := g.succ(n, nl)
			if n1 == nil || len(n1.pending) != 0 {
				continue
			}
			n2 := g.succ(n1, nl)
			step := baseStepName(implStepName(g.m, n.st))
			key := "nlnl|impl=" + step
			a := count[key]
			if a == nil {
				a = &agg{}
				count[key] = a
			}
			if n2 == nil {
				// the second line break is refused or look-ahead dependent although the first was taken
				if es := g.index().out[n1][nl]; len(es) == 1 && es[0].res.Kind == "reject" && !bad[key] {
					bad[key] = true
					r.Bad(key, c.Pos(g.m.next.Pos()), fmt.Sprintf("after the text %q one line break is accepted and a second one directly after it is refused (%s %s)", n.path, es[0].res.Code, es[0].res.Detail))
				}
				continue
			}
			a.n++
			pk := [2]*xNode{n1, n2}
			res, ok := done[pk]
			if !ok {
				res = g.bisimilar(n1, n2, 4000, proven)
				done[pk] = res
			}
			a.bounded += res.bounded
			if res.differ != "" && !bad[key] {
				bad[key] = true
				r.Bad(key, c.Pos(g.m.next.Pos()), fmt.Sprintf("after the text %q followed by one line break and followed by two the scanner is in states that differ: %s", n.path, res.differ))
			}
		}
	}
	for _, k := range sortedKeys(count) {
		if !bad[k] && count[k].n > 0 {
			note := ""
			if count[k].bounded > 0 {
				note = fmt.Sprintf(" (%d comparison(s) stopped at the nesting bound)", count[k].bounded)
			}
			r.OK(k, "", fmt.Sprintf("%d state(s): one line break and two lead to equivalent states%s", count[k].n, note))
		}
	}
	if len(count) == 0 {
		r.Unk("anchor|line-break states", "", "no state accepts a line break")
	}
}

// --- a note on an inline annotation does not change what may follow it --------------------------------

func init() {
	register(&Rule{ID: "SX-notenl-schema", Min: 1, Doc: "scanner schema: whether an inline annotation carries a note does not change what may follow its line: for every reachable abstract state p just after the rule object of an inline annotation (step function stateInlineAnnotationTextPrefix), the state after a line break and the state after ` - x` and a line break mean the same (bisimulation over the explored transition graph). The scanner refuses a line that begins with an annotation after a noted inline annotation (a pinned behaviour); if it does not refuse it after an un-noted one, adding a note to a rule changes Check's verdict",
		Run: func(c *load.Ctx, r *report.RuleResult) { runSXNoteNl(c, r) }})
}

func runSXNoteNl(c *load.Ctx, r *report.RuleResult) {
	sp := scannerSpecs["schema-long"]
	g := exploreScanner(c, "schema-long", sp)
	if g.err != nil {
		r.Unk("anchor|"+sp.rel, "", g.err.Error())
		return
	}
	proven := map[[2]*xNode]bool{}
	n, bounded := 0, 0
	key := "notenl|impl=stateInlineAnnotationTextPrefix"
	reported := false
	for _, p := range g.nodes {
		if len(p.pending) != 0 || baseStepName(implStepName(g.m, p.st)) != "stateInlineAnnotationTextPrefix" || isClosureStep(implStepName(g.m, p.st)) {
			continue
		}
		d := g.succ(p, '-')
		if d == nil {
			continue
		}
		t := g.succ(d, 'x')
		if t == nil {
			continue
		}
		a, b := g.succ(p, '\n'), g.succ(t, '\n')
		if a == nil || b == nil {
			if (a == nil) != (b == nil) && !reported {
				reported = true
				r.Bad(key, c.Pos(g.m.next.Pos()), fmt.Sprintf("after %q a line break is accepted with a note and not without, or the reverse", p.path))
			}
			continue
		}
		n++
		res := g.bisimilar(a, b, 4000, proven)
		bounded += res.bounded
		if res.differ != "" && !reported {
			reported = true
			r.Bad(key, c.Pos(g.m.next.Pos()), fmt.Sprintf("the line after %q and the line after %q are scanned differently: %s", p.path+"\n", p.path+"-x\n", res.differ))
		}
	}
	if n == 0 {
		r.Unk("anchor|stateInlineAnnotationTextPrefix", "", "no state just after the rule object of an inline annotation was reached")
		return
	}
	if !reported {
		note := ""
		if bounded > 0 {
			note = fmt.Sprintf(" (%d comparison(s) stopped at the nesting bound)", bounded)
		}
		r.OK(key, "", fmt.Sprintf("%d state(s): with and without a note the next line is scanned alike%s", n, note))
	}
}

// --- where closing events end ---------------------------------------------------------------------------

func init() {
	for _, name := range []string{"schema", "enum"} {
		name := name
		register(&Rule{ID: "SX-endspan-" + name, Min: 5, Run: func(c *load.Ctx, r *report.RuleResult) { runSXEndSpan(c, r, name) },
			Doc: "scanner " + name + ": a closing event ends where its lexeme ends: an event closed by a byte of its own (`}`, `]`, the closing quote, the `/` of `*/`) ends at that byte, an event closed by the byte after it (a number or word cut off by a separator, an inline note cut off by the line break, an item or property value closed by the comma) ends before that byte — per kind of event, over every transition of the explored graph. Len is the end of the last event plus one, so a closing `*/` whose event ends one byte early makes the length of a rule that ends in a note one byte short"})
	}
}

// endSpanWant: per closing event, the admissible end offsets relative to the byte just consumed.
// "own" = closed by its own last byte (offset 0); "next" = closed by the following byte (offset -1, or
// further back when blanks lie between).
var endSpanOwn = map[string]bool{
	"ObjectEnd": true, "ArrayEnd": true, "MultiLineAnnotationEnd": true,
}

func runSXEndSpan(c *load.Ctx, r *report.RuleResult, name string) {
	sp := scannerSpecs[name]
	g := exploreScanner(c, name, sp)
	if g.err != nil {
		r.Unk("anchor|"+sp.rel, "", g.err.Error())
		return
	}
	type obs struct {
		offs map[int]int
		ex   map[int]string
	}
	seen := map[string]*obs{}
	for _, e := range g.edges {
		if e.res.Kind != "ok" {
			continue
		}
		for _, ev := range e.res.Events {
			if !strings.HasSuffix(ev.Type, "End") {
				continue
			}
			off, ok := relToLast(ev.End)
			if !ok {
				continue
			}
			o := seen[ev.Type]
			if o == nil {
				o = &obs{offs: map[int]int{}, ex: map[int]string{}}
				seen[ev.Type] = o
			}
			o.offs[off]++
			if _, ok := o.ex[off]; !ok {
				o.ex[off] = e.from.path + string([]byte{byte(e.input)})
			}
		}
	}
	for _, t := range sortedKeys(seen) {
		o := seen[t]
		key := "endspan|" + t
		var offs []int
		for k := range o.offs {
			offs = append(offs, k)
		}
		sort.Ints(offs)
		desc := ""
		for _, k := range offs {
			desc += fmt.Sprintf(" L%+d×%d(%q)", k, o.offs[k], o.ex[k])
		}
		if endSpanOwn[t] {
			bad := ""
			for _, k := range offs {
				if k != 0 {
					bad = fmt.Sprintf("after %q the event %s ends at offset %+d from the closing byte, not at it", o.ex[k], t, k)
				}
			}
			if bad != "" {
				r.Bad(key, c.Pos(g.m.next.Pos()), bad)
			} else {
				r.OK(key, "", "ends at its closing byte:"+desc)
			}
			continue
		}
		bad := ""
		for _, k := range offs {
			if k >= 0 {
				bad = fmt.Sprintf("after %q the event %s ends at offset %+d: it is closed by the byte after it and must end before that byte", o.ex[k], t, k)
			}
		}
		if bad != "" {
			r.Bad(key, c.Pos(g.m.next.Pos()), bad)
		} else {
			r.OK(key, "", "ends before the byte that closes it:"+desc)
		}
	}
}

// --- a # comment is its line break ----------------------------------------------------------------------

func init() {
	register(&Rule{ID: "SX-cmtnl-schema", Min: 5, Doc: "scanner schema: a `#` comment means what the line break that ends it means: for every reachable abstract state n (long exploration) in which `#` opens a comment and a line break is accepted, the state after `#`, text and the line break, the state after an empty `#` and the line break, and the state after the line break alone are equivalent (bisimulation over the explored transition graph) — a comment that swallows its line break, or hands it to the wrong state, leaves the scanner believing it is still on the line of the comma, so that adding a comment to a line changes whether the next line may carry an annotation",
		Run: func(c *load.Ctx, r *report.RuleResult) { runSXCmtNl(c, r) }})
}

func runSXCmtNl(c *load.Ctx, r *report.RuleResult) {
	sp := scannerSpecs["schema-long"]
	g := exploreScanner(c, "schema-long", sp)
	if g.err != nil {
		r.Unk("anchor|"+sp.rel, "", g.err.Error())
		return
	}
	proven := map[[2]*xNode]bool{}
	type agg struct{ n, bounded int }
	count := map[string]*agg{}
	bad := map[string]bool{}
	done := map[[2]*xNode]bisimResult{}
	for _, n := range g.nodes {
		if len(n.pending) != 0 {
			continue
		}
		step := implStepName(g.m, n.st)
		if strings.Contains(step, "Comment") {
			continue
		}
		c1 := g.succ(n, '#')
		if c1 == nil || !strings.Contains(implStepName(g.m, c1.st), "Comment") {
			continue
		}
		b := g.succ(n, '\n')
		if b == nil {
			continue
		}
		var as []*xNode
		var texts []string
		if a := g.succ(c1, '\n'); a != nil {
			as, texts = append(as, a), append(texts, "#\n")
		}
		if c2 := g.succ(c1, 'x'); c2 != nil {
			if a := g.succ(c2, '\n'); a != nil {
				as, texts = append(as, a), append(texts, "#x\n")
			}
		}
		// the comment hands its line break back to the interrupted state: follow the re-read
		for i := range as {
			for k := 0; k < 3 && as[i] != nil && len(as[i].pending) > 0 && as[i].pending[0] >= 0; k++ {
				as[i] = g.succ(as[i], as[i].pending[0])
			}
		}
		key := "cmtnl|impl=" + baseStepName(step)
		ag := count[key]
		if ag == nil {
			ag = &agg{}
			count[key] = ag
		}
		for i, a := range as {
			if a == nil || len(a.pending) != 0 {
				continue
			}
			ag.n++
			pk := [2]*xNode{a, b}
			res, ok := done[pk]
			if !ok {
				res = g.bisimilar(a, b, 4000, proven)
				done[pk] = res
			}
			ag.bounded += res.bounded
			if res.differ != "" && !bad[key] {
				bad[key] = true
				r.Bad(key, c.Pos(g.m.next.Pos()), fmt.Sprintf("after the text %q the comment %q and a plain line break leave the scanner in states that differ: %s", n.path, texts[i], res.differ))
			}
		}
	}
	for _, k := range sortedKeys(count) {
		if !bad[k] && count[k].n > 0 {
			note := ""
			if count[k].bounded > 0 {
				note = fmt.Sprintf(" (%d comparison(s) stopped at the exploration bound)", count[k].bounded)
			}
			r.OK(k, "", fmt.Sprintf("%d comparison(s): the comment and the line break lead to equivalent states%s", count[k].n, note))
		}
	}
	if len(count) == 0 {
		r.Unk("anchor|comment states", "", "no state in which # opens a comment and a line break is accepted")
	}
}

// --- # inside a note that lies inside a multi-line annotation is text ---------------------------------

func init() {
	register(&Rule{ID: "SX-hash-schema", Min: 2, Doc: "scanner schema: what `#` means inside the note of an inline annotation depends on where the annotation stands, and on nothing else: in every reachable abstract state (deep exploration) whose step function is the inline note text state, the byte `#` ends the note (the events that close the text and the annotation are delivered and the rest of the line is skipped as a comment) when no multi-line annotation is open on the lexeme stack, and is one more byte of the note (accepted, same state, no event) when one is — user comments do not exist inside `/* … */`, where the inline notes are the notes of enum items, and a note such as `C# language` must reach the AST whole",
		Run: func(c *load.Ctx, r *report.RuleResult) { runSXHash(c, r) }})
}

func runSXHash(c *load.Ctx, r *report.RuleResult) {
	sp := scannerSpecs["schema-deep"]
	g := exploreScanner(c, "schema-deep", sp)
	if g.err != nil {
		r.Unk("anchor|"+sp.rel, "", g.err.Error())
		return
	}
	count := map[string]int{}
	bad := map[string]bool{}
	for _, e := range g.edges {
		if e.input != '#' {
			continue
		}
		full := implStepName(g.m, e.from.st)
		if baseStepName(full) != "stateInlineAnnotationText" || isClosureStep(full) {
			continue
		}
		inML := false
		for _, t := range g.m.stackTypes(e.from.st) {
			if t == "MultiLineAnnotationBegin" {
				inML = true
			}
		}
		key := fmt.Sprintf("hash|inside-multi-line=%v", inML)
		count[key]++
		if bad[key] || e.res.Kind == "crash" || e.res.Kind == "undecided" {
			continue
		}
		evs := evKinds(e.res)
		next := ""
		if e.res.Next != nil {
			next = baseStepName(implStepName(g.m, e.res.Next))
		}
		switch {
		case inML && (e.res.Kind != "ok" || evs != "" || next != "stateInlineAnnotationText"):
			bad[key] = true
			r.Bad(key, c.Pos(g.m.next.Pos()), fmt.Sprintf("after %q, inside a multi-line annotation, the byte # in a note is not plain text: %s, events [%s], next state %s", e.from.path, e.res.Kind, evs, next))
		case !inML && (e.res.Kind != "ok" || !strings.Contains(evs, "InlineAnnotationTextEnd") || !strings.Contains(evs, "InlineAnnotationEnd") || !strings.Contains(next, "Skip")):
			bad[key] = true
			r.Bad(key, c.Pos(g.m.next.Pos()), fmt.Sprintf("after %q the byte # in a note does not end the note and start a comment: %s, events [%s], next state %s", e.from.path, e.res.Kind, evs, next))
		}
	}
	for _, k := range []string{"hash|inside-multi-line=false", "hash|inside-multi-line=true"} {
		switch {
		case count[k] == 0:
			r.Unk(k, "", "no inline note text state of this kind was reached")
		case !bad[k]:
			r.OK(k, "", fmt.Sprintf("%d transition(s)", count[k]))
		}
	}
}

// --- a note begins with its first byte -------------------------------------------------------------------

func init() {
	register(&Rule{ID: "SX-notebegin-schema", Min: 2, Doc: "scanner schema: the note of an annotation without rules begins with its first byte: in every reachable abstract state whose step function is the state right after `//` or `/*` (stateInlineAnnotation, stateMultiLineAnnotation), every byte other than a blank, a line break, `{` (the rules) and — after `/*` — `*` is accepted and opens the note text with an event that begins at that very byte; a byte that is swallowed as a separator (`// -1 means unlimited`) is missing from the note the AST shows",
		Run: func(c *load.Ctx, r *report.RuleResult) { runSXNoteBegin(c, r) }})
}

func runSXNoteBegin(c *load.Ctx, r *report.RuleResult) {
	sp := scannerSpecs["schema"]
	g := exploreScanner(c, "schema", sp)
	if g.err != nil {
		r.Unk("anchor|"+sp.rel, "", g.err.Error())
		return
	}
	want := map[string]string{"stateInlineAnnotation": "InlineAnnotationTextBegin", "stateMultiLineAnnotation": "MultiLineAnnotationTextBegin"}
	count := map[string]int{}
	bad := map[string]bool{}
	for _, e := range g.edges {
		full := implStepName(g.m, e.from.st)
		step := baseStepName(full)
		ev, ok := want[step]
		if !ok || isClosureStep(full) || len(e.from.pending) != 0 {
			continue
		}
		b := e.input
		if b == ' ' || b == '\t' || b == '\n' || b == '\r' || b == '{' || (step == "stateMultiLineAnnotation" && b == '*') {
			continue
		}
		if e.res.Kind == "crash" || e.res.Kind == "undecided" {
			continue
		}
		key := "notebegin|impl=" + step
		count[key]++
		if bad[key] {
			continue
		}
		found := false
		for _, x := range e.res.Events {
			if x.Type == ev {
				if off, ok := relToLast(x.Begin); ok && off == 0 {
					found = true
				}
			}
		}
		if e.res.Kind != "ok" || !found {
			bad[key] = true
			r.Bad(key, c.Pos(g.m.next.Pos()), fmt.Sprintf("after %q the byte %q does not open the note text at itself: %s, events %s", e.from.path, string([]byte{byte(b)}), e.res.Kind, evsString(e.res.Events)))
		}
	}
	for _, k := range []string{"notebegin|impl=stateInlineAnnotation", "notebegin|impl=stateMultiLineAnnotation"} {
		switch {
		case count[k] == 0:
			r.Unk(k, "", "state not reached")
		case !bad[k]:
			r.OK(k, "", fmt.Sprintf("%d transition(s): the byte opens the note", count[k]))
		}
	}
}
