package rules

import (
	"fmt"
	"go/types"
	"golang.org/x/tools/go/ssa"
	"sort"
	"strings"

	"verif/internal/load"
	"verif/internal/pe"
	"verif/internal/report"
)

// T-formats: regex and the format rules consult the right oracle on the decoded string.

func init() {
	register(&Rule{ID: "T-formats", Min: 6, Run: runTFormats,
		Doc: "regex and format rules: Regex.Validate accepts a value iff an RE2 *search* ((*regexp.Regexp).Match / MatchString) of the rule's expression in the decoded string succeeds; Date and DateTime accept iff time.Parse with the layouts 2006-01-02 resp. RFC 3339 accepts the decoded string; Uri, Email and UUID accept only when their parser (url.ParseRequestURI, mail.ParseAddress, the UUID parser) was given the decoded string and accepted it — whatever other tests the rule makes, the verdict never comes from the raw token or from another function"})
}

type formatSpec struct {
	typ     string // constraint type name
	oracle  string // intrinsic label consulted
	layout  string // time layout, when pinned
	exact   bool   // accept iff the oracle accepts (otherwise: accepting requires the oracle to accept)
	comment string
}

func runTFormats(c *load.Ctx, r *report.RuleResult) {
	e := newTableEnv(c)
	cfg := e.cfg
	decoded := func(v pe.Value) string { return strings.Trim(pe.Show(v), "‹›\"") }
	// Bytes.String keeps the provenance
	if f := c.Func(pkgBytes, "Bytes.String"); f != nil {
		cfg.Intrinsics[f.String()] = func(in *pe.Interp, args []pe.Value) (pe.Value, bool) {
			return pe.NewSym(decoded(args[0]), types.Typ[types.String]), true
		}
	}
	oracle := func(label string, argIdx int) pe.Intrinsic {
		return func(in *pe.Interp, args []pe.Value) (pe.Value, bool) {
			a := decoded(args[argIdx])
			in.Effect(label + "(" + a + ")")
			return in.Choose(label+"("+a+")", []string{"false", "true"}) == 1, true
		}
	}
	cfg.Intrinsics["(*regexp.Regexp).Match"] = oracle("search", 1)
	cfg.Intrinsics["(*regexp.Regexp).MatchString"] = oracle("search", 1)
	errT := types.Universe.Lookup("error").Type()
	failing := func(label string, describe func(args []pe.Value) string, okVal func(in *pe.Interp) pe.Value) pe.Intrinsic {
		return func(in *pe.Interp, args []pe.Value) (pe.Value, bool) {
			d := describe(args)
			in.Effect(label + "(" + d + ")")
			if in.Choose(label+"("+d+")", []string{"error", "ok"}) == 1 {
				return &pe.Tuple{E: []pe.Value{okVal(in), pe.NilV{}}}, true
			}
			return &pe.Tuple{E: []pe.Value{okVal(in), &pe.Iface{T: errT, V: pe.NewSym(label+"-error", errT)}}}, true
		}
	}
	cfg.Intrinsics["time.Parse"] = failing("time.Parse", func(a []pe.Value) string { return decoded(a[0]) + "," + decoded(a[1]) },
		func(in *pe.Interp) pe.Value { return pe.NewSym("time", nil) })
	cfg.Intrinsics["net/url.ParseRequestURI"] = failing("url.ParseRequestURI", func(a []pe.Value) string { return decoded(a[0]) },
		func(in *pe.Interp) pe.Value { return pe.NewSym("url", nil) })
	cfg.Intrinsics["net/mail.ParseAddress"] = failing("mail.ParseAddress", func(a []pe.Value) string { return decoded(a[0]) },
		func(in *pe.Interp) pe.Value { return pe.NewSym("addr", nil) })
	cfg.Intrinsics["(*net/url.URL).IsAbs"] = func(in *pe.Interp, args []pe.Value) (pe.Value, bool) {
		return in.Choose("url.IsAbs", []string{"false", "true"}) == 1, true
	}
	cfg.Intrinsics["(*net/url.URL).Hostname"] = func(in *pe.Interp, args []pe.Value) (pe.Value, bool) {
		if in.Choose("url.Hostname", []string{"empty", "some"}) == 0 {
			return "", true
		}
		return "host", true
	}
	if f := c.Func(pkgConstraint, "parseBytes"); f != nil {
		cfg.Intrinsics[f.String()] = func(in *pe.Interp, args []pe.Value) (pe.Value, bool) {
			d := decoded(args[0])
			in.Effect("uuid.parse(" + d + ")")
			if in.Choose("uuid.parse("+d+")", []string{"error", "ok"}) == 1 {
				return pe.NilV{}, true
			}
			return &pe.Iface{T: errT, V: pe.NewSym("uuid-error", errT)}, true
		}
	}
	specs := []formatSpec{
		{"Regex", "search(unquote(value))", "", true, "an RE2 search in the decoded string"},
		{"Date", "time.Parse(2006-01-02,unquote(value))", "2006-01-02", true, "YYYY-MM-DD"},
		{"DateTime", "time.Parse(2006-01-02T15:04:05Z07:00,unquote(value))", "2006-01-02T15:04:05Z07:00", true, "RFC 3339"},
		{"Uri", "url.ParseRequestURI(unquote(value))", "", false, "the URL parser on the decoded string"},
		{"UUID", "uuid.parse(unquote(value))", "", false, "the UUID parser on the decoded string"},
	}
	emailProvenance(c, r)
	for _, sp := range specs {
		fn := c.Func(pkgConstraint, sp.typ+".Validate")
		named := namedType(c, pkgConstraint, sp.typ)
		key := "format|" + sp.typ
		if fn == nil || named == nil {
			r.Unk(key, "", "constraint type or its Validate method not found")
			continue
		}
		pos := c.Pos(fn.Pos())
		outs := pe.ExploreFn(cfg, func(in *pe.Interp) pe.Value {
			recv := in.Zero(named)
			if sv, ok := recv.(*pe.StructV); ok {
				st := named.Underlying().(*types.Struct)
				for i := 0; i < st.NumFields(); i++ {
					sv.F[i] = pe.NewSym("rule."+st.Field(i).Name(), st.Field(i).Type())
				}
			}
			val := pe.NewSym("value", fn.Params[len(fn.Params)-1].Type())
			if fn.Signature.Recv() != nil {
				return in.Call(fn, []pe.Value{recv, val})
			}
			return in.Call(fn, []pe.Value{val})
		})
		var problems []string
		accepts, rejects := 0, 0
		for _, o := range outs {
			if o.Undecided != "" {
				problems = append(problems, "not interpretable on path {"+o.Valuation()+"}: "+o.Undecided)
				continue
			}
			accepted := !o.Panicked
			if o.Panicked {
				if _, ok := isLibraryReject(o.PanicVal); !ok {
					// a run-time panic of the rule itself (index into an empty decoded string, …) is XF's business
					if !strings.Contains(pe.Show(o.PanicVal), "runtime error") {
						problems = append(problems, "fails with "+pe.Show(o.PanicVal)+" on path {"+o.Valuation()+"}")
					}
					continue
				}
				rejects++
			} else {
				accepts++
			}
			val := o.ChoiceMap()
			ans, consulted := val[sp.oracle]
			okAns := ans == "true" || ans == "ok"
			switch {
			case accepted && !consulted:
				problems = append(problems, fmt.Sprintf("a value is accepted on path {%s} without consulting %s (%s)", o.Valuation(), sp.oracle, sp.comment))
			case accepted && !okAns:
				problems = append(problems, fmt.Sprintf("a value is accepted although %s fails", sp.oracle))
			case !accepted && sp.exact && consulted && okAns:
				problems = append(problems, fmt.Sprintf("a value is rejected on path {%s} although %s succeeds", o.Valuation(), sp.oracle))
			case !accepted && sp.exact && !consulted:
				problems = append(problems, fmt.Sprintf("a value is rejected on path {%s} without consulting %s", o.Valuation(), sp.oracle))
			}
		}
		if accepts == 0 || rejects == 0 {
			problems = append(problems, fmt.Sprintf("%d accepting and %d rejecting paths: the rule does not decide", accepts, rejects))
		}
		sort.Strings(problems)
		if len(problems) > 0 {
			r.Bad(key, pos, strings.Join(uniq(problems), "; "))
		} else {
			r.OK(key, pos, fmt.Sprintf("%d paths: the verdict comes from %s", len(outs), sp.oracle))
		}
	}
}

// emailProvenance: Email.Validate looks at single bytes of the address (256-way forks), so it is
// checked on the SSA form instead: the address parser is called, its argument derives from
// Unquote(value), and the call dominates every normal return.
func emailProvenance(c *load.Ctx, r *report.RuleResult) {
	fn := c.Func(pkgConstraint, "Email.Validate")
	unq := c.Func(pkgBytes, "Bytes.Unquote")
	key := "format|Email"
	if fn == nil || unq == nil {
		r.Unk(key, "", "Email.Validate / Bytes.Unquote not found")
		return
	}
	var parse *ssa.Call
	for _, b := range fn.Blocks {
		for _, ins := range b.Instrs {
			if call, ok := ins.(*ssa.Call); ok {
				if sc := call.Call.StaticCallee(); sc != nil && sc.Pkg != nil && sc.Pkg.Pkg.Path() == "net/mail" && sc.Name() == "ParseAddress" {
					parse = call
				}
			}
		}
	}
	if parse == nil {
		r.Bad(key, c.Pos(fn.Pos()), "the address parser (mail.ParseAddress) is not consulted")
		return
	}
	var fromUnquote func(v ssa.Value, depth int) bool
	fromUnquote = func(v ssa.Value, depth int) bool {
		if depth > 8 {
			return false
		}
		switch x := v.(type) {
		case *ssa.Call:
			if sc := x.Call.StaticCallee(); sc != nil {
				if sc == unq {
					return true
				}
				if len(x.Call.Args) > 0 && (sc.Name() == "String" || sc.Name() == "TrimSpaces") {
					return fromUnquote(x.Call.Args[0], depth+1)
				}
			}
		case *ssa.Convert:
			return fromUnquote(x.X, depth+1)
		case *ssa.ChangeType:
			return fromUnquote(x.X, depth+1)
		case *ssa.Phi:
			for _, e := range x.Edges {
				if !fromUnquote(e, depth+1) {
					return false
				}
			}
			return len(x.Edges) > 0
		}
		return false
	}
	if !fromUnquote(parse.Call.Args[0], 0) {
		r.Bad(key, c.Pos(parse.Pos()), "the address parser is not given the decoded string (Unquote of the value)")
		return
	}
	for _, b := range fn.Blocks {
		if endsInReturn(b) && !parse.Block().Dominates(b) {
			r.Bad(key, c.Pos(parse.Pos()), "a value can be accepted without consulting the address parser")
			return
		}
	}
	r.OK(key, c.Pos(parse.Pos()), "mail.ParseAddress is given the decoded string and is consulted before every accepting return")
}

var _ = load.Module
