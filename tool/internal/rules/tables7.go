package rules

import (
	"fmt"
	"go/constant"
	"go/token"
	"go/types"
	"golang.org/x/tools/go/ssa"
	"sort"
	"strings"

	"verif/internal/load"
	"verif/internal/pe"
	"verif/internal/report"
)

// T-formats: regex and the format rules consult the right oracle on the decoded string.

func init() {
	register(&Rule{ID: "T-formats", Min: 6, Run: runTFormats,
		Doc: "regex and format rules: Regex.Validate accepts a value iff an RE2 *search* ((*regexp.Regexp).Match / MatchString) of the rule's expression in the decoded string succeeds; Date and DateTime accept iff time.Parse with the layouts 2006-01-02 resp. RFC 3339 accepts the decoded string; Uri, Email and UUID accept only when their parser (url.ParseRequestURI, mail.ParseAddress, the UUID parser) was given the decoded string and accepted it, a URI moreover only when the parsed URL is absolute (IsAbs) and has a host name (Hostname(), which leaves the port out) — whatever other tests the rule makes, the verdict never comes from the raw token or from another function"})
}

type formatSpec struct {
	typ     string // constraint type name
	oracle  string // intrinsic label consulted
	layout  string // time layout, when pinned
	exact   bool   // accept iff the oracle accepts (otherwise: accepting requires the oracle to accept)
	comment string
	also    map[string]string // further atoms an accepting path must have consulted, with the answer required
}

func runTFormats(c *load.Ctx, r *report.RuleResult) {
	e := newTableEnv(c)
	cfg := e.cfg
	decoded := func(v pe.Value) string { return strings.Trim(pe.Show(v), "‹›\"") }
	// Bytes.String keeps the provenance
	if f := c.Func(pkgBytes, "Bytes.String"); f != nil {
		cfg.Intrinsics[f.String()] = func(in *pe.Interp, args []pe.Value) (pe.Value, bool) {
			return pe.NewSym(decoded(args[0]), types.Typ[types.String]), true
		}
	}
	oracle := func(label string, argIdx int) pe.Intrinsic {
		return func(in *pe.Interp, args []pe.Value) (pe.Value, bool) {
			a := decoded(args[argIdx])
			in.Effect(label + "(" + a + ")")
			return in.Choose(label+"("+a+")", []string{"false", "true"}) == 1, true
		}
	}
	cfg.Intrinsics["(*regexp.Regexp).Match"] = oracle("search", 1)
	cfg.Intrinsics["(*regexp.Regexp).MatchString"] = oracle("search", 1)
	errT := types.Universe.Lookup("error").Type()
	failing := func(label string, describe func(args []pe.Value) string, okVal func(in *pe.Interp) pe.Value) pe.Intrinsic {
		return func(in *pe.Interp, args []pe.Value) (pe.Value, bool) {
			d := describe(args)
			in.Effect(label + "(" + d + ")")
			if in.Choose(label+"("+d+")", []string{"error", "ok"}) == 1 {
				return &pe.Tuple{E: []pe.Value{okVal(in), pe.NilV{}}}, true
			}
			return &pe.Tuple{E: []pe.Value{okVal(in), &pe.Iface{T: errT, V: pe.NewSym(label+"-error", errT)}}}, true
		}
	}
	cfg.Intrinsics["time.Parse"] = failing("time.Parse", func(a []pe.Value) string { return decoded(a[0]) + "," + decoded(a[1]) },
		func(in *pe.Interp) pe.Value { return pe.NewSym("time", nil) })
	cfg.Intrinsics["net/url.ParseRequestURI"] = failing("url.ParseRequestURI", func(a []pe.Value) string { return decoded(a[0]) },
		func(in *pe.Interp) pe.Value { return pe.NewSym("url", nil) })
	cfg.Intrinsics["net/mail.ParseAddress"] = failing("mail.ParseAddress", func(a []pe.Value) string { return decoded(a[0]) },
		func(in *pe.Interp) pe.Value { return pe.NewSym("addr", nil) })
	cfg.Intrinsics["(*net/url.URL).IsAbs"] = func(in *pe.Interp, args []pe.Value) (pe.Value, bool) {
		return in.Choose("url.IsAbs", []string{"false", "true"}) == 1, true
	}
	cfg.Intrinsics["(*net/url.URL).Hostname"] = func(in *pe.Interp, args []pe.Value) (pe.Value, bool) {
		if in.Choose("url.Hostname", []string{"empty", "some"}) == 0 {
			return "", true
		}
		return "host", true
	}
	if f := c.Func(pkgConstraint, "parseBytes"); f != nil {
		cfg.Intrinsics[f.String()] = func(in *pe.Interp, args []pe.Value) (pe.Value, bool) {
			d := decoded(args[0])
			in.Effect("uuid.parse(" + d + ")")
			if in.Choose("uuid.parse("+d+")", []string{"error", "ok"}) == 1 {
				return pe.NilV{}, true
			}
			return &pe.Iface{T: errT, V: pe.NewSym("uuid-error", errT)}, true
		}
	}
	specs := []formatSpec{
		{"Regex", "search(unquote(value))", "", true, "an RE2 search in the decoded string", nil},
		{"Date", "time.Parse(2006-01-02,unquote(value))", "2006-01-02", true, "YYYY-MM-DD", nil},
		{"DateTime", "time.Parse(2006-01-02T15:04:05Z07:00,unquote(value))", "2006-01-02T15:04:05Z07:00", true, "RFC 3339", nil},
		{"Uri", "url.ParseRequestURI(unquote(value))", "", false, "the URL parser on the decoded string",
			map[string]string{"url.IsAbs": "true", "url.Hostname": "some"}},
		{"UUID", "uuid.parse(unquote(value))", "", false, "the UUID parser on the decoded string", nil},
	}
	emailProvenance(c, r)
	for _, sp := range specs {
		fn := c.Func(pkgConstraint, sp.typ+".Validate")
		named := namedType(c, pkgConstraint, sp.typ)
		key := "format|" + sp.typ
		if fn == nil || named == nil {
			r.Unk(key, "", "constraint type or its Validate method not found")
			continue
		}
		pos := c.Pos(fn.Pos())
		outs := pe.ExploreFn(cfg, func(in *pe.Interp) pe.Value {
			recv := in.Zero(named)
			if sv, ok := recv.(*pe.StructV); ok {
				st := named.Underlying().(*types.Struct)
				for i := 0; i < st.NumFields(); i++ {
					sv.F[i] = pe.NewSym("rule."+st.Field(i).Name(), st.Field(i).Type())
				}
			}
			val := pe.NewSym("value", fn.Params[len(fn.Params)-1].Type())
			if fn.Signature.Recv() != nil {
				return in.Call(fn, []pe.Value{recv, val})
			}
			return in.Call(fn, []pe.Value{val})
		})
		var problems []string
		accepts, rejects := 0, 0
		for _, o := range outs {
			if o.Undecided != "" {
				problems = append(problems, "not interpretable on path {"+o.Valuation()+"}: "+o.Undecided)
				continue
			}
			accepted := !o.Panicked
			if o.Panicked {
				if _, ok := isLibraryReject(o.PanicVal); !ok {
					// a run-time panic of the rule itself (index into an empty decoded string, …) is XF's business
					if !strings.Contains(pe.Show(o.PanicVal), "runtime error") {
						problems = append(problems, "fails with "+pe.Show(o.PanicVal)+" on path {"+o.Valuation()+"}")
					}
					continue
				}
				rejects++
			} else {
				accepts++
			}
			val := o.ChoiceMap()
			ans, consulted := val[sp.oracle]
			okAns := ans == "true" || ans == "ok"
			switch {
			case accepted && !consulted:
				problems = append(problems, fmt.Sprintf("a value is accepted on path {%s} without consulting %s (%s)", o.Valuation(), sp.oracle, sp.comment))
			case accepted && !okAns:
				problems = append(problems, fmt.Sprintf("a value is accepted although %s fails", sp.oracle))
			case accepted && sp.also != nil:
				for _, atom := range sortedKeys(sp.also) {
					if got, asked := val[atom]; !asked {
						problems = append(problems, fmt.Sprintf("a value is accepted on path {%s} without consulting %s", o.Valuation(), atom))
					} else if got != sp.also[atom] {
						problems = append(problems, fmt.Sprintf("a value is accepted although %s answers %s", atom, got))
					}
				}
			case !accepted && sp.exact && consulted && okAns:
				problems = append(problems, fmt.Sprintf("a value is rejected on path {%s} although %s succeeds", o.Valuation(), sp.oracle))
			case !accepted && sp.exact && !consulted:
				problems = append(problems, fmt.Sprintf("a value is rejected on path {%s} without consulting %s", o.Valuation(), sp.oracle))
			}
		}
		if accepts == 0 || rejects == 0 {
			problems = append(problems, fmt.Sprintf("%d accepting and %d rejecting paths: the rule does not decide", accepts, rejects))
		}
		sort.Strings(problems)
		if len(problems) > 0 {
			r.Bad(key, pos, strings.Join(uniq(problems), "; "))
		} else {
			r.OK(key, pos, fmt.Sprintf("%d paths: the verdict comes from %s", len(outs), sp.oracle))
		}
	}
}

// emailProvenance: Email.Validate looks at single bytes of the address (256-way forks), so it is
// checked on the SSA form instead: the address parser is called, its argument derives from
// Unquote(value), and the call dominates every normal return.
func emailProvenance(c *load.Ctx, r *report.RuleResult) {
	fn := c.Func(pkgConstraint, "Email.Validate")
	unq := c.Func(pkgBytes, "Bytes.Unquote")
	key := "format|Email"
	if fn == nil || unq == nil {
		r.Unk(key, "", "Email.Validate / Bytes.Unquote not found")
		return
	}
	var parse *ssa.Call
	for _, b := range fn.Blocks {
		for _, ins := range b.Instrs {
			if call, ok := ins.(*ssa.Call); ok {
				if sc := call.Call.StaticCallee(); sc != nil && sc.Pkg != nil && sc.Pkg.Pkg.Path() == "net/mail" && sc.Name() == "ParseAddress" {
					parse = call
				}
			}
		}
	}
	if parse == nil {
		r.Bad(key, c.Pos(fn.Pos()), "the address parser (mail.ParseAddress) is not consulted")
		return
	}
	var fromUnquote func(v ssa.Value, depth int) bool
	fromUnquote = func(v ssa.Value, depth int) bool {
		if depth > 8 {
			return false
		}
		switch x := v.(type) {
		case *ssa.Call:
			if sc := x.Call.StaticCallee(); sc != nil {
				if sc == unq {
					return true
				}
				if len(x.Call.Args) > 0 && (sc.Name() == "String" || sc.Name() == "TrimSpaces") {
					return fromUnquote(x.Call.Args[0], depth+1)
				}
			}
		case *ssa.Convert:
			return fromUnquote(x.X, depth+1)
		case *ssa.ChangeType:
			return fromUnquote(x.X, depth+1)
		case *ssa.Phi:
			for _, e := range x.Edges {
				if !fromUnquote(e, depth+1) {
					return false
				}
			}
			return len(x.Edges) > 0
		}
		return false
	}
	if !fromUnquote(parse.Call.Args[0], 0) {
		r.Bad(key, c.Pos(parse.Pos()), "the address parser is not given the decoded string (Unquote of the value)")
		return
	}
	for _, b := range fn.Blocks {
		if endsInReturn(b) && !parse.Block().Dominates(b) {
			r.Bad(key, c.Pos(parse.Pos()), "a value can be accepted without consulting the address parser")
			return
		}
	}
	r.OK(key, c.Pos(parse.Pos()), "mail.ParseAddress is given the decoded string and is consulted before every accepting return")
}

var _ = load.Module

// --- C08: rule combinations and applicability as enforced -----------------------------------------

func init() {
	register(&Rule{ID: "T-banned", Min: 1, Run: runTBanned,
		Doc: "format types exclude length / regex rules, any excludes const: allowedConstraintCheck, interpreted over an abstract node with the presence of every rule as an atom, rejects the node iff one of the format rules (email, uri, uuid, date, datetime) is present together with minLength, maxLength or regex, or any together with const — decided from the rules on the node itself, so that rule-sets inside or (whose node is of kind mixed) are covered as well"})
	register(&Rule{ID: "T-compat", Min: 20, Run: runTCompat,
		Doc: "rule applicability is enforced on every plain node: checkCompatibilityOfConstraints, interpreted for every constraint type with its IsJsonTypeCompatible verdict as an atom, rejects the node iff the verdict is negative and the node is neither a mixed node nor a type-shortcut node — whatever the example's kind and whatever other rules (nullable …) are present"})
}

func runTBanned(c *load.Ctx, r *report.RuleResult) {
	e := newAbsNodeEnv(c)
	if e.problem != "" {
		r.Unk("anchor|schema.Node", "", e.problem)
		return
	}
	e.cfg.MaxPaths = 60000
	e.cfg.TotalFuel = 200000000
	outs, pos, problem := e.callWithNode(pkgLoader, "schemaCompiler.allowedConstraintCheck", nil, nil)
	if problem != "" {
		r.Unk("anchor|schemaCompiler.allowedConstraintCheck", "", problem)
		return
	}
	formats := []string{"Email", "Uri", "Uuid", "Date", "DateTime"}
	banned := []string{"MinLength", "MaxLength", "Regex"}
	type pair struct{ a, b string }
	var pairs []pair
	for _, f := range formats {
		for _, b := range banned {
			pairs = append(pairs, pair{f + "ConstraintType", b + "ConstraintType"})
		}
	}
	pairs = append(pairs, pair{"AnyConstraintType", "ConstConstraintType"})
	for _, p := range pairs {
		if e.byName[p.a] == nil || e.byName[p.b] == nil {
			r.Unk("anchor|constraint types", pos, "constraint type constant "+p.a+" / "+p.b+" not found")
			return
		}
	}
	var problems []string
	for _, o := range outs {
		v, code := verdictOf(o)
		if v == "undecided" || v == "crash" {
			problems = append(problems, "not interpretable: "+code+" {"+o.Valuation()+"}")
			continue
		}
		val := o.ChoiceMap()
		get := func(n string) (bool, bool) {
			s, ok := val["has("+n+")"]
			return s == "true", ok
		}
		switch v {
		case "reject":
			ok := false
			for _, p := range pairs {
				a, ca := get(p.a)
				b, cb := get(p.b)
				if ca && cb && a && b {
					ok = true
				}
			}
			if !ok {
				problems = append(problems, "rejects a node on which no excluded combination was found present: {"+o.Valuation()+"}")
			}
		case "accept":
			for _, p := range pairs {
				a, ca := get(p.a)
				b, cb := get(p.b)
				if !(ca && !a) && !(cb && !b) {
					problems = append(problems, fmt.Sprintf("accepts a node without having excluded %s together with %s: {%s}", strings.TrimSuffix(p.a, "ConstraintType"), strings.TrimSuffix(p.b, "ConstraintType"), o.Valuation()))
					break
				}
			}
		}
	}
	sort.Strings(problems)
	if len(problems) > 0 {
		if len(problems) > 4 {
			problems = append(problems[:4], fmt.Sprintf("… and %d more", len(problems)-4))
		}
		r.Bad("banned|format and any combinations", pos, strings.Join(problems, "; "))
	} else {
		r.OK("banned|format and any combinations", pos, fmt.Sprintf("%d paths: rejected iff a format rule meets minLength / maxLength / regex, or any meets const", len(outs)))
	}
}

func runTCompat(c *load.Ctx, r *report.RuleResult) {
	e := newAbsNodeEnv(c)
	fn := c.Func(pkgChecker, "checkSchema.checkCompatibilityOfConstraints")
	consT := namedType(c, pkgSchema, "Constraints")
	setFn := c.Func(pkgSchema, "Constraints.Set")
	ci0 := namedType(c, pkgConstraint, "Constraint")
	if e.problem != "" || fn == nil || consT == nil || setFn == nil || ci0 == nil {
		r.Unk("anchor|checker.checkCompatibilityOfConstraints", "", "function or Constraints map not found "+e.problem)
		return
	}
	pos := c.Pos(fn.Pos())
	for _, op := range []string{"Lock", "Unlock", "RLock", "RUnlock"} {
		e.cfg.Intrinsics["(*sync.RWMutex)."+op] = func(in *pe.Interp, args []pe.Value) (pe.Value, bool) { return nil, true }
	}
	// the verdict of the rule's own applicability test is an atom (T1 decides what it is)
	for _, ci := range e.byVal {
		if ci.named == nil {
			continue
		}
		if f := c.Func(pkgConstraint, ci.named.Obj().Name()+".IsJsonTypeCompatible"); f != nil {
			e.cfg.Intrinsics[f.String()] = func(in *pe.Interp, args []pe.Value) (pe.Value, bool) {
				in.Effect("compat-asked-for " + strings.Trim(pe.Show(args[len(args)-1]), "‹›"))
				return in.Choose("compatible", []string{"false", "true"}) == 1, true
			}
		}
	}
	prefix := "invoke:" + types.TypeString(e.nodeT, nil) + "."
	e.cfg.Intrinsics[prefix+"RealType"] = func(in *pe.Interp, args []pe.Value) (pe.Value, bool) {
		return pe.NewSym("node.realType", types.Typ[types.String]), true
	}
	var cis []*constraintInfo
	for _, ci := range e.byVal {
		if ci.named != nil {
			cis = append(cis, ci)
		}
	}
	sort.Slice(cis, func(i, j int) bool { return cis[i].name < cis[j].name })
	for _, ci := range cis {
		ci := ci
		e.cfg.Intrinsics[prefix+"ConstraintMap"] = func(in *pe.Interp, args []pe.Value) (pe.Value, bool) {
			m := in.NewStruct(consT, "constraints")
			obj := &pe.Iface{T: types.NewPointer(ci.named), V: symStruct(in, ci.named, ci.named.Obj().Name(), nil)}
			in.Call(setFn, []pe.Value{m, ci.val, obj})
			in.SetSymMem("node.has("+ci.name+")", true)
			return m, true
		}
		outs := pe.ExploreFn(e.cfg, func(in *pe.Interp) pe.Value {
			args := []pe.Value{}
			for i, p := range fn.Params {
				if i == 0 && fn.Signature.Recv() != nil {
					args = append(args, pe.NewSym("recv", p.Type()))
					continue
				}
				args = append(args, pe.NewSym("node", e.nodeT))
			}
			return in.Call(fn, args)
		})
		key := "compat|" + strings.TrimSuffix(ci.name, "ConstraintType")
		var problems []string
		for _, o := range outs {
			v, code := verdictOf(o)
			if v == "undecided" || v == "crash" {
				problems = append(problems, "not interpretable: "+code+" {"+o.Valuation()+"}")
				continue
			}
			val := o.ChoiceMap()
			mixed := false
			for k, x := range val {
				if strings.HasPrefix(k, "is(") && strings.Contains(k, "Mixed") && x == "true" {
					mixed = true
				}
			}
			comp, asked := val["compatible"]
			want := "accept"
			if !mixed && (!asked || comp == "false") {
				want = "reject"
			}
			if !asked && !mixed && v == "accept" {
				problems = append(problems, "a plain node is accepted without asking whether the rule applies to its kind: {"+o.Valuation()+"}")
				continue
			}
			if asked && v != want {
				problems = append(problems, fmt.Sprintf("%ss where the property requires %s: {%s}", v, want, o.Valuation()))
			}
			for _, ef := range o.Effects {
				if strings.HasPrefix(ef, "compat-asked-for ") && !strings.Contains(ef, "node.type") {
					problems = append(problems, "the applicability test is given "+strings.TrimPrefix(ef, "compat-asked-for ")+", not the kind of the node")
				}
			}
		}
		sort.Strings(problems)
		if len(problems) > 0 {
			if len(problems) > 3 {
				problems = append(problems[:3], fmt.Sprintf("… and %d more", len(problems)-3))
			}
			r.Bad(key, pos, strings.Join(uniq(problems), "; "))
		} else {
			r.OK(key, pos, fmt.Sprintf("%d paths: rejected iff not applicable and the node is a plain one", len(outs)))
		}
	}
}

// --- C04: which checkers an example is held against ------------------------------------------------

func init() {
	register(&Rule{ID: "T-chklist", Min: 2, Run: runTChkList,
		Doc: "an example with declared types is held against those types and nothing else: the checker's candidate list (nodeCheckerListConstructor.buildList) consists of the checkers of the named types when the node carries a types list — whatever other rules (nullable …) are present — and of the node's own checker otherwise; a candidate built from the node itself next to its types would accept every example, because the node has no rules of its own to violate"})
	register(&Rule{ID: "T-rawkey", Min: 2, Run: runTRawKey,
		Doc: "document keys meet schema keys in decoded form: ObjectNode.ChildByRawKey looks a non-shortcut key up by its JSON-decoded text (Bytes.Unquote, which resolves escape sequences), as the keys of the schema are stored, and a shortcut key by its own text"})
}

func runTChkList(c *load.Ctx, r *report.RuleResult) {
	e := newAbsNodeEnv(c)
	build := c.Func(pkgChecker, "nodeCheckerListConstructor.buildList")
	appendTypes := c.Func(pkgChecker, "nodeCheckerListConstructor.appendTypeValidators")
	appendNode := c.Func(pkgChecker, "nodeCheckerListConstructor.appendNodeValidators")
	lcT := namedType(c, pkgChecker, "nodeCheckerListConstructor")
	if e.problem != "" || build == nil || appendTypes == nil || appendNode == nil || lcT == nil {
		r.Unk("anchor|checker.nodeCheckerListConstructor.buildList", "", "not found "+e.problem)
		return
	}
	pos := c.Pos(build.Pos())
	e.cfg.Intrinsics[appendTypes.String()] = func(in *pe.Interp, args []pe.Value) (pe.Value, bool) {
		in.Effect("checkers-of-types")
		return nil, true
	}
	e.cfg.Intrinsics[appendNode.String()] = func(in *pe.Interp, args []pe.Value) (pe.Value, bool) {
		in.Effect("checker-of " + strings.Trim(pe.Show(args[1]), "‹›"))
		return nil, true
	}
	// any other constructor of a checker called directly
	for _, fn := range c.ModuleFunctions() {
		if load.FuncPkgRel(fn) == pkgChecker && strings.HasPrefix(fn.Name(), "new") && strings.Contains(fn.Name(), "Checker") {
			name := fn.Name()
			f := fn
			e.cfg.Intrinsics[fn.String()] = func(in *pe.Interp, args []pe.Value) (pe.Value, bool) {
				in.Effect("direct " + name)
				res := f.Signature.Results()
				if res.Len() == 2 {
					return &pe.Tuple{E: []pe.Value{pe.NewSym(name+"()", res.At(0).Type()), pe.NilV{}}}, true
				}
				return pe.NewSym(name+"()", res.At(0).Type()), true
			}
		}
	}
	outs := pe.ExploreFn(e.cfg, func(in *pe.Interp) pe.Value {
		recv := symStruct(in, lcT, "l", map[string]pe.Value{"list": pe.NilV{}, "addedTypeNames": pe.NilV{}})
		return in.Call(build, []pe.Value{recv, pe.NewSym("node", e.nodeT)})
	})
	for _, o := range outs {
		val := o.ChoiceMap()
		hasTypes := val["has(TypesListConstraintType)"] == "true"
		key := fmt.Sprintf("chklist|types-list=%v", hasTypes)
		if len(val) > 1 {
			key += "|" + o.Valuation()
		}
		if o.Undecided != "" || o.Panicked {
			r.Unk(key, pos, "not interpretable: "+o.Exit())
			continue
		}
		want := "checker-of node"
		if hasTypes {
			want = "checkers-of-types"
		}
		got := strings.Join(o.Effects, " + ")
		if got == want {
			r.OK(key, pos, got)
		} else {
			r.Bad(key, pos, fmt.Sprintf("the candidates for the example are [%s], expected [%s]: a node with declared types must be checked against those types only", got, want))
		}
	}
}

func runTRawKey(c *load.Ctx, r *report.RuleResult) {
	e := newTableEnv(c)
	fn := c.Func(pkgSchema, "ObjectNode.ChildByRawKey")
	child := c.Func(pkgSchema, "ObjectNode.Child")
	isUT := c.Func(pkgBytes, "Bytes.IsUserTypeName")
	onT := namedType(c, pkgSchema, "ObjectNode")
	if fn == nil || child == nil || isUT == nil || onT == nil {
		r.Unk("anchor|schema.ObjectNode.ChildByRawKey", "", "not found")
		return
	}
	pos := c.Pos(fn.Pos())
	clean := func(v pe.Value) string { return strings.Trim(pe.Show(v), "‹›\"") }
	if f := c.Func(pkgBytes, "Bytes.String"); f != nil {
		e.cfg.Intrinsics[f.String()] = func(in *pe.Interp, args []pe.Value) (pe.Value, bool) {
			return pe.NewSym(clean(args[0]), types.Typ[types.String]), true
		}
	}
	e.cfg.Intrinsics[isUT.String()] = func(in *pe.Interp, args []pe.Value) (pe.Value, bool) {
		return in.Choose("shortcut("+clean(args[0])+")", []string{"false", "true"}) == 1, true
	}
	e.cfg.Intrinsics[child.String()] = func(in *pe.Interp, args []pe.Value) (pe.Value, bool) {
		in.Effect(fmt.Sprintf("Child(%s,%s)", clean(args[1]), pe.Show(args[2])))
		res := child.Signature.Results()
		return &pe.Tuple{E: []pe.Value{pe.NewSym("child", res.At(0).Type()), pe.NewSym("found", res.At(1).Type())}}, true
	}
	outs := pe.ExploreFn(e.cfg, func(in *pe.Interp) pe.Value {
		recv := in.Zero(onT)
		return in.Call(fn, []pe.Value{recv, pe.NewSym("rawKey", fn.Params[1].Type())})
	})
	for _, o := range outs {
		sc := o.ChoiceMap()["shortcut(rawKey)"]
		key := "rawkey|shortcut=" + sc
		if o.Undecided != "" || o.Panicked {
			r.Unk(key+"|"+o.Valuation(), pos, "not interpretable: "+o.Exit())
			continue
		}
		want := "Child(unquote(rawKey),false)"
		if sc == "true" {
			want = "Child(rawKey,true)"
		}
		got := strings.Join(o.Effects, " ")
		if sc == "" {
			r.Bad(key+"|"+o.Valuation(), pos, "the key is looked up without asking whether it is a type shortcut: "+got)
			continue
		}
		if got == want {
			r.OK(key, pos, got)
		} else {
			r.Bad(key, pos, fmt.Sprintf("looks the key up as %s, expected %s: a key written with escape sequences in the document would not find the property the schema stores in decoded form", got, want))
		}
	}
}

// --- \u escapes ----------------------------------------------------------------------------------------

func init() {
	register(&Rule{ID: "T-hex", Min: 4, Run: runTHex,
		Doc: "\\uXXXX escapes are decoded digit by digit as hexadecimal, in either letter case: bytes.getu4, interpreted with each of the four digit positions in turn ranging over all 256 byte values (the others '0'), returns 16^(3-k) times the hexadecimal value of the byte for 0-9, a-f and A-F, and -1 for every other byte — so \"\\u00e9\", \"\\u00E9\" and the literal character decode to the same string"})
}

func runTHex(c *load.Ctx, r *report.RuleResult) {
	fn := c.Func(pkgBytes, "getu4")
	if fn == nil {
		r.Unk("anchor|bytes.getu4", "", "not found")
		return
	}
	pos := c.Pos(fn.Pos())
	cfg := newPEConfig(c)
	byteT := types.Typ[types.Uint8]
	hexval := func(b int) int64 {
		switch {
		case b >= '0' && b <= '9':
			return int64(b - '0')
		case b >= 'a' && b <= 'f':
			return int64(b-'a') + 10
		case b >= 'A' && b <= 'F':
			return int64(b-'A') + 10
		}
		return -1
	}
	for k := 0; k < 4; k++ {
		k := k
		outs := pe.ExploreFn(cfg, func(in *pe.Interp) pe.Value {
			elems := []pe.Value{int64('\\'), int64('u'), int64('0'), int64('0'), int64('0'), int64('0')}
			elems[2+k] = pe.NewSym("digit", byteT)
			return in.Call(fn, []pe.Value{in.MakeSliceOf(elems, 6)})
		})
		key := fmt.Sprintf("hex|digit %d", k+1)
		seen := map[int]bool{}
		var problems []string
		for _, o := range outs {
			if o.Undecided != "" || o.Panicked {
				problems = append(problems, "not interpretable: "+o.Exit()+" {"+o.Valuation()+"}")
				continue
			}
			b := -1
			for _, ch := range o.Choices {
				if strings.Contains(ch.Name, "digit") {
					var v int
					if _, err := fmt.Sscanf(ch.Label, "%d", &v); err == nil {
						b = v
					} else {
						b = ch.Val
					}
				}
			}
			if b < 0 {
				problems = append(problems, "a path does not depend on the digit: {"+o.Valuation()+"} => "+o.Exit())
				continue
			}
			seen[b] = true
			want := hexval(b)
			if want >= 0 {
				for i := 0; i < 3-k; i++ {
					want *= 16
				}
			}
			got, ok := o.Ret.(int64)
			if !ok || got != want {
				problems = append(problems, fmt.Sprintf("byte %q as digit %d decodes to %s, expected %d", string([]byte{byte(b)}), k+1, pe.Show(o.Ret), want))
			}
		}
		if len(seen) != 256 && len(problems) == 0 {
			problems = append(problems, fmt.Sprintf("only %d of 256 byte values explored", len(seen)))
		}
		if len(problems) > 0 {
			sort.Strings(problems)
			if len(problems) > 4 {
				problems = append(problems[:4], fmt.Sprintf("… and %d more", len(problems)-4))
			}
			r.Bad(key, pos, strings.Join(problems, "; "))
		} else {
			r.OK(key, pos, "all 256 byte values: 0-9, a-f, A-F decode to their hexadecimal value, everything else is rejected")
		}
	}
}

func init() {
	register(&Rule{ID: "T-escape", Min: 1, Run: runTEscape,
		Doc: "two-character escapes decode as RFC 8259 says: bytes.unquoteBytes, interpreted on the token \"\\X\" with X ranging over all 256 byte values, yields the one-byte string \", \\, / for those characters, backspace, form feed, line feed, carriage return and tab for b, f, n, r, t, and reports the token as undecodable for every other X (u needs four digits)"})
}

func runTEscape(c *load.Ctx, r *report.RuleResult) {
	fn := c.Func(pkgBytes, "unquoteBytes")
	if fn == nil {
		r.Unk("anchor|bytes.unquoteBytes", "", "not found")
		return
	}
	pos := c.Pos(fn.Pos())
	cfg := newPEConfig(c)
	want := map[int]int{'"': '"', '\\': '\\', '/': '/', 'b': '\b', 'f': '\f', 'n': '\n', 'r': '\r', 't': '\t'}
	lenient := map[int]bool{'\'': true} // encoding/json's unquote also admits \' ; the scanners reject it before
	outs := pe.ExploreFn(cfg, func(in *pe.Interp) pe.Value {
		elems := []pe.Value{int64('"'), int64('\\'), pe.NewSym("x", types.Typ[types.Uint8]), int64('"')}
		return in.Call(fn, []pe.Value{in.MakeSliceOf(elems, 4)})
	})
	seen := map[int]bool{}
	var problems []string
	for _, o := range outs {
		if o.Undecided != "" || o.Panicked {
			problems = append(problems, "not interpretable: "+o.Exit()+" {"+o.Valuation()+"}")
			continue
		}
		b := -1
		for _, ch := range o.Choices {
			if strings.Contains(ch.Name, "x") {
				var v int
				if _, err := fmt.Sscanf(ch.Label, "%d", &v); err == nil {
					b = v
				} else {
					b = ch.Val
				}
			}
		}
		if b < 0 {
			problems = append(problems, "a path does not depend on the escaped byte: "+o.Exit())
			continue
		}
		seen[b] = true
		tp, ok := o.Ret.(*pe.Tuple)
		if !ok || len(tp.E) != 2 {
			problems = append(problems, "unexpected result "+pe.Show(o.Ret))
			continue
		}
		okv, _ := tp.E[1].(bool)
		w, decodable := want[b]
		if lenient[b] {
			continue
		}
		if okv != decodable {
			problems = append(problems, fmt.Sprintf("\\%s is reported decodable=%v, expected %v", string([]byte{byte(b)}), okv, decodable))
			continue
		}
		if decodable {
			elems, ok := pe.SliceElems(tp.E[0])
			if !ok || len(elems) != 1 {
				problems = append(problems, fmt.Sprintf("\\%s decodes to %s, expected one byte", string([]byte{byte(b)}), pe.Show(tp.E[0])))
				continue
			}
			if sy, isSym := elems[0].(*pe.Sym); isSym && sy.Name() == "x" {
				elems[0] = int64(b) // the escaped byte itself was copied
			}
			if g, ok := elems[0].(int64); !ok || int(g) != w {
				problems = append(problems, fmt.Sprintf("\\%s decodes to byte %s, expected %d", string([]byte{byte(b)}), pe.Show(elems[0]), w))
			}
		}
	}
	if len(seen) != 256 && len(problems) == 0 {
		problems = append(problems, fmt.Sprintf("only %d of 256 byte values explored", len(seen)))
	}
	if len(problems) > 0 {
		sort.Strings(problems)
		if len(problems) > 4 {
			problems = append(problems[:4], fmt.Sprintf("… and %d more", len(problems)-4))
		}
		r.Bad("escape|two-character escapes", pos, strings.Join(problems, "; "))
	} else {
		r.OK("escape|two-character escapes", pos, "all 256 byte values after the backslash")
	}
}

// --- C16: reference nodes mirror their source text ------------------------------------------------------

func init() {
	register(&Rule{ID: "T-astref", Min: 1, Run: runTAstRef,
		Doc: "type-shortcut nodes carry their source text: the Value of the AST node built by MixedValueNode.ASTNode is the text stored when the shortcut was read (the node's value field), on every path — not a re-rendering of the parsed names, which would normalise spacing and be overwritten by a type rule"})
}

func runTAstRef(c *load.Ctx, r *report.RuleResult) {
	fn := c.Func(pkgSchema, "MixedValueNode.ASTNode")
	from := c.Func(pkgSchema, "astNodeFromNode")
	mvT := namedType(c, pkgSchema, "MixedValueNode")
	if fn == nil || from == nil || mvT == nil {
		r.Unk("anchor|schema.MixedValueNode.ASTNode", "", "not found")
		return
	}
	pos := c.Pos(fn.Pos())
	cfg := newPEConfig(c)
	cfg.Intrinsics[from.String()] = func(in *pe.Interp, args []pe.Value) (pe.Value, bool) {
		return in.Zero(from.Signature.Results().At(0).Type()), true
	}
	outs := pe.ExploreFn(cfg, func(in *pe.Interp) pe.Value {
		recv := symStruct(in, mvT, "n", nil)
		return in.Call(fn, []pe.Value{recv})
	})
	var problems []string
	n := 0
	for _, o := range outs {
		if o.Undecided != "" || o.Panicked {
			problems = append(problems, "not interpretable: "+o.Exit())
			continue
		}
		tp, ok := o.Ret.(*pe.Tuple)
		if !ok || len(tp.E) == 0 {
			problems = append(problems, "unexpected result "+pe.Show(o.Ret))
			continue
		}
		sv, ok := tp.E[0].(*pe.StructV)
		if !ok {
			problems = append(problems, "the AST node is not a struct value: "+pe.Show(tp.E[0]))
			continue
		}
		st := sv.T.Underlying().(*types.Struct)
		for i := 0; i < st.NumFields(); i++ {
			if st.Field(i).Name() == "Value" {
				n++
				if got := strings.Trim(pe.Show(sv.F[i]), "‹›"); got != "n.value" {
					problems = append(problems, fmt.Sprintf("on path {%s} the Value is %s, not the stored source text", o.Valuation(), got))
				}
			}
		}
	}
	if n == 0 {
		problems = append(problems, "no path sets the Value of the AST node")
	}
	if len(problems) > 0 {
		r.Bad("astref|MixedValueNode.Value", pos, strings.Join(uniq(problems), "; "))
	} else {
		r.OK("astref|MixedValueNode.Value", pos, fmt.Sprintf("%d path(s): Value is the node's stored text", n))
	}
}

// --- C18: the example of a regex type is the generator's sample, untouched -----------------------------

func init() {
	register(&Rule{ID: "RX-1", Min: 1, Run: runRX1,
		Doc: "the example of a regex type is the sample the generator produced for the pattern, byte for byte: in notations/regex every value that reaches the first result of generateExample is nil or the direct conversion of (*reggen.Generator).Generate's result — trimming, re-quoting or otherwise editing the sample can make it stop matching the pattern it was generated from"})
}

func runRX1(c *load.Ctx, r *report.RuleResult) {
	fn := c.Func("notations/regex", "Schema.generateExample")
	if fn == nil {
		r.Unk("anchor|regex.Schema.generateExample", "", "not found")
		return
	}
	pos := c.Pos(fn.Pos())
	isGenerate := func(v ssa.Value) bool {
		call, ok := v.(*ssa.Call)
		if !ok {
			return false
		}
		sc := call.Call.StaticCallee()
		return sc != nil && sc.Name() == "Generate" && sc.Pkg != nil && strings.HasSuffix(sc.Pkg.Pkg.Path(), "/reggen")
	}
	var verdict func(v ssa.Value, depth int) string
	verdict = func(v ssa.Value, depth int) string {
		if depth > 8 {
			return "too deep"
		}
		switch x := v.(type) {
		case *ssa.Const:
			if x.IsNil() {
				return ""
			}
		case *ssa.Convert:
			if isGenerate(x.X) {
				return ""
			}
			return "a conversion of " + describeValue(x.X)
		case *ssa.Phi:
			for _, e := range x.Edges {
				if w := verdict(e, depth+1); w != "" {
					return w
				}
			}
			return ""
		case *ssa.UnOp:
			if al, ok := x.X.(*ssa.Alloc); ok {
				for _, ref := range *al.Referrers() {
					if st, ok := ref.(*ssa.Store); ok && st.Addr == al {
						if w := verdict(st.Val, depth+1); w != "" {
							return w
						}
					}
				}
				return ""
			}
		case *ssa.Call:
			if sc := x.Call.StaticCallee(); sc != nil {
				return "the result of " + sc.Name()
			}
		}
		return describeValue(v)
	}
	n := 0
	var problems []string
	sawGenerate := false
	for _, b := range fn.Blocks {
		for _, ins := range b.Instrs {
			if call, ok := ins.(*ssa.Call); ok && isGenerate(call) {
				sawGenerate = true
			}
			ret, ok := ins.(*ssa.Return)
			if !ok || len(ret.Results) == 0 {
				continue
			}
			n++
			if w := verdict(ret.Results[0], 0); w != "" {
				problems = append(problems, "the example returned at "+c.Pos(ret.Pos())+" is "+w+", not the generator's sample as it is")
			}
		}
	}
	// stores into a named result from closures (the recover handler) are nil by construction of verdict
	if !sawGenerate {
		problems = append(problems, "generateExample does not call the generator")
	}
	if len(problems) > 0 {
		r.Bad("regexexample|generateExample", pos, strings.Join(uniq(problems), "; "))
	} else {
		r.OK("regexexample|generateExample", pos, fmt.Sprintf("%d return(s): nil or the unchanged sample", n))
	}
}

// --- C03: conflicting additionalProperties of allOf parents -----------------------------------------------

func init() {
	register(&Rule{ID: "T-apeq", Min: 1, Run: runTApEq,
		Doc: "two additionalProperties rules of an allOf child and parent pass for the same rule only if they are of the same mode, schema type and type name: in the allOf compiler function that raises the conflict error, the guards in front of that panic — comparisons of the two rules' Mode() written in place, and calls of a comparison function on the two rules (AdditionalProperties.IsEqual or a helper), interpreted with the two modes, schema types and type names as atoms — together let the no-conflict continuation be reached only after the modes, the schema types and the type names were each found equal (otherwise `true` inherited under `false` passes for agreement and one of the two silently wins)"})
}

// apeqCompare interprets a comparison function of two additionalProperties rules and returns the
// fields every true-answering path found equal.
func apeqCompare(c *load.Ctx, fn *ssa.Function, apT *types.Named) (enforced map[string]bool, paths, trues int, problems []string) {
	e := newTableEnv(c)
	if f := c.Func(pkgBytes, "Bytes.String"); f != nil {
		e.cfg.Intrinsics[f.String()] = func(in *pe.Interp, args []pe.Value) (pe.Value, bool) {
			return pe.NewSym(strings.Trim(pe.Show(args[0]), "‹›"), types.Typ[types.String]), true
		}
	}
	mk := func(in *pe.Interp, tag string, t types.Type) pe.Value {
		st := apT.Underlying().(*types.Struct)
		sv := &pe.StructV{T: apT, F: make([]pe.Value, st.NumFields())}
		for i := 0; i < st.NumFields(); i++ {
			sv.F[i] = pe.NewSym(tag+"."+st.Field(i).Name(), st.Field(i).Type())
		}
		if _, isPtr := t.Underlying().(*types.Pointer); isPtr {
			return &pe.Ptr{Obj: in.NewObj(apT, sv, tag), T: apT}
		}
		return sv
	}
	outs := pe.ExploreFn(e.cfg, func(in *pe.Interp) pe.Value {
		var args []pe.Value
		for i, p := range fn.Params {
			args = append(args, mk(in, string(rune('a'+i)), p.Type()))
		}
		return in.Call(fn, args)
	})
	enforced = map[string]bool{"mode": true, "schemaType": true, "typeName": true}
	for _, o := range outs {
		if o.Undecided != "" || o.Panicked {
			problems = append(problems, "not interpretable: "+o.Exit())
			continue
		}
		res, ok := o.Ret.(bool)
		if !ok {
			problems = append(problems, "result is not a decided boolean on path {"+o.Valuation()+"}: "+pe.Show(o.Ret))
			continue
		}
		if !res {
			continue
		}
		trues++
		val := o.ChoiceMap()
		equal := map[string]bool{}
		for k, v := range val {
			for _, f := range []string{"mode", "schemaType", "typeName"} {
				if strings.Contains(k, "a."+f) && strings.Contains(k, "b."+f) && (v == "true" || v == "=") {
					equal[f] = true
				}
			}
		}
		// enum atoms are concretised one by one: equal modes show as the same member chosen twice
		if val["a.mode"] != "" && val["a.mode"] == val["b.mode"] {
			equal["mode"] = true
		}
		for f := range enforced {
			if !equal[f] {
				delete(enforced, f)
			}
		}
	}
	if trues == 0 {
		problems = append(problems, "never answers true")
	}
	return enforced, len(outs), trues, problems
}

func runTApEq(c *load.Ctx, r *report.RuleResult) {
	apT := namedType(c, pkgConstraint, "AdditionalProperties")
	var conflict *types.Const
	if p := c.Pkg("errors"); p != nil {
		conflict, _ = p.Types.Scope().Lookup("ErrConflictAdditionalProperties").(*types.Const)
	}
	if apT == nil || conflict == nil {
		r.Unk("anchor|constraint.AdditionalProperties / errors.ErrConflictAdditionalProperties", "", "not found")
		return
	}
	isAP := func(t types.Type) bool {
		if p, ok := t.Underlying().(*types.Pointer); ok {
			t = p.Elem()
		}
		return types.Identical(t, apT)
	}
	// the panic raising the conflict
	type site struct {
		fn *ssa.Function
		b  *ssa.BasicBlock
	}
	var sites []site
	c.BuildSSA()
	for _, fn := range c.ModuleFunctions() {
		if load.FuncPkgRel(fn) != pkgLoader {
			continue
		}
		for _, b := range fn.Blocks {
			for _, ins := range b.Instrs {
				pn, ok := ins.(*ssa.Panic)
				if !ok {
					continue
				}
				v := pn.X
				if mi, ok := v.(*ssa.MakeInterface); ok {
					v = mi.X
				}
				if k, ok := v.(*ssa.Const); ok && k.Value != nil && types.Identical(k.Type(), conflict.Type()) && constant.Compare(k.Value, token.EQL, conflict.Val()) {
					sites = append(sites, site{fn, b})
				}
			}
		}
	}
	if len(sites) == 0 {
		r.Unk("anchor|panic(ErrConflictAdditionalProperties)", "", "no function of the loader raises the conflict error")
		return
	}
	for _, s := range sites {
		key := "apeq|" + load.FuncKey(s.fn)
		pos := c.Pos(s.fn.Pos())
		// blocks from which only the panic block is reachable
		toPanic := map[*ssa.BasicBlock]bool{s.b: true}
		for changed := true; changed; {
			changed = false
			for _, b := range s.fn.Blocks {
				if toPanic[b] || len(b.Succs) == 0 {
					continue
				}
				all := true
				for _, su := range b.Succs {
					if !toPanic[su] {
						all = false
					}
				}
				if all {
					toPanic[b] = true
					changed = true
				}
			}
		}
		var notes, problems []string
		all := []string{"mode", "schemaType", "typeName"}
		// the two reads of the additionalProperties rule; the region in which both are known is what
		// the later one dominates
		apConst := int64(-1)
		if k, ok := c.Pkg(pkgConstraint).Types.Scope().Lookup("AdditionalPropertiesConstraintType").(*types.Const); ok {
			if v, exact := constant.Int64Val(k.Val()); exact {
				apConst = v
			}
		}
		var reads []*ssa.Call
		for _, b := range s.fn.Blocks {
			for _, ins := range b.Instrs {
				call, ok := ins.(*ssa.Call)
				if !ok {
					continue
				}
				name := ""
				if call.Call.IsInvoke() {
					name = call.Call.Method.Name()
				} else if sc := call.Call.StaticCallee(); sc != nil {
					name = sc.Name()
				}
				if name != "Constraint" || len(call.Call.Args) == 0 {
					continue
				}
				if k, ok := call.Call.Args[len(call.Call.Args)-1].(*ssa.Const); ok && k.Value != nil && k.Int64() == apConst {
					reads = append(reads, call)
				}
			}
		}
		if len(reads) < 2 {
			r.Unk(key, pos, fmt.Sprintf("the function raising the conflict reads the additionalProperties rule %d time(s); the two rules being compared were not found", len(reads)))
			continue
		}
		region := reads[0].Block()
		for _, rd := range reads[1:] {
			if region.Dominates(rd.Block()) {
				region = rd.Block()
			}
		}
		fromRead := func(v ssa.Value) bool {
			for depth := 0; depth < 8; depth++ {
				switch x := v.(type) {
				case *ssa.Call:
					for _, rd := range reads {
						if rd == x {
							return true
						}
					}
					return false
				case *ssa.TypeAssert:
					v = x.X
				case *ssa.Extract:
					v = x.Tuple
				case *ssa.ChangeInterface:
					v = x.X
				case *ssa.MakeInterface:
					v = x.X
				default:
					return false
				}
			}
			return false
		}
		type edgeFact struct {
			atoms  map[string]bool
			absent bool // one of the two rules is not there: nothing to compare on this edge
		}
		facts := map[*ssa.BasicBlock][2]edgeFact{}
		guards := 0
		for _, b := range s.fn.Blocks {
			if len(b.Succs) != 2 {
				continue
			}
			ifi, ok := b.Instrs[len(b.Instrs)-1].(*ssa.If)
			if !ok {
				continue
			}
			onTrue := true
			cond := ifi.Cond
			for {
				u, ok := cond.(*ssa.UnOp)
				if !ok || u.Op != token.NOT {
					break
				}
				cond, onTrue = u.X, !onTrue
			}
			var f [2]edgeFact
			set := func(whenCond bool, ef edgeFact) {
				// Succs[0] is taken when the If's own condition is true
				idx := 1
				if whenCond == onTrue {
					idx = 0
				}
				f[idx] = ef
			}
			switch x := cond.(type) {
			case *ssa.BinOp:
				if x.Op != token.EQL && x.Op != token.NEQ {
					break
				}
				isNil := func(v ssa.Value) bool { k, ok := v.(*ssa.Const); return ok && k.IsNil() }
				if (isNil(x.Y) && fromRead(x.X)) || (isNil(x.X) && fromRead(x.Y)) {
					set(x.Op == token.EQL, edgeFact{absent: true})
					break
				}
				fx, fy := apeqField(x.X, isAP), apeqField(x.Y, isAP)
				if fx != "" && fx == fy {
					guards++
					set(x.Op == token.EQL, edgeFact{atoms: map[string]bool{fx: true}})
					notes = append(notes, "the two rules' "+fx+" compared in place")
				}
			case *ssa.Extract:
				if ta, ok := x.Tuple.(*ssa.TypeAssert); ok && x.Index == 1 && fromRead(ta.X) {
					set(false, edgeFact{absent: true})
				}
			case *ssa.Call:
				g := x.Call.StaticCallee()
				nAP := 0
				if g != nil {
					for _, p := range g.Params {
						if isAP(p.Type()) {
							nAP++
						}
					}
				}
				if g == nil || !load.FuncInModule(g) || nAP != 2 || len(g.Params) != 2 {
					break
				}
				guards++
				enf, paths, trues, probs := apeqCompare(c, g, apT)
				for _, p := range probs {
					problems = append(problems, g.Name()+": "+p)
				}
				var fs []string
				for fld := range enf {
					fs = append(fs, fld)
				}
				sort.Strings(fs)
				set(true, edgeFact{atoms: enf})
				notes = append(notes, fmt.Sprintf("%s (%d paths, %d answer true) answers true only after finding equal: %s", g.Name(), paths, trues, strings.Join(fs, ", ")))
			}
			facts[b] = f
		}
		if guards == 0 {
			problems = append(problems, "no comparison of the two rules guards the conflict")
		}
		// must-analysis inside the region: which fields have been found equal on every path
		inRegion := func(b *ssa.BasicBlock) bool { return region.Dominates(b) }
		top := func() map[string]bool { return map[string]bool{"mode": true, "schemaType": true, "typeName": true} }
		in := map[*ssa.BasicBlock]map[string]bool{}
		for _, b := range s.fn.Blocks {
			if inRegion(b) {
				in[b] = top()
			}
		}
		in[region] = map[string]bool{}
		edgeOut := func(b *ssa.BasicBlock, i int) map[string]bool {
			if f, ok := facts[b]; ok {
				if f[i].absent {
					return top()
				}
				out := map[string]bool{}
				for k := range in[b] {
					out[k] = true
				}
				for k := range f[i].atoms {
					out[k] = true
				}
				return out
			}
			return in[b]
		}
		for changed, rounds := true, 0; changed && rounds < 50; rounds++ {
			changed = false
			for _, b := range s.fn.Blocks {
				if !inRegion(b) || b == region {
					continue
				}
				meet := top()
				for _, p := range b.Preds {
					if !inRegion(p) {
						continue
					}
					for i, su := range p.Succs {
						if su != b {
							continue
						}
						o := edgeOut(p, i)
						for k := range meet {
							if !o[k] {
								delete(meet, k)
							}
						}
					}
				}
				if len(meet) != len(in[b]) {
					in[b] = meet
					changed = true
				}
			}
		}
		missing := map[string]bool{}
		need := func(have map[string]bool, where string) {
			for _, f := range all {
				if !have[f] && !missing[f+where] {
					missing[f+where] = true
					problems = append(problems, "the code after the comparison is reached "+where+" without the two rules' "+f+" having been found equal")
				}
			}
		}
		for _, b := range s.fn.Blocks {
			if !inRegion(b) || toPanic[b] {
				continue
			}
			if _, isRet := b.Instrs[len(b.Instrs)-1].(*ssa.Return); isRet {
				need(in[b], "(return at "+blockPos(c, b)+")")
			}
			for i, su := range b.Succs {
				if !inRegion(su) {
					need(edgeOut(b, i), "(from "+blockPos(c, b)+")")
				}
			}
		}
		sort.Strings(problems)
		sort.Strings(notes)
		if len(problems) > 0 {
			if len(problems) > 4 {
				problems = append(problems[:4], fmt.Sprintf("… and %d more", len(problems)-4))
			}
			r.Bad(key, pos, strings.Join(uniq(problems), "; ")+" ["+strings.Join(uniq(notes), "; ")+"]")
		} else {
			r.OK(key, pos, strings.Join(uniq(notes), "; "))
		}
	}
}

// apeqField names the field of an additionalProperties rule a value is read from: the result of
// an accessor (Mode, SchemaType, TypeName — possibly through String()) or a field load.
func apeqField(v ssa.Value, isAP func(types.Type) bool) string {
	for depth := 0; depth < 6; depth++ {
		switch x := v.(type) {
		case *ssa.Call:
			g := x.Call.StaticCallee()
			if g == nil || len(x.Call.Args) == 0 {
				return ""
			}
			if isAP(x.Call.Args[0].Type()) && len(x.Call.Args) == 1 {
				switch g.Name() {
				case "Mode":
					return "mode"
				case "SchemaType":
					return "schemaType"
				case "TypeName":
					return "typeName"
				}
				return ""
			}
			if g.Name() == "String" {
				v = x.Call.Args[0]
				continue
			}
			return ""
		case *ssa.UnOp:
			v = x.X
		case *ssa.Field:
			if isAP(x.X.Type()) {
				return fieldName(x.X.Type(), x.Field)
			}
			return ""
		case *ssa.FieldAddr:
			if isAP(x.X.Type()) {
				return fieldName(x.X.Type(), x.Field)
			}
			return ""
		case *ssa.ChangeType:
			v = x.X
		case *ssa.Convert:
			v = x.X
		default:
			return ""
		}
	}
	return ""
}

// blockPos: a source position for a basic block (the last instruction that has one, else a
// predecessor's).
func blockPos(c *load.Ctx, b *ssa.BasicBlock) string {
	seen := map[*ssa.BasicBlock]bool{}
	for b != nil && !seen[b] {
		seen[b] = true
		for i := len(b.Instrs) - 1; i >= 0; i-- {
			if b.Instrs[i].Pos().IsValid() {
				return c.Pos(b.Instrs[i].Pos())
			}
		}
		if len(b.Preds) == 0 {
			break
		}
		b = b.Preds[0]
	}
	return "-"
}

// --- C18: the regex type is converted to a schema with its own pattern and sample ---------------------

func init() {
	register(&Rule{ID: "RX-2", Min: 2, Run: runRX2,
		Doc: "a regex type becomes a one-line schema made of its own sample and its own pattern: in jschema.(Schema).AddType, the operands of the formatting call that writes the schema text of a regex type are the results of the type's Example() and Pattern() as they are — not wrapped, anchored, re-quoted or otherwise edited on the way (quoting is the format verb's business) — so that the added type accepts exactly what an inline {regex: P} accepts"})
}

func runRX2(c *load.Ctx, r *report.RuleResult) {
	fn := c.Func("notations/jschema", "Schema.AddType")
	if fn == nil {
		r.Unk("anchor|jschema.Schema.AddType", "", "not found")
		return
	}
	fromRegexMethod := func(v ssa.Value) (string, string) {
		for depth := 0; depth < 6; depth++ {
			switch x := v.(type) {
			case *ssa.MakeInterface:
				v = x.X
			case *ssa.ChangeType:
				v = x.X
			case *ssa.Extract:
				call, ok := x.Tuple.(*ssa.Call)
				if !ok || x.Index != 0 {
					return "", describeValue(v)
				}
				sc := call.Call.StaticCallee()
				if sc != nil && load.FuncPkgRel(sc) == "notations/regex" && sc.Signature.Recv() != nil {
					return sc.Name(), ""
				}
				return "", "the result of " + describeValue(call)
			case *ssa.Call:
				if sc := x.Call.StaticCallee(); sc != nil {
					return "", "the result of " + sc.Name() + "(…)"
				}
				return "", "the result of a call"
			case *ssa.Convert:
				return "", "a conversion of " + describeValue(x.X)
			case *ssa.BinOp:
				return "", "an expression (" + x.Op.String() + ")"
			default:
				return "", describeValue(v)
			}
		}
		return "", "?"
	}
	found := 0
	for _, b := range fn.Blocks {
		for _, ins := range b.Instrs {
			call, ok := ins.(*ssa.Call)
			if !ok {
				continue
			}
			sc := call.Call.StaticCallee()
			if sc == nil || sc.Pkg == nil || sc.Pkg.Pkg.Path() != "fmt" || sc.Name() != "Sprintf" || len(call.Call.Args) != 2 {
				continue
			}
			// the variadic operands: stores into the backing array of the slice
			sl, ok := call.Call.Args[1].(*ssa.Slice)
			if !ok {
				continue
			}
			al, ok := sl.X.(*ssa.Alloc)
			if !ok {
				continue
			}
			var methods []string
			var problems []string
			for _, ref := range *al.Referrers() {
				ia, ok := ref.(*ssa.IndexAddr)
				if !ok {
					continue
				}
				for _, r2 := range *ia.Referrers() {
					st, ok := r2.(*ssa.Store)
					if !ok {
						continue
					}
					m, why := fromRegexMethod(st.Val)
					if m != "" {
						methods = append(methods, m)
					} else {
						problems = append(problems, why)
					}
				}
			}
			if len(methods) == 0 {
				continue // another Sprintf of AddType (error texts)
			}
			found++
			sort.Strings(methods)
			key := "regex-type-text|operands"
			switch {
			case len(problems) > 0:
				r.Bad(key, c.Pos(call.Pos()), "the schema text of a regex type is formatted from "+strings.Join(problems, " and ")+" besides "+strings.Join(methods, ", ")+"(): the pattern or the sample is edited before it is written, so the added type no longer means what the inline rule means")
			case strings.Join(methods, ",") != "Example,Pattern":
				r.Bad(key, c.Pos(call.Pos()), "the schema text of a regex type is formatted from "+strings.Join(methods, ", ")+"; expected the type's Example() and Pattern()")
			default:
				r.OK(key, c.Pos(call.Pos()), "formatted from Example() and Pattern() as they are")
			}
		}
	}
	if found == 0 {
		r.Bad("regex-type-text|operands", c.Pos(fn.Pos()), "AddType no longer formats the schema text of a regex type from the type's own Example() and Pattern() results")
	} else {
		r.OK("regex-type-text|site", c.Pos(fn.Pos()), fmt.Sprintf("%d formatting call(s) take results of regex.Schema methods", found))
	}
}
