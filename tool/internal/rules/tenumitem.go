package rules

import (
	"fmt"
	"go/types"
	"strings"

	"verif/internal/load"
	"verif/internal/pe"
	"verif/internal/report"
)

// T-enumitem — an enum item keeps the text it was written with.

func init() {
	register(&Rule{ID: "T-enumitem", Min: 3, Run: runTEnumItem,
		Doc: "an enum item is stored as it was written: constraint.NewEnumItem, interpreted with the item's JSON kind as an atom, keeps as the item's value the decoded string for a string item and the (blank-trimmed) source text for every other kind — the value is what Enum.ASTNode renders and what the duplicate check and membership compare, so a number item re-spelled in normal form (1.50 as 1.5) shows in the AST as something the author did not write and makes the named rule differ from its inline spelling"})
}

func runTEnumItem(c *load.Ctx, r *report.RuleResult) {
	fn := c.Func(pkgConstraint, "NewEnumItem")
	if fn == nil {
		r.Unk("anchor|constraint.NewEnumItem", "", "not found")
		return
	}
	pos := c.Pos(fn.Pos())
	e := newTableEnv(c)
	name := func(v pe.Value) string { return strings.Trim(pe.Show(v), "‹›") }
	for _, m := range []string{"TrimSpaces", "Unquote"} {
		m := m
		if f := c.Func(pkgBytes, "Bytes."+m); f != nil {
			e.cfg.Intrinsics[f.String()] = func(in *pe.Interp, args []pe.Value) (pe.Value, bool) {
				return pe.NewSym(strings.ToLower(m)+"("+name(args[0])+")", f.Signature.Results().At(0).Type()), true
			}
		}
	}
	if f := c.Func(pkgBytes, "Bytes.String"); f != nil {
		e.cfg.Intrinsics[f.String()] = func(in *pe.Interp, args []pe.Value) (pe.Value, bool) {
			return pe.NewSym("text("+name(args[0])+")", types.Typ[types.String]), true
		}
	}
	jsonTypeT := namedType(c, pkgJSON, "Type")
	if f := c.Func(pkgJSON, "Guess"); f != nil {
		e.cfg.Opaque[f.String()] = true
	}
	for _, m := range []string{"GuessData.JsonType", "GuessData.LiteralJsonType"} {
		if f := c.Func(pkgJSON, m); f != nil && jsonTypeT != nil {
			e.cfg.Intrinsics[f.String()] = func(in *pe.Interp, args []pe.Value) (pe.Value, bool) {
				return pe.NewSym("kind", jsonTypeT), true
			}
		}
	}
	if f := c.Func(pkgJSON, "Number.String"); f != nil {
		e.cfg.Intrinsics[f.String()] = func(in *pe.Interp, args []pe.Value) (pe.Value, bool) {
			return pe.NewSym("normalform("+name(args[0])+")", types.Typ[types.String]), true
		}
	}
	outs := pe.ExploreFn(e.cfg, func(in *pe.Interp) pe.Value {
		return in.Call(fn, []pe.Value{pe.NewSym("b", fn.Params[0].Type()), pe.NewSym("c", fn.Params[1].Type())})
	})
	counts := map[string]int{}
	bad := map[string]string{}
	for _, o := range outs {
		val := o.ChoiceMap()
		kind := val["kind"]
		cls := "other"
		if kind == "TypeString" {
			cls = "string"
		} else if kind == "TypeInteger" || kind == "TypeFloat" {
			cls = "number"
		}
		key := "enumitem|" + cls
		counts[key]++
		if bad[key] != "" {
			continue
		}
		if o.Undecided != "" || o.Panicked {
			bad[key] = "not interpretable: " + o.Exit()
			continue
		}
		sv, ok := o.Ret.(*pe.StructV)
		if !ok {
			bad[key] = "unexpected result " + pe.Show(o.Ret)
			continue
		}
		got := ""
		var walk func(v *pe.StructV)
		walk = func(v *pe.StructV) {
			st := v.T.Underlying().(*types.Struct)
			for i := 0; i < st.NumFields(); i++ {
				if st.Field(i).Name() == "value" {
					got = name(v.F[i])
				}
				if inner, ok := v.F[i].(*pe.StructV); ok {
					walk(inner)
				}
			}
		}
		walk(sv)
		want := "text(trimspaces(b))"
		if cls == "string" {
			want = "text(unquote(trimspaces(b)))"
		}
		if got != want {
			bad[key] = fmt.Sprintf("a %s item (kind %s) is stored as %s; as written it is %s", cls, kind, got, want)
		}
	}
	for _, k := range sortedKeys(counts) {
		if bad[k] != "" {
			r.Bad(k, pos, bad[k])
		} else {
			r.OK(k, pos, fmt.Sprintf("%d path(s)", counts[k]))
		}
	}
	if len(counts) == 0 {
		r.Unk("anchor|paths", pos, "no path")
	}
}

var _ = load.Module
