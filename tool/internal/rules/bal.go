package rules

import (
	"fmt"
	"go/token"
	"go/types"
	"sort"

	"golang.org/x/tools/go/ssa"

	"verif/internal/load"
	"verif/internal/report"
)

// BAL-1 — an "in progress" mark on a type name is taken off again on every way out.
//
// The recursion checker and the example builder walk user-type references with a per-walk set
// (`visited`) resp. counter (`processedTypes`) keyed by the type name: the mark is what stops a cycle,
// and taking it off again when the walk of that type is over is what lets the same type be met again
// on another branch (a diamond `@main {x: @a, y: @b}`, `@a {p: @b}` is not a cycle). The rule finds
// the marks and un-marks from the code (a map field of a module struct that some function of the
// module both puts an entry into, or counts up, and deletes from, or counts down), and requires on
// every path from a mark to a return of the marking function an un-mark of the same map: a direct
// call, a deferred call, or a deferred closure that does it.

func init() {
	register(&Rule{ID: "BAL-1", Min: 4, Run: runBAL1,
		Doc: "a mark put on a type name while its definition is being walked (an entry in a `visited` set, a count in a `processedTypes` map: any map field of a library struct that the library both marks and un-marks) is taken off on every way out of the marking function: every path from the mark — from the branch on which the marking helper reports success, when it reports — to a return passes an un-mark of the same map, directly, deferred, or in a deferred closure. A mark left behind on an early return makes the next, unrelated occurrence of that type look like a cycle (Check refuses an acyclic diamond of references; Example cuts a member off)"})
}

type balField struct {
	owner *types.Named
	field string
}

func (f balField) String() string {
	return f.owner.Obj().Name() + "." + f.field
}

// mapFieldOf resolves a map-typed SSA value to the struct field it was loaded from.
func mapFieldOf(v ssa.Value) (balField, bool) {
	for i := 0; i < 4; i++ {
		switch x := v.(type) {
		case *ssa.UnOp:
			if x.Op != token.MUL {
				return balField{}, false
			}
			fa, ok := x.X.(*ssa.FieldAddr)
			if !ok {
				return balField{}, false
			}
			pt, ok := fa.X.Type().Underlying().(*types.Pointer)
			if !ok {
				return balField{}, false
			}
			nt, ok := pt.Elem().(*types.Named)
			if !ok || nt.Obj().Pkg() == nil || !load.InModule(nt.Obj().Pkg()) {
				return balField{}, false
			}
			st, ok := nt.Underlying().(*types.Struct)
			if !ok {
				return balField{}, false
			}
			return balField{nt, st.Field(fa.Field).Name()}, true
		case *ssa.Field:
			nt, ok := x.X.Type().(*types.Named)
			if !ok || nt.Obj().Pkg() == nil || !load.InModule(nt.Obj().Pkg()) {
				return balField{}, false
			}
			st, ok := nt.Underlying().(*types.Struct)
			if !ok {
				return balField{}, false
			}
			return balField{nt, st.Field(x.Field).Name()}, true
		case *ssa.ChangeType:
			v = x.X
		default:
			return balField{}, false
		}
	}
	return balField{}, false
}

type balOp struct {
	kind string // "mark" | "unmark"
	f    balField
}

// balOpOf classifies one instruction as a direct mark / un-mark of a map field.
func balOpOf(ins ssa.Instruction) (balOp, bool) {
	switch x := ins.(type) {
	case *ssa.MapUpdate:
		f, ok := mapFieldOf(x.Map)
		if !ok {
			return balOp{}, false
		}
		// m[k] = m[k] - c  is an un-mark; every other store is a mark
		if bo, ok := x.Value.(*ssa.BinOp); ok && bo.Op == token.SUB {
			if lk, ok := bo.X.(*ssa.Lookup); ok {
				if g, ok := mapFieldOf(lk.X); ok && g == f {
					return balOp{"unmark", f}, true
				}
			}
		}
		return balOp{"mark", f}, true
	case *ssa.Call:
		if b, ok := x.Call.Value.(*ssa.Builtin); ok && b.Name() == "delete" && len(x.Call.Args) == 2 {
			if f, ok := mapFieldOf(x.Call.Args[0]); ok {
				return balOp{"unmark", f}, true
			}
		}
	}
	return balOp{}, false
}

func runBAL1(c *load.Ctx, r *report.RuleResult) {
	fns := c.ModuleFunctions()
	// 1. direct operations per function
	direct := map[*ssa.Function][]balOp{}
	marked, unmarked := map[balField]bool{}, map[balField]bool{}
	for _, fn := range fns {
		if load.IsAux(load.FuncPkgRel(fn)) {
			continue
		}
		for _, b := range fn.Blocks {
			for _, ins := range b.Instrs {
				if op, ok := balOpOf(ins); ok {
					direct[fn] = append(direct[fn], op)
					if op.kind == "mark" {
						marked[op.f] = true
					} else {
						unmarked[op.f] = true
					}
				}
			}
		}
	}
	paired := map[balField]bool{}
	for f := range marked {
		if unmarked[f] {
			paired[f] = true
		}
	}
	// 2. helpers: a function whose only business with a paired field is marking resp. un-marking it, keyed
	// by one of its parameters (visit / leave)
	helper := map[*ssa.Function]balOp{}
	for fn, ops := range direct {
		if fn.Parent() != nil {
			continue
		}
		kinds := map[string]balField{}
		for _, op := range ops {
			if paired[op.f] {
				kinds[op.kind] = op.f
			}
		}
		if len(kinds) == 1 {
			for k, f := range kinds {
				helper[fn] = balOp{k, f}
			}
		}
	}
	// which result of a marking helper says "marked": the helper returns a bool and the mark is on the
	// paths that return true — decided by which constant is returned from blocks the mark dominates
	markedWhen := func(h *ssa.Function) (reports bool, val bool) {
		res := h.Signature.Results()
		if res.Len() != 1 || !types.Identical(res.At(0).Type(), types.Typ[types.Bool]) {
			return false, false
		}
		var markBlocks []*ssa.BasicBlock
		for _, b := range h.Blocks {
			for _, ins := range b.Instrs {
				if op, ok := balOpOf(ins); ok && op.kind == "mark" && paired[op.f] {
					markBlocks = append(markBlocks, b)
				}
			}
		}
		seenT, seenF := false, false
		for _, b := range h.Blocks {
			ret, ok := b.Instrs[len(b.Instrs)-1].(*ssa.Return)
			if !ok || len(ret.Results) != 1 {
				continue
			}
			k, ok := ret.Results[0].(*ssa.Const)
			if !ok {
				return false, false
			}
			after := false
			for _, mb := range markBlocks {
				if mb == b || mb.Dominates(b) {
					after = true
				}
			}
			if after {
				if k.Value != nil && k.Value.String() == "true" {
					seenT = true
				} else {
					seenF = true
				}
			}
		}
		if seenT != seenF {
			return true, seenT
		}
		return false, false
	}
	// does a deferred closure (or function) un-mark f?
	// does calling (or deferring) fn take the mark on f off? Only an un-marking helper (a function whose
	// whole business with the map is the un-mark) or a function literal that does it directly — not any
	// function that somewhere below balances marks of its own (the recursive descent itself does that)
	var unmarks func(fn *ssa.Function, f balField, depth int) bool
	unmarks = func(fn *ssa.Function, f balField, depth int) bool {
		if fn == nil || depth > 1 {
			return false
		}
		if h, ok := helper[fn]; ok && h.kind == "unmark" && h.f == f {
			return true
		}
		if fn.Parent() == nil {
			return false
		}
		marksToo := false
		un := false
		for _, op := range direct[fn] {
			if op.f != f {
				continue
			}
			if op.kind == "unmark" {
				un = true
			} else {
				marksToo = true
			}
		}
		if un && !marksToo {
			return true
		}
		for _, b := range fn.Blocks {
			for _, ins := range b.Instrs {
				if call, ok := ins.(ssa.CallInstruction); ok {
					if cal := call.Common().StaticCallee(); cal != nil && cal != fn {
						if h, ok := helper[cal]; ok && h.kind == "unmark" && h.f == f {
							return true
						}
					}
				}
			}
		}
		return false
	}
	calleeOf := func(cc *ssa.CallCommon) *ssa.Function {
		if f := cc.StaticCallee(); f != nil {
			return f
		}
		if mc, ok := cc.Value.(*ssa.MakeClosure); ok {
			if f, ok := mc.Fn.(*ssa.Function); ok {
				return f
			}
		}
		return nil
	}
	// a marking helper does nothing but mark: a function that also takes the mark off (deferred) is a site
	for fn, h := range helper {
		if h.kind != "mark" {
			continue
		}
		for _, b := range fn.Blocks {
			for _, ins := range b.Instrs {
				if call, ok := ins.(ssa.CallInstruction); ok {
					if unmarks(calleeOf(call.Common()), h.f, 0) {
						delete(helper, fn)
					}
				}
			}
		}
	}
	// the marks that guard a recursive walk: the marking function can reach itself, and it (or its marking
	// helper) consults the same map before it marks
	cg := c.VTA()
	recursive := func(fn *ssa.Function) bool {
		start := cg.Nodes[fn]
		if start == nil {
			return false
		}
		seen := map[*ssa.Function]bool{}
		stack := []*ssa.Function{}
		for _, e := range start.Out {
			stack = append(stack, e.Callee.Func)
		}
		for len(stack) > 0 {
			f := stack[len(stack)-1]
			stack = stack[:len(stack)-1]
			if f == fn {
				return true
			}
			if f == nil || seen[f] || !load.FuncInModule(f) {
				continue
			}
			seen[f] = true
			if n := cg.Nodes[f]; n != nil {
				for _, e := range n.Out {
					stack = append(stack, e.Callee.Func)
				}
			}
		}
		return false
	}
	consults := func(fn *ssa.Function, f balField) bool {
		for _, b := range fn.Blocks {
			for _, ins := range b.Instrs {
				if lk, ok := ins.(*ssa.Lookup); ok {
					if g, ok := mapFieldOf(lk.X); ok && g == f {
						return true
					}
				}
			}
		}
		return false
	}
	// 3. obligations: every mark site in a function that is not itself a helper
	type site struct {
		fn   *ssa.Function
		ins  ssa.Instruction
		f    balField
		what string
	}
	var sites []site
	for _, fn := range fns {
		if load.IsAux(load.FuncPkgRel(fn)) || fn.Blocks == nil {
			continue
		}
		if _, isHelper := helper[fn]; isHelper {
			continue
		}
		for _, b := range fn.Blocks {
			for _, ins := range b.Instrs {
				if op, ok := balOpOf(ins); ok && op.kind == "mark" && paired[op.f] {
					if consults(fn, op.f) && recursive(fn) {
						sites = append(sites, site{fn, ins, op.f, "store"})
					}
					continue
				}
				if call, ok := ins.(*ssa.Call); ok {
					if cal := call.Call.StaticCallee(); cal != nil {
						if h, ok := helper[cal]; ok && h.kind == "mark" && (consults(cal, h.f) || consults(fn, h.f)) && recursive(fn) {
							sites = append(sites, site{fn, ins, h.f, "call " + cal.Name()})
						}
					}
				}
			}
		}
	}
	sort.Slice(sites, func(i, j int) bool { return sites[i].ins.Pos() < sites[j].ins.Pos() })
	perKey := map[string]int{}
	for _, s := range sites {
		key := fmt.Sprintf("balance|%s|%s|%s", load.FuncKey(s.fn), s.f, s.what)
		perKey[key]++
		if perKey[key] > 1 {
			key += fmt.Sprintf("#%d", perKey[key])
		}
		pos := c.Pos(s.ins.Pos())
		isUnmark := func(ins ssa.Instruction) bool {
			if op, ok := balOpOf(ins); ok && op.kind == "unmark" && op.f == s.f {
				return true
			}
			switch x := ins.(type) {
			case *ssa.Call:
				return unmarks(calleeOf(&x.Call), s.f, 0)
			case *ssa.Defer:
				return unmarks(calleeOf(&x.Call), s.f, 0)
			}
			return false
		}
		// where the walk starts: after the mark, or — when the marking helper reports — on the branch on
		// which it reports success
		type start struct {
			b   *ssa.BasicBlock
			idx int
		}
		var starts []start
		blk := s.ins.Block()
		idx := 0
		for i, x := range blk.Instrs {
			if x == s.ins {
				idx = i + 1
			}
		}
		starts = []start{{blk, idx}}
		note := ""
		var alternatives [][]start // polarity unknown: the mark is on one of the two branches
		if call, ok := s.ins.(*ssa.Call); ok {
			callee := call.Call.StaticCallee()
			res := callee.Signature.Results()
			if res.Len() == 1 && types.Identical(res.At(0).Type(), types.Typ[types.Bool]) {
				reports, val := markedWhen(callee)
				// find the If that tests the result (directly or negated)
				var cond ssa.Value = call
				neg := false
				found := false
				for _, ref := range *call.Referrers() {
					if u, ok := ref.(*ssa.UnOp); ok && u.Op == token.NOT {
						for _, r2 := range *u.Referrers() {
							if _, ok := r2.(*ssa.If); ok {
								cond, neg, found = u, true, true
							}
						}
					}
					if _, ok := ref.(*ssa.If); ok {
						found = true
					}
				}
				if found {
					for _, ref := range *cond.Referrers() {
						if iff, ok := ref.(*ssa.If); ok {
							tb := iff.Block().Succs[0]
							fb := iff.Block().Succs[1]
							if reports {
								want := val != neg // the successor on which the helper's result equals val
								if want {
									starts = []start{{tb, 0}}
								} else {
									starts = []start{{fb, 0}}
								}
								note = " on the branch on which " + callee.Name() + " reports the mark"
							} else {
								// which answer means "marked" is not a constant of the helper (`return !seen`): the
								// mark is on one of the two branches, and that one must be clean
								alternatives = [][]start{{{tb, 0}}, {{fb, 0}}}
								note = " on one of the two branches of the test of " + callee.Name() + "'s answer"
							}
						}
					}
				}
			}
		}
		// DFS
		leakFrom := func(sts []start) ssa.Instruction {
			seen := map[*ssa.BasicBlock]bool{}
			var leak ssa.Instruction
			var walk func(b *ssa.BasicBlock, from int)
			walk = func(b *ssa.BasicBlock, from int) {
				if leak != nil {
					return
				}
				if from == 0 {
					if seen[b] {
						return
					}
					seen[b] = true
				}
				for i := from; i < len(b.Instrs); i++ {
					ins := b.Instrs[i]
					if isUnmark(ins) {
						return
					}
					if _, ok := ins.(*ssa.Return); ok {
						leak = ins
						return
					}
				}
				for _, sb := range b.Succs {
					walk(sb, 0)
				}
			}
			for _, st := range sts {
				walk(st.b, st.idx)
			}
			return leak
		}
		var leak ssa.Instruction
		if len(alternatives) > 0 {
			for _, alt := range alternatives {
				leak = leakFrom(alt)
				if leak == nil {
					break
				}
			}
		} else {
			leak = leakFrom(starts)
		}
		if leak != nil {
			r.Bad(key, pos, fmt.Sprintf("the mark on %s (%s)%s reaches the return at %s without being taken off", s.f, s.what, note, c.Pos(leak.Pos())))
		} else {
			r.OK(key, pos, fmt.Sprintf("every return after the mark on %s%s is behind an un-mark", s.f, note))
		}
	}
}
