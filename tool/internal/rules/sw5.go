package rules

import (
	"fmt"
	"go/types"
	"strings"

	"golang.org/x/tools/go/ssa"

	"verif/internal/load"
	"verif/internal/report"
)

// SW-5 — an object handed to the API as an argument is not configured by the callee.

func init() {
	register(&Rule{ID: "SW-5", Min: 2, Run: runSW5,
		Doc: "a schema, rule or document passed as an argument stays as its owner made it: no exported function or method of the public packages stores into a field of an object it received as a (non-receiver) argument — directly or after a type assertion — other than through that object's own methods; copying an option of the root onto an added type (keys optional by default) changes what the type means for its owner and for every other root it is added to, depending on who loaded it first"})
}

func runSW5(c *load.Ctx, r *report.RuleResult) {
	n := 0
	for _, fn := range c.ModuleFunctions() {
		rel := load.FuncPkgRel(fn)
		if load.IsAux(rel) || strings.Contains(rel, "internal") || fn.Parent() != nil {
			continue
		}
		obj := fn.Object()
		if obj == nil || !obj.Exported() {
			continue
		}
		start := 0
		if fn.Signature.Recv() != nil {
			start = 1
		}
		// values derived from a non-receiver parameter that is an interface or a pointer to a module struct
		derived := map[ssa.Value]string{}
		for _, p := range fn.Params[start:] {
			switch t := p.Type().Underlying().(type) {
			case *types.Interface:
				derived[p] = p.Name()
			case *types.Pointer:
				if nt, ok := t.Elem().(*types.Named); ok && nt.Obj().Pkg() != nil && load.InModule(nt.Obj().Pkg()) {
					derived[p] = p.Name()
				}
			}
		}
		if len(derived) == 0 {
			continue
		}
		n++
		for changed := true; changed; {
			changed = false
			for _, b := range fn.Blocks {
				for _, ins := range b.Instrs {
					v, ok := ins.(ssa.Value)
					if !ok || derived[v] != "" {
						continue
					}
					var src ssa.Value
					switch x := ins.(type) {
					case *ssa.TypeAssert:
						src = x.X
					case *ssa.Extract:
						src = x.Tuple
					case *ssa.ChangeInterface:
						src = x.X
					case *ssa.Phi:
						for _, e := range x.Edges {
							if derived[e] != "" {
								src = e
							}
						}
					}
					if src != nil && derived[src] != "" {
						derived[v] = derived[src]
						changed = true
					}
				}
			}
		}
		var bad []string
		for _, b := range fn.Blocks {
			for _, ins := range b.Instrs {
				st, ok := ins.(*ssa.Store)
				if !ok {
					continue
				}
				fa, ok := st.Addr.(*ssa.FieldAddr)
				if !ok {
					continue
				}
				if who := derived[fa.X]; who != "" {
					bad = append(bad, fmt.Sprintf("stores into field %s of its argument %s at %s", fieldName(fa.X.Type(), fa.Field), who, c.Pos(st.Pos())))
				}
			}
		}
		key := "argwrite|" + load.FuncKey(fn)
		if len(bad) > 0 {
			r.Bad(key, c.Pos(fn.Pos()), strings.Join(uniq(bad), "; ")+": the object belongs to the caller, who may use it on its own and add it to other roots")
		} else {
			r.OK(key, c.Pos(fn.Pos()), "no field of an argument object is stored to")
		}
	}
	r.Stat("functions", n)
}
