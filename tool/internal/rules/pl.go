package rules

import (
	"fmt"
	"go/types"
	"sort"
	"strings"

	"golang.org/x/tools/go/ssa"

	"verif/internal/load"
	"verif/internal/report"
)

// PL — pooled objects.

func init() {
	register(&Rule{ID: "PL-1", Min: 2, Run: runPL1,
		Doc: "bytes of a pooled buffer never outlive its return to the pool: in a function that obtains a *bytes.Buffer from a pool and puts it back (directly or deferred), no alias of the buffer's storage (Bytes(), slices of it, append onto it) is returned, stored to longer-lived memory or captured; copies (append to another slice, string(), bytes.Clone) are fine"})
	register(&Rule{ID: "PL-2", Min: 5, Run: runPL2,
		Doc: "pooled loader objects are fully reset: every field of the pooled struct is assigned in its reset method, so no state of a previous schema is carried into the next"})
}

func isPoolGet(c *ssa.CallCommon) bool {
	sc := c.StaticCallee()
	if sc == nil {
		return false
	}
	if sc.Name() != "Get" || sc.Signature.Recv() == nil {
		return false
	}
	rt := sc.Signature.Recv().Type()
	if p, ok := rt.(*types.Pointer); ok {
		rt = p.Elem()
	}
	n, ok := rt.(*types.Named)
	if !ok || n.Obj().Pkg() == nil {
		return false
	}
	switch n.Obj().Pkg().Path() + "." + n.Obj().Name() {
	case "sync.Pool", load.Module + "/internal/sync.BufferPool":
		return true
	}
	return false
}

func isPoolPut(c *ssa.CallCommon) bool {
	sc := c.StaticCallee()
	if sc == nil || sc.Name() != "Put" || sc.Signature.Recv() == nil {
		return false
	}
	rt := sc.Signature.Recv().Type()
	if p, ok := rt.(*types.Pointer); ok {
		rt = p.Elem()
	}
	n, ok := rt.(*types.Named)
	if !ok || n.Obj().Pkg() == nil {
		return false
	}
	switch n.Obj().Pkg().Path() + "." + n.Obj().Name() {
	case "sync.Pool", load.Module + "/internal/sync.BufferPool":
		return true
	}
	return false
}

func runPL1(c *load.Ctx, r *report.RuleResult) {
	for _, fn := range c.ModuleFunctions() {
		if load.FuncPkgRel(fn) == "internal/sync" {
			continue // the pool wrapper itself
		}
		// pooled values obtained in this function
		var pooled []ssa.Value
		for _, b := range fn.Blocks {
			for _, ins := range b.Instrs {
				if call, ok := ins.(*ssa.Call); ok && isPoolGet(&call.Call) {
					pooled = append(pooled, call)
				}
			}
		}
		if len(pooled) == 0 {
			continue
		}
		fkey := load.FuncKey(fn)
		for pi, pv := range pooled {
			key := fmt.Sprintf("pool|%s|get#%d", fkey, pi+1)
			// aliases of the pooled object itself (type assertions, phis)
			obj := map[ssa.Value]bool{pv: true}
			changed := true
			for changed {
				changed = false
				for v := range obj {
					for _, ref := range *v.Referrers() {
						switch x := ref.(type) {
						case *ssa.TypeAssert, *ssa.Phi, *ssa.ChangeType, *ssa.ChangeInterface, *ssa.MakeInterface, *ssa.Extract:
							if xv := x.(ssa.Value); !obj[xv] {
								obj[xv] = true
								changed = true
							}
						}
					}
				}
			}
			putBack := false
			for v := range obj {
				for _, ref := range *v.Referrers() {
					switch x := ref.(type) {
					case *ssa.Call:
						if isPoolPut(&x.Call) {
							putBack = true
						}
					case *ssa.Defer:
						if isPoolPut(&x.Call) {
							putBack = true
						}
					}
				}
			}
			if !putBack {
				// ownership is transferred to the caller or kept: escaping is then legitimate here
				r.OK(key, c.Pos(pv.Pos()), "obtained from the pool and not returned to it in this function (ownership moves with the value)")
				continue
			}
			// storage aliases: results of Bytes()/Next()/… on the pooled buffer that alias its storage
			taint := map[ssa.Value]string{}
			for v := range obj {
				for _, ref := range *v.Referrers() {
					if call, ok := ref.(*ssa.Call); ok {
						if sc := call.Call.StaticCallee(); sc != nil && sc.Signature.Recv() != nil && len(call.Call.Args) > 0 && call.Call.Args[0] == v {
							if aliasingBufferMethod(sc) {
								taint[call] = sc.Name() + "()"
							}
						}
					}
				}
			}
			changed = true
			for changed {
				changed = false
				for v, why := range taint {
					for _, ref := range *v.Referrers() {
						var nv ssa.Value
						switch x := ref.(type) {
						case *ssa.Slice:
							if x.X == v {
								nv = x
							}
						case *ssa.Phi:
							nv = x
						case *ssa.ChangeType:
							nv = x
						case *ssa.Convert:
							if _, isSlice := x.Type().Underlying().(*types.Slice); isSlice {
								nv = x
							}
						case *ssa.MakeInterface:
							nv = x
						case *ssa.Extract:
							nv = x
						case *ssa.Store:
							// through a local cell (e.g. results spilled around deferred calls)
							if x.Val == v {
								if a, ok := x.Addr.(*ssa.Alloc); ok {
									for _, ar := range *a.Referrers() {
										if u, ok := ar.(*ssa.UnOp); ok {
											if _, seen := taint[u]; !seen {
												taint[u] = why
												changed = true
											}
										}
									}
								}
							}
						case *ssa.Call:
							// append(tainted, …) may alias; append(other, tainted…) copies
							if b, ok := x.Call.Value.(*ssa.Builtin); ok && b.Name() == "append" && len(x.Call.Args) > 0 && x.Call.Args[0] == v {
								nv = x
							}
						}
						if nv != nil {
							if _, ok := taint[nv]; !ok {
								taint[nv] = why
								changed = true
							}
						}
					}
				}
			}
			var leaks []string
			for v, why := range taint {
				for _, ref := range *v.Referrers() {
					switch x := ref.(type) {
					case *ssa.Return:
						leaks = append(leaks, fmt.Sprintf("returns the buffer's storage (%s) at %s", why, c.Pos(x.Pos())))
					case *ssa.Store:
						if x.Val == v && !isLocalAlloc(x.Addr) {
							leaks = append(leaks, fmt.Sprintf("stores the buffer's storage (%s) to longer-lived memory at %s", why, c.Pos(x.Pos())))
						}
					case *ssa.MapUpdate:
						if x.Value == v || x.Key == v {
							leaks = append(leaks, fmt.Sprintf("puts the buffer's storage (%s) into a map at %s", why, c.Pos(x.Pos())))
						}
					case *ssa.MakeClosure:
						leaks = append(leaks, fmt.Sprintf("captures the buffer's storage (%s) in a closure at %s", why, c.Pos(x.Pos())))
					case *ssa.Send:
						leaks = append(leaks, fmt.Sprintf("sends the buffer's storage (%s) on a channel at %s", why, c.Pos(x.Pos())))
					}
				}
			}
			if len(leaks) > 0 {
				sort.Strings(leaks)
				r.Bad(key, c.Pos(pv.Pos()), "the buffer goes back to the pool while "+strings.Join(uniq(leaks), "; ")+": the bytes handed out are overwritten by the next user of the pool (and raced on by concurrent users)")
			} else {
				r.OK(key, c.Pos(pv.Pos()), "no alias of the pooled storage escapes")
			}
		}
	}
}

func aliasingBufferMethod(f *ssa.Function) bool {
	rt := f.Signature.Recv().Type()
	if p, ok := rt.(*types.Pointer); ok {
		rt = p.Elem()
	}
	n, ok := rt.(*types.Named)
	if !ok || n.Obj().Pkg() == nil {
		return false
	}
	if n.Obj().Pkg().Path() == "bytes" && n.Obj().Name() == "Buffer" {
		switch f.Name() {
		case "Bytes", "Next", "AvailableBuffer":
			return true
		}
	}
	return false
}

func isLocalAlloc(addr ssa.Value) bool {
	switch a := addr.(type) {
	case *ssa.Alloc:
		return !a.Heap
	case *ssa.FieldAddr:
		return isLocalAlloc(a.X)
	case *ssa.IndexAddr:
		return isLocalAlloc(a.X)
	}
	return false
}

func runPL2(c *load.Ctx, r *report.RuleResult) {
	// pooled struct types: those whose pointer is the result of a sync.Pool New function / is Put
	// into a pool; found through Put call sites whose argument is a pointer to a module struct.
	found := map[*types.Named]bool{}
	for _, fn := range c.ModuleFunctions() {
		for _, b := range fn.Blocks {
			for _, ins := range b.Instrs {
				var cc *ssa.CallCommon
				switch x := ins.(type) {
				case *ssa.Call:
					cc = &x.Call
				case *ssa.Defer:
					cc = &x.Call
				}
				if cc == nil || !isPoolPut(cc) || len(cc.Args) < 2 {
					continue
				}
				arg := cc.Args[1]
				if mi, ok := arg.(*ssa.MakeInterface); ok {
					arg = mi.X
				}
				if pt, ok := arg.Type().(*types.Pointer); ok {
					if n, ok := pt.Elem().(*types.Named); ok && load.InModule(n.Obj().Pkg()) {
						if _, isStruct := n.Underlying().(*types.Struct); isStruct {
							found[n] = true
						}
					}
				}
			}
		}
	}
	if len(found) == 0 {
		r.Unk("anchor|pooled structs", "", "no module struct is put into a pool")
		return
	}
	var list []*types.Named
	for n := range found {
		list = append(list, n)
	}
	sort.Slice(list, func(i, j int) bool { return list[i].Obj().Name() < list[j].Obj().Name() })
	for _, n := range list {
		rel := load.Rel(n.Obj().Pkg().Path())
		reset := c.Func(rel, n.Obj().Name()+".reset")
		if reset == nil {
			r.Unk("reset|"+rel+"."+n.Obj().Name(), c.Pos(n.Obj().Pos()), "pooled struct has no reset method")
			continue
		}
		assigned := map[string]bool{}
		for _, b := range reset.Blocks {
			for _, ins := range b.Instrs {
				if st, ok := ins.(*ssa.Store); ok {
					if fa, ok := st.Addr.(*ssa.FieldAddr); ok {
						if p, ok := fa.X.(*ssa.Parameter); ok && p == reset.Params[0] {
							assigned[fieldName(fa.X.Type(), fa.Field)] = true
						}
					}
				}
			}
		}
		st := n.Underlying().(*types.Struct)
		for i := 0; i < st.NumFields(); i++ {
			f := st.Field(i)
			key := fmt.Sprintf("reset|%s.%s.%s", rel, n.Obj().Name(), f.Name())
			if assigned[f.Name()] {
				r.OK(key, c.Pos(f.Pos()), "assigned in reset()")
			} else {
				r.Bad(key, c.Pos(f.Pos()), "field of a pooled object is not assigned in reset(): its value survives into the next use of the object")
			}
		}
	}
}

func init() {
	register(&Rule{ID: "PL-3", Min: 2, Run: runPL3,
		Doc: "a JSON document is rewound around whole-document operations: Document.check and Document.computeLen call rewind() before draining the scanner (the call dominates every scanner use) and defer rewind(), so Check/Len neither depend on nor disturb an interleaved NextLexeme stream"})
}

func runPL3(c *load.Ctx, r *report.RuleResult) {
	const rel = "formats/json"
	rewind := c.Func(rel, "Document.rewind")
	if rewind == nil {
		r.Unk("anchor|json.Document.rewind", "", "not found")
		return
	}
	for _, name := range []string{"Document.check", "Document.computeLen"} {
		fn := c.Func(rel, name)
		key := "rewind|" + rel + "." + name
		if fn == nil {
			r.Unk(key, "", "method not found")
			continue
		}
		pos := c.Pos(fn.Pos())
		var first []*ssa.Call
		deferred := false
		var uses []ssa.Instruction
		for _, b := range fn.Blocks {
			for _, ins := range b.Instrs {
				switch x := ins.(type) {
				case *ssa.Call:
					if x.Call.StaticCallee() == rewind {
						first = append(first, x)
					} else if sc := x.Call.StaticCallee(); sc != nil && load.FuncPkgRel(sc) == rel && sc != rewind {
						uses = append(uses, x)
					}
				case *ssa.Defer:
					if x.Call.StaticCallee() == rewind {
						deferred = true
					}
				}
			}
		}
		switch {
		case len(first) == 0:
			r.Bad(key, pos, "the document is not rewound before the scanner is drained")
		case !deferred:
			r.Bad(key, pos, "rewind() is not deferred: the document is left at its end (or mid-way on error) after the operation")
		default:
			ok := true
			for _, u := range uses {
				dom := false
				for _, f := range first {
					if dominatesInstr(f, u) {
						dom = true
					}
				}
				if !dom {
					ok = false
				}
			}
			if !ok {
				r.Bad(key, pos, "a scanner use is not dominated by the rewind() call")
			} else {
				r.OK(key, pos, fmt.Sprintf("rewind() dominates %d scanner use(s) and is deferred", len(uses)))
			}
		}
	}
}

func init() {
	register(&Rule{ID: "PL-4", Min: 3, Run: runPL4,
		Doc: "a pooled object is not touched after it went back to the pool: in every function that puts an object into a pool, no use of that object (method call, field access) is executed after the Put — counting deferred calls in their real last-in-first-out order — so reset() runs before Put, never after"})
	register(&Rule{ID: "SW-3", Min: 2, Run: runSW3,
		Doc: "once-only initialisation is inherited from sync.Once: every Do method of the once-wrappers in internal/sync runs the caller's function only inside the function value it hands to (*sync.Once).Do, stores the results there, and returns the stored results afterwards — so the first use completes before any caller sees a result, and it happens exactly once"})
}

func runPL4(c *load.Ctx, r *report.RuleResult) {
	for _, fn := range c.ModuleFunctions() {
		if load.FuncPkgRel(fn) == "internal/sync" {
			continue
		}
		// Put sites: direct calls and defers in fn or its closures are handled in the function that
		// contains them; the pooled value is the Put argument (through MakeInterface)
		type putSite struct {
			ins  ssa.Instruction
			arg  ssa.Value
			isDf bool
		}
		var puts []putSite
		for _, b := range fn.Blocks {
			for _, ins := range b.Instrs {
				var cc *ssa.CallCommon
				isDf := false
				switch x := ins.(type) {
				case *ssa.Call:
					cc = &x.Call
				case *ssa.Defer:
					cc, isDf = &x.Call, true
				}
				if cc == nil || !isPoolPut(cc) || len(cc.Args) < 2 {
					continue
				}
				arg := cc.Args[len(cc.Args)-1]
				if mi, ok := arg.(*ssa.MakeInterface); ok {
					arg = mi.X
				}
				puts = append(puts, putSite{ins, arg, isDf})
			}
		}
		for i, p := range puts {
			key := fmt.Sprintf("afterput|%s|put#%d", load.FuncKey(fn), i+1)
			var late []string
			same := func(v ssa.Value) bool { return v == p.arg || sameOrigin(v, p.arg) }
			usesObj := func(ins ssa.Instruction) bool {
				for _, op := range ins.Operands(nil) {
					if *op != nil && same(*op) {
						return true
					}
				}
				return false
			}
			for _, b := range fn.Blocks {
				for _, ins := range b.Instrs {
					if ins == p.ins || !usesObj(ins) {
						continue
					}
					if _, isDbg := ins.(*ssa.DebugRef); isDbg {
						continue
					}
					switch {
					case !p.isDf:
						// a plain Put: later uses on any path (dominated instructions)
						if dominatesInstr(p.ins, ins) {
							if d, isDefer := ins.(*ssa.Defer); !isDefer || d != nil {
								late = append(late, c.Pos(ins.Pos()))
							}
						}
					default:
						// a deferred Put runs before every defer registered earlier
						if d, isDefer := ins.(*ssa.Defer); isDefer && dominatesInstr(d, p.ins) {
							late = append(late, "deferred call at "+c.Pos(d.Pos())+" (registered earlier, so it runs after the Put)")
						}
					}
				}
			}
			// defers registered before a closure that contains the Put are handled at the closure's
			// function: find enclosing function's earlier defers using the captured object
			if fn.Parent() != nil {
				late = append(late, earlierDefersUsing(c, fn, p.arg)...)
			}
			if len(late) > 0 {
				r.Bad(key, c.Pos(p.ins.Pos()), "the object is used after it was put back into the pool: "+strings.Join(uniq(late), "; ")+" — another goroutine may already own it")
			} else {
				r.OK(key, c.Pos(p.ins.Pos()), "nothing uses the object after the Put")
			}
		}
	}
}

// earlierDefersUsing: fn is a closure deferred by its parent; defers of the parent registered before
// it (which therefore run after it) that use the same captured variable.
func earlierDefersUsing(c *load.Ctx, closure *ssa.Function, arg ssa.Value) []string {
	parent := closure.Parent()
	// which free variable does arg come from
	fvIdx := -1
	for depth, v := 0, arg; depth < 4; depth++ {
		if u, ok := v.(*ssa.UnOp); ok {
			v = u.X
		}
		if fv, ok := v.(*ssa.FreeVar); ok {
			for i, f := range closure.FreeVars {
				if f == fv {
					fvIdx = i
				}
			}
			break
		}
	}
	if fvIdx < 0 {
		return nil
	}
	var out []string
	for _, b := range parent.Blocks {
		for _, ins := range b.Instrs {
			d, ok := ins.(*ssa.Defer)
			if !ok {
				continue
			}
			mc, ok := d.Call.Value.(*ssa.MakeClosure)
			if !ok || mc.Fn != closure {
				continue
			}
			captured := mc.Bindings[fvIdx]
			// earlier defers in the parent using the captured cell's value
			for _, b2 := range parent.Blocks {
				for _, ins2 := range b2.Instrs {
					d2, ok := ins2.(*ssa.Defer)
					if !ok || d2 == d || !dominatesInstr(d2, d) {
						continue
					}
					for _, op := range d2.Operands(nil) {
						if *op != nil && (*op == captured || sameOrigin(*op, captured) || loadsFrom(*op, captured)) {
							out = append(out, "deferred call at "+c.Pos(d2.Pos())+" (registered earlier, so it runs after the Put)")
						}
					}
				}
			}
		}
	}
	return out
}

func loadsFrom(v, cell ssa.Value) bool {
	if u, ok := v.(*ssa.UnOp); ok {
		return u.X == cell
	}
	return false
}

func runSW3(c *load.Ctx, r *report.RuleResult) {
	sp := c.SSAPkg("internal/sync")
	if sp == nil {
		r.Unk("anchor|internal/sync", "", "package not found")
		return
	}
	n := 0
	doneOnce := map[string]bool{}
	for _, fn := range c.ModuleFunctions() {
		if load.FuncPkgRel(fn) != "internal/sync" || (fn.Name() != "Do" && !strings.HasPrefix(fn.Name(), "Do[")) || fn.Signature.Recv() == nil || fn.Parent() != nil || (fn.Synthetic != "" && !strings.HasPrefix(fn.Synthetic, "instance")) {
			continue
		}
		kf := fn
		if o := fn.Origin(); o != nil {
			kf = o
		}
		key := "once|" + load.FuncKey(kf)
		if doneOnce[key] {
			continue // one instance of a generic wrapper stands for all
		}
		doneOnce[key] = true
		n++
		pos := c.Pos(fn.Pos())
		if len(fn.Params) < 2 {
			r.Unk(key, pos, "Do without a function parameter")
			continue
		}
		fparam := fn.Params[1]
		var onceCall *ssa.Call
		directCall := false
		for _, b := range fn.Blocks {
			for _, ins := range b.Instrs {
				call, ok := ins.(*ssa.Call)
				if !ok {
					continue
				}
				if call.Call.Value == fparam {
					directCall = true
				}
				if sc := call.Call.StaticCallee(); sc != nil && sc.String() == "(*sync.Once).Do" {
					onceCall = call
				}
			}
		}
		switch {
		case onceCall == nil:
			r.Bad(key, pos, "Do is not built on (*sync.Once).Do any more: exactly-once execution and the guarantee that a caller sees the result only after the function has returned are no longer inherited from sync.Once")
			continue
		case directCall:
			r.Bad(key, pos, "the caller's function is also invoked outside the sync.Once")
			continue
		}
		mc, ok := onceCall.Call.Args[1].(*ssa.MakeClosure)
		if !ok {
			r.Bad(key, pos, "sync.Once.Do is not given a function literal that runs the caller's function")
			continue
		}
		cl := mc.Fn.(*ssa.Function)
		calls, stores := false, 0
		for _, b := range cl.Blocks {
			for _, ins := range b.Instrs {
				switch x := ins.(type) {
				case *ssa.Call:
					if derivesFromParam(x.Call.Value) {
						calls = true
					}
				case *ssa.Store:
					if _, ok := x.Addr.(*ssa.FieldAddr); ok {
						stores++
					}
				}
			}
		}
		// results are read only after the Once call
		readsBefore := false
		for _, b := range fn.Blocks {
			for _, ins := range b.Instrs {
				if u, ok := ins.(*ssa.UnOp); ok {
					if _, isField := u.X.(*ssa.FieldAddr); isField && !dominatesInstr(onceCall, u) {
						readsBefore = true
					}
				}
			}
		}
		switch {
		case !calls:
			r.Bad(key, pos, "the function handed to sync.Once.Do does not run the caller's function")
		case stores == 0:
			r.Bad(key, pos, "the results are not stored inside the once-function")
		case readsBefore:
			r.Bad(key, pos, "a stored result is read before the sync.Once call")
		default:
			r.OK(key, pos, fmt.Sprintf("runs the caller's function inside sync.Once.Do, stores %d result field(s) there, reads them afterwards", stores))
		}
	}
	if n == 0 {
		r.Unk("once|internal/sync", "", "no Do method found in internal/sync")
	}
}
