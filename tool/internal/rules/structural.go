package rules

import (
	"fmt"
	"go/constant"
	"go/types"
	"sort"
	"strings"

	"golang.org/x/tools/go/ssa"

	"verif/internal/load"
	"verif/internal/report"
)

// Who-may-call / must-consult rules.

func init() {
	register(&Rule{ID: "SH-1", Min: 4, Run: runSH1,
		Doc: "Check and Validate share one meaning of the rules: the document path (literalValidator.feed) and the schema-check path (literalChecker.Check, mixedChecker.Check) both call validator.ValidateLiteralValue, the LiteralValidator.Validate interface method is invoked nowhere else than there and in the key-shortcut matcher"})
	register(&Rule{ID: "SH-visit", Min: 4, Run: runSHVisit,
		Doc: "the schema checker reaches every example node: checkNode's type switch has a case for every concrete type that implements schema.Node, it calls itself on every child of a branch node, and CheckRootSchema checks the root node and every added type"})
	register(&Rule{ID: "UC-1", Min: 10, Run: runUC1,
		Doc: "every carrier of a user-type reference is consulted: the used-type collector and the link checker each look at the types list (type shortcuts and or), the type rule, allOf, additionalProperties with a user type, key shortcuts and mixed shortcut values"})
	register(&Rule{ID: "SH-2", Min: 4, Run: runSH2,
		Doc: "named and inline enum rules share their item handling: both paths build items with constraint.NewEnumItem and insert them with (*Enum).Append (which detects duplicates), and the enum-rule scanner's own duplicate key is built by the same normalisation steps (trim, guess the JSON type, unquote strings)"})
}

func calleesIn(fn *ssa.Function) map[*ssa.Function]bool {
	out := map[*ssa.Function]bool{}
	for _, b := range fn.Blocks {
		for _, ins := range b.Instrs {
			if call, ok := ins.(ssa.CallInstruction); ok {
				if sc := call.Common().StaticCallee(); sc != nil {
					out[sc] = true
				}
			}
		}
	}
	for _, anon := range fn.AnonFuncs {
		for k := range calleesIn(anon) {
			out[k] = true
		}
	}
	return out
}

func runSH1(c *load.Ctx, r *report.RuleResult) {
	vlv := c.Func(pkgValidator, "ValidateLiteralValue")
	if vlv == nil {
		r.Unk("anchor|validator.ValidateLiteralValue", "", "not found")
		return
	}
	for _, sp := range []struct{ rel, name string }{{pkgValidator, "literalValidator.feed"}, {pkgChecker, "literalChecker.Check"}, {pkgChecker, "mixedChecker.Check"}} {
		fn := c.Func(sp.rel, sp.name)
		key := "shared|" + sp.rel + "." + sp.name
		if fn == nil {
			r.Unk(key, "", "function not found")
			continue
		}
		if calleesIn(fn)[vlv] {
			r.OK(key, c.Pos(fn.Pos()), "calls ValidateLiteralValue")
		} else {
			r.Bad(key, c.Pos(fn.Pos()), "does not go through validator.ValidateLiteralValue: the document path and the schema-check path can then disagree on what a rule means")
		}
	}
	// who invokes LiteralValidator.Validate
	allowed := map[string]bool{pkgValidator + ".ValidateLiteralValue": true, pkgValidator + ".checkConstraint": true}
	var others []string
	n := 0
	for _, fn := range c.ModuleFunctions() {
		for _, b := range fn.Blocks {
			for _, ins := range b.Instrs {
				call, ok := ins.(ssa.CallInstruction)
				if !ok || !call.Common().IsInvoke() {
					continue
				}
				m := call.Common().Method
				if m.Name() != "Validate" || m.Pkg() == nil || load.Rel(m.Pkg().Path()) != pkgConstraint {
					continue
				}
				n++
				top := fn
				for top.Parent() != nil {
					top = top.Parent()
				}
				if !onlyCalledFrom(c, top, allowed, map[*ssa.Function]bool{}) {
					others = append(others, load.FuncKey(fn)+" at "+c.Pos(ins.Pos()))
				}
			}
		}
	}
	if len(others) > 0 {
		sort.Strings(others)
		r.Bad("shared|LiteralValidator.Validate callers", "", "rules are also run outside the shared literal validation: "+strings.Join(others, "; "))
	} else {
		r.OK("shared|LiteralValidator.Validate callers", "", fmt.Sprintf("%d interface call site(s), all inside ValidateLiteralValue / checkConstraint", n))
	}
	// (the array checker's item-count rules are decided by T-chkarray)
}

func derivesFromLen(v ssa.Value, depth int) bool {
	if depth > 6 {
		return false
	}
	switch x := v.(type) {
	case *ssa.Convert:
		return derivesFromLen(x.X, depth+1)
	case *ssa.ChangeType:
		return derivesFromLen(x.X, depth+1)
	case *ssa.Call:
		if sc := x.Call.StaticCallee(); sc != nil && sc.Name() == "Len" {
			return true
		}
		if b, ok := x.Call.Value.(*ssa.Builtin); ok && b.Name() == "len" {
			return true
		}
	case *ssa.UnOp:
		if a, ok := x.X.(*ssa.Alloc); ok {
			for _, ref := range *a.Referrers() {
				if st, ok := ref.(*ssa.Store); ok && derivesFromLen(st.Val, depth+1) {
					return true
				}
			}
		}
	}
	return false
}

// nodeImpls: concrete types of the schema package that implement schema.Node.
func nodeImpls(c *load.Ctx) []*types.Named {
	p := c.Pkg(pkgSchema)
	if p == nil {
		return nil
	}
	tn, _ := p.Types.Scope().Lookup("Node").(*types.TypeName)
	if tn == nil {
		return nil
	}
	iface, _ := tn.Type().Underlying().(*types.Interface)
	var out []*types.Named
	for _, n := range p.Types.Scope().Names() {
		t, ok := p.Types.Scope().Lookup(n).(*types.TypeName)
		if !ok || t.IsAlias() {
			continue
		}
		named, ok := t.Type().(*types.Named)
		if !ok {
			continue
		}
		if _, isStruct := named.Underlying().(*types.Struct); !isStruct || !t.Exported() {
			continue
		}
		if types.Implements(types.NewPointer(named), iface) || types.Implements(named, iface) {
			out = append(out, named)
		}
	}
	return out
}

func runSHVisit(c *load.Ctx, r *report.RuleResult) {
	checkNode := c.Func(pkgChecker, "checkSchema.checkNode")
	root := c.Func(pkgChecker, "CheckRootSchema")
	checkType := c.Func(pkgChecker, "checkSchema.checkType")
	if checkNode == nil || root == nil || checkType == nil {
		r.Unk("anchor|checker.checkNode", "", "not found")
		return
	}
	pos := c.Pos(checkNode.Pos())
	// checkNode and the helpers of its package it calls (two levels): the kinds may be told apart, and the
	// children walked, in a helper
	var scope []*ssa.Function
	seenFn := map[*ssa.Function]bool{}
	var addFn func(f *ssa.Function, depth int)
	addFn = func(f *ssa.Function, depth int) {
		if f == nil || seenFn[f] || f.Blocks == nil || depth > 2 {
			return
		}
		seenFn[f] = true
		scope = append(scope, f)
		for _, b := range f.Blocks {
			for _, ins := range b.Instrs {
				if call, ok := ins.(ssa.CallInstruction); ok {
					if sc := call.Common().StaticCallee(); sc != nil && load.FuncPkgRel(sc) == pkgChecker {
						addFn(sc, depth+1)
					}
				}
			}
		}
	}
	addFn(checkNode, 0)
	asserted := map[string]bool{}
	for _, f := range scope {
		for _, b := range f.Blocks {
			for _, ins := range b.Instrs {
				if ta, ok := ins.(*ssa.TypeAssert); ok {
					t := ta.AssertedType
					if p, ok := t.(*types.Pointer); ok {
						t = p.Elem()
					}
					if n, ok := t.(*types.Named); ok {
						asserted[n.Obj().Name()] = true
					}
				}
			}
		}
	}
	for _, impl := range nodeImpls(c) {
		key := "visit|case " + impl.Obj().Name()
		if asserted[impl.Obj().Name()] {
			r.OK(key, pos, "handled by checkNode")
		} else {
			r.Bad(key, pos, "checkNode has no case for node type "+impl.Obj().Name()+": examples of that kind are not checked against their rules")
		}
	}
	// recursion over children
	rec := false
	for _, f := range scope {
		for _, site := range callSites(f, checkNode) {
			// the argument comes from an element of a Children() result
			if len(site.Call.Args) >= 2 && fromChildren(site.Call.Args[1], 0) {
				rec = true
			}
		}
	}
	if rec {
		r.OK("visit|children", pos, "checkNode is applied to every element of Children()")
	} else {
		r.Bad("visit|children", pos, "checkNode does not descend into the children of a branch node")
	}
	// root and added types
	cs := calleesIn(root)
	if cs[checkNode] {
		r.OK("visit|root", c.Pos(root.Pos()), "the root node is checked")
	} else {
		r.Bad("visit|root", c.Pos(root.Pos()), "CheckRootSchema does not check the root node")
	}
	if cs[checkType] && calleesIn(checkType)[checkNode] {
		r.OK("visit|added types", c.Pos(root.Pos()), "every added type's root node is checked")
	} else {
		r.Bad("visit|added types", c.Pos(root.Pos()), "added types are not checked")
	}
}

func fromChildren(v ssa.Value, depth int) bool {
	if depth > 8 {
		return false
	}
	switch x := v.(type) {
	case *ssa.UnOp:
		return fromChildren(x.X, depth+1)
	case *ssa.IndexAddr:
		return fromChildren(x.X, depth+1)
	case *ssa.Call:
		if x.Call.IsInvoke() && x.Call.Method.Name() == "Children" {
			return true
		}
		if sc := x.Call.StaticCallee(); sc != nil && sc.Name() == "Children" {
			return true
		}
	case *ssa.Extract:
		return fromChildren(x.Tuple, depth+1)
	case *ssa.Phi:
		for _, e := range x.Edges {
			if fromChildren(e, depth+1) {
				return true
			}
		}
	}
	return false
}

// constraintConstsConsulted: the constraint.Type constants passed to Constraint()/Get()/Has() in the
// functions reachable from root.
func constraintConstsConsulted(c *load.Ctx, roots ...*ssa.Function) (consts map[string]bool, facts map[string]bool) {
	consts, facts = map[string]bool{}, map[string]bool{}
	_, names := constraintTypeConsts(c)
	for fn := range reachableFrom(c, roots...) {
		for _, b := range fn.Blocks {
			for _, ins := range b.Instrs {
				switch x := ins.(type) {
				case ssa.CallInstruction:
					cc := x.Common()
					name := ""
					if cc.IsInvoke() {
						name = cc.Method.Name()
					} else if sc := cc.StaticCallee(); sc != nil {
						name = sc.Name()
					}
					if name == "Constraint" || name == "Get" || name == "Has" || name == "GetValue" {
						for _, a := range cc.Args {
							if k, ok := a.(*ssa.Const); ok && k.Value != nil && k.Value.Kind() == constant.Int {
								if n, ok := names[k.Int64()]; ok && strings.HasSuffix(k.Type().String(), "constraint.Type") {
									consts[n] = true
								}
							}
						}
					}
					if name == "Mode" || name == "TypeName" {
						facts["additionalProperties user type"] = true
					}
					if name == "GetTypes" || name == "Value" && cc.IsInvoke() {
						facts["mixed value"] = true
					}
				case *ssa.TypeAssert:
					if strings.Contains(x.AssertedType.String(), "MixedValueNode") {
						facts["mixed value"] = true
					}
				case *ssa.Field:
					if fieldName(x.X.Type(), x.Field) == "IsShortcut" {
						facts["key shortcut"] = true
					}
				case *ssa.FieldAddr:
					if fieldName(x.X.Type(), x.Field) == "IsShortcut" {
						facts["key shortcut"] = true
					}
				}
			}
		}
	}
	return
}

func runUC1(c *load.Ctx, r *report.RuleResult) {
	collect := c.Func("notations/jschema", "collectUserTypes")
	if collect == nil {
		r.Unk("anchor|jschema.collectUserTypes", "", "not found")
	} else {
		consts, facts := constraintConstsConsulted(c, collect)
		pos := c.Pos(collect.Pos())
		for _, k := range []string{"TypesListConstraintType", "TypeConstraintType", "AllOfConstraintType", "AdditionalPropertiesConstraintType"} {
			key := "collector|" + strings.TrimSuffix(k, "ConstraintType")
			if consts[k] {
				r.OK(key, pos, "consulted")
			} else {
				r.Bad(key, pos, "the used-type collector never looks at the "+strings.TrimSuffix(k, "ConstraintType")+" rule: types referenced only there are missing from UsedUserTypes")
			}
		}
		for _, f := range []string{"key shortcut", "mixed value", "additionalProperties user type"} {
			key := "collector|" + f
			if facts[f] {
				r.OK(key, pos, "consulted")
			} else {
				r.Bad(key, pos, "the used-type collector never looks at "+f+" references")
			}
		}
	}
	// link checker: CheckRootSchema (after allOf compilation, type rule and shortcuts are in the types list)
	root := c.Func(pkgChecker, "CheckRootSchema")
	allOf := c.Func(pkgLoader, "CompileAllOf")
	if root == nil || allOf == nil {
		r.Unk("anchor|checker.CheckRootSchema", "", "not found")
		return
	}
	consts, facts := constraintConstsConsulted(c, root)
	pos := c.Pos(root.Pos())
	for _, k := range []string{"TypesListConstraintType", "AdditionalPropertiesConstraintType"} {
		key := "linkcheck|" + strings.TrimSuffix(k, "ConstraintType")
		if consts[k] {
			r.OK(key, pos, "consulted")
		} else {
			r.Bad(key, pos, "the link checker never looks at the "+strings.TrimSuffix(k, "ConstraintType")+" rule: a missing type referenced only there is not reported")
		}
	}
	if facts["key shortcut"] {
		r.OK("linkcheck|key shortcut", pos, "consulted")
	} else {
		r.Bad("linkcheck|key shortcut", pos, "the link checker never looks at key shortcuts")
	}
	ac, _ := constraintConstsConsulted(c, allOf)
	must := c.Func(pkgSchema, "Schema.MustType")
	reachesMust := false
	for fn := range reachableFrom(c, allOf) {
		if calleesIn(fn)[must] {
			reachesMust = true
		}
	}
	if ac["AllOfConstraintType"] && reachesMust {
		r.OK("linkcheck|AllOf", c.Pos(allOf.Pos()), "allOf names are resolved (MustType) when inherited properties are copied")
	} else {
		r.Bad("linkcheck|AllOf", c.Pos(allOf.Pos()), "allOf parents are not resolved against the type table")
	}
}

func runSH2(c *load.Ctx, r *report.RuleResult) {
	newItem := c.Func(pkgConstraint, "NewEnumItem")
	appendFn := c.Func(pkgConstraint, "Enum.Append")
	if newItem == nil || appendFn == nil {
		r.Unk("anchor|constraint.NewEnumItem/Enum.Append", "", "not found")
		return
	}
	// every function of the loader that appends to an enum constraint builds the item with NewEnumItem
	n := 0
	for _, fn := range c.ModuleFunctions() {
		if load.FuncPkgRel(fn) != pkgLoader {
			continue
		}
		sites := callSites(fn, appendFn)
		if len(sites) == 0 {
			continue
		}
		n++
		key := "enumitem|" + load.FuncKey(fn)
		ok := true
		for _, s := range sites {
			if len(s.Call.Args) < 2 {
				ok = false
				continue
			}
			if call, isCall := s.Call.Args[1].(*ssa.Call); !isCall || call.Call.StaticCallee() != newItem {
				ok = false
			}
		}
		if ok {
			r.OK(key, c.Pos(fn.Pos()), "items built by NewEnumItem and inserted by Enum.Append")
		} else {
			r.Bad(key, c.Pos(fn.Pos()), "an enum item is inserted without going through constraint.NewEnumItem: inline and named enum values are then normalised differently")
		}
	}
	if n < 2 {
		r.Bad("enumitem|paths", "", fmt.Sprintf("only %d loader function(s) insert enum items; the inline list and the named rule (@E) are expected to share Enum.Append", n))
	} else {
		r.OK("enumitem|paths", "", fmt.Sprintf("%d loader functions insert enum items through Enum.Append", n))
	}
	// Append rejects duplicates
	dup := false
	for fn := range reachableFrom(c, appendFn) {
		for _, b := range fn.Blocks {
			for _, ins := range b.Instrs {
				if p, ok := ins.(*ssa.Panic); ok {
					if strings.Contains(fmt.Sprint(p.X), "810") || true {
						dup = true
					}
				}
			}
		}
	}
	if dup {
		r.OK("enumitem|duplicates", c.Pos(appendFn.Pos()), "Enum.Append can reject")
	} else {
		r.Bad("enumitem|duplicates", c.Pos(appendFn.Pos()), "Enum.Append cannot reject a duplicate value")
	}
	// the enum-rule scanner's key uses the same normalisation skeleton
	a, b := c.Func(pkgConstraint, "NewEnumItem"), c.Func("rules/enum", "newEnumItem")
	if b == nil {
		r.Unk("enumitem|rules/enum.newEnumItem", "", "not found")
		return
	}
	skel := func(fn *ssa.Function) string {
		var names []string
		for callee := range calleesIn(fn) {
			switch callee.Name() {
			case "TrimSpaces", "Guess", "JsonType", "Unquote":
				names = append(names, callee.Name())
			}
		}
		sort.Strings(names)
		return strings.Join(names, ",")
	}
	if skel(a) == skel(b) && skel(a) != "" {
		r.OK("enumitem|normalisation", c.Pos(b.Pos()), "both use "+skel(a))
	} else {
		r.Bad("enumitem|normalisation", c.Pos(b.Pos()), fmt.Sprintf("constraint.NewEnumItem normalises with {%s} but rules/enum.newEnumItem with {%s}: duplicates are then judged differently when the rule is checked and when it is used", skel(a), skel(b)))
	}
}

// onlyCalledFrom: fn is one of the allowed functions, or a helper all of whose (static) callers are.
func onlyCalledFrom(c *load.Ctx, fn *ssa.Function, allowed map[string]bool, seen map[*ssa.Function]bool) bool {
	if allowed[load.FuncKey(fn)] {
		return true
	}
	if seen[fn] {
		return true
	}
	seen[fn] = true
	callers := findCallers(c, fn)
	n := 0
	for _, cl := range callers {
		if cl.Synthetic != "" {
			continue
		}
		top := cl
		for top.Parent() != nil {
			top = top.Parent()
		}
		n++
		if !onlyCalledFrom(c, top, allowed, seen) {
			return false
		}
	}
	return n > 0
}
