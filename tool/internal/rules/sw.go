package rules

import (
	"fmt"
	"go/types"
	"sort"
	"strings"

	"golang.org/x/tools/go/callgraph"
	"golang.org/x/tools/go/ssa"

	"verif/internal/load"
	"verif/internal/report"
)

// SW — ownership of the compiled schema.

func init() {
	register(&Rule{ID: "SW-1", Min: 40, Run: runSW1,
		Doc: "validation and example building only read the compiled schema: no function reachable (VTA call graph) from (*Schema).validate or (*exampleBuilder).Build stores to a field of a schema / constraint / AST type, to an element of a slice or map owned by them, or to a package-level variable — except into objects the same function has just allocated"})
}

// reachableFrom computes the module functions reachable from the roots. Static calls and interface
// calls follow the VTA graph; a call *through a function-typed parameter or captured variable* (a
// callback invoked inside a higher-order helper such as Each/EachSafe/ErrOnce.Do) is not followed
// through VTA, which would merge every client of the helper — instead every function value passed
// as an argument at a call site of a reachable function is itself taken as reachable there.
func reachableFrom(c *load.Ctx, roots ...*ssa.Function) map[*ssa.Function][]*ssa.Function {
	cg := c.VTA()
	parent := map[*ssa.Function][]*ssa.Function{}
	var queue []*ssa.Function
	add := func(from, callee *ssa.Function) {
		if callee == nil {
			return
		}
		if _, seen := parent[callee]; seen {
			return
		}
		if !load.FuncInModule(callee) || load.IsAux(load.FuncPkgRel(callee)) {
			return
		}
		var path []*ssa.Function
		if from != nil {
			path = append(path, parent[from]...)
		}
		parent[callee] = append(path, callee)
		queue = append(queue, callee)
	}
	for _, r := range roots {
		add(nil, r)
	}
	for len(queue) > 0 {
		f := queue[0]
		queue = queue[1:]
		n := cg.Nodes[f]
		edges := map[ssa.CallInstruction][]*ssa.Function{}
		if n != nil {
			for _, e := range n.Out {
				if e.Site != nil {
					edges[e.Site] = append(edges[e.Site], e.Callee.Func)
				}
			}
		}
		for _, b := range f.Blocks {
			for _, ins := range b.Instrs {
				call, ok := ins.(ssa.CallInstruction)
				if !ok {
					continue
				}
				cc := call.Common()
				// function values handed to the callee are taken as invoked
				for _, a := range cc.Args {
					switch fv := a.(type) {
					case *ssa.MakeClosure:
						add(f, fv.Fn.(*ssa.Function))
					case *ssa.Function:
						add(f, fv)
					}
				}
				switch {
				case cc.IsInvoke():
					for _, callee := range edges[call] {
						add(f, callee)
					}
				case cc.StaticCallee() != nil:
					add(f, cc.StaticCallee())
				default:
					if derivesFromParam(cc.Value) {
						continue // a callback: accounted at the call sites of f
					}
					for _, callee := range edges[call] {
						add(f, callee)
					}
				}
			}
		}
	}
	return parent
}

// derivesFromParam: the called value is a parameter, a captured variable, or loaded from one.
func derivesFromParam(v ssa.Value) bool {
	for depth := 0; depth < 8; depth++ {
		switch x := v.(type) {
		case *ssa.Parameter, *ssa.FreeVar:
			return true
		case *ssa.UnOp:
			v = x.X
		case *ssa.ChangeType:
			v = x.X
		case *ssa.Phi:
			for _, e := range x.Edges {
				if !derivesFromParam(e) {
					return false
				}
			}
			return len(x.Edges) > 0
		default:
			return false
		}
	}
	return false
}

var _ = callgraph.Edge{}

// ownedPkgs: types declared here make up the compiled schema shared between calls.
func isSchemaOwnedType(t types.Type) (string, bool) {
	for {
		switch x := t.(type) {
		case *types.Pointer:
			t = x.Elem()
			continue
		case *types.Named:
			if x.Obj().Pkg() == nil {
				return "", false
			}
			rel := load.Rel(x.Obj().Pkg().Path())
			switch rel {
			case pkgSchema, pkgConstraint:
				return rel + "." + x.Obj().Name(), true
			case ".":
				// the public AST types handed out by GetAST
				if strings.Contains(x.Obj().Name(), "ASTNode") {
					return "jschema." + x.Obj().Name(), true
				}
			}
			return "", false
		}
		return "", false
	}
}

// addrRoot walks an address expression to its base and tells which owned type it goes through.
func addrRoot(v ssa.Value) (base ssa.Value, owned string) {
	for depth := 0; depth < 20; depth++ {
		switch x := v.(type) {
		case *ssa.FieldAddr:
			if o, ok := isSchemaOwnedType(x.X.Type()); ok && owned == "" {
				owned = o + "." + fieldName(x.X.Type(), x.Field)
			}
			v = x.X
		case *ssa.IndexAddr:
			v = x.X
		case *ssa.UnOp:
			v = x.X
		case *ssa.Slice:
			v = x.X
		case *ssa.ChangeType:
			v = x.X
		case *ssa.Phi:
			if len(x.Edges) > 0 {
				v = x.Edges[0]
			} else {
				return v, owned
			}
		default:
			return v, owned
		}
	}
	return v, owned
}

func runSW1(c *load.Ctx, r *report.RuleResult) {
	const rel = "notations/jschema"
	validate := c.Func(rel, "Schema.validate")
	build := c.Func(rel, "exampleBuilder.Build")
	if validate == nil || build == nil {
		r.Unk("anchor|Schema.validate/exampleBuilder.Build", "", "entry points not found")
		return
	}
	reach := reachableFrom(c, validate, build)
	var fns []*ssa.Function
	for f := range reach {
		fns = append(fns, f)
	}
	sort.Slice(fns, func(i, j int) bool { return load.FuncKey(fns[i]) < load.FuncKey(fns[j]) })
	for _, fn := range fns {
		key := "readonly|" + load.FuncKey(fn)
		var bad []string
		for _, b := range fn.Blocks {
			for _, ins := range b.Instrs {
				switch x := ins.(type) {
				case *ssa.Store:
					base, owned := addrRoot(x.Addr)
					if g, ok := base.(*ssa.Global); ok {
						bad = append(bad, fmt.Sprintf("stores to package variable %s at %s", g.Name(), c.Pos(x.Pos())))
						continue
					}
					if owned == "" {
						continue
					}
					if _, fresh := base.(*ssa.Alloc); fresh {
						continue // an object this function has just created
					}
					if isFreshCall(base) {
						continue
					}
					bad = append(bad, fmt.Sprintf("stores to %s at %s", owned, c.Pos(x.Pos())))
				case *ssa.MapUpdate:
					base, owned := addrRoot(x.Map)
					if _, ok := base.(*ssa.Global); ok {
						bad = append(bad, "updates a package-level map at "+c.Pos(x.Pos()))
					} else if owned != "" {
						if _, fresh := base.(*ssa.Alloc); !fresh {
							bad = append(bad, fmt.Sprintf("updates map %s at %s", owned, c.Pos(x.Pos())))
						}
					}
				}
			}
		}
		if len(bad) > 0 {
			var path []string
			for _, p := range reach[fn] {
				path = append(path, p.Name())
			}
			r.Bad(key, c.Pos(fn.Pos()), strings.Join(bad, "; ")+"; reached from the validation/example entry through "+strings.Join(path, " -> "))
		} else {
			r.OK(key, c.Pos(fn.Pos()), "")
		}
	}
	r.Stat("reachable_functions", len(fns))
}

// isFreshCall: the base is the result of a constructor-like call in the same function (new object).
func isFreshCall(v ssa.Value) bool {
	switch x := v.(type) {
	case *ssa.Call:
		if sc := x.Call.StaticCallee(); sc != nil && (strings.HasPrefix(sc.Name(), "new") || strings.HasPrefix(sc.Name(), "New")) {
			return true
		}
	case *ssa.MakeMap, *ssa.MakeSlice:
		return true
	}
	return false
}

func init() {
	register(&Rule{ID: "AL-1", Min: 1, Run: runAL1,
		Doc: "mutable rule objects are not shared between nodes: a constraint object read from one node (Constraint/Get) is attached to another node (AddConstraint/Set) only if its Go type has no method that writes its own fields; copying a mutable rule (required keys, types list, enum, allOf, min/max) must copy its content — sharing it lets a later change to one node (or to an added type shared by several schemas) leak into the other"})
}

func runAL1(c *load.Ctx, r *report.RuleResult) {
	e := newAbsNodeEnv(c)
	// which constraint Go types have mutators
	mutators := map[*types.Named][]string{}
	for _, named := range constraintImpls(c) {
		ms := c.Prog.MethodSets.MethodSet(types.NewPointer(named))
		for i := 0; i < ms.Len(); i++ {
			f := c.Prog.MethodValue(ms.At(i))
			if f == nil || f.Synthetic != "" || len(f.Params) == 0 {
				continue
			}
			for _, b := range f.Blocks {
				for _, ins := range b.Instrs {
					if st, ok := ins.(*ssa.Store); ok {
						if fa, ok := st.Addr.(*ssa.FieldAddr); ok && fa.X == f.Params[0] {
							mutators[named] = append(mutators[named], f.Name())
						}
					}
				}
			}
		}
	}
	isGetter := func(cc *ssa.CallCommon) (recv ssa.Value, k ssa.Value, ok bool) {
		name := ""
		if cc.IsInvoke() {
			name = cc.Method.Name()
			if name == "Constraint" && len(cc.Args) == 1 {
				return cc.Value, cc.Args[0], true
			}
			return nil, nil, false
		}
		if sc := cc.StaticCallee(); sc != nil && sc.Signature.Recv() != nil && len(cc.Args) == 2 {
			name = sc.Name()
			if name == "Constraint" || name == "Get" || name == "GetValue" {
				if strings.HasSuffix(cc.Args[1].Type().String(), "constraint.Type") {
					return cc.Args[0], cc.Args[1], true
				}
			}
		}
		return nil, nil, false
	}
	n := 0
	for _, fn := range c.ModuleFunctions() {
		for _, b := range fn.Blocks {
			for _, ins := range b.Instrs {
				call, ok := ins.(ssa.CallInstruction)
				if !ok {
					continue
				}
				cc := call.Common()
				var recv, arg ssa.Value
				switch {
				case cc.IsInvoke() && cc.Method.Name() == "AddConstraint" && len(cc.Args) == 1:
					recv, arg = cc.Value, cc.Args[0]
				case !cc.IsInvoke() && cc.StaticCallee() != nil && cc.StaticCallee().Name() == "AddConstraint" && len(cc.Args) == 2:
					recv, arg = cc.Args[0], cc.Args[1]
				default:
					continue
				}
				// where does the argument come from?
				src, k := getterOrigin(arg, isGetter, 0)
				if src == nil {
					continue // a freshly built constraint
				}
				if src == recv || sameOrigin(src, recv) {
					continue // re-attached to the node it came from
				}
				n++
				kname := "?"
				var named *types.Named
				if kc, ok := k.(*ssa.Const); ok && kc.Value != nil {
					if ci := e.byVal[kc.Int64()]; ci != nil {
						kname, named = ci.name, ci.named
					}
				}
				key := fmt.Sprintf("shared|%s|%s", load.FuncKey(fn), strings.TrimSuffix(kname, "ConstraintType"))
				switch {
				case named == nil:
					r.Unk(key, c.Pos(ins.Pos()), "a constraint object of unknown type is moved from one node to another")
				case len(mutators[named]) > 0:
					r.Bad(key, c.Pos(ins.Pos()), fmt.Sprintf("the %s object of one node is attached to another node, but %s is mutable (%s): both nodes now share one object, so extending one of them changes the other — and the source may belong to an added type shared between schemas", named.Obj().Name(), named.Obj().Name(), strings.Join(uniq(mutators[named]), ", ")))
				default:
					r.OK(key, c.Pos(ins.Pos()), named.Obj().Name()+" has no mutating method: sharing it is harmless")
				}
			}
		}
	}
	if n == 0 {
		r.OK("shared|none", "", "no constraint object is moved between nodes")
	}
}

func getterOrigin(v ssa.Value, isGetter func(*ssa.CallCommon) (ssa.Value, ssa.Value, bool), depth int) (recv, k ssa.Value) {
	if depth > 8 {
		return nil, nil
	}
	switch x := v.(type) {
	case *ssa.Call:
		if r, kk, ok := isGetter(&x.Call); ok {
			return r, kk
		}
	case *ssa.TypeAssert:
		return getterOrigin(x.X, isGetter, depth+1)
	case *ssa.Extract:
		return getterOrigin(x.Tuple, isGetter, depth+1)
	case *ssa.MakeInterface:
		return getterOrigin(x.X, isGetter, depth+1)
	case *ssa.ChangeInterface:
		return getterOrigin(x.X, isGetter, depth+1)
	case *ssa.Phi:
		for _, e := range x.Edges {
			if r, kk := getterOrigin(e, isGetter, depth+1); r != nil {
				return r, kk
			}
		}
	case *ssa.UnOp:
		if a, ok := x.X.(*ssa.Alloc); ok {
			for _, ref := range *a.Referrers() {
				if st, ok := ref.(*ssa.Store); ok && st.Addr == a {
					if r, kk := getterOrigin(st.Val, isGetter, depth+1); r != nil {
						return r, kk
					}
				}
			}
		}
	}
	return nil, nil
}
