package rules

import (
	"fmt"
	"go/types"
	"strings"

	"verif/internal/load"
	"verif/internal/pe"
	"verif/internal/report"
)

// T-astrules — the rules of an AST node are the node's rules in the order they were written.

func init() {
	register(&Rule{ID: "T-astrules", Min: 6, Run: runTAstRules,
		Doc: "the AST lists a node's rules in the order they were written: collectASTRules, interpreted on ordered constraint maps filled (through the real Set) with three rules in every order — min, type, nullable, and the or / types-list / type triple — stores into the result exactly one entry per written rule, under the rule's own name, in insertion order (the types list is rendered under `or` where `or` stands and nowhere else); hoisting one rule to the front, dropping the last one or sorting the names changes what the editor shows for a schema that did not change"})
}

func runTAstRules(c *load.Ctx, r *report.RuleResult) {
	e := newAbsNodeEnv(c)
	if e.problem != "" {
		r.Unk("anchor|schema.Node", "", e.problem)
		return
	}
	fn := c.Func(pkgSchema, "collectASTRules")
	setFn := c.Func(pkgSchema, "Constraints.Set")
	consT := namedType(c, pkgSchema, "Constraints")
	var astSet = c.Func(".", "RuleASTNodes.Set")
	if fn == nil || setFn == nil || consT == nil || astSet == nil {
		r.Unk("anchor|schema.collectASTRules", "", "collectASTRules / Constraints.Set / RuleASTNodes.Set not found")
		return
	}
	pos := c.Pos(fn.Pos())
	for _, op := range []string{"Lock", "Unlock", "RLock", "RUnlock"} {
		e.cfg.Intrinsics["(*sync.RWMutex)."+op] = func(in *pe.Interp, args []pe.Value) (pe.Value, bool) { return nil, true }
	}
	// every ASTNode() of a constraint yields an opaque node named after the constraint type
	resT := astSet.Params[2].Type()
	for _, named := range constraintImpls(c) {
		named := named
		if f := c.Func(pkgConstraint, named.Obj().Name()+".ASTNode"); f != nil {
			e.cfg.Intrinsics[f.String()] = func(in *pe.Interp, args []pe.Value) (pe.Value, bool) {
				return pe.NewSym("ast("+named.Obj().Name()+")", resT), true
			}
		}
	}
	e.cfg.Intrinsics[astSet.String()] = func(in *pe.Interp, args []pe.Value) (pe.Value, bool) {
		in.Effect("set " + strings.Trim(pe.Show(args[1]), "\"‹›") + " = " + strings.Trim(pe.Show(args[2]), "‹›"))
		return nil, true
	}
	type scenario struct {
		name  string
		rules []string // constraint type constant names, in insertion order
		want  []string // "rule name = ast(GoType)" in the order expected
	}
	perm3 := func(a, b, c string) [][]string {
		return [][]string{{a, b, c}, {a, c, b}, {b, a, c}, {b, c, a}, {c, a, b}, {c, b, a}}
	}
	var scenarios []scenario
	for _, p := range perm3("Min", "Type", "Nullable") {
		scenarios = append(scenarios, scenario{strings.Join(p, ","), p, nil})
	}
	for _, p := range perm3("TypesList", "Or", "Type") {
		scenarios = append(scenarios, scenario{strings.Join(p, ","), p, nil})
	}
	for _, sc := range scenarios {
		sc := sc
		key := "astrules|" + sc.name
		var infos []*constraintInfo
		missing := ""
		for _, n := range sc.rules {
			ci := e.byName[n+"ConstraintType"]
			if ci == nil || ci.named == nil {
				missing = n
			}
			infos = append(infos, ci)
		}
		if missing != "" {
			r.Unk(key, pos, "constraint type "+missing+" not resolved")
			continue
		}
		outs := pe.ExploreFn(e.cfg, func(in *pe.Interp) pe.Value {
			m := in.NewStruct(consT, "constraints")
			for _, ci := range infos {
				st := ci.named.Underlying().(*types.Struct)
				sv := &pe.StructV{T: ci.named, F: make([]pe.Value, st.NumFields())}
				for i := 0; i < st.NumFields(); i++ {
					sv.F[i] = pe.NewSym(ci.named.Obj().Name()+"."+st.Field(i).Name(), st.Field(i).Type())
				}
				obj := &pe.Iface{T: types.NewPointer(ci.named), V: &pe.Ptr{Obj: in.NewObj(ci.named, sv, ci.named.Obj().Name()), T: ci.named}}
				in.Call(setFn, []pe.Value{m, ci.val, obj})
			}
			return in.Call(fn, []pe.Value{m})
		})
		// expected: one entry per written rule, in order; the types list shows under "or"
		var want []string
		for _, n := range sc.rules {
			switch n {
			case "TypesList":
			case "Or":
				want = append(want, "or = ast("+e.byName["TypesListConstraintType"].named.Obj().Name()+")")
			default:
				ci := e.byName[n+"ConstraintType"]
				want = append(want, ruleNameOf(c, e, ci)+" = ast("+ci.named.Obj().Name()+")")
			}
		}
		problem := ""
		for _, o := range outs {
			if o.Undecided != "" {
				problem = "not interpretable: " + o.Undecided
				break
			}
			if o.Panicked {
				problem = "panics: " + pe.Show(o.PanicVal)
				break
			}
			var got []string
			for _, ef := range o.Effects {
				if strings.HasPrefix(ef, "set ") {
					got = append(got, strings.TrimPrefix(ef, "set "))
				}
			}
			if strings.Join(got, " ; ") != strings.Join(want, " ; ") {
				problem = fmt.Sprintf("rules written as [%s] are listed as [%s]; expected [%s]", strings.Join(sc.rules, ", "), strings.Join(got, " ; "), strings.Join(want, " ; "))
				break
			}
		}
		if len(outs) == 0 {
			problem = "no path"
		}
		if problem != "" {
			r.Bad(key, pos, problem)
		} else {
			r.OK(key, pos, strings.Join(want, " ; "))
		}
	}
}

// ruleNameOf: the name String() gives the constraint type constant (interpreted).
func ruleNameOf(c *load.Ctx, e *absNodeEnv, ci *constraintInfo) string {
	f := c.Func(pkgConstraint, "Type.String")
	if f == nil {
		return strings.TrimSuffix(ci.name, "ConstraintType")
	}
	for _, o := range pe.ExploreFn(e.cfg, func(in *pe.Interp) pe.Value { return in.Call(f, []pe.Value{ci.val}) }) {
		if s, ok := o.Ret.(string); ok && o.Undecided == "" && !o.Panicked {
			return s
		}
	}
	return strings.TrimSuffix(ci.name, "ConstraintType")
}

var _ = load.Module
