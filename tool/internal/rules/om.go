package rules

import (
	"fmt"
	"go/types"
	"sort"
	"strings"

	"golang.org/x/tools/go/ssa"

	"verif/internal/load"
	"verif/internal/pe"
	"verif/internal/report"
)

// OM — the generated ordered maps against a reference insertion-ordered map.
//
// The methods of every type with the gen:OrderedMap shape (fields data map[K]V, order []K,
// mx sync.RWMutex) are interpreted abstractly (engine PE) on every reachable state over a universe of
// three keys and two values; callbacks are opaque predicates whose verdicts are forked atoms. Keys
// are only compared for equality and values only copied, so three keys / two values exercise every
// distinguishable case of a single operation (data independence). For every state × operation ×
// callback valuation the return value, the sequence of callback invocations, the successor state and
// the lock discipline are compared with the reference model written from the property text.

func init() {
	register(&Rule{ID: "OM-model", Min: 3 * 13, Run: runOMModel,
		Doc: "ordered maps = reference insertion-ordered map: for every reachable state over 3 keys x 2 values, every method (Set, Update, Get, GetValue, Has, Len, Delete, Filter, Find, Each, EachSafe, Map, MarshalJSON), every key/value argument and every callback verdict, the interpreted method returns what the reference returns, invokes the callback on exactly the reference's entries in the reference's order, and leaves data/order equal to the reference's state (order duplicate-free, same key set as data)"})
	register(&Rule{ID: "OM-model-deep", Min: 3 * 13, Thorough: true, Run: func(c *load.Ctx, r *report.RuleResult) { runOMModelN(c, r, 4) },
		Doc: "OM-model over 4 keys x 2 values"})
	register(&Rule{ID: "OM-lock", Min: 3 * 13, Run: runOMLock,
		Doc: "ordered maps: every exported method holds m.mx while it touches data/order (write lock when the state may change), and releases it on every exit"})
}

type omType struct {
	rel   string
	named *types.Named
	keyT  types.Type
	valT  types.Type
}

func findOrderedMaps(c *load.Ctx) []omType {
	var out []omType
	for _, p := range c.Pkgs {
		scope := p.Types.Scope()
		for _, n := range scope.Names() {
			tn, ok := scope.Lookup(n).(*types.TypeName)
			if !ok || tn.IsAlias() {
				continue
			}
			named, ok := tn.Type().(*types.Named)
			if !ok {
				continue
			}
			st, ok := named.Underlying().(*types.Struct)
			if !ok {
				continue
			}
			var mt *types.Map
			var sl *types.Slice
			hasMx := false
			for i := 0; i < st.NumFields(); i++ {
				f := st.Field(i)
				switch f.Name() {
				case "data":
					mt, _ = f.Type().Underlying().(*types.Map)
				case "order":
					sl, _ = f.Type().Underlying().(*types.Slice)
				case "mx":
					if nt, ok := f.Type().(*types.Named); ok && nt.Obj().Pkg() != nil && nt.Obj().Pkg().Path() == "sync" && nt.Obj().Name() == "RWMutex" {
						hasMx = true
					}
				}
			}
			if mt != nil && sl != nil && hasMx && types.Identical(mt.Key(), sl.Elem()) {
				out = append(out, omType{rel: load.Rel(p.PkgPath), named: named, keyT: mt.Key(), valT: mt.Elem()})
			}
		}
	}
	sort.Slice(out, func(i, j int) bool {
		return out[i].rel+out[i].named.Obj().Name() < out[j].rel+out[j].named.Obj().Name()
	})
	return out
}

// omRef is the reference insertion-ordered map.
type omRef struct {
	keys []string
	vals map[string]string
}

func (r omRef) clone() omRef {
	n := omRef{keys: append([]string{}, r.keys...), vals: map[string]string{}}
	for k, v := range r.vals {
		n.vals[k] = v
	}
	return n
}
func (r omRef) has(k string) bool { _, ok := r.vals[k]; return ok }
func (r *omRef) del(k string) {
	if !r.has(k) {
		return
	}
	delete(r.vals, k)
	for i, kk := range r.keys {
		if kk == k {
			r.keys = append(append([]string{}, r.keys[:i]...), r.keys[i+1:]...)
			break
		}
	}
}
func (r omRef) String() string {
	var parts []string
	for _, k := range r.keys {
		parts = append(parts, k+":"+r.vals[k])
	}
	return "[" + strings.Join(parts, " ") + "]"
}

type omModel struct {
	c      *load.Ctx
	t      omType
	cfg    *pe.Config
	keys   []pe.Value
	vals   []pe.Value
	zeroV  string
	meth   map[string]*ssa.Function
	cbKind string // behaviour of the opaque callback in the current run
}

var omMethods = []string{"Set", "Update", "GetValue", "Get", "Has", "Len", "Delete", "Filter", "Find", "Each", "EachSafe", "Map", "MarshalJSON"}

// omKeys is the number of distinct keys the model ranges over (3 quick, 4 in the deep variant).
var omKeysDefault = 3

func newOMModel(c *load.Ctx, t omType) (*omModel, []string) {
	return newOMModelN(c, t, omKeysDefault)
}

func newOMModelN(c *load.Ctx, t omType, nkeys int) (*omModel, []string) {
	m := &omModel{c: c, t: t, cfg: newPEConfig(c), meth: map[string]*ssa.Function{}}
	var missing []string
	for _, n := range omMethods {
		f := c.Func(t.rel, t.named.Obj().Name()+"."+n)
		if f == nil {
			missing = append(missing, n)
			continue
		}
		m.meth[n] = f
	}
	if b, ok := t.keyT.Underlying().(*types.Basic); ok && b.Info()&types.IsString != 0 {
		for i := 0; i < nkeys; i++ {
			m.keys = append(m.keys, string(rune('a'+i)))
		}
	} else {
		for i := 0; i < nkeys; i++ {
			m.keys = append(m.keys, int64(i))
		}
	}
	m.vals = []pe.Value{pe.NewSym("x", t.valT), pe.NewSym("y", t.valT)}
	for _, o := range pe.ExploreFn(m.cfg, func(in *pe.Interp) pe.Value { return in.Zero(t.valT) }) {
		m.zeroV = pe.Show(o.Ret)
	}
	// lock operations and json.Marshal are recorded as effects
	for _, op := range []string{"Lock", "Unlock", "RLock", "RUnlock"} {
		op := op
		m.cfg.Intrinsics["(*sync.RWMutex)."+op] = func(in *pe.Interp, args []pe.Value) (pe.Value, bool) {
			in.Effect("mx." + op)
			return nil, true
		}
	}
	m.cfg.Intrinsics["encoding/json.Marshal"] = func(in *pe.Interp, args []pe.Value) (pe.Value, bool) {
		v := args[0]
		if i, ok := v.(*pe.Iface); ok {
			v = i.V
		}
		in.Effect("marshal " + pe.Show(v))
		return &pe.Tuple{E: []pe.Value{pe.NewSym("json("+pe.Show(v)+")", types.NewSlice(types.Typ[types.Byte])), pe.NilV{}}}, true
	}
	m.cfg.OnFieldAddr = func(in *pe.Interp, st types.Type, field string) {
		if types.Identical(st, t.named) && (field == "data" || field == "order") {
			in.Effect("acc." + field)
		}
	}
	errT := types.Universe.Lookup("error").Type()
	m.cfg.Intrinsics["callsym:cb"] = func(in *pe.Interp, args []pe.Value) (pe.Value, bool) {
		var shown []string
		for _, a := range args {
			shown = append(shown, pe.Show(a))
		}
		in.Effect("cb(" + strings.Join(shown, ",") + ")")
		k := ""
		if len(args) > 0 {
			k = pe.Show(args[0])
		}
		switch m.cbKind {
		case "update": // func(v V) V
			return m.vals[1], true
		case "pred": // func(k, v) bool
			return in.Choose("p("+k+")", []string{"false", "true"}) == 1, true
		case "each": // func(k, v) error
			if in.Choose("err("+k+")", []string{"nil", "err"}) == 1 {
				return &pe.Iface{T: errT, V: pe.NewSym("E", errT)}, true
			}
			return pe.NilV{}, true
		case "safe":
			return nil, true
		case "map": // func(k, v) (V, error)
			if in.Choose("err("+k+")", []string{"nil", "err"}) == 1 {
				return &pe.Tuple{E: []pe.Value{m.vals[1], &pe.Iface{T: errT, V: pe.NewSym("E", errT)}}}, true
			}
			return &pe.Tuple{E: []pe.Value{m.vals[1], pe.NilV{}}}, true
		}
		return nil, false
	}
	return m, missing
}

// abstract reads the (order, data) abstraction of an implementation object.
func (m *omModel) abstract(root *pe.Ptr) (order []string, data map[string]string, problem string) {
	sv := root.Obj.Val.(*pe.StructV)
	st := sv.T.Underlying().(*types.Struct)
	data = map[string]string{}
	for i := 0; i < st.NumFields(); i++ {
		switch st.Field(i).Name() {
		case "order":
			elems, ok := pe.SliceElems(sv.F[i])
			if !ok {
				return nil, nil, "order is not a concrete slice: " + pe.Show(sv.F[i])
			}
			for _, e := range elems {
				order = append(order, pe.Show(e))
			}
		case "data":
			switch mv := sv.F[i].(type) {
			case *pe.MapV:
				for j := range mv.Keys {
					data[pe.Show(mv.Keys[j])] = pe.Show(mv.Vals[j])
				}
			case pe.NilV:
			default:
				return nil, nil, "data is not a concrete map: " + pe.Show(sv.F[i])
			}
		}
	}
	return order, data, ""
}

type omCase struct {
	method string
	key    pe.Value
	val    pe.Value
}

func (cs omCase) String() string {
	s := cs.method + "("
	if cs.key != nil {
		s += pe.Show(cs.key)
	}
	if cs.val != nil {
		s += "," + pe.Show(cs.val)
	}
	return s + ")"
}

func (m *omModel) cases() []omCase {
	var out []omCase
	for _, meth := range omMethods {
		if m.meth[meth] == nil {
			continue
		}
		switch meth {
		case "Set":
			for _, k := range m.keys {
				for _, v := range m.vals {
					out = append(out, omCase{meth, k, v})
				}
			}
		case "Update", "GetValue", "Get", "Has", "Delete":
			for _, k := range m.keys {
				out = append(out, omCase{meth, k, nil})
			}
		default:
			out = append(out, omCase{meth, nil, nil})
		}
	}
	return out
}

// expected computes the reference result of a case under a callback valuation. missing names a
// callback atom the reference needed but the implementation never consulted.
func (m *omModel) expected(ref omRef, cs omCase, val map[string]string) (next omRef, ret string, calls []string, missing string) {
	next = ref.clone()
	k := ""
	if cs.key != nil {
		k = pe.Show(cs.key)
	}
	x, y := pe.Show(m.vals[0]), pe.Show(m.vals[1])
	_ = x
	atom := func(name string) (string, bool) {
		v, ok := val[name]
		if !ok {
			missing = name
		}
		return v, ok
	}
	switch cs.method {
	case "Set":
		if !next.has(k) {
			next.keys = append(next.keys, k)
		}
		next.vals[k] = pe.Show(cs.val)
		ret = "<none>"
	case "Update":
		ret = "<none>"
		if next.has(k) {
			calls = append(calls, "cb("+next.vals[k]+")")
			next.vals[k] = y
		}
	case "GetValue":
		ret = m.zeroV
		if ref.has(k) {
			ret = ref.vals[k]
		}
	case "Get":
		if ref.has(k) {
			ret = "(" + ref.vals[k] + ",true)"
		} else {
			ret = "(" + m.zeroV + ",false)"
		}
	case "Has":
		ret = fmt.Sprint(ref.has(k))
	case "Len":
		ret = fmt.Sprint(len(ref.keys))
	case "Delete":
		next.del(k)
		ret = "<none>"
	case "Filter":
		ret = "<none>"
		for _, kk := range ref.keys {
			calls = append(calls, "cb("+kk+","+ref.vals[kk]+")")
			v, ok := atom("p(" + kk + ")")
			if !ok {
				return
			}
			if v == "false" {
				next.del(kk)
			}
		}
	case "Find":
		ret = "(" + m.zeroItem() + ",false)"
		for _, kk := range ref.keys {
			calls = append(calls, "cb("+kk+","+ref.vals[kk]+")")
			v, ok := atom("p(" + kk + ")")
			if !ok {
				return
			}
			if v == "true" {
				ret = "(" + m.item(kk, ref.vals[kk]) + ",true)"
				break
			}
		}
	case "Each":
		ret = "nil"
		for _, kk := range ref.keys {
			calls = append(calls, "cb("+kk+","+ref.vals[kk]+")")
			v, ok := atom("err(" + kk + ")")
			if !ok {
				return
			}
			if v == "err" {
				ret = "error(‹E›)"
				break
			}
		}
	case "EachSafe":
		ret = "<none>"
		for _, kk := range ref.keys {
			calls = append(calls, "cb("+kk+","+ref.vals[kk]+")")
		}
	case "Map":
		ret = "nil"
		for _, kk := range ref.keys {
			calls = append(calls, "cb("+kk+","+ref.vals[kk]+")")
			v, ok := atom("err(" + kk + ")")
			if !ok {
				return
			}
			if v == "err" {
				ret = "error(‹E›)"
				break
			}
			next.vals[kk] = y
		}
	case "MarshalJSON":
		ret = "*"
		for _, kk := range ref.keys {
			calls = append(calls, "marshal "+kk, "marshal "+ref.vals[kk])
		}
	}
	return
}

func (m *omModel) itemType() *types.Named {
	if f := m.meth["Find"]; f != nil && f.Signature.Results().Len() == 2 {
		if n, ok := f.Signature.Results().At(0).Type().(*types.Named); ok {
			return n
		}
	}
	return nil
}

func (m *omModel) item(k, v string) string {
	n := "?"
	if t := m.itemType(); t != nil {
		n = t.Obj().Pkg().Name() + "." + t.Obj().Name()
	}
	return n + "{Key:" + k + ",Value:" + v + "}"
}

func (m *omModel) zeroItem() string {
	zk := `""`
	if _, ok := m.keys[0].(int64); ok {
		zk = "0"
	}
	return m.item(zk, m.zeroV)
}

type omRun struct {
	cs      omCase
	from    string
	out     *pe.Outcome
	root    *pe.Ptr
	pre     *pe.Ptr // the state the call started from
	effects []string
}

// exploreOM runs the breadth-first comparison; check is called for every (state, case, outcome).
func (m *omModel) exploreOM(r *report.RuleResult, check func(run omRun, ref omRef) (next omRef, ok bool)) (states, runs int) {
	root0 := &pe.Ptr{Obj: &pe.Obj{ID: 1, T: m.t.named}, T: m.t.named}
	for _, o := range pe.ExploreFn(m.cfg, func(in *pe.Interp) pe.Value { return in.Zero(m.t.named) }) {
		root0.Obj.Val = o.Ret
	}
	type node struct {
		root *pe.Ptr
		ref  omRef
		path string
	}
	start := node{root: root0, ref: omRef{vals: map[string]string{}}}
	// visited: the canonical *implementation* state (nil versus empty containers, live slice elements),
	// so that different representations of one reference state are all explored
	seen := map[string]bool{pe.Canon(start.root, nil): true}
	queue := []node{start}
	for len(queue) > 0 {
		n := queue[0]
		queue = queue[1:]
		states++
		for _, cs := range m.cases() {
			switch cs.method {
			case "Update":
				m.cbKind = "update"
			case "Filter", "Find":
				m.cbKind = "pred"
			case "Each":
				m.cbKind = "each"
			case "EachSafe":
				m.cbKind = "safe"
			case "Map":
				m.cbKind = "map"
			}
			fn := m.meth[cs.method]
			var roots []*pe.Ptr
			outs := pe.ExploreFn(m.cfg, func(in *pe.Interp) pe.Value {
				root := pe.Clone(n.root).(*pe.Ptr)
				roots = append(roots, root)
				args := []pe.Value{root}
				if cs.key != nil {
					args = append(args, cs.key)
				}
				if cs.val != nil {
					args = append(args, cs.val)
				}
				if len(fn.Params) > len(args) {
					args = append(args, pe.NewSym("cb", fn.Params[len(args)].Type()))
				}
				return in.Call(fn, args)
			})
			for i, o := range outs {
				runs++
				var root *pe.Ptr
				if i < len(roots) {
					root = roots[i]
				}
				next, ok := check(omRun{cs: cs, from: n.path, out: o, root: root, pre: n.root, effects: o.Effects}, n.ref)
				if !ok {
					continue
				}
				if k := pe.Canon(root, nil); !seen[k] {
					seen[k] = true
					queue = append(queue, node{root: root, ref: next, path: strings.TrimSpace(n.path + " " + cs.String())})
				}
			}
		}
	}
	return
}

func runOMModel(c *load.Ctx, r *report.RuleResult) { runOMModelN(c, r, omKeysDefault) }

func runOMModelN(c *load.Ctx, r *report.RuleResult, nkeys int) {
	maps := findOrderedMaps(c)
	if len(maps) == 0 {
		r.Unk("anchor|ordered maps", "", "no type with the ordered-map shape (data map, order slice, mx sync.RWMutex) found")
		return
	}
	for _, t := range maps {
		tname := omTypeName(t)
		m, missing := newOMModelN(c, t, nkeys)
		for _, meth := range missing {
			r.Unk("method|"+tname+"."+meth, c.Pos(t.named.Obj().Pos()), "method named by the property not found on the ordered map")
		}
		badMeth := map[string]bool{}
		count := map[string]int{}
		states, runs := m.exploreOM(r, func(run omRun, ref omRef) (omRef, bool) {
			meth := run.cs.method
			count[meth]++
			fail := func(detail string) (omRef, bool) {
				if !badMeth[meth] {
					badMeth[meth] = true
					where := c.Pos(m.meth[meth].Pos())
					r.Bad("model|"+tname+"."+meth, where, fmt.Sprintf("%s; operation %s in state %s (reached by: %s), callback verdicts {%s}", detail, run.cs, ref, orEmpty(run.from), run.out.Valuation()))
				}
				return ref, false
			}
			o := run.out
			if o.Undecided != "" {
				if !badMeth[meth] {
					badMeth[meth] = true
					r.Unk("model|"+tname+"."+meth, c.Pos(m.meth[meth].Pos()), "not interpretable: "+o.Undecided)
				}
				return ref, false
			}
			if o.Panicked {
				return fail("the method panics: " + pe.Show(o.PanicVal))
			}
			next, ret, calls, missingAtom := m.expected(ref, run.cs, o.ChoiceMap())
			var got []string
			for _, e := range run.effects {
				if strings.HasPrefix(e, "cb(") || strings.HasPrefix(e, "marshal ") {
					got = append(got, e)
				}
			}
			if missingAtom != "" {
				return fail(fmt.Sprintf("the callback is not invoked for an entry it must visit (%s): invoked %v", missingAtom, got))
			}
			if strings.Join(got, ";") != strings.Join(calls, ";") {
				return fail(fmt.Sprintf("callback invocations %v, the reference map makes %v", got, calls))
			}
			if ret != "*" && pe.Show(o.Ret) != ret {
				return fail(fmt.Sprintf("returns %s, the reference map returns %s", pe.Show(o.Ret), ret))
			}
			order, data, problem := m.abstract(run.root)
			if problem != "" {
				return fail(problem)
			}
			if strings.Join(order, " ") != strings.Join(next.keys, " ") {
				return fail(fmt.Sprintf("key order afterwards is %v, the reference map has %v", order, next.keys))
			}
			if len(data) != len(next.vals) {
				return fail(fmt.Sprintf("data afterwards has %d entries %v, the reference map has %d %v", len(data), data, len(next.vals), next.vals))
			}
			for k, v := range next.vals {
				if data[k] != v {
					return fail(fmt.Sprintf("data[%s] afterwards is %s, the reference map has %s", k, data[k], v))
				}
			}
			return next, true
		})
		for _, meth := range omMethods {
			if m.meth[meth] != nil && !badMeth[meth] {
				r.OK("model|"+tname+"."+meth, c.Pos(m.meth[meth].Pos()), fmt.Sprintf("%d (state, argument, callback-verdict) cases agree with the reference", count[meth]))
			}
		}
		r.Note("%s: %d reachable reference states, %d interpreted runs", tname, states, runs)
		r.Stat("states", states)
		r.Stat("runs", runs)
	}
}

func orEmpty(s string) string {
	if s == "" {
		return "the empty map"
	}
	return s
}

func runOMLock(c *load.Ctx, r *report.RuleResult) {
	maps := findOrderedMaps(c)
	if len(maps) == 0 {
		r.Unk("anchor|ordered maps", "", "no type with the ordered-map shape found")
		return
	}
	for _, t := range maps {
		tname := omTypeName(t)
		m, _ := newOMModel(c, t)
		badMeth := map[string]bool{}
		count := map[string]int{}
		m.exploreOM(r, func(run omRun, ref omRef) (omRef, bool) {
			meth := run.cs.method
			count[meth]++
			o := run.out
			if o.Undecided != "" || o.Panicked {
				return ref, false // reported by OM-model
			}
			next, _, _, missing := m.expected(ref, run.cs, o.ChoiceMap())
			fail := func(detail string) {
				if !badMeth[meth] {
					badMeth[meth] = true
					r.Bad("lock|"+tname+"."+meth, c.Pos(m.meth[meth].Pos()), fmt.Sprintf("%s; operation %s in state %s; trace %v", detail, run.cs, ref, run.effects))
				}
			}
			held := "" // "", "R", "W"
			acquires := 0
			// changed: the implementation's own state before versus after the call (not the reference's:
			// a method that diverges from the reference is OM-model's finding, not a locking one)
			order, data, _ := m.abstract(run.root)
			order0, data0, _ := m.abstract(run.pre)
			changed := strings.Join(order, " ") != strings.Join(order0, " ") || len(data) != len(data0)
			for k, v := range data0 {
				if data[k] != v {
					changed = true
				}
			}
			sawW := false
			for _, e := range run.effects {
				switch e {
				case "mx.Lock":
					if held != "" {
						fail("lock acquired while already held (self-deadlock)")
					}
					held, sawW = "W", true
					acquires++
				case "mx.RLock":
					if held != "" {
						fail("lock acquired while already held")
					}
					held = "R"
					acquires++
				case "mx.Unlock":
					if held != "W" {
						fail("Unlock without a held write lock")
					}
					held = ""
				case "mx.RUnlock":
					if held != "R" {
						fail("RUnlock without a held read lock")
					}
					held = ""
				case "acc.data", "acc.order":
					if held == "" {
						fail("field " + strings.TrimPrefix(e, "acc.") + " touched without holding m.mx")
					}
				}
			}
			if held != "" {
				fail("m.mx still held when the method returns")
			}
			if acquires > 1 {
				fail("the lock is released and taken again in the middle of the operation: the method is no longer atomic (a concurrent Delete/Filter can slip in between the read and the write)")
			}
			for _, e := range run.effects {
				if strings.HasPrefix(e, "cb(") && acquires == 1 {
					// the callback must run inside the single critical section
				}
			}
			if changed && !sawW {
				fail("the method changes data/order without the write lock")
			}
			if missing != "" {
				return ref, false
			}
			return next, true
		})
		for _, meth := range omMethods {
			if m.meth[meth] != nil && !badMeth[meth] {
				r.OK("lock|"+tname+"."+meth, c.Pos(m.meth[meth].Pos()), fmt.Sprintf("%d interpreted runs: m.mx held around every access, released on every exit", count[meth]))
			}
		}
	}
}

func omTypeName(t omType) string {
	if t.rel == "." {
		return t.named.Obj().Pkg().Name() + "." + t.named.Obj().Name()
	}
	return t.rel + "." + t.named.Obj().Name()
}
