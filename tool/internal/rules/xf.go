package rules

import (
	"fmt"
	"go/types"
	"os"
	"sort"
	"strings"
	"sync"

	"golang.org/x/tools/go/ssa"

	"verif/internal/load"
	"verif/internal/pe"
	"verif/internal/report"
)

// XF — exception flow: which panic values can escape which public method, and which errors can be
// returned by it.
//
// Panic sources are the explicit panic(v) instructions of the library, classified by the static type
// of v. Handlers are the deferred functions that call recover(); their transfer function (which class
// of value is absorbed, re-raised unchanged or converted) is obtained by interpreting the handler's
// own SSA (engine PE) on one representative value per class — not from a list of names. Escape sets
// are propagated bottom-up over the call graph (static calls, VTA for interface calls; callbacks are
// accounted where the function value is passed, not where it is invoked). A handler covers the
// instructions its defer statement dominates.

type xfClass string

const (
	xDoc   xfClass = "DocumentError"   // errors.DocumentError: positioned library error
	xLib   xfClass = "LibraryError"    // errors.ErrorCode / errors.Errorf: library error without position
	xOther xfClass = "ForeignError"    // any other error value (fmt.Errorf, runtime.Error, ...)
	xNon   xfClass = "NonError"        // a value that is not an error (string, ...)
	xVal   xfClass = "ValidationError" // notations/internal.ValidationError
	xRt    xfClass = "RuntimeError"    // implicit run-time panic (index, slice bounds, failed type assertion, division)
)

var xfAll = []xfClass{xDoc, xLib, xOther, xNon, xVal, xRt}

type xfItem struct {
	class xfClass
	why   string // witness: source and path
}

type xfSet map[xfClass]string // class -> witness

func (s xfSet) add(c xfClass, why string) bool {
	if _, ok := s[c]; ok {
		return false
	}
	s[c] = why
	return true
}

type xfHandler struct {
	fn       *ssa.Function
	transfer map[xfClass]map[string]bool // class -> outcomes: "absorb" or "raise:<class>"
	problem  string
}

type xfEngine struct {
	c        *load.Ctx
	cfg      *pe.Config
	errIface *types.Interface
	handlers map[*ssa.Function]*xfHandler
	escapes  map[*ssa.Function]xfSet
	absorbed map[*ssa.Function]xfSet // classes turned into returned errors by a handler of f
	reps     map[xfClass]pe.Value
	visited  map[*ssa.Function]bool
	seenVals map[ssa.Value]bool
	sources  int
	defers   int
}

var (
	xfCache = map[*load.Ctx]*xfEngine{}
	xfMu    sync.Mutex
)

func xfFor(c *load.Ctx) *xfEngine {
	xfMu.Lock()
	defer xfMu.Unlock()
	if e, ok := xfCache[c]; ok {
		return e
	}
	e := newXF(c)
	xfCache[c] = e
	return e
}

func (e *xfEngine) classOfType(t types.Type) xfClass {
	if n, ok := t.(*types.Named); ok && n.Obj().Pkg() != nil {
		switch n.Obj().Pkg().Path() + "." + n.Obj().Name() {
		case load.Module + "/errors.DocumentError":
			return xDoc
		case load.Module + "/errors.ErrorCode", load.Module + "/errors.Errorf":
			return xLib
		case load.Module + "/notations/internal.ValidationError":
			return xVal
		}
	}
	if p, ok := t.(*types.Pointer); ok {
		if c := e.classOfType(p.Elem()); c == xDoc || c == xVal {
			return c
		}
	}
	if types.Implements(t, e.errIface) {
		return xOther
	}
	if _, isIface := t.Underlying().(*types.Interface); isIface {
		return "" // unknown dynamic type
	}
	return xNon
}

func newXF(c *load.Ctx) *xfEngine {
	c.BuildSSA()
	e := &xfEngine{c: c, cfg: newPEConfig(c), handlers: map[*ssa.Function]*xfHandler{}, escapes: map[*ssa.Function]xfSet{}, absorbed: map[*ssa.Function]xfSet{}, visited: map[*ssa.Function]bool{}}
	e.errIface = types.Universe.Lookup("error").Type().Underlying().(*types.Interface)
	// representatives
	mk := func(rel, name string) pe.Value {
		n := namedType(c, rel, name)
		if n == nil {
			return nil
		}
		return &pe.Iface{T: n, V: pe.NewSym("rep."+name, n)}
	}
	e.reps = map[xfClass]pe.Value{}
	if v := mk("errors", "DocumentError"); v != nil {
		e.reps[xDoc] = v
	}
	if v := mk("errors", "Errorf"); v != nil {
		e.reps[xLib] = v
	}
	if v := mk("notations/internal", "ValidationError"); v != nil {
		e.reps[xVal] = v
	}
	if es := namedOf(c, "errors", "errorString"); es != nil {
		e.reps[xOther] = &pe.Iface{T: types.NewPointer(es), V: pe.NewSym("rep.foreignError", types.NewPointer(es))}
	}
	e.reps[xNon] = &pe.Iface{T: types.Typ[types.String], V: "assertion message"}
	if v, ok := e.reps[xOther]; ok {
		e.reps[xRt] = v // a runtime.Error is an error value outside the library
	}
	fns := c.ModuleFunctions()
	// handlers: functions that call recover()
	for _, fn := range fns {
		calls := false
		for _, b := range fn.Blocks {
			for _, ins := range b.Instrs {
				if call, ok := ins.(*ssa.Call); ok {
					if bi, ok := call.Call.Value.(*ssa.Builtin); ok && bi.Name() == "recover" {
						calls = true
					}
				}
			}
		}
		if calls {
			e.handlers[fn] = e.handlerTransfer(fn)
		}
	}
	// fixpoint
	for iter := 0; iter < 50; iter++ {
		changed := false
		for _, fn := range fns {
			if e.update(fn) {
				changed = true
			}
		}
		if !changed {
			break
		}
	}
	return e
}

// zeroOrSym: interface, pointer-free basic and function cells start at their zero value; structs and
// pointers to library objects are opaque.
func zeroOrSym(in *pe.Interp, t types.Type, name string) pe.Value {
	switch t.Underlying().(type) {
	case *types.Interface, *types.Basic:
		return in.Zero(t)
	}
	return pe.NewSym("captured."+name, t)
}

// handlerTransfer interprets a recovering function on one representative per class.
func (e *xfEngine) handlerTransfer(fn *ssa.Function) *xfHandler {
	h := &xfHandler{fn: fn, transfer: map[xfClass]map[string]bool{}}
	for _, cl := range xfAll {
		rep, ok := e.reps[cl]
		if !ok {
			continue
		}
		outs := pe.ExploreFn(e.cfg, func(in *pe.Interp) pe.Value {
			cls := &pe.Closure{Fn: fn}
			for _, fv := range fn.FreeVars {
				// captured variables are cells; at the time of a panic named results still hold
				// their zero values
				if pt, ok := fv.Type().(*types.Pointer); ok {
					cls.Bind = append(cls.Bind, &pe.Ptr{Obj: in.NewObj(pt.Elem(), zeroOrSym(in, pt.Elem(), fv.Name()), "captured."+fv.Name()), T: pt.Elem()})
				} else {
					cls.Bind = append(cls.Bind, pe.NewSym("captured."+fv.Name(), fv.Type()))
				}
			}
			var args []pe.Value
			for _, p := range fn.Params {
				args = append(args, pe.NewSym(p.Name(), p.Type()))
			}
			if in.RunHandler(cls, args, rep) {
				return "absorbed"
			}
			return "not-recovered"
		})
		res := map[string]bool{}
		for _, o := range outs {
			switch {
			case o.Undecided != "":
				h.problem = "handler not interpretable: " + o.Undecided
				res["raise:"+string(cl)] = true
				res["absorb"] = true
			case o.Panicked:
				nc := xfClass("")
				if i, ok := o.PanicVal.(*pe.Iface); ok {
					nc = e.classOfType(i.T)
				}
				if nc == "" || (cl == xRt && nc == xOther) {
					nc = cl
				}
				res["raise:"+string(nc)] = true
			default:
				if s, _ := o.Ret.(string); s == "absorbed" {
					res["absorb"] = true
				} else {
					// recover() was not reached on this path: the panic continues
					res["raise:"+string(cl)] = true
				}
			}
		}
		h.transfer[cl] = res
	}
	return h
}

func (h *xfHandler) describe() string {
	var parts []string
	for _, cl := range xfAll {
		if t, ok := h.transfer[cl]; ok {
			parts = append(parts, string(cl)+"→"+strings.Join(sortedKeys(t), "|"))
		}
	}
	return strings.Join(parts, "; ")
}

// sourceClasses classifies the operand of a panic instruction.
func (e *xfEngine) sourceClasses(p *ssa.Panic) []xfClass {
	v := p.X
	if mi, ok := v.(*ssa.MakeInterface); ok {
		if c := e.classOfType(mi.X.Type()); c != "" {
			return []xfClass{c}
		}
		v = mi.X
	}
	// re-panic of a recovered value: part of the handler's transfer function
	if derivesFromRecover(v, 0) {
		return nil
	}
	// an interface value: classify by where it comes from
	return e.ifaceClasses(v, 0)
}

func derivesFromRecover(v ssa.Value, depth int) bool {
	if depth > 8 {
		return false
	}
	switch x := v.(type) {
	case *ssa.Call:
		if b, ok := x.Call.Value.(*ssa.Builtin); ok && b.Name() == "recover" {
			return true
		}
	case *ssa.TypeAssert:
		return derivesFromRecover(x.X, depth+1)
	case *ssa.Extract:
		return derivesFromRecover(x.Tuple, depth+1)
	case *ssa.MakeInterface:
		return derivesFromRecover(x.X, depth+1)
	case *ssa.ChangeInterface:
		return derivesFromRecover(x.X, depth+1)
	case *ssa.Phi:
		for _, ed := range x.Edges {
			if derivesFromRecover(ed, depth+1) {
				return true
			}
		}
	case *ssa.Parameter:
		// the recovered value handed to a helper (panics.Handle(recover(), err))
		fn := x.Parent()
		if fn != nil && fn.Name() == "Handle" {
			return true
		}
	}
	return false
}

func (e *xfEngine) ifaceClasses(v ssa.Value, depth int) []xfClass {
	if depth == 0 {
		e.seenVals = map[ssa.Value]bool{}
	}
	if e.seenVals[v] {
		return nil // already being classified (a loop phi)
	}
	e.seenVals[v] = true
	if depth > 10 {
		return []xfClass{xOther}
	}
	switch x := v.(type) {
	case *ssa.MakeInterface:
		if c := e.classOfType(x.X.Type()); c != "" {
			return []xfClass{c}
		}
	case *ssa.ChangeInterface:
		return e.ifaceClasses(x.X, depth+1)
	case *ssa.Phi:
		var out []xfClass
		for _, ed := range x.Edges {
			out = append(out, e.ifaceClasses(ed, depth+1)...)
		}
		return out
	case *ssa.Extract:
		if call, ok := x.Tuple.(*ssa.Call); ok {
			return e.returnedErrorClasses(call, depth)
		}
		if ta, ok := x.Tuple.(*ssa.TypeAssert); ok && x.Index == 0 {
			if c := e.classOfType(ta.AssertedType); c != "" {
				return []xfClass{c}
			}
		}
	case *ssa.Call:
		return e.returnedErrorClasses(x, depth)
	case *ssa.UnOp:
		// loaded from a variable: look at the stores to it in the same function
		if a, ok := x.X.(*ssa.Alloc); ok {
			var out []xfClass
			for _, ref := range *a.Referrers() {
				switch st := ref.(type) {
				case *ssa.Store:
					out = append(out, e.ifaceClasses(st.Val, depth+1)...)
				case *ssa.MakeClosure:
					// the variable is captured: stores made by the closure count too
					cf, _ := st.Fn.(*ssa.Function)
					for i, b := range st.Bindings {
						if b != a || cf == nil || i >= len(cf.FreeVars) {
							continue
						}
						for _, fr := range *cf.FreeVars[i].Referrers() {
							if cs, ok := fr.(*ssa.Store); ok && cs.Addr == cf.FreeVars[i] {
								out = append(out, e.ifaceClasses(cs.Val, depth+1)...)
							}
						}
					}
				}
			}
			if len(out) > 0 || len(*a.Referrers()) > 0 {
				return out
			}
		}
	case *ssa.TypeAssert:
		if c := e.classOfType(x.AssertedType); c != "" {
			return []xfClass{c}
		}
		return e.ifaceClasses(x.X, depth+1)
	case *ssa.Const:
		return nil // nil
	}
	// static type tells at least whether it is an error
	t := v.Type()
	if n, ok := t.(*types.Named); ok && n.Obj().Pkg() != nil && n.Obj().Pkg().Path() == load.Module+"/errors" && n.Obj().Name() == "Err" {
		return []xfClass{xLib, xDoc}
	}
	if types.Implements(t, e.errIface) {
		return []xfClass{xOther}
	}
	return []xfClass{xOther, xNon}
}

// returnedErrorClasses: classes of the error results of a call.
func (e *xfEngine) returnedErrorClasses(call *ssa.Call, depth int) []xfClass {
	sc := call.Call.StaticCallee()
	if sc == nil || !load.FuncInModule(sc) || sc.Blocks == nil {
		return []xfClass{xOther} // an error made outside the library
	}
	var out []xfClass
	// the once-wrappers of internal/sync hand back what the function value they are given returns
	if load.FuncPkgRel(sc) == "internal/sync" {
		for _, a := range call.Call.Args {
			var cf *ssa.Function
			switch fv := a.(type) {
			case *ssa.MakeClosure:
				cf, _ = fv.Fn.(*ssa.Function)
			case *ssa.Function:
				cf = fv
			}
			if cf == nil {
				continue
			}
			for _, b := range cf.Blocks {
				for _, ins := range b.Instrs {
					if ret, ok := ins.(*ssa.Return); ok {
						for _, rv := range ret.Results {
							if isErrType(rv.Type()) {
								out = append(out, e.ifaceClasses(rv, depth+1)...)
							}
						}
					}
				}
			}
		}
		return out
	}
	for _, b := range sc.Blocks {
		for _, ins := range b.Instrs {
			if ret, ok := ins.(*ssa.Return); ok {
				for _, rv := range ret.Results {
					if types.Implements(rv.Type(), e.errIface) || isErrType(rv.Type()) {
						out = append(out, e.ifaceClasses(rv, depth+1)...)
					}
				}
			}
		}
	}
	return out
}

func isErrType(t types.Type) bool {
	if n, ok := t.(*types.Named); ok {
		return n.Obj().Name() == "error" && n.Obj().Pkg() == nil
	}
	return false
}

// update recomputes Escapes(fn); returns whether it grew.
func (e *xfEngine) update(fn *ssa.Function) bool {
	cur := e.escapes[fn]
	if cur == nil {
		cur = xfSet{}
		e.escapes[fn] = cur
	}
	if e.absorbed[fn] == nil {
		e.absorbed[fn] = xfSet{}
	}
	// recovering defers of this function
	type hd struct {
		def *ssa.Defer
		h   *xfHandler
	}
	var hds []hd
	for _, b := range fn.Blocks {
		for _, ins := range b.Instrs {
			d, ok := ins.(*ssa.Defer)
			if !ok {
				continue
			}
			var target *ssa.Function
			switch v := d.Call.Value.(type) {
			case *ssa.Function:
				target = v
			case *ssa.MakeClosure:
				target, _ = v.Fn.(*ssa.Function)
			}
			if h := e.handlers[target]; h != nil {
				hds = append(hds, hd{d, h})
			}
		}
	}
	vta := e.c.VTA()
	node := vta.Nodes[fn]
	siteCallees := map[ssa.CallInstruction][]*ssa.Function{}
	if node != nil {
		for _, ed := range node.Out {
			if ed.Site != nil {
				siteCallees[ed.Site] = append(siteCallees[ed.Site], ed.Callee.Func)
			}
		}
	}
	changed := false
	rtCount := map[string]int{}
	panicNo := 0
	first := !e.visited[fn]
	e.visited[fn] = true
	emit := func(at ssa.Instruction, cl xfClass, why string) {
		classes := map[xfClass]string{cl: why}
		// innermost handler first: later defers run first
		for i := len(hds) - 1; i >= 0; i-- {
			h := hds[i]
			if !dominatesInstr(h.def, at) {
				continue
			}
			next := map[xfClass]string{}
			for c2, w2 := range classes {
				base := baseClass(c2)
				tr := h.h.transfer[base]
				if len(tr) == 0 {
					next[c2] = w2
					continue
				}
				for o := range tr {
					if o == "absorb" {
						if e.absorbed[fn].add(c2, w2) {
							changed = true
						}
					} else {
						nc := xfClass(strings.TrimPrefix(o, "raise:"))
						if nc == base {
							nc = c2 // the same value continues, keeping its source tag
						}
						if _, ok := next[nc]; !ok {
							w3 := w2
							if nc != c2 {
								w3 = w2 + " [converted to " + string(nc) + " by the handler of " + load.FuncKey(fn) + "]"
							}
							next[nc] = w3
						}
					}
				}
			}
			classes = next
		}
		for c2, w2 := range classes {
			if cur.add(c2, w2) {
				changed = true
			}
		}
	}
	for _, b := range fn.Blocks {
		for _, ins := range b.Instrs {
			switch x := ins.(type) {
			case *ssa.Panic:
				if first {
					e.sources++
				}
				panicNo++
				for _, cl := range e.sourceClasses(x) {
					switch cl {
					case xNon:
						// each assertion site is tracked on its own
						cl = xfClass(string(xNon) + "@" + assertionID(fn, x))
					case xLib, xOther:
						f0 := fn
						if o := fn.Origin(); o != nil {
							f0 = o
						}
						cl = xfClass(fmt.Sprintf("%s@%s#%d", cl, load.FuncKey(f0), panicNo))
					}
					emit(x, cl, fmt.Sprintf("panic at %s in %s", e.c.Pos(x.Pos()), load.FuncKey(fn)))
				}
			case *ssa.IndexAddr, *ssa.Index, *ssa.Slice, *ssa.TypeAssert, *ssa.BinOp, *ssa.Lookup:
				if why := implicitPanic(ins); why != "" {
					rtCount[why]++
					f0 := fn
					if o := fn.Origin(); o != nil {
						f0 = o
					}
					id := fmt.Sprintf("%s|%s %s", load.FuncKey(f0), why, operandShape(ins))
					if os.Getenv("JSV_DEBUG_RT") != "" {
						fmt.Fprintln(os.Stderr, "RTID\t"+id)
					}
					emit(ins, xfClass(string(xRt)+"@"+id), fmt.Sprintf("%s at %s in %s", why, e.c.Pos(ins.Pos()), load.FuncKey(fn)))
				}
			case ssa.CallInstruction:
				if _, isDefer := x.(*ssa.Defer); isDefer {
					continue
				}
				cc := x.Common()
				var callees []*ssa.Function
				switch {
				case cc.IsInvoke():
					callees = siteCallees[x]
				case cc.StaticCallee() != nil:
					callees = []*ssa.Function{cc.StaticCallee()}
				default:
					if !derivesFromParam(cc.Value) {
						callees = siteCallees[x]
					}
				}
				for _, a := range cc.Args {
					switch fv := a.(type) {
					case *ssa.MakeClosure:
						callees = append(callees, fv.Fn.(*ssa.Function))
					case *ssa.Function:
						callees = append(callees, fv)
					}
				}
				for _, g := range callees {
					if g != nil && !load.FuncInModule(g) && g.Pkg != nil && isThirdParty(g.Pkg.Pkg.Path()) {
						// code the library does not control and that documents no panic-freedom: any value may
						// be raised from inside it (reggen, for one, panics with strings on some patterns)
						id := "ext:" + g.Pkg.Pkg.Path() + "." + g.Name()
						emit(x, xfClass(string(xNon)+"@"+id), fmt.Sprintf("call of third-party %s.%s at %s in %s", g.Pkg.Pkg.Path(), g.Name(), e.c.Pos(x.Pos()), load.FuncKey(fn)))
						continue
					}
					if g == nil || !load.FuncInModule(g) || load.IsAux(load.FuncPkgRel(g)) {
						continue
					}
					for cl, why := range e.escapes[g] {
						emit(x, cl, why+" ← "+load.FuncKey(fn))
					}
				}
			}
		}
	}
	return changed
}

// isThirdParty: an import path outside the standard library (first element has a dot) and outside
// this module.
func isThirdParty(path string) bool {
	if strings.HasPrefix(path, load.Module) {
		return false
	}
	first := path
	if i := strings.Index(path, "/"); i >= 0 {
		first = path[:i]
	}
	return strings.Contains(first, ".")
}

// --- rules -------------------------------------------------------------------------------------

func init() {
	register(&Rule{ID: "XF-1", Min: 25, Run: runXF1,
		Doc: "nothing panics out of a public method: for every exported function and method of the API packages, the set of panic values that can escape it (explicit panics of the library propagated over the call graph through the recover handlers, whose behaviour is derived from their own code) is empty; an assertion panic with a non-error value that no handler stops must be in the reviewed table of invariant assertions"})
	register(&Rule{ID: "XF-render", Min: 10, Run: runXFrender,
		Doc: "rendering never panics: XF-1 for the exported functions and methods of package errors — no explicit panic and no index/slice operation whose operands are not covered by a recognised guard or by the reviewed table (keyed by the operand expressions, so a changed bound must be reviewed again) can escape them"})
	register(&Rule{ID: "XF-2", Min: 25, Run: runXF2,
		Doc: "every error a public method returns by recovering a panic is a structured library error: the classes of panic values its handlers turn into returned errors are DocumentError / ValidationError only (a bare error code or a foreign error absorbed and returned has no position or no code/message API)"})
	register(&Rule{ID: "XF-H", Min: 10, Run: runXFH,
		Doc: "recover handlers: every function that calls recover() has a transfer function (which classes of panic value it absorbs, re-raises or converts) that can be derived by interpreting its own code; inventory of the functions that install one"})
}

// apiMethods: exported functions and exported methods of exported types in the public packages.
func apiFunctions(c *load.Ctx) []*ssa.Function {
	public := map[string]bool{"notations/jschema": true, "notations/regex": true, "rules/enum": true, "formats/json": true, "kit": true, "errors": true, ".": true}
	var out []*ssa.Function
	for _, fn := range c.ModuleFunctions() {
		if fn.Parent() != nil || fn.Synthetic != "" || !public[load.FuncPkgRel(fn)] {
			continue
		}
		obj, _ := fn.Object().(*types.Func)
		if obj == nil || !obj.Exported() {
			continue
		}
		if recv := fn.Signature.Recv(); recv != nil {
			t := recv.Type()
			if p, ok := t.(*types.Pointer); ok {
				t = p.Elem()
			}
			if n, ok := t.(*types.Named); !ok || !n.Obj().Exported() {
				continue
			}
		}
		out = append(out, fn)
	}
	sort.Slice(out, func(i, j int) bool { return load.FuncKey(out[i]) < load.FuncKey(out[j]) })
	return out
}

// xfAssertions: panics with a non-error value that can reach a public method. Each asserts an
// internal invariant; feasibility is not decided statically (stated limitation).
var xfAssertions = map[string]string{
	`errors.(DocumentError).preparation|"The file is not specified"`:                                                       "Line/SourceSubString test e.file == nil before calling preparation, String tests it before rendering a position",
	`errors.(Errorf).Error|"Unknown error code"`:                                                                           "discharged by ET-3: every declared code has a template",
	`errors.(Errorf).Error|"Invalid error message: "+…`:                                                                    "discharged by ET-1: argument count equals verb count at every Format site",
	`errors.(ErrorCode).Error|"Unknown error code"`:                                                                        "discharged by ET-3",
	`errors.(ErrorCode).Error|"Not enough data to generate an error message from template: "+…`:                            "discharged by ET-2: bare codes have zero-verb templates",
	`internal/ds.(Stack[T]).Peek|"Reading from empty stack"`:                                                               "the scanners' push/pop pairing; unreachable in every explored scanner state (SX-crash)",
	`internal/ds.(Stack[T]).Get|"Reading a nonexistent element of the stack"`:                                              "guarded by the stack length at every call site; unreachable in every explored scanner state (SX-crash)",
	`notations/jschema/internal/scanner.stateFoundObjectEnd|"Incorrect annotation begin in stack"`:                         "the annotation kind on the stack is one of the two tested; unreachable in the explored states (SX-crash)",
	`notations/jschema/internal/scanner.finishShortcut|<computed message>`:                                                 "stack top is one of the shortcut kinds when a shortcut ends; unreachable in the explored states (SX-crash)",
	`notations/jschema/internal/scanner.(Scanner).shiftFound|"Empty set of found lexical event"`:                           "both call sites test len(s.finds) != 0 first",
	`notations/jschema/internal/scanner.(Scanner).processingFoundLexemeClosingTag|"Incorrect ending of the lexical event"`: "closing events are generated against the matching stack top; unreachable in the explored states (SX-crash)",
	`notations/jschema/internal/schema/constraint.(Type).String|"Unknown constraint type"`:                                 "generated stringer default: values are declared constants",
	`fs.normalizeFileContent|<computed message>`:                                                                           "the type switch covers the whole type set of the FileContent constraint",
	`internal/json.(GuessData).LiteralJsonType|<computed message>`:                                                         "called on scanner-produced literal tokens under a CatchLexEventError handler; a value no predicate recognises comes back as a DocumentError there",
	`formats/json.(scanner).shiftFound|"Empty set of found lexical event"`:                                                 "both call sites test len(s.finds) != 0 first",
	`formats/json.(scanner).processFoundLexemeClosingTag|"Incorrect ending of the lexical event"`:                          "unreachable in every explored scanner state (SX-crash / SA-J); the explorations stop at a rejecting transition, and Document.NextLexeme does not step the scanner after one (SA-Jlatch)",
	`notations/jschema/internal/schema.(ObjectNode).Key|<computed message>`:                                                "called with the index of an existing child",
	`notations/jschema/internal/scanner.(Scanner).Length|"Method not allowed"`:                                             "Length is only called on a scanner built with ComputeLength (Schema.computeLen)",
}

// xfReturnReviewed: unpositioned panic values that the propagation (which is context-insensitive)
// lets reach an API-level handler, but which cannot be raised on that path.
var xfReturnReviewed = map[string]string{
	"returned|notations/jschema.(Schema).Validate|LibraryError|from=notations/jschema/internal/schema.(Schema).MustType#1":                      "validation runs only after Check succeeded, and the link checker has then verified that every referenced type exists",
	"returned|notations/jschema.(Schema).Validate|LibraryError|from=notations/jschema/internal/validator.newArrayValidator#1":                   "internal assertion: the validator constructor is chosen by a switch on the node's own type",
	"returned|notations/jschema.(Schema).Validate|LibraryError|from=notations/jschema/internal/validator.newLiteralValidator#1":                 "internal assertion: the validator constructor is chosen by a switch on the node's own type",
	"returned|notations/jschema.(Schema).Validate|LibraryError|from=notations/jschema/internal/validator.newObjectValidator#1":                  "internal assertion: the validator constructor is chosen by a switch on the node's own type",
	"returned|notations/jschema.(Schema).compile$1|LibraryError|from=notations/jschema/internal/schema.(Schema).MustType#1":                     "outside extendWith (which converts it) processType is only called with names ranged from the type table itself",
	"returned|notations/jschema.(Schema).compile$1|LibraryError|from=notations/jschema/internal/loader.(allOfConstraintCompiler).processType#1": "the recursion panic needs a type already in progress, which can only happen below extendWith, whose handler positions it",
	"returned|notations/jschema.(Schema).load$1|ForeignError|from=notations/jschema.(Schema).buildASTNode#1":                                    "Node.ASTNode implementations only pass on errors of their children; the leaves never return one",
	"returned|notations/jschema.(Schema).load$1|ForeignError|from=notations/jschema/internal/schema.collectASTRules#1":                          "the or constraint is always added together with its types list (ruleLoader and addORShortcut)",
	"returned|notations/jschema.(Schema).load$1|LibraryError|from=notations/jschema/internal/loader.(loader).doLoad#1":                          "handleLex returns an error only from addShortcutConstraint for a lexeme that is not TypesShortcutEnd, and it is called for exactly that lexeme",
	"returned|notations/jschema.(Schema).load$1|LibraryError|from=notations/jschema/internal/schema.(MixedValueNode).addTypeConstraint#1":       "outside the rule loader (whose handler positions it) a type constraint is added only by a shortcut to its freshly created node",
	"returned|notations/jschema.(Schema).load$1|LibraryError|from=notations/jschema/internal/schema.(Schema).addType#1":                         "outside handlers only AddUnnamedType reaches it, with a name made from the new object's address",
	"returned|notations/jschema.(Schema).load$1|LibraryError|from=notations/jschema/internal/schema.(baseNode).AddConstraint#1":                 "outside the rule loader (whose handler positions it) constraints are added only by a shortcut to its freshly created node",
}

// xfRuntimeReviewed: index/slice operations that can reach a public function without a handler and
// are in range for a reason the guard recogniser does not see.
var xfRuntimeReviewed = map[string]string{
	"errors.(DocumentError).lineBeginning|slice index Content()[·]":                                  "i starts at e.index, which preparation() keeps below the content length (LB-render), and only decreases down to 0",
	"errors.(DocumentError).lineEnd|slice index Content()[·]":                                        "content[i] is guarded by i < e.length, e.length being len(content) set by preparation(); content[i-1] is read under i > 0, with i <= e.length",
	"errors.(DocumentError).Line|slice index Content()[·]":                                           "i starts at e.index < len(content) after preparation() (LB-render; empty content returns earlier) and only decreases down to 0",
	"errors.(DocumentError).SourceSubString|slice expression Content()[lineBeginning():·]":           "the upper bound is begin+maxLength-3, taken only when end-begin > maxLength, so begin <= bound < end <= len(content)",
	"errors.(DocumentError).SourceSubString|slice expression Content()[lineBeginning():lineEnd()]":   "begin <= end <= len(content): both come from lineBeginning/lineEnd of the same prepared error",
	"errors.(DocumentError).pointerToTheErrorCharacter|slice expression Content()[lineBeginning():]": "begin <= e.index < len(content)",
	"bytes.(Bytes).TrimSpacesFromLeft|slice expression ·[·:]":                                        "slices at the index of a range loop over the same slice",
	"<root>.(ASTNodes).delete|slice expression .order[:·]":                                           "the bound is the index of an element of m.order found by the search loop just before",
	"<root>.(ASTNodes).delete|slice expression .order[·:]":                                           "index+1 <= len(m.order) for the index of an element of m.order",
	"<root>.(RuleASTNodes).delete|slice expression .order[:·]":                                       "the bound is the index of an element of m.order found by the search loop just before",
	"<root>.(RuleASTNodes).delete|slice expression .order[·:]":                                       "index+1 <= len(m.order) for the index of an element of m.order",
	"internal/json.(scanner).setExp|slice expression ·[.expBegin:]":                                  "expBegin is the index of a byte of value that was scanned",
	"internal/json.(Number).trimTrailingZerosInTheFractionalPart|slice index .nat[·]":                "the loop runs while exp != 0 and exp <= len(nat) was checked on entry; each step removes one byte and one unit of exp",
	"internal/json.(Number).trimTrailingZerosInTheFractionalPart|slice expression .nat[:·]":          "same invariant: len(nat) >= exp > 0",
	"internal/json.(Number).trimLeadingZerosInTheIntegerPart|slice index .nat[0]":                    "the loop runs intLen = len(nat)-exp times at most, removing one byte each time",
	"internal/json.(Number).trimLeadingZerosInTheIntegerPart|slice expression .nat[1:]":              "same invariant",
	"bytes.(Bytes).ParseInt|slice index ·[0]":                                                        "reached from the public GuessSchemaType only through the numeral scanner's setExp, with the non-empty exponent text",
	"bytes.(Bytes).ParseInt|slice expression ·[1:]":                                                  "same: b is non-empty",
	"<root>.(typeGuesser).isString|slice index .data[·]":                                             "under length >= 2 in the same condition",
}

func runXF1(c *load.Ctx, r *report.RuleResult) { runXFescape(c, r, nil) }

// runXFrender is XF-1 restricted to the error renderer's public functions (package errors).
func runXFrender(c *load.Ctx, r *report.RuleResult) {
	runXFescape(c, r, func(fn *ssa.Function) bool {
		return fn.Pkg != nil && strings.HasSuffix(fn.Pkg.Pkg.Path(), "/errors")
	})
}

func runXFescape(c *load.Ctx, r *report.RuleResult, only func(*ssa.Function) bool) {
	e := xfFor(c)
	usedAssertions := map[string]bool{}
	for _, fn := range apiFunctions(c) {
		if only != nil && !only(fn) {
			continue
		}
		key := "escape|" + load.FuncKey(fn)
		esc := e.escapes[fn]
		var bad []string
		reviewed := 0
		var classes []string
		for cl := range esc {
			classes = append(classes, string(cl))
		}
		sort.Strings(classes)
		for _, cls := range classes {
			why := esc[xfClass(cls)]
			if strings.HasPrefix(cls, string(xNon)+"@") {
				id := strings.TrimPrefix(cls, string(xNon)+"@")
				if _, ok := xfAssertions[id]; ok {
					reviewed++
					usedAssertions[id] = true
					continue
				}
				if strings.HasPrefix(id, "ext:") {
					bad = append(bad, fmt.Sprintf("a panic raised inside third-party code (%s) is stopped by no handler on the way out: %s", strings.TrimPrefix(id, "ext:"), why))
					continue
				}
				bad = append(bad, fmt.Sprintf("unreviewed assertion panic %s: %s", id, why))
				continue
			}
			if strings.HasPrefix(cls, string(xRt)+"@") {
				id := strings.TrimPrefix(cls, string(xRt)+"@")
				if _, ok := xfRuntimeReviewed[id]; ok {
					reviewed++
					usedAssertions["rt:"+id] = true
					continue
				}
				bad = append(bad, fmt.Sprintf("unguarded run-time panic source %s: %s", id, why))
				continue
			}
			bad = append(bad, fmt.Sprintf("%s: %s", cls, why))
		}
		if len(bad) > 6 {
			bad = append(bad[:6], fmt.Sprintf("… and %d more", len(bad)-6))
		}
		if len(bad) > 0 {
			r.Bad(key, c.Pos(fn.Pos()), "a panic can escape this public function — "+strings.Join(bad, " || "))
		} else {
			r.OK(key, c.Pos(fn.Pos()), fmt.Sprintf("no error value escapes; %d reviewed invariant assertion(s) reachable", reviewed))
		}
	}
	for _, id := range sortedKeys(usedAssertions) {
		if strings.HasPrefix(id, "rt:") {
			r.OK("runtime|"+strings.TrimPrefix(id, "rt:"), "", "reviewed in-range argument: "+xfRuntimeReviewed[strings.TrimPrefix(id, "rt:")])
			continue
		}
		r.OK("assertion|"+id, "", "reviewed invariant assertion: "+xfAssertions[id])
	}
	r.Note("%d explicit panic sites and %d recover handlers in the library", e.sources, len(e.handlers))
}

func assertionSource(why string) string {
	// "panic at file:line in <func> ← ..." -> "<func>"
	if i := strings.Index(why, " in "); i >= 0 {
		rest := why[i+4:]
		if j := strings.Index(rest, " ←"); j >= 0 {
			rest = rest[:j]
		}
		if j := strings.Index(rest, " ["); j >= 0 {
			rest = rest[:j]
		}
		return rest
	}
	return why
}

func runXF2(c *load.Ctx, r *report.RuleResult) {
	e := xfFor(c)
	public := map[string]bool{"notations/jschema": true, "notations/regex": true, "rules/enum": true, "formats/json": true, "kit": true, ".": true}
	// handlers of the API layer turn what they absorb into the returned error
	var fns []*ssa.Function
	for fn, abs := range e.absorbed {
		if len(abs) > 0 && public[load.FuncPkgRel(fn)] {
			fns = append(fns, fn)
		}
	}
	sort.Slice(fns, func(i, j int) bool { return load.FuncKey(fns[i]) < load.FuncKey(fns[j]) })
	for _, fn := range fns {
		abs := e.absorbed[fn]
		var classes []string
		for cl := range abs {
			classes = append(classes, string(cl))
		}
		sort.Strings(classes)
		okCount := 0
		for _, cls := range classes {
			base := baseClass(xfClass(cls))
			switch base {
			case xDoc, xVal:
				okCount++
				continue
			case xRt, xNon:
				// implicit run-time panics are not proven absent (what is decided is that they cannot escape
				// as panics, XF-1); assertion values are covered by XF-1's reviewed table
				continue
			}
			src := strings.TrimPrefix(cls, string(base)+"@")
			key := fmt.Sprintf("returned|%s|%s|from=%s", load.FuncKey(fn), base, src)
			if reason, ok := xfReturnReviewed[key]; ok {
				r.OK(key, c.Pos(fn.Pos()), "reviewed: "+reason)
				continue
			}
			r.Bad(key, c.Pos(fn.Pos()), fmt.Sprintf("the handler of this function turns a %s into the returned error: %s — it has no position (and, for a foreign error, no code/message API), so the caller does not get a structured library error", base, abs[xfClass(cls)]))
		}
		r.OK("returned|"+load.FuncKey(fn)+"|positioned", c.Pos(fn.Pos()), fmt.Sprintf("%d positioned error class(es) recovered into the returned error", okCount))
	}
}

func runXFH(c *load.Ctx, r *report.RuleResult) {
	e := xfFor(c)
	var hs []*ssa.Function
	for fn := range e.handlers {
		hs = append(hs, fn)
	}
	sort.Slice(hs, func(i, j int) bool { return load.FuncKey(hs[i]) < load.FuncKey(hs[j]) })
	for _, fn := range hs {
		h := e.handlers[fn]
		key := "handler|" + load.FuncKey(fn)
		if h.problem != "" {
			r.Unk(key, c.Pos(fn.Pos()), h.problem)
		} else {
			r.OK(key, c.Pos(fn.Pos()), h.describe())
		}
	}
	// which functions install a handler (coverage is by dominance, see update)
	for _, fn := range c.ModuleFunctions() {
		for _, b := range fn.Blocks {
			for _, ins := range b.Instrs {
				d, ok := ins.(*ssa.Defer)
				if !ok {
					continue
				}
				var target *ssa.Function
				switch v := d.Call.Value.(type) {
				case *ssa.Function:
					target = v
				case *ssa.MakeClosure:
					target, _ = v.Fn.(*ssa.Function)
				}
				if e.handlers[target] == nil {
					continue
				}
				r.OK("defer|"+load.FuncKey(fn)+"|"+load.FuncKey(target), c.Pos(d.Pos()), "covers the instructions its defer statement dominates")
			}
		}
	}
}

// assertionID names an assertion panic by its function and constant message.
func assertionID(fn *ssa.Function, p *ssa.Panic) string {
	msg := "<computed message>"
	v := p.X
	if mi, ok := v.(*ssa.MakeInterface); ok {
		v = mi.X
	}
	if k, ok := v.(*ssa.Const); ok && k.Value != nil {
		msg = k.Value.ExactString()
	} else if b, ok := v.(*ssa.BinOp); ok {
		if k, ok := b.X.(*ssa.Const); ok && k.Value != nil {
			msg = k.Value.ExactString() + "+…"
		}
	}
	f := fn
	if o := fn.Origin(); o != nil {
		f = o
	}
	return load.FuncKey(f) + "|" + msg
}

// implicitPanic: instructions that can raise a run-time panic depending on data.
func implicitPanic(ins ssa.Instruction) string {
	switch x := ins.(type) {
	case *ssa.IndexAddr:
		switch x.X.Type().Underlying().(type) {
		case *types.Slice:
			if k, ok := x.Index.(*ssa.Const); ok && k.Value != nil && (fixedLen(x.X, k.Int64()) || lenGuarded(ins, x.X, k.Int64())) {
				return ""
			}
			if idxGuarded(ins, x.X, x.Index) {
				return ""
			}
			return "slice index"
		}
	case *ssa.Index:
		if _, isStr := x.X.Type().Underlying().(*types.Basic); isStr {
			return "string index"
		}
	case *ssa.Lookup:
		if _, isStr := x.X.Type().Underlying().(*types.Basic); isStr {
			if k, ok := x.Index.(*ssa.Const); ok && k.Value != nil && lenGuarded(ins, x.X, k.Int64()) {
				return ""
			}
			return "string index"
		}
	case *ssa.Slice:
		if x.Low == nil && x.High == nil {
			return ""
		}
		if _, isPtr := x.X.Type().Underlying().(*types.Pointer); isPtr {
			return "" // slicing an array with constant bounds
		}
		return "slice expression"
	case *ssa.TypeAssert:
		if !x.CommaOk {
			return "type assertion without ok"
		}
	case *ssa.BinOp:
		if x.Op.String() == "/" || x.Op.String() == "%" {
			if k, ok := x.Y.(*ssa.Const); ok && k.Value != nil && k.Int64() != 0 {
				return ""
			}
			if b, ok := x.Type().Underlying().(*types.Basic); ok && b.Info()&types.IsInteger != 0 {
				return "integer division"
			}
		}
	}
	return ""
}

// idxGuarded: the index is tested against len(slice) on a dominating branch (the shape of every
// range loop and of `if i < len(s)` guards).
func idxGuarded(at ssa.Instruction, s, idx ssa.Value) bool {
	fn := at.Parent()
	same := func(v ssa.Value) bool { return v == s || sameOrigin(v, s) }
	for _, b := range fn.Blocks {
		iff, ok := b.Instrs[len(b.Instrs)-1].(*ssa.If)
		if !ok {
			continue
		}
		bo, ok := iff.Cond.(*ssa.BinOp)
		if !ok {
			continue
		}
		var good *ssa.BasicBlock
		switch {
		case bo.X == idx && isLenOf(bo.Y, same):
			switch bo.Op.String() {
			case "<":
				good = b.Succs[0]
			case ">=":
				good = b.Succs[1]
			}
		case bo.Y == idx && isLenOf(bo.X, same):
			switch bo.Op.String() {
			case ">":
				good = b.Succs[0]
			case "<=":
				good = b.Succs[1]
			}
		}
		if good != nil && (good == at.Block() || good.Dominates(at.Block())) {
			return true
		}
	}
	return false
}

func baseClass(c xfClass) xfClass {
	if i := strings.Index(string(c), "@"); i >= 0 {
		return xfClass(string(c)[:i])
	}
	return c
}

func init() {
	register(&Rule{ID: "XF-3", Min: 3, Run: runXF3,
		Doc: "no unpositioned library error is returned as an error value: every return statement of the library whose error operand is made directly from an errors.ErrorCode / errors.Errorf (instead of a DocumentError) is either converted by its caller or listed as a finding — such a value reaches the API caller without file and position"})
}

// xfLibReturnReviewed: returns of bare library errors that are positioned by their (only) callers.
var xfLibReturnReviewed = map[string]string{
	"libreturn|notations/jschema/internal/loader.(schemaCompiler).checkMinAndMax#1":                  "the only caller (compileNode through checkPairConstraints) panics the value under its CatchLexEventError handler, which positions it",
	"libreturn|notations/jschema/internal/loader.(schemaCompiler).checkMinAndMax#2":                  "same: positioned by compileNode's handler",
	"libreturn|notations/jschema/internal/loader.(schemaCompiler).checkMinLengthAndMaxLength#1":      "same: positioned by compileNode's handler",
	"libreturn|notations/jschema/internal/loader.(schemaCompiler).checkMinItemsAndMaxItems#1":        "same: positioned by compileNode's handler",
	"libreturn|notations/jschema/internal/loader.(schemaCompiler).allowedConstraintCheck#1":          "same: compileNode panics it under its handler",
	"libreturn|notations/jschema/internal/checker.(checkSchema).checkCompatibilityOfConstraints$1#1": "the enclosing function panics the value and checkNode's CatchLexEventError handler positions it",
	"libreturn|notations/jschema/internal/checker.newNodeChecker#1":                                  "ErrImpossible for a node type that does not exist; the caller panics it under checkNode's handler",
	"libreturn|notations/jschema/internal/loader.addShortcutConstraint#1":                            "ErrLoader for a lexeme that is not TypesShortcutEnd; the function is called for exactly that lexeme",
	"libreturn|notations/jschema/internal/checker.(recursionChecker).check#1":                        "ErrImpossible for a node type that does not exist",
	"libreturn|notations/jschema.(exampleBuilder).buildObjectKey#1":                                  "unknown key-shortcut type: Example compiles (and so link-checks) the schema first, so the type exists",
	"libreturn|notations/jschema.(exampleBuilder).buildExampleForMixedValueNode#1":                   "ErrLoader for a shortcut node without type names: the loader always records at least one",
	"libreturn|notations/jschema.(exampleBuilder).buildExampleForMixedValueNode#2":                   "unknown type: excluded by the link check that Example's compile performs first",
}

func runXF3(c *load.Ctx, r *report.RuleResult) {
	e := xfFor(c)
	apiReach := reachableFrom(c, apiFunctions(c)...)
	for _, fn := range c.ModuleFunctions() {
		n := 0
		for _, b := range fn.Blocks {
			for _, ins := range b.Instrs {
				mi, ok := ins.(*ssa.MakeInterface)
				if !ok || !isErrType(mi.Type()) || e.classOfType(mi.X.Type()) != xLib {
					continue
				}
				// is this error value returned (directly, or through a result cell spilled around defers)?
				returned := false
				for _, ref := range *mi.Referrers() {
					switch x := ref.(type) {
					case *ssa.Return:
						returned = true
					case *ssa.Store:
						if a, ok := x.Addr.(*ssa.Alloc); ok && x.Val == mi {
							for _, ar := range *a.Referrers() {
								if u, ok := ar.(*ssa.UnOp); ok {
									for _, ur := range *u.Referrers() {
										if _, isRet := ur.(*ssa.Return); isRet {
											returned = true
										}
									}
								}
							}
						}
					}
				}
				if !returned {
					continue
				}
				n++
				key := fmt.Sprintf("libreturn|%s#%d", load.FuncKey(fn), n)
				// the same fact keyed by who returns which code: a site that moved into another method of the
				// same type (an extracted helper) is the reviewed site
				alt := ""
				codeConst := func(v ssa.Value) *ssa.Const {
					if k, ok := v.(*ssa.Const); ok && k.Value != nil {
						return k
					}
					if call, ok := v.(*ssa.Call); ok && len(call.Call.Args) >= 1 {
						if sc := call.Call.StaticCallee(); sc != nil && sc.Name() == "Format" && load.FuncPkgRel(sc) == "errors" {
							if k, ok := call.Call.Args[0].(*ssa.Const); ok && k.Value != nil {
								return k
							}
						}
					}
					return nil
				}
				if k := codeConst(mi.X); k != nil {
					owner := fn
					for owner.Parent() != nil {
						owner = owner.Parent()
					}
					recv := "-"
					if rv := owner.Signature.Recv(); rv != nil {
						t := rv.Type()
						if pt, ok := t.(*types.Pointer); ok {
							t = pt.Elem()
						}
						if nt, ok := t.(*types.Named); ok {
							recv = nt.Obj().Name()
						}
					}
					alt = fmt.Sprintf("%s.(%s)|code %s", load.FuncPkgRel(fn), recv, k.Value.ExactString())
				}
				if os.Getenv("JSV_DEBUG_RT") != "" {
					fmt.Fprintln(os.Stderr, "LIBRET\t"+key+"\t"+alt)
				}
				_, reachable := apiReach[fn]
				switch {
				case !reachable:
					r.OK(key, c.Pos(mi.Pos()), "not reachable from a public function")
				case xfLibReturnReviewed[key] != "":
					r.OK(key, c.Pos(mi.Pos()), "reviewed: "+xfLibReturnReviewed[key])
				case alt != "" && xfLibReturnReviewedByCode[alt] != "":
					r.OK(key, c.Pos(mi.Pos()), "reviewed (the site moved within its type): "+xfLibReturnReviewedByCode[alt])
				default:
					r.Bad(key, c.Pos(mi.Pos()), "returns a bare library error code (no file, no position) as an error value on a path reachable from the public API")
				}
			}
		}
	}
}

// operandShape describes the operands of an index/slice operation (part of the key of a reviewed
// in-range argument: a changed expression must be reviewed again).
func operandShape(ins ssa.Instruction) string {
	// Operands are described coarsely — constants by value, calls by callee, loads of fields by field
	// name, everything else (locals, parameters, arithmetic) as "·" — so that renaming a local or
	// re-spelling a loop keeps the key while replacing an operand by a constant or another source
	// changes it.
	var d func(v ssa.Value) string
	d = func(v ssa.Value) string {
		switch x := v.(type) {
		case nil:
			return ""
		case *ssa.Const:
			if x.Value != nil {
				return x.Value.ExactString()
			}
			return "nil"
		case *ssa.Call:
			if sc := x.Call.StaticCallee(); sc != nil {
				return sc.Name() + "()"
			}
		case *ssa.UnOp:
			if fa, ok := x.X.(*ssa.FieldAddr); ok {
				return "." + fieldName(fa.X.Type(), fa.Field)
			}
		case *ssa.Convert:
			return d(x.X)
		case *ssa.ChangeType:
			return d(x.X)
		}
		return "·"
	}
	switch x := ins.(type) {
	case *ssa.IndexAddr:
		return d(x.X) + "[" + d(x.Index) + "]"
	case *ssa.Index:
		return d(x.X) + "[" + d(x.Index) + "]"
	case *ssa.Lookup:
		return d(x.X) + "[" + d(x.Index) + "]"
	case *ssa.Slice:
		return d(x.X) + "[" + d(x.Low) + ":" + d(x.High) + "]"
	case *ssa.TypeAssert:
		return d(x.X) + ".(" + typeStr(x.AssertedType) + ")"
	case *ssa.BinOp:
		return d(x.X) + x.Op.String() + d(x.Y)
	}
	return ""
}

// --- ON-1: nothing panics out of a once-only step ------------------------------------------------------

func init() {
	register(&Rule{ID: "ON-1", Min: 9, Run: runON1,
		Doc: "no panic leaves a once-only step: for every call of a Do method of the once-wrappers in internal/sync, no panic value can escape the function handed to it (exception-flow summary of that function: every class raised inside is absorbed by a handler inside, reviewed invariant assertions and in-range sites aside) — a panic that unwinds through sync.Once marks it done without storing the error, so only the first caller (through a handler further out) sees the failure and every later or concurrent caller gets a nil error and a half-built object"})
}

func runON1(c *load.Ctx, r *report.RuleResult) {
	e := xfFor(c)
	n := 0
	for _, fn := range c.ModuleFunctions() {
		if load.IsAux(load.FuncPkgRel(fn)) || load.FuncPkgRel(fn) == "internal/sync" {
			continue
		}
		for _, b := range fn.Blocks {
			for _, ins := range b.Instrs {
				call, ok := ins.(*ssa.Call)
				if !ok {
					continue
				}
				sc := call.Call.StaticCallee()
				if sc == nil || len(call.Call.Args) < 2 {
					continue
				}
				name := sc.Name()
				if o := sc.Origin(); o != nil {
					name = o.Name()
				}
				if name != "Do" || load.FuncPkgRel(sc) != "internal/sync" {
					continue
				}
				var step *ssa.Function
				switch a := call.Call.Args[1].(type) {
				case *ssa.MakeClosure:
					step, _ = a.Fn.(*ssa.Function)
				case *ssa.Function:
					step = a
				}
				n++
				key := fmt.Sprintf("once-step|%s|%s", load.FuncKey(fn), onceFieldName(call.Call.Args[0]))
				if step == nil {
					r.Unk(key, c.Pos(call.Pos()), "the function handed to Do is not a function literal or a named function")
					continue
				}
				var bad []string
				reviewed := 0
				esc := e.escapes[step]
				var classes []string
				for cl := range esc {
					classes = append(classes, string(cl))
				}
				sort.Strings(classes)
				for _, cls := range classes {
					why := esc[xfClass(cls)]
					if strings.HasPrefix(cls, string(xNon)+"@") {
						if _, ok := xfAssertions[strings.TrimPrefix(cls, string(xNon)+"@")]; ok {
							reviewed++
							continue
						}
					}
					if strings.HasPrefix(cls, string(xRt)+"@") {
						if _, ok := xfRuntimeReviewed[strings.TrimPrefix(cls, string(xRt)+"@")]; ok {
							reviewed++
							continue
						}
					}
					bad = append(bad, fmt.Sprintf("%s: %s", cls, why))
				}
				if len(bad) > 4 {
					bad = append(bad[:4], fmt.Sprintf("… and %d more", len(bad)-4))
				}
				if len(bad) > 0 {
					r.Bad(key, c.Pos(call.Pos()), "a panic can leave the once-only step (no handler inside the function handed to Do): "+strings.Join(bad, " || ")+" — the Once is then done with no error stored: later callers get nil")
				} else {
					r.OK(key, c.Pos(call.Pos()), fmt.Sprintf("nothing escapes the step; %d reviewed assertion(s) / in-range site(s) reachable", reviewed))
				}
			}
		}
	}
	r.Stat("once_steps", n)
}

func onceFieldName(v ssa.Value) string {
	if fa, ok := v.(*ssa.FieldAddr); ok {
		return fieldName(fa.X.Type(), fa.Field)
	}
	return "?"
}

// xfLibReturnReviewedByCode is filled below from the reviewed sites of the tree the table was written
// for: receiver type and error code of each reviewed site.
var xfLibReturnReviewedByCode = map[string]string{
	"notations/jschema.(exampleBuilder)|code 801":                  "ErrLoader for a shortcut node without type names: the loader always records at least one",
	"notations/jschema.(exampleBuilder)|code 1302":                 "unknown type: excluded by the link check that Example's compile performs first",
	"notations/jschema.(exampleBuilder)|code 102":                  "unknown key-shortcut type: Example compiles (and so link-checks) the schema first, so the type exists",
	"notations/jschema/internal/checker.(checkSchema)|code 1117":   "the enclosing function panics the value and checkNode's CatchLexEventError handler positions it",
	"notations/jschema/internal/checker.(recursionChecker)|code 1": "ErrImpossible for a node type that does not exist",
	"notations/jschema/internal/loader.(schemaCompiler)|code 1117": "compileNode panics it under its handler",
	"notations/jschema/internal/loader.(schemaCompiler)|code 618":  "positioned by compileNode's handler",
	"notations/jschema/internal/loader.(schemaCompiler)|code 617":  "positioned by compileNode's handler",
}
