package rules

import (
	"fmt"
	"go/ast"
	"go/token"
	"go/types"
	"strings"
	"sync"

	"golang.org/x/tools/go/packages"
	"golang.org/x/tools/go/ssa"
	"golang.org/x/tools/go/types/typeutil"

	"verif/internal/load"
	"verif/internal/report"
)

// MO — order-sensitive iteration over Go maps.

func init() {
	register(&Rule{ID: "MO", Min: 10, Run: runMO,
		Doc: "no result depends on Go's randomised map iteration order: every `range` over a map is either order-insensitive by construction (the body only inserts/deletes entries keyed by the iteration key, counts, or collects keys into a slice that is sorted before use) or is listed in the reviewed table with the reason why the order cannot be observed; a map range with an early exit, a last-writer-wins assignment, an append that is not sorted afterwards or a call that can fail is a violation"})
}

type moSite struct {
	pkg   *packages.Package
	fd    *ast.FuncDecl
	rs    *ast.RangeStmt
	key   string
	shape string
}

// reviewed exemptions: function + ranged expression -> reason, and the shape (exits / outer writes)
// that was reviewed; a changed shape voids the exemption.
var moExempt = map[string]struct{ reason, shape string }{
	"maporder|notations/jschema/internal/loader.(schemaCompiler).allowedConstraintCheck|range bannedConstraints": {
		"the keys are the format/any constraints {email, uri, date, datetime, uuid, any}; at most one of them is present on a node (each is produced only by the node's single type rule), so at most one iteration can return", "exits=return;writes=call String"},
	"maporder|notations/jschema/internal/schema.(baseNode).SchemaType|range constraintToSchemaTypeMap": {
		"same key set {any, date, datetime, uuid, uri, email}: at most one is present on a node, so at most one iteration returns", "exits=return;writes="},
	"maporder|notations/jschema/internal/loader.CompileAllOf|range c.foundTypes": {
		"inserts each found type under its own (unique) name into the root's type table: insertions under distinct keys commute; AddType fails only on a name that is already present, which does not depend on the order of the others", "exits=;writes=call AddType"},
	"maporder|notations/jschema/internal/validator.(Tree).setLeavesIndexes|range t.leaves": {
		"the index slice only fixes the order in which live leaves are fed one lexeme; leaves are independent, and what escapes FeedLeaves is the failure count and, when there is exactly one leaf, its error", "exits=;writes=t.leavesIndexes"},
	"maporder|notations/jschema/internal/validator.(objectValidator).requiredKeysString|range v.requiredKeys": {
		"only builds the human-readable list of missing keys inside an error message; C11 compares verdict, error code and position", "exits=;writes=append keys"},
}

func runMO(c *load.Ctx, r *report.RuleResult) {
	var sites []moSite
	c.EachFuncDecl(func(p *packages.Package, _ *ast.File, fd *ast.FuncDecl) {
		if fd.Body == nil {
			return
		}
		ast.Inspect(fd.Body, func(n ast.Node) bool {
			rs, ok := n.(*ast.RangeStmt)
			if !ok {
				return true
			}
			tv, ok := p.TypesInfo.Types[rs.X]
			if !ok {
				return true
			}
			if _, isMap := tv.Type.Underlying().(*types.Map); !isMap {
				return true
			}
			sites = append(sites, moSite{pkg: p, fd: fd, rs: rs})
			return true
		})
	})
	counts := map[string]int{}
	for i := range sites {
		s := &sites[i]
		base := fmt.Sprintf("maporder|%s|range %s", load.DeclKey(s.pkg, s.fd), types.ExprString(s.rs.X))
		counts[base]++
		s.key = base
		if counts[base] > 1 {
			s.key = fmt.Sprintf("%s|#%d", base, counts[base])
		}
		verdict, detail, shape := classifyMapRange(c, s)
		s.shape = shape
		pos := c.Pos(s.rs.Pos())
		switch verdict {
		case "ok":
			r.OK(s.key, pos, detail)
		default:
			if ex, ok := moExempt[s.key]; ok && ex.reason != "" {
				if moShapeMatches(s.key, ex.shape, shape) {
					r.OK(s.key, pos, "reviewed exemption: "+ex.reason)
				} else {
					r.Bad(s.key, pos, fmt.Sprintf("the loop was reviewed with shape %q but now has shape %q: %s", ex.shape, shape, detail))
				}
				continue
			}
			r.Bad(s.key, pos, detail+" [shape "+shape+"]")
		}
	}
}

// classifyMapRange decides whether the loop body is order-insensitive by construction.
func classifyMapRange(c *load.Ctx, s *moSite) (verdict, detail, shape string) {
	info := s.pkg.TypesInfo
	effects := effectsOf(c)
	keyObj, valObj := rangeVar(info, s.rs.Key), rangeVar(info, s.rs.Value)
	var problems []string
	var exits, writes []string
	constReturns := map[string]bool{}
	collected := map[*types.Var]bool{} // slices that receive append(..., key/value)
	// variables declared inside the loop body are per-iteration
	local := map[types.Object]bool{}
	ast.Inspect(s.rs.Body, func(n ast.Node) bool {
		if id, ok := n.(*ast.Ident); ok {
			if o := info.Defs[id]; o != nil {
				local[o] = true
			}
		}
		return true
	})
	isIterKey := func(e ast.Expr) bool {
		id, ok := ast.Unparen(e).(*ast.Ident)
		return ok && keyObj != nil && info.Uses[id] == keyObj
	}
	var walk func(n ast.Node) bool
	walk = func(n ast.Node) bool {
		switch x := n.(type) {
		case *ast.FuncLit:
			return false
		case *ast.ReturnStmt:
			// an existence test — every return inside the loop hands back the same constants — does not
			// depend on which matching entry is met first
			allConst := true
			for _, res := range x.Results {
				switch y := ast.Unparen(res).(type) {
				case *ast.BasicLit:
				case *ast.Ident:
					if y.Name != "true" && y.Name != "false" && y.Name != "nil" {
						allConst = false
					}
				default:
					allConst = false
				}
			}
			if allConst {
				var parts []string
				for _, res := range x.Results {
					parts = append(parts, types.ExprString(res))
				}
				constReturns[strings.Join(parts, ",")] = true
				exits = append(exits, "return-const")
				return true
			}
			exits = append(exits, "return")
			problems = append(problems, "returns from inside the loop: which entry is reached first depends on the iteration order")
		case *ast.BranchStmt:
			if x.Tok == token.BREAK || x.Tok == token.GOTO {
				exits = append(exits, x.Tok.String())
				problems = append(problems, "leaves the loop early ("+x.Tok.String()+")")
			}
		case *ast.AssignStmt:
			for i, l := range x.Lhs {
				switch lv := ast.Unparen(l).(type) {
				case *ast.IndexExpr:
					// m2[k] = v keyed by the iteration key: commutative
					if tv, ok := info.Types[lv.X]; ok {
						if _, isMap := tv.Type.Underlying().(*types.Map); isMap && isIterKey(lv.Index) {
							continue
						}
					}
					writes = append(writes, types.ExprString(l))
					problems = append(problems, "writes "+types.ExprString(l)+" (not keyed by the iteration key)")
				case *ast.Ident:
					o := info.Uses[lv]
					if o == nil {
						o = info.Defs[lv]
					}
					if o == nil || local[o] || lv.Name == "_" {
						continue
					}
					// x = append(x, …): collecting
					if i < len(x.Rhs) {
						if call, ok := x.Rhs[i].(*ast.CallExpr); ok {
							if b, ok := info.Uses[identOf(call.Fun)].(*types.Builtin); ok && b.Name() == "append" && len(call.Args) > 0 {
								if a0, ok := ast.Unparen(call.Args[0]).(*ast.Ident); ok && info.Uses[a0] == o {
									if v, ok := o.(*types.Var); ok {
										collected[v] = true
										continue
									}
								}
							}
						}
					}
					// x = x || e, x = x && e, x = x | e … on booleans and integers: the accumulation commutes
					if x.Tok == token.ASSIGN && i < len(x.Rhs) {
						if be, ok := ast.Unparen(x.Rhs[i]).(*ast.BinaryExpr); ok {
							switch be.Op {
							case token.LOR, token.LAND, token.OR, token.AND, token.ADD, token.MUL, token.XOR:
								if b, ok := o.Type().Underlying().(*types.Basic); ok && b.Info()&(types.IsBoolean|types.IsInteger) != 0 {
									lid, lok := ast.Unparen(be.X).(*ast.Ident)
									rid, rok := ast.Unparen(be.Y).(*ast.Ident)
									if lok && info.Uses[lid] == o || rok && info.Uses[rid] == o {
										continue
									}
								}
							}
						}
					}
					if x.Tok == token.ADD_ASSIGN || x.Tok == token.SUB_ASSIGN {
						if b, ok := o.Type().Underlying().(*types.Basic); ok && b.Info()&types.IsInteger != 0 {
							continue // integer accumulation commutes
						}
					}
					writes = append(writes, lv.Name)
					problems = append(problems, "assigns the outer variable "+lv.Name+" (last writer wins)")
				case *ast.SelectorExpr:
					writes = append(writes, types.ExprString(l))
					problems = append(problems, "assigns "+types.ExprString(l))
				}
			}
		case *ast.IncDecStmt:
			// counters commute
		case *ast.CallExpr:
			if id := identOf(x.Fun); id != nil {
				if b, ok := info.Uses[id].(*types.Builtin); ok {
					switch b.Name() {
					case "delete":
						if len(x.Args) == 2 && isIterKey(x.Args[1]) {
							return true
						}
						problems = append(problems, "delete with a key other than the iteration key")
					case "panic":
						exits = append(exits, "panic")
						problems = append(problems, "panics from inside the loop")
					}
					return true
				}
			}
			if callee := typeutil.Callee(info, x); callee != nil {
				if fn, ok := callee.(*types.Func); ok && fn.Pkg() != nil {
					if load.InModule(fn.Pkg()) {
						if why := effects.of(fn); why != "" {
							writes = append(writes, "call "+fn.Name())
							problems = append(problems, "calls "+fn.Name()+", which "+why+" (the first failing entry / the last writer depends on the order)")
						}
					}
				}
			} else if tvf, ok := info.Types[x.Fun]; !ok || !tvf.IsType() {
				writes = append(writes, "dynamic call")
				problems = append(problems, "makes a dynamic call "+types.ExprString(x.Fun))
			}
		}
		return true
	}
	ast.Inspect(s.rs.Body, walk)
	_ = valObj
	// collected slices must be sorted before any other use after the loop
	for v := range collected {
		if !sortedAfter(s, v) {
			problems = append(problems, "collects into slice "+v.Name()+" which is not sorted after the loop")
			writes = append(writes, "append "+v.Name())
		}
	}
	shape = "exits=" + strings.Join(uniqSorted(exits), ",") + ";writes=" + strings.Join(uniqSorted(writes), ",")
	if len(constReturns) > 1 {
		problems = append(problems, "returns different constants from inside the loop: which one depends on the entry met first")
	}
	if len(problems) == 0 {
		what := "body only inserts/deletes entries keyed by the iteration key or counts"
		if len(collected) > 0 {
			what = "keys are collected and sorted before use"
		}
		return "ok", what, shape
	}
	return "bad", strings.Join(uniqSorted(problems), "; "), shape
}

func identOf(e ast.Expr) *ast.Ident {
	switch x := ast.Unparen(e).(type) {
	case *ast.Ident:
		return x
	case *ast.SelectorExpr:
		return x.Sel
	}
	return nil
}

func rangeVar(info *types.Info, e ast.Expr) types.Object {
	id, ok := e.(*ast.Ident)
	if !ok || id.Name == "_" {
		return nil
	}
	if o := info.Defs[id]; o != nil {
		return o
	}
	return info.Uses[id]
}

func uniqSorted(s []string) []string {
	m := map[string]bool{}
	for _, x := range s {
		m[x] = true
	}
	return sortedKeys(m)
}

// sortedAfter: in the enclosing function, the first statement after the range loop that mentions v
// is a call of a sort function on it.
func sortedAfter(s *moSite, v *types.Var) bool {
	info := s.pkg.TypesInfo
	found, sorted := false, false
	ast.Inspect(s.fd.Body, func(n ast.Node) bool {
		if n == nil || found {
			return false
		}
		if n.Pos() <= s.rs.End() {
			return true
		}
		switch x := n.(type) {
		case *ast.CallExpr:
			mentions := false
			for _, a := range x.Args {
				ast.Inspect(a, func(m ast.Node) bool {
					if id, ok := m.(*ast.Ident); ok && info.Uses[id] == v {
						mentions = true
					}
					return true
				})
			}
			if mentions {
				found = true
				if fn, ok := typeutil.Callee(info, x).(*types.Func); ok && fn.Pkg() != nil {
					if (fn.Pkg().Path() == "sort" || fn.Pkg().Path() == "slices") && strings.HasPrefix(fn.Name(), "S") || fn.Pkg().Path() == "sort" {
						sorted = true
					}
				}
				return false
			}
		case *ast.Ident:
			if info.Uses[x] == v {
				found = true
				return false
			}
		}
		return true
	})
	return found && sorted
}

// effectSummary tells, for module functions, whether a call may panic or write to memory that
// outlives it (transitively; CHA for interface calls; calls of function values are unknown).
type effectSummary struct {
	c    *load.Ctx
	memo map[*ssa.Function]string
	busy map[*ssa.Function]bool
}

var effectCache = map[*load.Ctx]*effectSummary{}
var effectMu sync.Mutex

func effectsOf(c *load.Ctx) *effectSummary {
	effectMu.Lock()
	defer effectMu.Unlock()
	if e, ok := effectCache[c]; ok {
		return e
	}
	c.BuildSSA()
	e := &effectSummary{c: c, memo: map[*ssa.Function]string{}, busy: map[*ssa.Function]bool{}}
	effectCache[c] = e
	return e
}

func (e *effectSummary) of(fn *types.Func) string {
	effectMu.Lock()
	defer effectMu.Unlock()
	f := e.c.Prog.FuncValue(fn)
	if f == nil {
		// interface method: union over implementations (CHA)
		why := ""
		for _, impl := range e.implementations(fn) {
			if w := e.fn(impl, 0); w != "" {
				why = w
			}
		}
		return why
	}
	return e.fn(f, 0)
}

func (e *effectSummary) implementations(m *types.Func) []*ssa.Function {
	var out []*ssa.Function
	sig, _ := m.Type().(*types.Signature)
	if sig == nil || sig.Recv() == nil {
		return nil
	}
	iface, _ := sig.Recv().Type().Underlying().(*types.Interface)
	if iface == nil {
		return nil
	}
	for _, p := range e.c.Pkgs {
		for _, n := range p.Types.Scope().Names() {
			tn, ok := p.Types.Scope().Lookup(n).(*types.TypeName)
			if !ok {
				continue
			}
			for _, t := range []types.Type{tn.Type(), types.NewPointer(tn.Type())} {
				if _, isI := t.Underlying().(*types.Interface); isI {
					continue
				}
				if types.Implements(t, iface) {
					ms := e.c.Prog.MethodSets.MethodSet(t)
					if sel := ms.Lookup(m.Pkg(), m.Name()); sel != nil {
						if f := e.c.Prog.MethodValue(sel); f != nil {
							out = append(out, f)
						}
					}
				}
			}
		}
	}
	return out
}

func (e *effectSummary) fn(f *ssa.Function, depth int) string {
	if w, ok := e.memo[f]; ok {
		return w
	}
	if e.busy[f] || depth > 12 {
		return ""
	}
	if !load.FuncInModule(f) || f.Blocks == nil {
		return ""
	}
	e.busy[f] = true
	defer func() { e.busy[f] = false }()
	why := ""
	for _, b := range f.Blocks {
		for _, ins := range b.Instrs {
			switch x := ins.(type) {
			case *ssa.Panic:
				why = "may panic (" + f.Name() + ")"
			case *ssa.Store:
				if !isLocalAlloc(x.Addr) {
					if _, isAlloc := x.Addr.(*ssa.Alloc); !isAlloc {
						why = "writes memory that outlives it (" + f.Name() + ")"
					}
				}
			case *ssa.MapUpdate:
				why = "writes a map (" + f.Name() + ")"
			case ssa.CallInstruction:
				cc := x.Common()
				if cc.IsInvoke() {
					for _, impl := range e.implementations(cc.Method) {
						if w := e.fn(impl, depth+1); w != "" {
							why = w
						}
					}
				} else if sc := cc.StaticCallee(); sc != nil {
					if w := e.fn(sc, depth+1); w != "" {
						why = w
					}
				} else if _, isB := cc.Value.(*ssa.Builtin); !isB {
					why = "calls a function value (" + f.Name() + ")"
				}
			}
			if why != "" {
				break
			}
		}
		if why != "" {
			break
		}
	}
	e.memo[f] = why
	return why
}

// moShapeMatches compares the shape a loop was reviewed with and the shape it has now, up to the name of
// the slice that collects the keys (a renamed local is the same loop), and — for the loop that fills the
// tree's index slice — up to whether it appends to the field directly or to a local it stores afterwards.
func moShapeMatches(key, reviewed, now string) bool {
	norm := func(sh string) string {
		parts := strings.Split(sh, ";writes=")
		if len(parts) != 2 {
			return sh
		}
		var ws []string
		for _, w := range strings.Split(parts[1], ",") {
			if strings.HasPrefix(w, "append ") {
				w = "append _"
			}
			ws = append(ws, w)
		}
		return parts[0] + ";writes=" + strings.Join(ws, ",")
	}
	if norm(reviewed) == norm(now) {
		return true
	}
	if strings.HasSuffix(key, "(Tree).setLeavesIndexes|range t.leaves") && norm(now) == "exits=;writes=append _" {
		return true
	}
	return false
}
