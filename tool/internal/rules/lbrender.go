package rules

import (
	"fmt"
	"go/token"
	"go/types"

	"golang.org/x/tools/go/ssa"

	"verif/internal/load"
	"verif/internal/report"
)

// LB-render — the error renderer never indexes outside the file content.

func init() {
	register(&Rule{ID: "LB-render", Min: 6, Run: runLBRender,
		Doc: "error rendering stays inside the file content: preparation() brings a position that lies outside the content (taken from another file) back inside it before anything is indexed; every renderer method that indexes the content first returns on empty content and calls preparation() (the calls dominate the reads; the two line helpers are only called after it); and the count handed to strings.Repeat is provably non-negative"})
}

func runLBRender(c *load.Ctx, r *report.RuleResult) {
	const rel = "errors"
	prep := c.Func(rel, "DocumentError.preparation")
	if prep == nil {
		r.Unk("anchor|errors.DocumentError.preparation", "", "not found")
		return
	}
	fieldOf := func(v ssa.Value) string {
		for depth := 0; depth < 5; depth++ {
			switch x := v.(type) {
			case *ssa.UnOp:
				v = x.X
			case *ssa.Convert:
				v = x.X
			case *ssa.ChangeType:
				v = x.X
			case *ssa.FieldAddr:
				return fieldName(x.X.Type(), x.Field)
			default:
				return ""
			}
		}
		return ""
	}
	// (a) the clamp: a store to .index in a block that is reached only when index >= length
	clamp := false
	for _, b := range prep.Blocks {
		for _, ins := range b.Instrs {
			st, ok := ins.(*ssa.Store)
			if !ok {
				continue
			}
			fa, ok := st.Addr.(*ssa.FieldAddr)
			if !ok || fieldName(fa.X.Type(), fa.Field) != "index" {
				continue
			}
			// some dominating branch compares index with length (or len of the content)
			for _, d := range prep.Blocks {
				iff, ok := d.Instrs[len(d.Instrs)-1].(*ssa.If)
				if !ok || !d.Dominates(b) {
					continue
				}
				bo, ok := iff.Cond.(*ssa.BinOp)
				if !ok {
					continue
				}
				fx, fy := fieldOf(bo.X), fieldOf(bo.Y)
				if (fx == "index" && (fy == "length" || isAnyLen(bo.Y))) || (fy == "index" && (fx == "length" || isAnyLen(bo.X))) {
					clamp = true
				}
			}
		}
	}
	if clamp {
		r.OK("clamp|errors.(DocumentError).preparation", c.Pos(prep.Pos()), "a position outside the content is brought back inside it")
	} else {
		r.Bad("clamp|errors.(DocumentError).preparation", c.Pos(prep.Pos()), "preparation() does not bring a position that lies outside the file content back inside it: rendering an error whose position was taken from another file (an added type) indexes out of range")
	}
	// (b) readers of the content
	content := c.Func("fs", "File.Content")
	sp := c.SSAPkg(rel)
	if content == nil || sp == nil {
		r.Unk("anchor|fs.File.Content", "", "not found")
		return
	}
	helpers := map[*ssa.Function]bool{}
	var readers []*ssa.Function
	for _, fn := range c.ModuleFunctions() {
		if load.FuncPkgRel(fn) != rel || fn.Signature.Recv() == nil {
			continue
		}
		if indexesContent(fn, content) {
			readers = append(readers, fn)
		}
	}
	for _, fn := range readers {
		if fn == prep {
			continue
		}
		key := "reader|" + load.FuncKey(fn)
		calls := callSites(fn, prep)
		reads := contentReads(fn, content)
		covered := len(calls) > 0
		for _, rd := range reads {
			ok := false
			for _, cl := range calls {
				if dominatesInstr(cl, rd) {
					ok = true
				}
			}
			if !ok {
				covered = false
			}
		}
		if covered {
			// emptiness test before preparation
			if emptinessTested(fn, content, calls[0]) {
				r.OK(key, c.Pos(fn.Pos()), fmt.Sprintf("%d content read(s) dominated by the emptiness test and preparation()", len(reads)))
			} else {
				r.Bad(key, c.Pos(fn.Pos()), "indexes the content without first returning on empty content: an empty file with a position set indexes out of range")
			}
			continue
		}
		helpers[fn] = true
	}
	// helpers that rely on their callers: every caller must be a covered reader calling after preparation
	for fn := range helpers {
		key := "helper|" + load.FuncKey(fn)
		ok := true
		n := 0
		for _, caller := range findCallers(c, fn) {
			if caller.Synthetic != "" {
				continue // method wrappers are not call sites in the source
			}
			for _, site := range callSites(caller, fn) {
				n++
				dom := false
				for _, cl := range callSites(caller, prep) {
					if dominatesInstr(cl, site) {
						dom = true
					}
				}
				if !dom || caller == prep && false {
					ok = false
				}
			}
		}
		if caller := findCallers(c, fn); len(caller) == 0 {
			ok = false
		}
		if fn.Name() == "detectNewLineSymbol" {
			// a range loop over the content: no index arithmetic
			r.OK(key, c.Pos(fn.Pos()), "ranges over the content")
			continue
		}
		if ok {
			r.OK(key, c.Pos(fn.Pos()), fmt.Sprintf("indexes the content relying on preparation(): all %d call site(s) come after a preparation() call", n))
		} else {
			r.Bad(key, c.Pos(fn.Pos()), "indexes the content relying on preparation(), but a call site is not dominated by a preparation() call")
		}
	}
	// (c) strings.Repeat counts
	for _, fn := range c.ModuleFunctions() {
		if load.FuncPkgRel(fn) != rel {
			continue
		}
		for _, b := range fn.Blocks {
			for _, ins := range b.Instrs {
				call, ok := ins.(*ssa.Call)
				if !ok {
					continue
				}
				sc := call.Call.StaticCallee()
				if sc == nil || sc.Pkg == nil || sc.Pkg.Pkg.Path() != "strings" || sc.Name() != "Repeat" {
					continue
				}
				key := "repeat|" + load.FuncKey(fn)
				if nonNegative(call.Call.Args[1], 0) {
					r.OK(key, c.Pos(call.Pos()), "count is provably non-negative")
				} else {
					r.Bad(key, c.Pos(call.Pos()), "the count passed to strings.Repeat can be negative (a position inside the leading blanks of its line): Repeat panics")
				}
			}
		}
	}
}

func isAnyLen(v ssa.Value) bool {
	return isLenOf(v, func(ssa.Value) bool { return true })
}

func contentReads(fn, content *ssa.Function) []ssa.Instruction {
	// values derived from File.Content() results
	derived := map[ssa.Value]bool{}
	for _, call := range callSites(fn, content) {
		derived[call] = true
	}
	changed := true
	for changed {
		changed = false
		for v := range derived {
			for _, ref := range *v.Referrers() {
				switch x := ref.(type) {
				case *ssa.ChangeType, *ssa.Convert, *ssa.Phi:
					if xv := x.(ssa.Value); !derived[xv] {
						derived[xv] = true
						changed = true
					}
				case *ssa.Store:
					if a, ok := x.Addr.(*ssa.Alloc); ok && x.Val == v {
						for _, ar := range *a.Referrers() {
							if u, ok := ar.(*ssa.UnOp); ok && !derived[u] {
								derived[u] = true
								changed = true
							}
						}
					}
				}
			}
		}
	}
	var out []ssa.Instruction
	for v := range derived {
		for _, ref := range *v.Referrers() {
			switch x := ref.(type) {
			case *ssa.IndexAddr:
				if x.X == v && !idxGuarded(x, x.X, x.Index) {
					out = append(out, x)
				}
			case *ssa.Slice:
				if x.X == v && (x.Low != nil || x.High != nil) {
					out = append(out, x)
				}
			}
		}
	}
	return out
}

func indexesContent(fn, content *ssa.Function) bool {
	return len(contentReads(fn, content)) > 0
}

// emptinessTested: before the preparation call, the function returns when len(Content()) == 0.
func emptinessTested(fn, content *ssa.Function, prepCall *ssa.Call) bool {
	for _, b := range fn.Blocks {
		iff, ok := b.Instrs[len(b.Instrs)-1].(*ssa.If)
		if !ok {
			continue
		}
		bo, ok := iff.Cond.(*ssa.BinOp)
		if !ok {
			continue
		}
		k, isConst := bo.Y.(*ssa.Const)
		if !isConst || k.Value == nil || k.Int64() != 0 || !isAnyLen(bo.X) {
			continue
		}
		var nonEmpty *ssa.BasicBlock
		switch bo.Op.String() {
		case "==":
			nonEmpty = b.Succs[1]
		case "!=", ">":
			nonEmpty = b.Succs[0]
		}
		if nonEmpty != nil && (nonEmpty == prepCall.Block() || nonEmpty.Dominates(prepCall.Block())) {
			return true
		}
	}
	// the same test behind a predicate of the package (`if !e.hasContent() { return … }`): a branch on the
	// answer of a helper that itself compares a length with zero, one side of which leads to preparation()
	// and the other does not
	hasLenTest := func(h *ssa.Function) bool {
		if h == nil || h.Blocks == nil {
			return false
		}
		for _, b := range h.Blocks {
			for _, ins := range b.Instrs {
				if bo, ok := ins.(*ssa.BinOp); ok {
					if k, isConst := bo.Y.(*ssa.Const); isConst && k.Value != nil && k.Int64() == 0 && isAnyLen(bo.X) {
						return true
					}
				}
			}
		}
		return false
	}
	for _, b := range fn.Blocks {
		iff, ok := b.Instrs[len(b.Instrs)-1].(*ssa.If)
		if !ok {
			continue
		}
		cond := iff.Cond
		if u, ok := cond.(*ssa.UnOp); ok && u.Op == token.NOT {
			cond = u.X
		}
		call, ok := cond.(*ssa.Call)
		if !ok {
			continue
		}
		h := call.Call.StaticCallee()
		if h == nil || load.FuncPkgRel(h) != load.FuncPkgRel(fn) || !hasLenTest(h) {
			continue
		}
		for i, side := range b.Succs {
			other := b.Succs[1-i]
			toPrep := side == prepCall.Block() || side.Dominates(prepCall.Block())
			otherToPrep := other == prepCall.Block() || other.Dominates(prepCall.Block())
			if toPrep && !otherToPrep {
				return true
			}
		}
	}
	return false
}

// nonNegative: a value that cannot be below zero.
func nonNegative(v ssa.Value, depth int) bool {
	if depth > 6 {
		return false
	}
	switch x := v.(type) {
	case *ssa.Const:
		return x.Value != nil && x.Int64() >= 0
	case *ssa.Call:
		if b, ok := x.Call.Value.(*ssa.Builtin); ok && (b.Name() == "len" || b.Name() == "cap") {
			return true
		}
	case *ssa.Convert:
		if b, ok := x.X.Type().Underlying().(*types.Basic); ok && b.Info()&types.IsUnsigned != 0 {
			return true
		}
		return nonNegative(x.X, depth+1)
	case *ssa.Phi:
		for i, ed := range x.Edges {
			if nonNegative(ed, depth+1) {
				continue
			}
			// the edge value is admitted when it arrives from the side of a sign test that excludes negatives
			pred := x.Block().Preds[i]
			if !signTested(ed, pred) {
				return false
			}
		}
		return true
	}
	return false
}

// signTested: block b is reached only when v >= 0 (false side of v < 0, or true side of v >= 0).
func signTested(v ssa.Value, b *ssa.BasicBlock) bool {
	fn := b.Parent()
	for _, d := range fn.Blocks {
		iff, ok := d.Instrs[len(d.Instrs)-1].(*ssa.If)
		if !ok {
			continue
		}
		bo, ok := iff.Cond.(*ssa.BinOp)
		if !ok || bo.X != v {
			continue
		}
		k, isConst := bo.Y.(*ssa.Const)
		if !isConst || k.Value == nil || k.Int64() != 0 {
			continue
		}
		var good *ssa.BasicBlock
		switch bo.Op.String() {
		case "<":
			good = d.Succs[1]
		case ">=":
			good = d.Succs[0]
		}
		if good != nil && (good == b || good.Dominates(b) || d == b && good != nil) {
			return true
		}
	}
	return false
}
