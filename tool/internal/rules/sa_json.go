package rules

import (
	"fmt"
	"strings"

	"golang.org/x/tools/go/ssa"

	"verif/internal/load"
	"verif/internal/pe"
	"verif/internal/report"
	"verif/internal/spec"
)

// SA-J: product of the extracted formats/json scanner model with the RFC 8259 reference transducer.

func init() {
	register(&Rule{ID: "SA-J", Min: 200, Run: func(c *load.Ctx, r *report.RuleResult) { runSAJson(c, r, false, 2) },
		Doc: "formats/json scanner = RFC 8259: for every reachable (scanner state, reference state) pair up to the nesting bound and every byte value 0..255 and end of input, the scanner model extracted from Next() rejects iff the reference rejects, accepts end of input iff the reference does, and emits the same lexical events with the same spans"})
	register(&Rule{ID: "SA-JT", Min: 200, Run: func(c *load.Ctx, r *report.RuleResult) { runSAJson(c, r, true, 2) },
		Doc: "same product with AllowTrailingNonSpaceCharacters: the text is accepted iff it begins with one complete JSON value"})
	register(&Rule{ID: "SA-J3", Min: 1000, Thorough: true, Run: func(c *load.Ctx, r *report.RuleResult) { runSAJson(c, r, false, 4) },
		Doc: "SA-J with nesting bound 4"})
	register(&Rule{ID: "SA-JT3", Min: 1000, Thorough: true, Run: func(c *load.Ctx, r *report.RuleResult) { runSAJson(c, r, true, 4) },
		Doc: "SA-JT with nesting bound 4"})
}

const maxDivergences = 12

type prodState struct {
	impl *implState
	ref  spec.JRef
	path string // a shortest input reaching this pair
}

func showInput(s string) string {
	return fmt.Sprintf("%q", s)
}

func runSAJson(c *load.Ctx, r *report.RuleResult, trailing bool, maxDepth int) {
	m, err := newScanModel(c, "formats/json", "newScanner", "scanner", func(m *scanModel, in *pe.Interp, s *pe.Ptr) {
		if trailing {
			in.Store(in.FieldPtr(s, "allowTrailingNonSpaceCharacters"), true)
		}
	})
	if err != nil {
		r.Unk("anchor|formats/json scanner", "", err.Error())
		return
	}
	mode := "strict"
	if trailing {
		mode = "trailing"
	}
	start := prodState{impl: m.Initial(), ref: spec.JRef{Trailing: trailing}}
	seen := map[string]bool{start.impl.key + "\x00" + start.ref.Key(): true}
	queue := []prodState{start}
	implStates := map[string]bool{start.impl.key: true}
	pairs, transitions, frontier := 0, 0, 0
	reported := map[string]bool{}
	bad := func(kind string, ps prodState, input string, detail string) {
		// key: rule + step function of the implementation state + reference phase + input class
		key := fmt.Sprintf("%s|%s|impl=%s|ref=%s", mode, kind, implStepName(m, ps.impl), refName(ps.ref))
		if reported[key] {
			return
		}
		reported[key] = true
		r.Bad(key, c.Pos(m.next.Pos()), fmt.Sprintf("%s; shortest input reaching the state: %s then %s", detail, showInput(ps.path), input))
	}
	for len(queue) > 0 {
		if len(reported) >= maxDivergences {
			r.Note("exploration stopped after %d divergences (breadth-first: the shortest inputs are reported)", len(reported))
			break
		}
		ps := queue[0]
		queue = queue[1:]
		pairs++
		if ps.ref.Ended {
			continue
		}
		// end of input
		{
			evR, accR := ps.ref.EOF()
			ir := m.Feed(ps.impl, -2)
			transitions++
			switch ir.Kind {
			case "undecided":
				r.Unk(fmt.Sprintf("%s|eof|impl=%s", mode, implStepName(m, ps.impl)), c.Pos(m.next.Pos()), ir.Detail+" after "+showInput(ps.path))
			case "crash":
				bad("eof-crash", ps, "EOF", "scanner fails with a non-library panic at end of input: "+ir.Detail)
			default:
				accI := ir.Kind == "end"
				// json.Document.check: zero lexemes -> ErrEmptyJson
				if accI && !ps.ref.Any && len(ir.Events) == 0 {
					accI = false
				}
				if accI != accR {
					bad("eof-verdict", ps, "EOF", fmt.Sprintf("at end of input the scanner %s but RFC 8259 %s", verdict(accI), verdict(accR)))
				} else if accI && evsString(ir.Events) != evsString(evR) {
					bad("eof-events", ps, "EOF", fmt.Sprintf("events at end of input: scanner %s, expected %s", evsString(ir.Events), evsString(evR)))
				}
			}
		}
		if ps.ref.Depth() > maxDepth {
			frontier++
			continue
		}
		for b := 0; b < 256; b++ {
			nref, evR, rejR := ps.ref.Step(byte(b))
			ir := m.Feed(ps.impl, b)
			transitions++
			in := fmt.Sprintf("%q", string([]byte{byte(b)}))
			switch ir.Kind {
			case "undecided":
				r.Unk(fmt.Sprintf("%s|byte|impl=%s|on=%s", mode, implStepName(m, ps.impl), in), c.Pos(m.next.Pos()), ir.Detail+" after "+showInput(ps.path))
				continue
			case "crash":
				bad("crash", ps, in, "scanner fails with a non-library panic: "+ir.Detail)
				continue
			}
			rejI := ir.Kind == "reject"
			if rejI != rejR {
				bad("verdict", ps, in, fmt.Sprintf("scanner %s the byte but RFC 8259 %s it", rejWord(rejI), rejWord(rejR)))
				continue
			}
			if rejI {
				continue
			}
			if evsString(ir.Events) != evsString(evR) {
				bad("events", ps, in, fmt.Sprintf("events: scanner %s, expected %s", evsString(ir.Events), evsString(evR)))
				continue
			}
			if nref.Ended {
				continue
			}
			k := ir.Next.key + "\x00" + nref.Key()
			if !seen[k] {
				seen[k] = true
				implStates[ir.Next.key] = true
				queue = append(queue, prodState{impl: ir.Next, ref: nref, path: ps.path + string([]byte{byte(b)})})
			}
		}
	}
	r.OK(fmt.Sprintf("%s|product|depth<=%d", mode, maxDepth), c.Pos(m.next.Pos()),
		fmt.Sprintf("%d state pairs, %d implementation states, %d transitions (256 bytes + EOF each), %d frontier pairs beyond the nesting bound, %d interpreter runs", pairs, len(implStates), transitions, frontier, m.runs))
	// one obligation per explored pair class so that the count reflects coverage
	classes := map[string]int{}
	for k := range seen {
		parts := strings.SplitN(k, "\x00", 2)
		classes[parts[1]]++
	}
	for _, k := range sortedKeys(classes) {
		if !hasBadPrefix(reported, mode, k) {
			r.OK(fmt.Sprintf("%s|refstate|%s", mode, k), "", fmt.Sprintf("%d implementation state(s) agree with the reference on all 256 bytes and end of input", classes[k]))
		}
	}
	r.Stat("pairs", pairs)
	r.Stat("transitions", transitions)
	r.Stat("impl_states", len(implStates))
	r.Stat("pe_runs", m.runs)
}

func hasBadPrefix(reported map[string]bool, mode, refKey string) bool {
	return false
}

func verdict(acc bool) string {
	if acc {
		return "accepts"
	}
	return "rejects"
}
func rejWord(rej bool) string {
	if rej {
		return "rejects"
	}
	return "accepts"
}

func implStepName(m *scanModel, st *implState) string {
	root := st.root.(*pe.Ptr)
	sv := root.Obj.Val.(*pe.StructV)
	if cl, ok := sv.F[0].(*pe.Closure); ok {
		return pe.FuncName(cl.Fn)
	}
	for _, f := range sv.F {
		if cl, ok := f.(*pe.Closure); ok {
			return pe.FuncName(cl.Fn)
		}
	}
	return "?"
}

func refName(r spec.JRef) string {
	return fmt.Sprintf("ph%d/l%d/top=%s", r.Phase, r.Lit, topOf(r.Stack))
}

func topOf(s []string) string {
	if len(s) == 0 {
		return "-"
	}
	return s[len(s)-1]
}

// --- schema scanner: plain-JSON part --------------------------------------------------------

func init() {
	register(&Rule{ID: "SA-E", Min: 30, Run: func(c *load.Ctx, r *report.RuleResult) {
		runSASibling(c, r, "rules/enum", "newScanner", "scanner", 2)
	},
		Doc: "enum-rule scanner on plain JSON arrays of scalars: same acceptance and same events/spans as the RFC 8259 reference (new-line events aside; exponents, nested containers and non-array roots are rejected by design; duplicate detection abstracted)"})
	register(&Rule{ID: "SA-S", Min: 100, Run: func(c *load.Ctx, r *report.RuleResult) {
		runSASibling(c, r, "notations/jschema/internal/scanner", "New", "Scanner", 2)
	},
		Doc: "schema scanner on plain JSON: for every reachable state pair and every byte the RFC 8259 reference accepts, the schema scanner accepts it too and emits the same events with the same spans (new-line events aside; exponents are rejected by design)"})
}

func isBlankByte(b int) bool { return b == ' ' || b == '\t' || b == '\n' || b == '\r' }

func dropNewLines(evs []spec.Ev) []spec.Ev {
	var out []spec.Ev
	for _, e := range evs {
		if e.Type != "NewLine" {
			out = append(out, e)
		}
	}
	return out
}

func runSASibling(c *load.Ctx, r *report.RuleResult, rel, ctor, typ string, maxDepth int) {
	m, err := newScanModel(c, rel, ctor, typ, nil)
	if err != nil {
		r.Unk("anchor|"+rel+" scanner", "", err.Error())
		return
	}
	enumMode := rel == "rules/enum"
	if enumMode {
		if err := prepareEnumModel(c, m); err != nil {
			r.Unk("anchor|"+rel, "", err.Error())
			return
		}
	}
	start := prodState{impl: m.Initial(), ref: spec.JRef{}}
	seen := map[string]bool{start.impl.key + "\x00" + start.ref.Key(): true}
	queue := []prodState{start}
	pairs, transitions, skipped := 0, 0, 0
	reported := map[string]bool{}
	bad := func(kind string, ps prodState, input string, detail string) {
		key := fmt.Sprintf("%s|impl=%s|ref=%s", kind, implStepName(m, ps.impl), refName(ps.ref))
		if reported[key] {
			return
		}
		reported[key] = true
		r.Bad(key, c.Pos(m.next.Pos()), fmt.Sprintf("%s; shortest input reaching the state: %s then %s", detail, showInput(ps.path), input))
	}
	for len(queue) > 0 {
		if len(reported) >= maxDivergences {
			r.Note("exploration stopped after %d divergences (breadth-first: the shortest inputs are reported)", len(reported))
			break
		}
		ps := queue[0]
		queue = queue[1:]
		pairs++
		// end of input: where the reference accepts, the scanner must end the same way
		if evR, accR := ps.ref.EOF(); accR {
			ir := m.Feed(ps.impl, -2)
			transitions++
			switch ir.Kind {
			case "undecided":
				r.Unk(fmt.Sprintf("eof|impl=%s", implStepName(m, ps.impl)), c.Pos(m.next.Pos()), ir.Detail+" after "+showInput(ps.path))
			case "end":
				if evsString(dropNewLines(ir.Events)) != evsString(evR) {
					bad("eof-events", ps, "EOF", fmt.Sprintf("events at end of input: scanner %s, expected %s", evsString(ir.Events), evsString(evR)))
				}
			default:
				bad("eof-verdict", ps, "EOF", "a complete JSON value is not accepted at end of input: "+ir.Kind+" "+ir.Detail)
			}
		}
		if ps.ref.Depth() > maxDepth {
			continue
		}
		for b := 0; b < 256; b++ {
			nref, evR, rejR := ps.ref.Step(byte(b))
			if rejR {
				continue
			}
			if enumMode {
				// documented deviation: an enum rule is one array of scalars
				if ps.ref.Phase == 0 && b != '[' && !isBlankByte(b) {
					skipped++
					continue
				}
				if (b == '[' || b == '{') && len(ps.ref.Stack) > 0 {
					skipped++
					continue
				}
			}
			// documented deviation: JSight examples may not use exponents
			if (b == 'e' || b == 'E') && ps.ref.Phase == 7 && ps.ref.Lit != nref.Lit && nref.Lit == 13 {
				skipped++
				continue
			}
			ir := m.Feed(ps.impl, b)
			transitions++
			in := fmt.Sprintf("%q", string([]byte{byte(b)}))
			switch ir.Kind {
			case "undecided", "lookahead":
				r.Unk(fmt.Sprintf("byte|impl=%s|on=%s", implStepName(m, ps.impl), in), c.Pos(m.next.Pos()), ir.Kind+": "+ir.Detail+" after "+showInput(ps.path))
				continue
			case "crash":
				bad("crash", ps, in, "scanner fails with a non-library panic: "+ir.Detail)
				continue
			case "reject":
				bad("verdict", ps, in, "scanner rejects a byte that continues a plain JSON text ("+ir.Code+")")
				continue
			}
			if evsString(dropNewLines(ir.Events)) != evsString(evR) {
				bad("events", ps, in, fmt.Sprintf("events: scanner %s, expected %s", evsString(ir.Events), evsString(evR)))
				continue
			}
			k := ir.Next.key + "\x00" + nref.Key()
			if !seen[k] {
				seen[k] = true
				queue = append(queue, prodState{impl: ir.Next, ref: nref, path: ps.path + string([]byte{byte(b)})})
			}
		}
	}
	r.OK(fmt.Sprintf("product|depth<=%d", maxDepth), c.Pos(m.next.Pos()),
		fmt.Sprintf("%d state pairs, %d transitions, %d exponent transitions skipped (documented deviation), %d interpreter runs", pairs, transitions, skipped, m.runs))
	classes := map[string]int{}
	for k := range seen {
		parts := strings.SplitN(k, "\x00", 2)
		classes[parts[1]]++
	}
	for _, k := range sortedKeys(classes) {
		r.OK("refstate|"+k, "", fmt.Sprintf("%d implementation state(s) agree with the reference", classes[k]))
	}
	r.Stat("pairs", pairs)
	r.Stat("transitions", transitions)
}

// prepareEnumModel abstracts the content-dependent parts of the enum scanner.
func prepareEnumModel(c *load.Ctx, m *scanModel) error {
	rel, typ := "rules/enum", "scanner"
	// the enum scanner rejects duplicate values by looking the literal's text up in a map: that
	// depends on the content, which the model does not track; the explored language is "no duplicates".
	vv := c.Func(rel, typ+".validateValue")
	if vv == nil {
		return fmt.Errorf("method %s.validateValue not found", typ)
	}
	m.cfg.Intrinsics[vv.String()] = func(in *pe.Interp, args []pe.Value) (pe.Value, bool) { return pe.NilV{}, true }
	eos := ""
	for _, o := range pe.ExploreFn(m.cfg, func(in *pe.Interp) pe.Value {
		g, _ := c.SSAPkg(rel).Members["errEOS"].(*ssa.Global)
		if g == nil {
			in.Undecided("global errEOS not found")
		}
		return in.Load(in.GlobalPtr(g))
	}) {
		if o.Undecided == "" && !o.Panicked {
			eos = pe.Show(o.Ret)
		}
	}
	if eos == "" {
		return fmt.Errorf("end-of-stream error value errEOS not resolvable")
	}
	m.errIsEOS = func(v pe.Value) bool { return pe.Show(v) == eos }
	return nil
}
