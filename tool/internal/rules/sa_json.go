package rules

import (
	"fmt"
	"go/types"
	"strings"

	"golang.org/x/tools/go/ssa"

	"verif/internal/load"
	"verif/internal/pe"
	"verif/internal/report"
	"verif/internal/spec"
)

// SA-J: product of the extracted formats/json scanner model with the RFC 8259 reference transducer.

func init() {
	register(&Rule{ID: "SA-J", Min: 200, Run: func(c *load.Ctx, r *report.RuleResult) { runSAJson(c, r, false, 2) },
		Doc: "formats/json scanner = RFC 8259: for every reachable (scanner state, reference state) pair up to the nesting bound and every byte value 0..255 and end of input, the scanner model extracted from Next() rejects iff the reference rejects, accepts end of input iff the reference does, and emits the same lexical events with the same spans"})
	register(&Rule{ID: "SA-JT", Min: 200, Run: func(c *load.Ctx, r *report.RuleResult) { runSAJson(c, r, true, 2) },
		Doc: "same product with AllowTrailingNonSpaceCharacters: the text is accepted iff it begins with one complete JSON value"})
	register(&Rule{ID: "SA-J3", Min: 1000, Thorough: true, Run: func(c *load.Ctx, r *report.RuleResult) { runSAJson(c, r, false, 4) },
		Doc: "SA-J with nesting bound 4"})
	register(&Rule{ID: "SA-JT3", Min: 1000, Thorough: true, Run: func(c *load.Ctx, r *report.RuleResult) { runSAJson(c, r, true, 4) },
		Doc: "SA-JT with nesting bound 4"})
}

const maxDivergences = 12

type prodState struct {
	impl *implState
	ref  spec.JRef
	path string // a shortest input reaching this pair
}

func showInput(s string) string {
	return fmt.Sprintf("%q", s)
}

func runSAJson(c *load.Ctx, r *report.RuleResult, trailing bool, maxDepth int) {
	m, err := newScanModel(c, "formats/json", "newScanner", "scanner", func(m *scanModel, in *pe.Interp, s *pe.Ptr) {
		if trailing {
			in.Store(in.FieldPtr(s, "allowTrailingNonSpaceCharacters"), true)
		}
	})
	if err != nil {
		r.Unk("anchor|formats/json scanner", "", err.Error())
		return
	}
	mode := "strict"
	if trailing {
		mode = "trailing"
	}
	start := prodState{impl: m.Initial(), ref: spec.JRef{Trailing: trailing}}
	seen := map[string]bool{start.impl.key + "\x00" + start.ref.Key(): true}
	queue := []prodState{start}
	implStates := map[string]bool{start.impl.key: true}
	pairs, transitions, frontier := 0, 0, 0
	reported := map[string]bool{}
	bad := func(kind string, ps prodState, input string, detail string) {
		// key: rule + step function of the implementation state + reference phase + input class
		key := fmt.Sprintf("%s|%s|impl=%s|ref=%s", mode, kind, implStepName(m, ps.impl), refName(ps.ref))
		if reported[key] {
			return
		}
		reported[key] = true
		r.Bad(key, c.Pos(m.next.Pos()), fmt.Sprintf("%s; shortest input reaching the state: %s then %s", detail, showInput(ps.path), input))
	}
	for len(queue) > 0 {
		if len(reported) >= maxDivergences {
			r.Note("exploration stopped after %d divergences (breadth-first: the shortest inputs are reported)", len(reported))
			break
		}
		ps := queue[0]
		queue = queue[1:]
		pairs++
		if ps.ref.Ended {
			continue
		}
		// end of input
		{
			evR, accR := ps.ref.EOF()
			ir := m.Feed(ps.impl, -2)
			transitions++
			switch ir.Kind {
			case "undecided":
				r.Unk(fmt.Sprintf("%s|eof|impl=%s", mode, implStepName(m, ps.impl)), c.Pos(m.next.Pos()), ir.Detail+" after "+showInput(ps.path))
			case "crash":
				bad("eof-crash", ps, "EOF", "scanner fails with a non-library panic at end of input: "+ir.Detail)
			default:
				accI := ir.Kind == "end"
				// json.Document.check: zero lexemes -> ErrEmptyJson
				if accI && !ps.ref.Any && len(ir.Events) == 0 {
					accI = false
				}
				if accI != accR {
					bad("eof-verdict", ps, "EOF", fmt.Sprintf("at end of input the scanner %s but RFC 8259 %s", verdict(accI), verdict(accR)))
				} else if accI && evsString(ir.Events) != evsString(evR) {
					bad("eof-events", ps, "EOF", fmt.Sprintf("events at end of input: scanner %s, expected %s", evsString(ir.Events), evsString(evR)))
				}
			}
		}
		if ps.ref.Depth() > maxDepth {
			frontier++
			continue
		}
		for b := 0; b < 256; b++ {
			nref, evR, rejR := ps.ref.Step(byte(b))
			ir := m.Feed(ps.impl, b)
			transitions++
			in := fmt.Sprintf("%q", string([]byte{byte(b)}))
			switch ir.Kind {
			case "undecided":
				r.Unk(fmt.Sprintf("%s|byte|impl=%s|on=%s", mode, implStepName(m, ps.impl), in), c.Pos(m.next.Pos()), ir.Detail+" after "+showInput(ps.path))
				continue
			case "crash":
				bad("crash", ps, in, "scanner fails with a non-library panic: "+ir.Detail)
				continue
			}
			rejI := ir.Kind == "reject"
			if rejI != rejR {
				bad("verdict", ps, in, fmt.Sprintf("scanner %s the byte but RFC 8259 %s it", rejWord(rejI), rejWord(rejR)))
				continue
			}
			if rejI {
				continue
			}
			if evsString(ir.Events) != evsString(evR) {
				bad("events", ps, in, fmt.Sprintf("events: scanner %s, expected %s", evsString(ir.Events), evsString(evR)))
				continue
			}
			if nref.Ended {
				continue
			}
			k := ir.Next.key + "\x00" + nref.Key()
			if !seen[k] {
				seen[k] = true
				implStates[ir.Next.key] = true
				queue = append(queue, prodState{impl: ir.Next, ref: nref, path: ps.path + string([]byte{byte(b)})})
			}
		}
	}
	r.OK(fmt.Sprintf("%s|product|depth<=%d", mode, maxDepth), c.Pos(m.next.Pos()),
		fmt.Sprintf("%d state pairs, %d implementation states, %d transitions (256 bytes + EOF each), %d frontier pairs beyond the nesting bound, %d interpreter runs", pairs, len(implStates), transitions, frontier, m.runs))
	// one obligation per explored pair class so that the count reflects coverage
	classes := map[string]int{}
	for k := range seen {
		parts := strings.SplitN(k, "\x00", 2)
		classes[parts[1]]++
	}
	for _, k := range sortedKeys(classes) {
		if !hasBadPrefix(reported, mode, k) {
			r.OK(fmt.Sprintf("%s|refstate|%s", mode, k), "", fmt.Sprintf("%d implementation state(s) agree with the reference on all 256 bytes and end of input", classes[k]))
		}
	}
	r.Stat("pairs", pairs)
	r.Stat("transitions", transitions)
	r.Stat("impl_states", len(implStates))
	r.Stat("pe_runs", m.runs)
}

func hasBadPrefix(reported map[string]bool, mode, refKey string) bool {
	return false
}

func verdict(acc bool) string {
	if acc {
		return "accepts"
	}
	return "rejects"
}
func rejWord(rej bool) string {
	if rej {
		return "rejects"
	}
	return "accepts"
}

func implStepName(m *scanModel, st *implState) string {
	root := st.root.(*pe.Ptr)
	sv := root.Obj.Val.(*pe.StructV)
	if cl, ok := sv.F[0].(*pe.Closure); ok {
		return pe.FuncName(cl.Fn)
	}
	for _, f := range sv.F {
		if cl, ok := f.(*pe.Closure); ok {
			return pe.FuncName(cl.Fn)
		}
	}
	return "?"
}

func refName(r spec.JRef) string {
	return fmt.Sprintf("ph%d/l%d/top=%s", r.Phase, r.Lit, topOf(r.Stack))
}

func topOf(s []string) string {
	if len(s) == 0 {
		return "-"
	}
	return s[len(s)-1]
}

// --- schema scanner: plain-JSON part --------------------------------------------------------

func init() {
	register(&Rule{ID: "SA-E", Min: 30, Run: func(c *load.Ctx, r *report.RuleResult) {
		runSASibling(c, r, "rules/enum", "newScanner", "scanner", 2)
	},
		Doc: "enum-rule scanner on plain JSON arrays of scalars: same acceptance and same events/spans as the RFC 8259 reference (new-line events aside; exponents, nested containers and non-array roots are rejected by design; duplicate detection abstracted)"})
	register(&Rule{ID: "SA-S", Min: 100, Run: func(c *load.Ctx, r *report.RuleResult) {
		runSASibling(c, r, "notations/jschema/internal/scanner", "New", "Scanner", 2)
	},
		Doc: "schema scanner on plain JSON: for every reachable state pair and every byte the RFC 8259 reference accepts, the schema scanner accepts it too and emits the same events with the same spans (new-line events aside; exponents are rejected by design)"})
}

func init() {
	register(&Rule{ID: "SA-E-deep", Min: 30, Thorough: true, Run: func(c *load.Ctx, r *report.RuleResult) {
		runSASibling(c, r, "rules/enum", "newScanner", "scanner", 4)
	}, Doc: "SA-E with nesting bound 4"})
	register(&Rule{ID: "SA-S-deep", Min: 100, Thorough: true, Run: func(c *load.Ctx, r *report.RuleResult) {
		runSASibling(c, r, "notations/jschema/internal/scanner", "New", "Scanner", 4)
	}, Doc: "SA-S with nesting bound 4"})
}

func isBlankByte(b int) bool { return b == ' ' || b == '\t' || b == '\n' || b == '\r' }

func dropNewLines(evs []spec.Ev) []spec.Ev {
	var out []spec.Ev
	for _, e := range evs {
		if e.Type != "NewLine" {
			out = append(out, e)
		}
	}
	return out
}

func runSASibling(c *load.Ctx, r *report.RuleResult, rel, ctor, typ string, maxDepth int) {
	m, err := newScanModel(c, rel, ctor, typ, nil)
	if err != nil {
		r.Unk("anchor|"+rel+" scanner", "", err.Error())
		return
	}
	enumMode := rel == "rules/enum"
	if enumMode {
		if err := prepareEnumModel(c, m); err != nil {
			r.Unk("anchor|"+rel, "", err.Error())
			return
		}
	}
	start := prodState{impl: m.Initial(), ref: spec.JRef{}}
	seen := map[string]bool{start.impl.key + "\x00" + start.ref.Key(): true}
	queue := []prodState{start}
	pairs, transitions, skipped := 0, 0, 0
	reported := map[string]bool{}
	bad := func(kind string, ps prodState, input string, detail string) {
		key := fmt.Sprintf("%s|impl=%s|ref=%s", kind, implStepName(m, ps.impl), refName(ps.ref))
		if reported[key] {
			return
		}
		reported[key] = true
		r.Bad(key, c.Pos(m.next.Pos()), fmt.Sprintf("%s; shortest input reaching the state: %s then %s", detail, showInput(ps.path), input))
	}
	for len(queue) > 0 {
		if len(reported) >= maxDivergences {
			r.Note("exploration stopped after %d divergences (breadth-first: the shortest inputs are reported)", len(reported))
			break
		}
		ps := queue[0]
		queue = queue[1:]
		pairs++
		// end of input: where the reference accepts, the scanner must end the same way
		if evR, accR := ps.ref.EOF(); accR {
			ir := m.Feed(ps.impl, -2)
			transitions++
			switch ir.Kind {
			case "undecided":
				r.Unk(fmt.Sprintf("eof|impl=%s", implStepName(m, ps.impl)), c.Pos(m.next.Pos()), ir.Detail+" after "+showInput(ps.path))
			case "end":
				if evsString(dropNewLines(ir.Events)) != evsString(evR) {
					bad("eof-events", ps, "EOF", fmt.Sprintf("events at end of input: scanner %s, expected %s", evsString(ir.Events), evsString(evR)))
				}
			default:
				bad("eof-verdict", ps, "EOF", "a complete JSON value is not accepted at end of input: "+ir.Kind+" "+ir.Detail)
			}
		}
		if ps.ref.Depth() > maxDepth {
			continue
		}
		for b := 0; b < 256; b++ {
			nref, evR, rejR := ps.ref.Step(byte(b))
			if rejR {
				// JSight adds syntax between tokens, not inside a string: what RFC 8259 refuses inside a
				// string token (a raw control byte, an unknown escape, a non-hex digit after \u) the
				// scanner must refuse as well — the text is later decoded and re-emitted as JSON
				if ps.ref.InString() {
					ir := m.Feed(ps.impl, b)
					transitions++
					if ir.Kind == "ok" {
						bad("string-verdict", ps, fmt.Sprintf("%q", string([]byte{byte(b)})), "inside a string the scanner accepts a byte that RFC 8259 does not admit there")
					}
				}
				continue
			}
			if enumMode {
				// documented deviation: an enum rule is one array of scalars
				if ps.ref.Phase == 0 && b != '[' && !isBlankByte(b) {
					skipped++
					continue
				}
				if (b == '[' || b == '{') && len(ps.ref.Stack) > 0 {
					skipped++
					continue
				}
			}
			// documented deviation: JSight examples may not use exponents
			if (b == 'e' || b == 'E') && ps.ref.Phase == 7 && ps.ref.Lit != nref.Lit && nref.Lit == 13 {
				skipped++
				continue
			}
			ir := m.Feed(ps.impl, b)
			transitions++
			in := fmt.Sprintf("%q", string([]byte{byte(b)}))
			switch ir.Kind {
			case "undecided", "lookahead":
				r.Unk(fmt.Sprintf("byte|impl=%s|on=%s", implStepName(m, ps.impl), in), c.Pos(m.next.Pos()), ir.Kind+": "+ir.Detail+" after "+showInput(ps.path))
				continue
			case "crash":
				bad("crash", ps, in, "scanner fails with a non-library panic: "+ir.Detail)
				continue
			case "reject":
				bad("verdict", ps, in, "scanner rejects a byte that continues a plain JSON text ("+ir.Code+")")
				continue
			}
			if evsString(dropNewLines(ir.Events)) != evsString(evR) {
				bad("events", ps, in, fmt.Sprintf("events: scanner %s, expected %s", evsString(ir.Events), evsString(evR)))
				continue
			}
			k := ir.Next.key + "\x00" + nref.Key()
			if !seen[k] {
				seen[k] = true
				queue = append(queue, prodState{impl: ir.Next, ref: nref, path: ps.path + string([]byte{byte(b)})})
			}
		}
	}
	r.OK(fmt.Sprintf("product|depth<=%d", maxDepth), c.Pos(m.next.Pos()),
		fmt.Sprintf("%d state pairs, %d transitions, %d exponent transitions skipped (documented deviation), %d interpreter runs", pairs, transitions, skipped, m.runs))
	classes := map[string]int{}
	for k := range seen {
		parts := strings.SplitN(k, "\x00", 2)
		classes[parts[1]]++
	}
	for _, k := range sortedKeys(classes) {
		r.OK("refstate|"+k, "", fmt.Sprintf("%d implementation state(s) agree with the reference", classes[k]))
	}
	r.Stat("pairs", pairs)
	r.Stat("transitions", transitions)
}

// prepareEnumModel abstracts the content-dependent parts of the enum scanner.
func prepareEnumModel(c *load.Ctx, m *scanModel) error {
	rel, typ := "rules/enum", "scanner"
	// the enum scanner rejects duplicate values by looking the literal's text up in a map: that
	// depends on the content, which the model does not track; the explored language is "no duplicates".
	vv := c.Func(rel, typ+".validateValue")
	if vv == nil {
		return fmt.Errorf("method %s.validateValue not found", typ)
	}
	m.cfg.Intrinsics[vv.String()] = func(in *pe.Interp, args []pe.Value) (pe.Value, bool) { return pe.NilV{}, true }
	eos := ""
	for _, o := range pe.ExploreFn(m.cfg, func(in *pe.Interp) pe.Value {
		g, _ := c.SSAPkg(rel).Members["errEOS"].(*ssa.Global)
		if g == nil {
			in.Undecided("global errEOS not found")
		}
		return in.Load(in.GlobalPtr(g))
	}) {
		if o.Undecided == "" && !o.Panicked {
			eos = pe.Show(o.Ret)
		}
	}
	if eos == "" {
		return fmt.Errorf("end-of-stream error value errEOS not resolvable")
	}
	m.errIsEOS = func(v pe.Value) bool { return pe.Show(v) == eos }
	return nil
}

// --- the glue between the scanner and Document.Check ----------------------------------------------

func init() {
	register(&Rule{ID: "SA-Jglue", Min: 8, Run: runSAJglue,
		Doc: "Document.Check adds exactly one rule to the scanner's verdict, read off the code of Document.check and Document.nextLexeme with the scanner's Next() replaced by a staged oracle: a text for which the scanner delivers no lexeme at all is rejected as empty JSON, any text with at least one lexeme is accepted when the scanner ends normally, an error raised by the scanner is returned unchanged, and nextLexeme maps the scanner's end (or its end-top marker) to io.EOF and a panicking DocumentError to a returned error (the product rules SA-J* take this rule as given)"})
}

func runSAJglue(c *load.Ctx, r *report.RuleResult) {
	const rel = "formats/json"
	check := c.Func(rel, "Document.check")
	nextLexeme := c.Func(rel, "Document.nextLexeme")
	rewind := c.Func(rel, "Document.rewind")
	next := c.Func(rel, "scanner.Next")
	newLex := c.Func("internal/lexeme", "NewLexEvent")
	if check == nil || nextLexeme == nil || rewind == nil || next == nil || newLex == nil {
		r.Unk("anchor|formats/json glue", "", "Document.check / nextLexeme / rewind / scanner.Next not found")
		return
	}
	var eofG *ssa.Global
	if p := c.Prog.ImportedPackage("io"); p != nil {
		eofG, _ = p.Members["EOF"].(*ssa.Global)
	}
	if eofG == nil {
		r.Unk("anchor|io.EOF", "", "io.EOF not found in the program")
		return
	}
	names := lexEventNames(c)
	var endTop, lit int64 = -1, -1
	for v, n := range names {
		switch n {
		case "EndTop":
			endTop = v
		case "LiteralBegin":
			lit = v
		}
	}
	emptyCode := ""
	if p := c.Pkg("errors"); p != nil {
		if k, ok := p.Types.Scope().Lookup("ErrEmptyJson").(*types.Const); ok {
			if v, ok := constInt(k); ok {
				emptyCode = fmt.Sprintf("E%d", v)
			}
		}
	}
	if endTop < 0 || lit < 0 || emptyCode == "" {
		r.Unk("anchor|lexeme/error constants", "", "EndTop / LiteralBegin / ErrEmptyJson not found")
		return
	}
	helper := &scanModel{}
	docT := check.Signature.Recv().Type().(*types.Pointer).Elem()
	idxT := newLex.Params[1].Type()
	errT := nextLexeme.Signature.Results().At(1).Type()
	eofMarker := func() pe.Value { return &pe.Iface{T: errT, V: pe.NewSym("io.EOF", errT)} }
	base := func() *pe.Config {
		cfg := newPEConfig(c)
		cfg.Intrinsics[rewind.String()] = func(in *pe.Interp, args []pe.Value) (pe.Value, bool) {
			in.Effect("rewind")
			return nil, true
		}
		cfg.Intrinsics["errors.Is"] = func(in *pe.Interp, args []pe.Value) (pe.Value, bool) {
			return !pe.IsNil(args[0]) && pe.Show(args[0]) == pe.Show(args[1]), true
		}
		return cfg
	}
	// ---- nextLexeme over the scanner's outcomes
	{
		cfg := base()
		cfg.Intrinsics[next.String()] = func(in *pe.Interp, args []pe.Value) (pe.Value, bool) {
			labels := []string{"lexeme", "endtop", "end", "panic-docerr"}
			zero := in.Zero(next.Signature.Results().At(0).Type())
			switch labels[in.Choose("scanner.Next", labels)] {
			case "lexeme":
				return &pe.Tuple{E: []pe.Value{in.Call(newLex, []pe.Value{lit, pe.NewSym("b", idxT), pe.NewSym("e", idxT), pe.NilV{}}), true}}, true
			case "endtop":
				return &pe.Tuple{E: []pe.Value{in.Call(newLex, []pe.Value{endTop, pe.NewSym("b", idxT), pe.NewSym("e", idxT), pe.NilV{}}), true}}, true
			case "end":
				return &pe.Tuple{E: []pe.Value{zero, false}}, true
			case "panic-docerr":
				dt := c.Pkg("errors").Types.Scope().Lookup("DocumentError").Type()
				in.Panic(&pe.Iface{T: dt, V: pe.NewSym("scannerError", dt)})
			}
			return nil, true
		}
		want := map[string]string{"lexeme": "lexeme,nil", "endtop": "lexeme,EOF", "end": "none,EOF", "panic-docerr": "none,scannerError"}
		seen := map[string]bool{}
		for _, o := range pe.ExploreFn(cfg, func(in *pe.Interp) pe.Value {
			in.Store(in.GlobalPtr(eofG), eofMarker())
			return in.Call(nextLexeme, []pe.Value{in.NewStruct(docT, "doc")})
		}) {
			ch := o.ChoiceMap()["scanner.Next"]
			key := "nextLexeme|scanner " + ch
			seen[ch] = true
			got := ""
			switch {
			case o.Undecided != "":
				r.Unk(key, c.Pos(nextLexeme.Pos()), o.Undecided)
				continue
			case o.Panicked:
				got = "panic"
			default:
				tp, _ := o.Ret.(*pe.Tuple)
				if tp == nil || len(tp.E) != 2 {
					r.Unk(key, c.Pos(nextLexeme.Pos()), "unexpected result "+pe.Show(o.Ret))
					continue
				}
				lx := "none"
				if sv, ok := tp.E[0].(*pe.StructV); ok {
					for _, f := range sv.F {
						if s, ok := f.(*pe.Sym); ok && s.Expr == "e" {
							lx = "lexeme"
						}
					}
				}
				er := "nil"
				switch {
				case pe.IsNil(tp.E[1]):
				case strings.Contains(pe.Show(tp.E[1]), "io.EOF"):
					er = "EOF"
				case strings.Contains(pe.Show(tp.E[1]), "scannerError"):
					er = "scannerError"
				default:
					er = pe.Show(tp.E[1])
				}
				got = lx + "," + er
			}
			if got == want[ch] {
				r.OK(key, c.Pos(nextLexeme.Pos()), "result ("+got+")")
			} else {
				r.Bad(key, c.Pos(nextLexeme.Pos()), fmt.Sprintf("when the scanner reports %q nextLexeme gives (%s), expected (%s)", ch, got, want[ch]))
			}
		}
		for ch := range want {
			if !seen[ch] {
				r.Unk("nextLexeme|scanner "+ch, c.Pos(nextLexeme.Pos()), "no path explored for this scanner outcome")
			}
		}
	}
	// ---- check over nextLexeme's outcomes
	{
		cfg := base()
		calls := 0
		cfg.Intrinsics[nextLexeme.String()] = func(in *pe.Interp, args []pe.Value) (pe.Value, bool) {
			calls++
			labels := []string{"lexeme", "eof", "error"}
			if calls >= 3 {
				labels = []string{"eof", "error"}
			}
			zero := in.Zero(nextLexeme.Signature.Results().At(0).Type())
			switch labels[in.Choose(fmt.Sprintf("nextLexeme#%d", calls), labels)] {
			case "lexeme":
				return &pe.Tuple{E: []pe.Value{zero, pe.NilV{}}}, true
			case "eof":
				return &pe.Tuple{E: []pe.Value{zero, eofMarker()}}, true
			}
			return &pe.Tuple{E: []pe.Value{zero, &pe.Iface{T: errT, V: pe.NewSym("scannerError", errT)}}}, true
		}
		for _, o := range pe.ExploreFn(cfg, func(in *pe.Interp) pe.Value {
			calls = 0
			in.Store(in.GlobalPtr(eofG), eofMarker())
			doc := in.NewStruct(docT, "doc")
			if st, ok := docT.Underlying().(*types.Struct); ok {
				for i := 0; i < st.NumFields(); i++ {
					if st.Field(i).Name() == "file" {
						in.Store(in.FieldPtr(doc, "file"), pe.NewSym("file", st.Field(i).Type()))
					}
				}
			}
			return in.Call(check, []pe.Value{doc})
		}) {
			var seq []string
			cm := o.ChoiceMap()
			for n := 1; n <= 3; n++ {
				if v, ok := cm[fmt.Sprintf("nextLexeme#%d", n)]; ok {
					seq = append(seq, v)
				}
			}
			key := "check|" + strings.Join(seq, ",")
			if o.Undecided != "" || o.Panicked {
				r.Unk(key, c.Pos(check.Pos()), "not interpretable: "+o.Exit())
				continue
			}
			if len(seq) == 0 {
				// an early exit for a text of length zero (no byte, hence no lexeme) is the same rule
				if code, ok := helper.docErrCode(o.Ret); ok && code == emptyCode && strings.Contains(o.Valuation(), "len(") && strings.Contains(o.Valuation(), ",0)==") {
					r.OK("check|empty content", c.Pos(check.Pos()), "a text of length zero is rejected as empty JSON without scanning")
					continue
				}
				r.Bad("check|no scan", c.Pos(check.Pos()), "Document.check returns "+pe.Show(o.Ret)+" on a path that never asks the scanner (valuation "+o.Valuation()+")")
				continue
			}
			last := seq[len(seq)-1]
			lexemes := len(seq) - 1
			want, got := "", ""
			switch {
			case last == "error":
				want = "scannerError"
			case lexemes == 0:
				want = emptyCode
			default:
				want = "nil"
			}
			switch {
			case pe.IsNil(o.Ret):
				got = "nil"
			case strings.Contains(pe.Show(o.Ret), "scannerError"):
				got = "scannerError"
			default:
				if code, ok := helper.docErrCode(o.Ret); ok {
					got = code
				} else {
					got = pe.Show(o.Ret)
				}
			}
			if got == want {
				r.OK(key, c.Pos(check.Pos()), fmt.Sprintf("%d lexeme(s) then %s: returns %s", lexemes, last, got))
			} else {
				r.Bad(key, c.Pos(check.Pos()), fmt.Sprintf("after %d lexeme(s) and then %s Document.check returns %s, expected %s (a text is empty JSON exactly when the scanner delivers no lexeme)", lexemes, last, got, want))
			}
		}
	}
}

// --- the scanner is not stepped again after it has stopped ---------------------------------------------

func init() {
	register(&Rule{ID: "SA-Jlatch", Min: 2, Run: runSAJlatch,
		Doc: "a JSON document's scanner is not stepped again after it has stopped: Document.NextLexeme, called twice on the same document with the scanner's Next() replaced by a staged oracle, does not ask the scanner a second time when the first call ended in an error — it answers the same error again (after the end of the document it may ask again or answer the end again). The explorations (SX-crash, SA-J) follow the scanner up to a rejecting transition and no further: its state after a raised error is half updated (the byte is consumed, the lexeme stack is not), and stepping it from there runs into its own assertion (`{9}`: the third NextLexeme panicked with a string)"})
}

func runSAJlatch(c *load.Ctx, r *report.RuleResult) {
	const rel = "formats/json"
	pub := c.Func(rel, "Document.NextLexeme")
	next := c.Func(rel, "scanner.Next")
	newLex := c.Func("internal/lexeme", "NewLexEvent")
	if pub == nil || next == nil || newLex == nil {
		r.Unk("anchor|formats/json Document.NextLexeme", "", "Document.NextLexeme / scanner.Next not found")
		return
	}
	var eofG *ssa.Global
	if p := c.Prog.ImportedPackage("io"); p != nil {
		eofG, _ = p.Members["EOF"].(*ssa.Global)
	}
	if eofG == nil {
		r.Unk("anchor|io.EOF", "", "io.EOF not found in the program")
		return
	}
	names := lexEventNames(c)
	var endTop, lit int64 = -1, -1
	for v, n := range names {
		switch n {
		case "EndTop":
			endTop = v
		case "LiteralBegin":
			lit = v
		}
	}
	docT := pub.Signature.Recv().Type().(*types.Pointer).Elem()
	idxT := newLex.Params[1].Type()
	errT := pub.Signature.Results().At(1).Type()
	eofMarker := func() pe.Value { return &pe.Iface{T: errT, V: pe.NewSym("io.EOF", errT)} }
	cfg := newPEConfig(c)
	cfg.Intrinsics["errors.Is"] = func(in *pe.Interp, args []pe.Value) (pe.Value, bool) {
		return !pe.IsNil(args[0]) && pe.Show(args[0]) == pe.Show(args[1]), true
	}
	calls := 0
	cfg.Intrinsics[next.String()] = func(in *pe.Interp, args []pe.Value) (pe.Value, bool) {
		calls++
		labels := []string{"lexeme", "endtop", "end", "panic-docerr"}
		zero := in.Zero(next.Signature.Results().At(0).Type())
		switch labels[in.Choose(fmt.Sprintf("scanner.Next#%d", calls), labels)] {
		case "lexeme":
			return &pe.Tuple{E: []pe.Value{in.Call(newLex, []pe.Value{lit, pe.NewSym("b", idxT), pe.NewSym("e", idxT), pe.NilV{}}), true}}, true
		case "endtop":
			return &pe.Tuple{E: []pe.Value{in.Call(newLex, []pe.Value{endTop, pe.NewSym("b", idxT), pe.NewSym("e", idxT), pe.NilV{}}), true}}, true
		case "end":
			return &pe.Tuple{E: []pe.Value{zero, false}}, true
		}
		dt := c.Pkg("errors").Types.Scope().Lookup("DocumentError").Type()
		in.Panic(&pe.Iface{T: dt, V: pe.NewSym("scannerError", dt)})
		return nil, true
	}
	var second pe.Value
	outs := pe.ExploreFn(cfg, func(in *pe.Interp) pe.Value {
		calls = 0
		in.Store(in.GlobalPtr(eofG), eofMarker())
		doc := in.NewStruct(docT, "doc")
		first := in.Call(pub, []pe.Value{doc})
		second = in.Call(pub, []pe.Value{doc})
		return first
	})
	errOf := func(v pe.Value) string {
		tp, _ := v.(*pe.Tuple)
		if tp == nil || len(tp.E) != 2 {
			return "?"
		}
		switch {
		case pe.IsNil(tp.E[1]):
			return "nil"
		case strings.Contains(pe.Show(tp.E[1]), "io.EOF"):
			return "EOF"
		case strings.Contains(pe.Show(tp.E[1]), "scannerError"):
			return "scannerError"
		}
		return pe.Show(tp.E[1])
	}
	seen := map[string]bool{}
	for _, o := range outs {
		cm := o.ChoiceMap()
		first := cm["scanner.Next#1"]
		key := "latch|first call: scanner " + first
		if seen[key] {
			continue
		}
		pos := c.Pos(pub.Pos())
		if o.Undecided != "" || o.Panicked {
			seen[key] = true
			r.Unk(key, pos, "not interpretable: "+o.Exit())
			continue
		}
		_, again := cm["scanner.Next#2"]
		e1, e2 := errOf(o.Ret), errOf(second)
		switch first {
		case "lexeme":
			if !again {
				seen[key] = true
				r.Bad(key, pos, "after a delivered lexeme the next call does not ask the scanner")
			}
		case "panic-docerr":
			switch {
			case again:
				seen[key] = true
				r.Bad(key, pos, fmt.Sprintf("the first call ended with %s and the second call steps the scanner again", e1))
			case e2 != e1:
				seen[key] = true
				r.Bad(key, pos, fmt.Sprintf("the first call ended with %s, the second answers %s", e1, e2))
			}
		default:
			// after the end of the document the scanner may be asked again (it answers "end" again, SX-crash
			// covers those states); if it is not asked, the answer must be the end again
			if !again && e2 != e1 {
				seen[key] = true
				r.Bad(key, pos, fmt.Sprintf("the first call ended with %s, the second answers %s without asking the scanner", e1, e2))
			}
		}
	}
	for _, f := range []string{"lexeme", "endtop", "end", "panic-docerr"} {
		key := "latch|first call: scanner " + f
		if !seen[key] {
			r.OK(key, c.Pos(pub.Pos()), "the second call is consistent with the first")
		}
	}
}
