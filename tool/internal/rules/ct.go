package rules

import (
	"fmt"
	"go/types"
	"strings"

	"golang.org/x/tools/go/ssa"

	"verif/internal/load"
	"verif/internal/report"
)

// CT-1 — the scanners' window is the whole file.
//
// The scanner rules (SA-*, SX-*, LEN-*) explore Next() from the state the constructor builds, with
// the input held symbolically in data[0:dataSize]. They say nothing when a constructor narrows that
// window (trims trailing blanks "because they produce no lexeme", skips a byte-order mark, …): the
// automaton is unchanged, yet bytes of the text are never looked at. This rule pins the window.

func init() {
	register(&Rule{ID: "CT-1", Min: 6, Run: runCT1,
		Doc: "every scanner scans the whole text it was given: the fields data and dataSize of the JSON, schema and enum-rule scanners are written by the constructor only, data with the file's Content() itself and dataSize with the length of that same content — a constructor that trims, slices or shortens the window makes bytes of the input invisible to the automaton the other scanner rules explore (trailing bytes that are not JSON whitespace would be accepted, the length would stop early)"})
}

func runCT1(c *load.Ctx, r *report.RuleResult) {
	seen := map[string]bool{}
	for _, name := range []string{"json", "schema", "enum"} {
		sp := scannerSpecs[name]
		if seen[sp.rel] {
			continue
		}
		seen[sp.rel] = true
		ctor := c.Func(sp.rel, sp.ctor)
		named := namedType(c, sp.rel, sp.typ)
		if ctor == nil || named == nil {
			r.Unk("anchor|"+sp.rel+"."+sp.ctor, "", "constructor or scanner type not found")
			continue
		}
		st, _ := named.Underlying().(*types.Struct)
		idx := map[string]int{"data": -1, "dataSize": -1}
		for i := 0; st != nil && i < st.NumFields(); i++ {
			if _, ok := idx[st.Field(i).Name()]; ok {
				idx[st.Field(i).Name()] = i
			}
		}
		if idx["data"] < 0 || idx["dataSize"] < 0 {
			r.Unk("anchor|"+sp.rel+"."+sp.typ+".data/dataSize", "", "fields not found")
			continue
		}
		isContent := func(v ssa.Value) bool {
			call, ok := v.(*ssa.Call)
			if !ok {
				return false
			}
			sc := call.Call.StaticCallee()
			if sc == nil || sc.Name() != "Content" || sc.Signature.Recv() == nil || load.FuncPkgRel(sc) != "fs" || len(call.Call.Args) != 1 {
				return false
			}
			a := call.Call.Args[0]
			if u, ok := a.(*ssa.UnOp); ok {
				a = u.X // Content has a value receiver: the file is loaded through the parameter
			}
			_, isParam := a.(*ssa.Parameter)
			return isParam
		}
		for _, field := range []string{"data", "dataSize"} {
			key := fmt.Sprintf("window|%s.%s.%s", sp.rel, sp.typ, field)
			var bad []string
			stores := 0
			for _, fn := range c.ModuleFunctions() {
				if load.FuncPkgRel(fn) != sp.rel {
					continue
				}
				for _, b := range fn.Blocks {
					for _, ins := range b.Instrs {
						sto, ok := ins.(*ssa.Store)
						if !ok {
							continue
						}
						fa, ok := sto.Addr.(*ssa.FieldAddr)
						if !ok || fa.Field != idx[field] || !types.Identical(derefType(fa.X.Type()), named) {
							continue
						}
						stores++
						if fn != ctor {
							bad = append(bad, fmt.Sprintf("%s writes %s at %s (only the constructor may)", load.FuncKey(fn), field, c.Pos(sto.Pos())))
							continue
						}
						v := sto.Val
						switch field {
						case "data":
							if !isContent(v) {
								bad = append(bad, fmt.Sprintf("data is set to %s at %s, not to the file's Content() itself", v.String(), c.Pos(sto.Pos())))
							}
						case "dataSize":
							for {
								if cv, ok := v.(*ssa.Convert); ok {
									v = cv.X
									continue
								}
								if ct, ok := v.(*ssa.ChangeType); ok {
									v = ct.X
									continue
								}
								break
							}
							call, ok := v.(*ssa.Call)
							bi, _ := func() (*ssa.Builtin, bool) {
								if !ok {
									return nil, false
								}
								b, ok2 := call.Call.Value.(*ssa.Builtin)
								return b, ok2
							}()
							if bi == nil || bi.Name() != "len" || len(call.Call.Args) != 1 || !isContent(call.Call.Args[0]) {
								bad = append(bad, fmt.Sprintf("dataSize is set to %s at %s, not to the length of the file's Content()", sto.Val.String(), c.Pos(sto.Pos())))
							}
						}
					}
				}
			}
			switch {
			case len(bad) > 0:
				r.Bad(key, c.Pos(ctor.Pos()), strings.Join(bad, "; "))
			case stores == 0:
				r.Bad(key, c.Pos(ctor.Pos()), "the constructor does not set "+field)
			default:
				r.OK(key, c.Pos(ctor.Pos()), fmt.Sprintf("%d store(s), in the constructor, from the whole content", stores))
			}
		}
	}
}
