package rules

import (
	"fmt"
	"go/ast"
	"go/types"
	"strings"

	"golang.org/x/tools/go/packages"
	"golang.org/x/tools/go/ssa"

	"verif/internal/load"
	"verif/internal/report"
)

// CT-1 — the scanners' window is the whole file.
//
// The scanner rules (SA-*, SX-*, LEN-*) explore Next() from the state the constructor builds, with
// the input held symbolically in data[0:dataSize]. They say nothing when a constructor narrows that
// window (trims trailing blanks "because they produce no lexeme", skips a byte-order mark, …): the
// automaton is unchanged, yet bytes of the text are never looked at. This rule pins the window.

func init() {
	register(&Rule{ID: "CT-1", Min: 6, Run: runCT1,
		Doc: "every scanner scans the whole text it was given: the fields data and dataSize of the JSON, schema and enum-rule scanners are written by the constructor only, data with the file's Content() itself and dataSize with the length of that same content — a constructor that trims, slices or shortens the window makes bytes of the input invisible to the automaton the other scanner rules explore (trailing bytes that are not JSON whitespace would be accepted, the length would stop early)"})
}

func runCT1(c *load.Ctx, r *report.RuleResult) {
	seen := map[string]bool{}
	for _, name := range []string{"json", "schema", "enum"} {
		sp := scannerSpecs[name]
		if seen[sp.rel] {
			continue
		}
		seen[sp.rel] = true
		ctor := c.Func(sp.rel, sp.ctor)
		named := namedType(c, sp.rel, sp.typ)
		if ctor == nil || named == nil {
			r.Unk("anchor|"+sp.rel+"."+sp.ctor, "", "constructor or scanner type not found")
			continue
		}
		st, _ := named.Underlying().(*types.Struct)
		idx := map[string]int{"data": -1, "dataSize": -1}
		for i := 0; st != nil && i < st.NumFields(); i++ {
			if _, ok := idx[st.Field(i).Name()]; ok {
				idx[st.Field(i).Name()] = i
			}
		}
		if idx["data"] < 0 || idx["dataSize"] < 0 {
			r.Unk("anchor|"+sp.rel+"."+sp.typ+".data/dataSize", "", "fields not found")
			continue
		}
		isContent := func(v ssa.Value) bool {
			call, ok := v.(*ssa.Call)
			if !ok {
				return false
			}
			sc := call.Call.StaticCallee()
			if sc == nil || sc.Name() != "Content" || sc.Signature.Recv() == nil || load.FuncPkgRel(sc) != "fs" || len(call.Call.Args) != 1 {
				return false
			}
			a := call.Call.Args[0]
			if u, ok := a.(*ssa.UnOp); ok {
				a = u.X // Content has a value receiver: the file is loaded through the parameter
			}
			_, isParam := a.(*ssa.Parameter)
			return isParam
		}
		for _, field := range []string{"data", "dataSize"} {
			key := fmt.Sprintf("window|%s.%s.%s", sp.rel, sp.typ, field)
			var bad []string
			stores := 0
			for _, fn := range c.ModuleFunctions() {
				if load.FuncPkgRel(fn) != sp.rel {
					continue
				}
				for _, b := range fn.Blocks {
					for _, ins := range b.Instrs {
						sto, ok := ins.(*ssa.Store)
						if !ok {
							continue
						}
						fa, ok := sto.Addr.(*ssa.FieldAddr)
						if !ok || fa.Field != idx[field] || !types.Identical(derefType(fa.X.Type()), named) {
							continue
						}
						stores++
						if fn != ctor {
							bad = append(bad, fmt.Sprintf("%s writes %s at %s (only the constructor may)", load.FuncKey(fn), field, c.Pos(sto.Pos())))
							continue
						}
						v := sto.Val
						switch field {
						case "data":
							if !isContent(v) {
								bad = append(bad, fmt.Sprintf("data is set to %s at %s, not to the file's Content() itself", v.String(), c.Pos(sto.Pos())))
							}
						case "dataSize":
							for {
								if cv, ok := v.(*ssa.Convert); ok {
									v = cv.X
									continue
								}
								if ct, ok := v.(*ssa.ChangeType); ok {
									v = ct.X
									continue
								}
								break
							}
							call, ok := v.(*ssa.Call)
							bi, _ := func() (*ssa.Builtin, bool) {
								if !ok {
									return nil, false
								}
								b, ok2 := call.Call.Value.(*ssa.Builtin)
								return b, ok2
							}()
							if bi == nil || bi.Name() != "len" || len(call.Call.Args) != 1 || !isContent(call.Call.Args[0]) {
								bad = append(bad, fmt.Sprintf("dataSize is set to %s at %s, not to the length of the file's Content()", sto.Val.String(), c.Pos(sto.Pos())))
							}
						}
					}
				}
			}
			switch {
			case len(bad) > 0:
				r.Bad(key, c.Pos(ctor.Pos()), strings.Join(bad, "; "))
			case stores == 0:
				r.Bad(key, c.Pos(ctor.Pos()), "the constructor does not set "+field)
			default:
				r.OK(key, c.Pos(ctor.Pos()), fmt.Sprintf("%d store(s), in the constructor, from the whole content", stores))
			}
		}
	}
}

// --- CT-2: a file's content is the text it was given ------------------------------------------------------

func init() {
	register(&Rule{ID: "CT-2", Min: 3, Run: runCT2,
		Doc: "a file's content is the text it was given, byte for byte: in package fs, the value NewFile stores as content is what normalizeFileContent returns for the caller's argument, every value normalizeFileContent returns is its parameter itself or a type conversion of it (no call, no slice expression, no copy that could drop or rewrite bytes — a byte order mark, a trailing line break), and Content() returns the stored field — C05 and C14 speak about the bytes the caller supplied, and positions (C17) are offsets into them"})
}

func runCT2(c *load.Ctx, r *report.RuleResult) {
	p := c.Pkg("fs")
	if p == nil {
		r.Unk("anchor|fs", "", "package fs not found")
		return
	}
	found := map[string]bool{}
	c.EachFuncDecl(func(pk *packages.Package, _ *ast.File, fd *ast.FuncDecl) {
		if pk != p || fd.Body == nil {
			return
		}
		pos := c.Pos(fd.Pos())
		switch fd.Name.Name {
		case "normalizeFileContent":
			found["normalize"] = true
			key := "content|fs.normalizeFileContent|returns"
			decls := map[string]*ast.FuncDecl{}
			for _, f := range pk.Syntax {
				for _, d := range f.Decls {
					if g, ok := d.(*ast.FuncDecl); ok && g.Recv == nil {
						decls[g.Name.Name] = g
					}
				}
			}
			bad, nret, why := ctParamFlow(c, pk, fd, decls, 0)
			switch {
			case why != "":
				r.Unk(key, pos, why)
			case nret == 0:
				r.Unk(key, pos, "no return statement found")
			case len(bad) > 0:
				r.Bad(key, pos, "the content is not the caller's text as it is: "+strings.Join(bad, "; "))
			default:
				r.OK(key, pos, fmt.Sprintf("%d return(s), each the parameter or a conversion of it", nret))
			}
		case "NewFile":
			found["new"] = true
			key := "content|fs.NewFile|stores"
			ok := false
			ast.Inspect(fd.Body, func(n ast.Node) bool {
				kv, isKV := n.(*ast.KeyValueExpr)
				if !isKV {
					return true
				}
				if id, isID := kv.Key.(*ast.Ident); isID && id.Name == "content" {
					if call, isCall := kv.Value.(*ast.CallExpr); isCall && len(call.Args) == 1 {
						if fid, isF := call.Fun.(*ast.Ident); isF && fid.Name == "normalizeFileContent" {
							if aid, isA := call.Args[0].(*ast.Ident); isA && len(fd.Type.Params.List) == 2 && pk.TypesInfo.Uses[aid] == pk.TypesInfo.Defs[fd.Type.Params.List[1].Names[0]] {
								ok = true
							}
						}
					}
				}
				return true
			})
			if ok {
				r.OK(key, pos, "content: normalizeFileContent(content)")
			} else {
				r.Bad(key, pos, "NewFile does not store normalizeFileContent(<its content argument>) as the file's content")
			}
		case "Content":
			found["content"] = true
			key := "content|fs.File.Content|returns"
			ok := false
			if len(fd.Body.List) == 1 {
				if rs, isR := fd.Body.List[0].(*ast.ReturnStmt); isR && len(rs.Results) == 1 {
					if sel, isS := rs.Results[0].(*ast.SelectorExpr); isS && sel.Sel.Name == "content" {
						ok = true
					}
				}
			}
			if ok {
				r.OK(key, pos, "returns the stored field")
			} else {
				r.Bad(key, pos, "Content() is more than a return of the stored content")
			}
		}
	})
	for _, k := range []string{"normalize", "new", "content"} {
		if !found[k] {
			r.Unk("anchor|fs "+k, "", "function not found in package fs")
		}
	}
}

// ctParamFlow: is the first result of every return of fd its (only) parameter, a conversion or type
// assertion of it, a local only ever assigned those, or the first result of a helper of the same
// package of which the same holds, called on such a value?
func ctParamFlow(c *load.Ctx, pk *packages.Package, fd *ast.FuncDecl, decls map[string]*ast.FuncDecl, depth int) (bad []string, nret int, why string) {
	if fd.Type.Params == nil || len(fd.Type.Params.List) != 1 || len(fd.Type.Params.List[0].Names) != 1 {
		return nil, 0, "unexpected parameter list of " + fd.Name.Name
	}
	param := pk.TypesInfo.Defs[fd.Type.Params.List[0].Names[0]]
	same := map[types.Object]bool{param: true}
	var isParam func(e ast.Expr) bool
	helperOK := map[string]bool{}
	isParam = func(e ast.Expr) bool {
		switch x := ast.Unparen(e).(type) {
		case *ast.Ident:
			return same[pk.TypesInfo.Uses[x]] || same[pk.TypesInfo.Defs[x]]
		case *ast.CallExpr:
			if tv, ok := pk.TypesInfo.Types[x.Fun]; ok && tv.IsType() && len(x.Args) == 1 {
				return isParam(x.Args[0])
			}
			if id, ok := x.Fun.(*ast.Ident); ok && len(x.Args) == 1 && depth < 2 {
				if g := decls[id.Name]; g != nil && g != fd && g.Body != nil {
					okH, done := helperOK[id.Name]
					if !done {
						b2, n2, w2 := ctParamFlow(c, pk, g, decls, depth+1)
						okH = w2 == "" && n2 > 0 && len(b2) == 0
						helperOK[id.Name] = okH
					}
					return okH && isParam(x.Args[0])
				}
			}
		case *ast.TypeAssertExpr:
			return isParam(x.X)
		}
		return false
	}
	ast.Inspect(fd.Body, func(n ast.Node) bool {
		ts, ok := n.(*ast.TypeSwitchStmt)
		if !ok {
			return true
		}
		var subject ast.Expr
		switch a := ts.Assign.(type) {
		case *ast.AssignStmt:
			if len(a.Rhs) == 1 {
				subject = a.Rhs[0]
			}
		}
		if subject != nil && isParam(subject) {
			for _, cl := range ts.Body.List {
				if obj := pk.TypesInfo.Implicits[cl]; obj != nil {
					same[obj] = true
				}
			}
		}
		return true
	})
	for changed := true; changed; {
		changed = false
		assigned := map[types.Object][]ast.Expr{}
		ast.Inspect(fd.Body, func(n ast.Node) bool {
			x, ok := n.(*ast.AssignStmt)
			if !ok {
				return true
			}
			objOf := func(l ast.Expr) types.Object {
				id, ok := l.(*ast.Ident)
				if !ok {
					return nil
				}
				if o := pk.TypesInfo.Defs[id]; o != nil {
					return o
				}
				return pk.TypesInfo.Uses[id]
			}
			switch {
			case len(x.Lhs) == len(x.Rhs):
				for i, l := range x.Lhs {
					if o := objOf(l); o != nil {
						assigned[o] = append(assigned[o], x.Rhs[i])
					}
				}
			case len(x.Rhs) == 1 && len(x.Lhs) >= 1:
				// v, ok := x.(T)   /   b, ok := helper(x): the first variable carries the value
				if o := objOf(x.Lhs[0]); o != nil {
					assigned[o] = append(assigned[o], x.Rhs[0])
				}
			}
			return true
		})
		for obj, rhs := range assigned {
			if same[obj] || obj == param {
				continue
			}
			all := true
			for _, e := range rhs {
				if !isParam(e) {
					all = false
				}
			}
			if all {
				same[obj] = true
				changed = true
			}
		}
	}
	ast.Inspect(fd.Body, func(n ast.Node) bool {
		if _, ok := n.(*ast.FuncLit); ok {
			return false
		}
		rs, ok := n.(*ast.ReturnStmt)
		if !ok || len(rs.Results) == 0 {
			return true
		}
		nret++
		e := rs.Results[0]
		// a zero value next to ok == false (return nil, false) says "not mine", not a content
		if id, isID := ast.Unparen(e).(*ast.Ident); isID && id.Name == "nil" && len(rs.Results) == 2 {
			return true
		}
		if !isParam(e) {
			bad = append(bad, fmt.Sprintf("%s returns %s", c.Pos(rs.Pos()), types.ExprString(e)))
		}
		return true
	})
	return bad, nret, ""
}
