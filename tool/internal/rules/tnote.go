package rules

import (
	"fmt"
	"go/types"
	"strings"

	"verif/internal/load"
	"verif/internal/pe"
	"verif/internal/report"
)

// T-note — the note of an annotation is stored on the node the annotation belongs to.

func init() {
	register(&Rule{ID: "T-note", Min: 2, Run: runTNote,
		Doc: "the note text of an annotation reaches the AST: ruleLoader.commentTextEnd, interpreted with the lexeme type, the presence of the loader's current node and every other field of the loader as atoms, stores the (trimmed) text of the note on the current node exactly once whenever there is a node and the lexeme ends a note text — whatever else the loader knows (how many example values the line holds, which rules were read) — and refuses any other lexeme"})
}

func runTNote(c *load.Ctx, r *report.RuleResult) {
	e := newAbsNodeEnv(c)
	if e.problem != "" {
		r.Unk("anchor|schema.Node", "", e.problem)
		return
	}
	fn := c.Func(pkgLoader, "ruleLoader.commentTextEnd")
	rlT := namedType(c, pkgLoader, "ruleLoader")
	lexTypeFn := c.Func("internal/lexeme", "LexEvent.Type")
	lexValueFn := c.Func("internal/lexeme", "LexEvent.Value")
	if fn == nil || rlT == nil || lexTypeFn == nil || lexValueFn == nil {
		r.Unk("anchor|loader.ruleLoader.commentTextEnd", "", "commentTextEnd / ruleLoader / LexEvent accessors not found")
		return
	}
	pos := c.Pos(fn.Pos())
	lexTypeT := lexTypeFn.Signature.Results().At(0).Type()
	e.cfg.Intrinsics[lexTypeFn.String()] = func(in *pe.Interp, args []pe.Value) (pe.Value, bool) {
		return pe.NewSym("lex.type", lexTypeT), true
	}
	e.cfg.Intrinsics[lexValueFn.String()] = func(in *pe.Interp, args []pe.Value) (pe.Value, bool) {
		return pe.NewSym("lex.value", lexValueFn.Signature.Results().At(0).Type()), true
	}
	for _, n := range []string{"Bytes.TrimSpaces", "Bytes.String"} {
		if f := c.Func(pkgBytes, n); f != nil {
			n := n
			e.cfg.Intrinsics[f.String()] = func(in *pe.Interp, args []pe.Value) (pe.Value, bool) {
				return pe.NewSym(strings.TrimPrefix(n, "Bytes.")+"("+strings.Trim(pe.Show(args[0]), "‹›")+")", f.Signature.Results().At(0).Type()), true
			}
		}
	}
	prefix := "invoke:" + types.TypeString(e.nodeT, nil) + "."
	e.cfg.Intrinsics[prefix+"SetComment"] = func(in *pe.Interp, args []pe.Value) (pe.Value, bool) {
		in.Effect("note " + strings.Trim(pe.Show(args[1]), "‹›"))
		return nil, true
	}
	outs := pe.ExploreFn(e.cfg, func(in *pe.Interp) pe.Value {
		st := rlT.Underlying().(*types.Struct)
		sv := &pe.StructV{T: rlT, F: make([]pe.Value, st.NumFields())}
		for i := 0; i < st.NumFields(); i++ {
			f := st.Field(i)
			if f.Name() == "node" {
				if in.Choose("node", []string{"nil", "present"}) == 0 {
					sv.F[i] = pe.NilV{}
				} else {
					sv.F[i] = pe.NewSym("node", e.nodeT)
				}
				continue
			}
			sv.F[i] = pe.NewSym("rl."+f.Name(), f.Type())
		}
		recv := &pe.Ptr{Obj: in.NewObj(rlT, sv, "rl"), T: rlT}
		return in.Call(fn, []pe.Value{recv, pe.NewSym("lex", fn.Params[1].Type())})
	})
	counts := map[string]int{}
	bad := map[string]string{}
	for _, o := range outs {
		val := o.ChoiceMap()
		lt := val["lex.type"]
		ends := strings.HasSuffix(lt, "AnnotationTextEnd")
		// an opaque interface value may still be nil: the interpreter asks
		for n, l := range val {
			if strings.HasPrefix(n, "isnil(") && strings.Contains(n, "node") && l == "true" {
				val["node"] = "nil"
			}
		}
		key := fmt.Sprintf("note|node=%s|lexeme=%s", val["node"], map[bool]string{true: "note-text-end", false: "other"}[ends])
		counts[key]++
		if bad[key] != "" {
			continue
		}
		if o.Undecided != "" {
			bad[key] = "not interpretable: " + o.Undecided
			continue
		}
		notes := 0
		trimmed := true
		for _, ef := range o.Effects {
			if strings.HasPrefix(ef, "note ") {
				notes++
				if !strings.Contains(ef, "lex.value") {
					trimmed = false
				}
			}
		}
		var other []string
		for n := range val {
			if n != "node" && n != "lex.type" && !strings.HasPrefix(n, "isnil(") {
				other = append(other, n)
			}
		}
		switch {
		case !ends:
			if !o.Panicked {
				bad[key] = "a lexeme that does not end a note text (" + lt + ") is accepted"
			}
		case o.Panicked:
			bad[key] = "the end of a note text is refused: " + pe.Show(o.PanicVal)
		case val["node"] == "present" && notes != 1:
			bad[key] = fmt.Sprintf("the note is stored %d time(s) on a path that also consulted {%s}: the text written after the rules is lost from the AST", notes, strings.Join(other, ", "))
		case val["node"] == "present" && !trimmed:
			bad[key] = "what is stored is not the text of the note lexeme"
		case val["node"] == "nil" && notes != 0:
			bad[key] = "a note is stored without a node"
		}
	}
	for _, k := range sortedKeys(counts) {
		if bad[k] != "" {
			r.Bad(k, pos, bad[k])
		} else {
			r.OK(k, pos, fmt.Sprintf("%d path(s)", counts[k]))
		}
	}
	if len(counts) == 0 {
		r.Unk("anchor|paths", pos, "no path")
	}
}

var _ = load.Module
