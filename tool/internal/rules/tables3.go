package rules

import (
	"fmt"
	"go/types"
	"sort"
	"strings"

	"golang.org/x/tools/go/ssa"

	"verif/internal/load"
	"verif/internal/pe"
	"verif/internal/report"
)

func init() {
	register(&Rule{ID: "T1", Min: 15 * 7, Run: runT1,
		Doc: "rule applicability matrix: IsJsonTypeCompatible of every constraint type, evaluated for every JSON kind, equals the matrix the property states — min/max/exclusive* on integer and float, precision on float, minLength/maxLength/regex and the format constraints on string, minItems/maxItems on array, additionalProperties/allOf on object"})
	register(&Rule{ID: "T2", Min: 15, Run: runT2,
		Doc: "rule names: for every rule name the constructor table knows, the constraint it builds has that very name (constraint Type().String()), and an unknown name is rejected with ErrUnknownRule"})
	register(&Rule{ID: "T12", Min: 20, Run: runT12,
		Doc: "AST schema type: enum rule => enum; or rule => mixed; type rule => its value; precision alone => decimal; otherwise the JSON kind of the example; where several indicators are present any of their candidates is admissible"})
	register(&Rule{ID: "TA", Min: 3, Run: runTA,
		Doc: "array element selection: ArrayNode.Child(i) yields example element i when i < len, the last example element when i >= len, and rejects when the example array is empty"})
}

var t1Pinned = map[string][]string{
	"MinConstraintType":                  {"TypeInteger", "TypeFloat"},
	"MaxConstraintType":                  {"TypeInteger", "TypeFloat"},
	"ExclusiveMinimumConstraintType":     {"TypeInteger", "TypeFloat"},
	"ExclusiveMaximumConstraintType":     {"TypeInteger", "TypeFloat"},
	"PrecisionConstraintType":            {"TypeFloat"},
	"MinLengthConstraintType":            {"TypeString"},
	"MaxLengthConstraintType":            {"TypeString"},
	"RegexConstraintType":                {"TypeString"},
	"EmailConstraintType":                {"TypeString"},
	"UriConstraintType":                  {"TypeString"},
	"UuidConstraintType":                 {"TypeString"},
	"DateConstraintType":                 {"TypeString"},
	"DateTimeConstraintType":             {"TypeString"},
	"MinItemsConstraintType":             {"TypeArray"},
	"MaxItemsConstraintType":             {"TypeArray"},
	"AdditionalPropertiesConstraintType": {"TypeObject"},
	"AllOfConstraintType":                {"TypeObject"},
}

var jsonKinds = []string{"TypeObject", "TypeArray", "TypeString", "TypeInteger", "TypeFloat", "TypeBoolean", "TypeNull"}

func jsonTypeConsts(c *load.Ctx) map[string]int64 {
	out := map[string]int64{}
	p := c.Pkg(pkgJSON)
	if p == nil {
		return out
	}
	tn, _ := p.Types.Scope().Lookup("Type").(*types.TypeName)
	if tn == nil {
		return out
	}
	for _, n := range p.Types.Scope().Names() {
		if k, ok := p.Types.Scope().Lookup(n).(*types.Const); ok && types.Identical(k.Type(), tn.Type()) {
			if v, ok := constInt(k); ok {
				out[n] = v
			}
		}
	}
	return out
}

func runT1(c *load.Ctx, r *report.RuleResult) {
	e := newAbsNodeEnv(c)
	kinds := jsonTypeConsts(c)
	seenPinned := map[string]bool{}
	var cis []*constraintInfo
	for _, ci := range e.byVal {
		cis = append(cis, ci)
	}
	sort.Slice(cis, func(i, j int) bool { return cis[i].name < cis[j].name })
	for _, ci := range cis {
		if ci.named == nil {
			if _, pinned := t1Pinned[ci.name]; pinned {
				r.Unk("applicability|"+ci.name, "", "no Go type found that implements this constraint")
			}
			continue
		}
		fn := c.Func(pkgConstraint, ci.named.Obj().Name()+".IsJsonTypeCompatible")
		if fn == nil {
			r.Unk("applicability|"+ci.name, "", "IsJsonTypeCompatible not found")
			continue
		}
		pos := c.Pos(fn.Pos())
		row := map[string]string{}
		for _, k := range jsonKinds {
			kv, ok := kinds[k]
			if !ok {
				r.Unk("anchor|json."+k, "", "JSON kind constant not found")
				continue
			}
			outs := pe.ExploreFn(e.cfg, func(in *pe.Interp) pe.Value {
				var recv pe.Value = pe.NewSym("c", ci.named)
				if _, isPtr := fn.Params[0].Type().Underlying().(*types.Pointer); isPtr {
					recv = pe.NewSym("c", types.NewPointer(ci.named))
				}
				return in.Call(fn, []pe.Value{recv, kv})
			})
			res := "?"
			if len(outs) == 1 && outs[0].Undecided == "" && !outs[0].Panicked {
				if b, ok := outs[0].Ret.(bool); ok {
					res = fmt.Sprint(b)
				}
			} else if len(outs) > 1 {
				res = "depends on the rule's parameters"
			}
			row[k] = res
		}
		want, pinned := t1Pinned[ci.name]
		if !pinned {
			// rows the property does not determine: recorded, not judged
			r.OK("applicability-free|"+ci.name, pos, "row not pinned by the property: "+rowString(row))
			continue
		}
		seenPinned[ci.name] = true
		wantSet := map[string]bool{}
		for _, w := range want {
			wantSet[w] = true
		}
		for _, k := range jsonKinds {
			key := fmt.Sprintf("applicability|%s|%s", strings.TrimSuffix(ci.name, "ConstraintType"), k)
			switch row[k] {
			case "true", "false":
				if (row[k] == "true") != wantSet[k] {
					r.Bad(key, pos, fmt.Sprintf("rule %s is reported %s with JSON kind %s; the property says %v", strings.TrimSuffix(ci.name, "ConstraintType"), map[string]string{"true": "compatible", "false": "incompatible"}[row[k]], k, wantSet[k]))
				} else {
					r.OK(key, pos, row[k])
				}
			default:
				r.Unk(key, pos, "not a constant cell: "+row[k])
			}
		}
	}
	for name := range t1Pinned {
		if !seenPinned[name] && e.byName[name] == nil {
			r.Unk("applicability|"+name, "", "constraint type constant not found")
		}
	}
}

func rowString(row map[string]string) string {
	var parts []string
	for _, k := range jsonKinds {
		parts = append(parts, strings.TrimPrefix(k, "Type")+"="+row[k])
	}
	return strings.Join(parts, " ")
}

// constraintTypeString interprets the generated stringer for a constant.
func (e *absNodeEnv) constraintTypeString(ci *constraintInfo) string {
	fn := e.c.Func(pkgConstraint, "Type.String")
	if fn == nil {
		return ""
	}
	for _, o := range pe.ExploreFn(e.cfg, func(in *pe.Interp) pe.Value { return in.Call(fn, []pe.Value{ci.val}) }) {
		if s, ok := o.Ret.(string); ok && o.Undecided == "" && !o.Panicked {
			return s
		}
	}
	return ""
}

func runT2(c *load.Ctx, r *report.RuleResult) {
	e := newAbsNodeEnv(c)
	fn := c.Func(pkgConstraint, "NewConstraintFromRule")
	if fn == nil {
		r.Unk("anchor|constraint.NewConstraintFromRule", "", "not found")
		return
	}
	pos := c.Pos(fn.Pos())
	// constructors are opaque: what matters is which one is reached
	if sp := c.SSAPkg(pkgConstraint); sp != nil {
		for name, mem := range sp.Members {
			if f, ok := mem.(*ssa.Function); ok && strings.HasPrefix(name, "New") && f != fn {
				e.cfg.Opaque[f.String()] = true
			}
		}
	}
	if f := c.Func("internal/lexeme", "LexEvent.Value"); f != nil {
		e.cfg.Intrinsics[f.String()] = func(in *pe.Interp, args []pe.Value) (pe.Value, bool) {
			return pe.NewSym("rulename", f.Signature.Results().At(0).Type()), true
		}
	}
	if f := c.Func(pkgBytes, "Bytes.TrimSpaces"); f != nil {
		e.cfg.Intrinsics[f.String()] = func(in *pe.Interp, args []pe.Value) (pe.Value, bool) { return args[0], true }
	}
	if f := c.Func("internal/lexeme", "NewLexEventError"); f != nil {
		e.cfg.Opaque[f.String()] = true
	}
	outs := pe.ExploreFn(e.cfg, func(in *pe.Interp) pe.Value {
		return in.Call(fn, []pe.Value{pe.NewSym("lex", fn.Params[0].Type()), pe.NewSym("ruleValue", fn.Params[1].Type()), pe.NewSym("nodeValue", fn.Params[2].Type())})
	})
	stringOf := map[*types.Named]string{}
	for _, ci := range e.byVal {
		if ci.named != nil {
			stringOf[ci.named] = e.constraintTypeString(ci)
		}
	}
	known := 0
	for _, o := range outs {
		// the rule name of this path: the one comparison that came out true
		name := ""
		for _, ch := range o.Choices {
			if strings.HasPrefix(ch.Name, "eq(") && ch.Label == "true" {
				if i := strings.Index(ch.Name, `"`); i >= 0 {
					if j := strings.Index(ch.Name[i+1:], `"`); j >= 0 {
						name = ch.Name[i+1 : i+1+j]
					}
				}
			}
		}
		if name == "" {
			key := "rulename|<unknown name>"
			if code, ok := rejectCodeDeep(o); o.Panicked && ok {
				_ = code
				r.OK(key, pos, "an unknown rule name is rejected: "+o.Exit())
			} else if o.Panicked && strings.Contains(pe.Show(o.PanicVal), "NewLexEventError") {
				r.OK(key, pos, "an unknown rule name is rejected with a positioned error")
			} else {
				r.Bad(key, pos, "an unknown rule name is not rejected: "+o.Exit())
			}
			continue
		}
		known++
		key := "rulename|" + name
		if o.Undecided != "" || o.Panicked {
			r.Unk(key, pos, "constructor not reached: "+o.Exit())
			continue
		}
		i, ok := o.Ret.(*pe.Iface)
		if !ok {
			r.Bad(key, pos, "no constraint is built for this name: "+o.Exit())
			continue
		}
		pt, _ := i.T.(*types.Pointer)
		var named *types.Named
		if pt != nil {
			named, _ = pt.Elem().(*types.Named)
		} else {
			named, _ = i.T.(*types.Named)
		}
		got := stringOf[named]
		if got != name {
			r.Bad(key, pos, fmt.Sprintf("the rule name %q builds a %s, whose own name is %q", name, typeStr(i.T), got))
		} else {
			r.OK(key, pos, "builds "+typeStr(i.T))
		}
	}
	if known == 0 {
		r.Unk("rulename|table", pos, "no rule name comparison found")
	}
}

func rejectCodeDeep(o *pe.Outcome) (string, bool) {
	if !o.Panicked {
		return "", false
	}
	return isLibraryReject(o.PanicVal)
}

func typeStr(t types.Type) string {
	return types.TypeString(t, func(p *types.Package) string { return p.Name() })
}

func runT12(c *load.Ctx, r *report.RuleResult) {
	e := newAbsNodeEnv(c)
	if e.problem != "" {
		r.Unk("anchor|schema.Node", "", e.problem)
		return
	}
	outs, pos, problem := e.callWithNode(pkgSchema, "getASTNodeSchemaType", nil, nil)
	if problem != "" {
		r.Unk("anchor|schema.getASTNodeSchemaType", "", problem)
		return
	}
	kindName := map[string]string{}
	if fn := c.Func(pkgJSON, "Type.String"); fn != nil {
		for n, v := range jsonTypeConsts(c) {
			for _, o := range pe.ExploreFn(e.cfg, func(in *pe.Interp) pe.Value { return in.Call(fn, []pe.Value{v}) }) {
				if s, ok := o.Ret.(string); ok {
					kindName[n] = s
				}
			}
		}
	}
	// The extracted decision tree is judged on every *total* valuation of the four indicators: a leaf
	// that did not consult an indicator stands for both of its values.
	inds := []string{"has(EnumConstraintType)", "has(OrConstraintType)", "has(TypeConstraintType)", "has(PrecisionConstraintType)"}
	cand := []string{`"enum"`, `"mixed"`, "type-rule-value", `"decimal"`}
	for mask := 0; mask < 16; mask++ {
		total := map[string]string{}
		var admissible []string
		for i, ind := range inds {
			if mask&(1<<i) != 0 {
				total[ind] = "true"
				admissible = append(admissible, cand[i])
			} else {
				total[ind] = "false"
			}
		}
		for _, o := range outs {
			val := o.ChoiceMap()
			consistent := true
			for _, ind := range inds {
				if v, ok := val[ind]; ok && v != total[ind] {
					consistent = false
				}
			}
			if !consistent {
				continue
			}
			key := "schematype|" + valStr(total, inds...)
			if k, ok := val["node.type"]; ok {
				key += ",kind=" + k
			}
			if o.Undecided != "" || o.Panicked {
				r.Unk(key, pos, o.Exit())
				continue
			}
			got := pe.Show(o.Ret)
			adm := admissible
			if len(adm) == 0 {
				k := val["node.type"]
				if k == "" {
					r.Bad(key, pos, "no indicator present and the JSON kind is not consulted: returns "+got)
					continue
				}
				adm = []string{fmt.Sprintf("%q", kindName[k])}
			}
			ok := false
			for _, cd := range adm {
				if cd == got || (cd == "type-rule-value" && strings.Contains(got, "unquote(TypeConstraint.")) {
					ok = true
				}
			}
			if !ok {
				r.Bad(key, pos, fmt.Sprintf("returns %s; admissible for this rule set: %v", got, adm))
			} else {
				r.OK(key, pos, got)
			}
		}
	}
}

func runTA(c *load.Ctx, r *report.RuleResult) {
	e := newAbsNodeEnv(c)
	fn := c.Func(pkgSchema, "ArrayNode.Child")
	named := namedType(c, pkgSchema, "ArrayNode")
	if fn == nil || named == nil {
		r.Unk("anchor|schema.ArrayNode.Child", "", "not found")
		return
	}
	pos := c.Pos(fn.Pos())
	outs := pe.ExploreFn(e.cfg, func(in *pe.Interp) pe.Value {
		var recv pe.Value = pe.NewSym("arr", named)
		if _, isPtr := fn.Params[0].Type().Underlying().(*types.Pointer); isPtr {
			recv = pe.NewSym("arr", types.NewPointer(named))
		}
		return in.Call(fn, []pe.Value{recv, pe.NewSym("i", fn.Params[1].Type())})
	})
	for _, o := range outs {
		val := o.ChoiceMap()
		// orderings of len against 0 and of i against len
		lenZero, iVsLen := "", ""
		for n, l := range val {
			if !strings.HasPrefix(n, "ord(") {
				continue
			}
			inner := strings.TrimSuffix(strings.TrimPrefix(n, "ord("), ")")
			a, b, _ := splitTop(inner)
			switch {
			case strings.Contains(a, "len(") && b == "0":
				lenZero = l
			case a == "0" && strings.Contains(b, "len("):
				lenZero = flipOrd(l)
			case strings.Contains(a, "‹i›") && strings.Contains(b, "len("):
				iVsLen = l
			case strings.Contains(b, "‹i›") && strings.Contains(a, "len("):
				iVsLen = flipOrd(l)
			}
		}
		if lenZero == "<" {
			continue // a length below zero does not exist
		}
		key := fmt.Sprintf("child|len%s0|i%slen", lenZero, iVsLen)
		if o.Undecided != "" {
			r.Unk(key, pos, o.Undecided)
			continue
		}
		got := o.Exit()
		switch {
		case lenZero == "=":
			if _, ok := rejectCodeDeep(o); !ok {
				r.Bad(key, pos, "an empty example array must admit no element: "+got)
			} else {
				r.OK(key, pos, "rejected")
			}
		case iVsLen == "<":
			if o.Panicked || !strings.Contains(got, "[‹i›]") {
				r.Bad(key, pos, "position i inside the example must be governed by example element i: "+got)
			} else {
				r.OK(key, pos, got)
			}
		case iVsLen == "=" || iVsLen == ">":
			if o.Panicked || !strings.Contains(got, "-1›]") || !strings.Contains(got, "len(") {
				r.Bad(key, pos, "a position past the end of the example must be governed by the last example element: "+got)
			} else {
				r.OK(key, pos, got)
			}
		default:
			r.Unk(key, pos, "orderings not consulted: "+o.Valuation()+" => "+got)
		}
	}
}

func init() {
	register(&Rule{ID: "T9", Min: 20, Run: runT9,
		Doc: "false-valued rules are inert: the compiler's false-rule filter removes exactly nullable:false and const:false and keeps every other rule (including optional:false) whatever its value; Const.Validate accepts everything when its flag is false and, when it is true, exactly the values equal to the example as JSON values: two quoted strings are compared decoded (so \"a\\/b\" equals \"a/b\"), two numerals by exact value (1.50 equals 1.5), anything else by text"})
}

func runT9(c *load.Ctx, r *report.RuleResult) {
	e := newAbsNodeEnv(c)
	if e.problem != "" {
		r.Unk("anchor|schema.Node", "", e.problem)
		return
	}
	fn := c.Func(pkgLoader, "schemaCompiler.falseConstraints")
	setFn := c.Func(pkgSchema, "Constraints.Set")
	consT := namedType(c, pkgSchema, "Constraints")
	if fn == nil || setFn == nil || consT == nil {
		r.Unk("anchor|schemaCompiler.falseConstraints", "", "falseConstraints / Constraints.Set not found")
		return
	}
	pos := c.Pos(fn.Pos())
	for _, op := range []string{"Lock", "Unlock", "RLock", "RUnlock"} {
		e.cfg.Intrinsics["(*sync.RWMutex)."+op] = func(in *pe.Interp, args []pe.Value) (pe.Value, bool) { return nil, true }
	}
	var cis []*constraintInfo
	for _, ci := range e.byVal {
		if ci.named != nil {
			cis = append(cis, ci)
		}
	}
	sort.Slice(cis, func(i, j int) bool { return cis[i].val < cis[j].val })
	var mapPtr *pe.Ptr
	prefix := "invoke:" + types.TypeString(e.nodeT, nil) + "."
	e.cfg.Intrinsics[prefix+"ConstraintMap"] = func(in *pe.Interp, args []pe.Value) (pe.Value, bool) {
		if v, ok := in.SymMem("node.cmap"); ok {
			return v, true
		}
		m := in.NewStruct(consT, "constraints")
		for _, ci := range cis {
			st := ci.named.Underlying().(*types.Struct)
			sv := &pe.StructV{T: ci.named, F: make([]pe.Value, st.NumFields())}
			for i := 0; i < st.NumFields(); i++ {
				sv.F[i] = pe.NewSym(ci.named.Obj().Name()+"."+st.Field(i).Name(), st.Field(i).Type())
			}
			obj := &pe.Iface{T: types.NewPointer(ci.named), V: &pe.Ptr{Obj: in.NewObj(ci.named, sv, ci.named.Obj().Name()), T: ci.named}}
			in.Call(setFn, []pe.Value{m, ci.val, obj})
		}
		in.SetSymMem("node.cmap", m)
		mapPtr = m
		return m, true
	}
	var finals []*pe.Ptr
	outs := pe.ExploreFn(e.cfg, func(in *pe.Interp) pe.Value {
		mapPtr = nil
		recvT := fn.Params[0].Type()
		ret := in.Call(fn, []pe.Value{pe.NewSym("recv", recvT), pe.NewSym("node", e.nodeT)})
		finals = append(finals, mapPtr)
		return ret
	})
	om := &omModel{}
	bad := map[string]bool{}
	counts := map[string]int{}
	for i, o := range outs {
		if o.Undecided != "" || o.Panicked || i >= len(finals) || finals[i] == nil {
			r.Unk("filter|run", pos, "not interpretable: "+o.Exit())
			continue
		}
		val := o.ChoiceMap()
		order, _, problem := om.abstract(finals[i])
		if problem != "" {
			r.Unk("filter|run", pos, problem)
			continue
		}
		left := map[string]bool{}
		for _, k := range order {
			left[k] = true
		}
		for _, ci := range cis {
			name := strings.TrimSuffix(ci.name, "ConstraintType")
			key := "filter|" + name
			counts[key]++
			kept := left[fmt.Sprint(ci.val)]
			want := true
			flag := ""
			switch ci.name {
			case "NullableConstraintType":
				flag = val["Nullable.value"]
				want = flag != "false"
			case "ConstConstraintType":
				flag = val["Const.apply"]
				want = flag != "false"
			}
			if (ci.name == "NullableConstraintType" || ci.name == "ConstConstraintType") && flag == "" && !bad[key] {
				bad[key] = true
				r.Bad(key, pos, "the rule's boolean value is not consulted by the filter")
				continue
			}
			if kept != want && !bad[key] {
				bad[key] = true
				r.Bad(key, pos, fmt.Sprintf("rule %s (value %s) is %s by the false-rule filter under {%s}; the property requires it to be %s", name, orDash(flag, flag != ""), keptWord(kept), o.Valuation(), keptWord(want)))
			}
		}
	}
	for _, ci := range cis {
		key := "filter|" + strings.TrimSuffix(ci.name, "ConstraintType")
		if !bad[key] && counts[key] > 0 {
			r.OK(key, pos, fmt.Sprintf("%d valuations", counts[key]))
		}
	}
	// Const.Validate: equality with the example is equality of JSON values — strings decoded,
	// numbers by value, the remaining scalars by their text.
	cfn := c.Func(pkgConstraint, "Const.Validate")
	cnamed := namedType(c, pkgConstraint, "Const")
	if cfn == nil || cnamed == nil {
		r.Unk("anchor|constraint.Const.Validate", "", "not found")
		return
	}
	short := func(v pe.Value) string {
		s := strings.Trim(pe.Show(v), "‹›")
		if strings.Contains(s, "nodeValue") {
			return "example"
		}
		return s
	}
	if f := c.Func(pkgBytes, "Bytes.InQuotes"); f != nil {
		e.cfg.Intrinsics[f.String()] = func(in *pe.Interp, args []pe.Value) (pe.Value, bool) {
			return in.Choose("quoted("+short(args[0])+")", []string{"false", "true"}) == 1, true
		}
	}
	if f := c.Func(pkgBytes, "Bytes.Unquote"); f != nil {
		rt := f.Signature.Results().At(0).Type()
		e.cfg.Intrinsics[f.String()] = func(in *pe.Interp, args []pe.Value) (pe.Value, bool) {
			return pe.NewSym("decoded("+short(args[0])+")", rt), true
		}
	}
	if f := c.Func(pkgBytes, "Bytes.String"); f != nil {
		e.cfg.Intrinsics[f.String()] = func(in *pe.Interp, args []pe.Value) (pe.Value, bool) {
			return pe.NewSym(short(args[0]), types.Typ[types.String]), true
		}
	}
	// byte-slice equality spelled with a call is the same atom as the == of the two strings
	eqAtom := func(in *pe.Interp, args []pe.Value) (pe.Value, bool) {
		an, bn := short(args[0]), short(args[1])
		if bn < an {
			an, bn = bn, an
		}
		return in.Choose("eq("+an+","+bn+")", []string{"false", "true"}) == 1, true
	}
	if f := c.Func(pkgBytes, "Bytes.Equals"); f != nil {
		e.cfg.Intrinsics[f.String()] = eqAtom
	}
	e.cfg.Intrinsics["bytes.Equal"] = eqAtom
	if f := c.Func(pkgJSON, "NewNumber"); f != nil {
		numPtr := f.Signature.Results().At(0).Type()
		e.cfg.Intrinsics[f.String()] = func(in *pe.Interp, args []pe.Value) (pe.Value, bool) {
			n := short(args[0])
			if in.Choose("number("+n+")", []string{"no", "yes"}) == 0 {
				ev, ok := e.cfg.Intrinsics["errors.New"]
				if !ok {
					in.Undecided("no model of a non-nil error")
				}
				errV, _ := ev(in, []pe.Value{"not a number"})
				return &pe.Tuple{E: []pe.Value{pe.NilV{}, errV}}, true
			}
			return &pe.Tuple{E: []pe.Value{pe.NewSym("number("+n+")", numPtr), pe.NilV{}}}, true
		}
	}
	// the kind of a token as the guesser reports it (an alternative to InQuotes / NewNumber)
	jsonTypeT := namedType(c, pkgJSON, "Type")
	for _, m := range []string{"JsonType", "LiteralJsonType"} {
		if f := c.Func(pkgJSON, "GuessData."+m); f != nil && jsonTypeT != nil {
			e.cfg.Intrinsics[f.String()] = func(in *pe.Interp, args []pe.Value) (pe.Value, bool) {
				g := args[0]
				if p, ok := g.(*pe.Ptr); ok {
					g = in.Load(p)
				}
				name := "?"
				if sv, ok := g.(*pe.StructV); ok {
					st := sv.T.Underlying().(*types.Struct)
					for i := 0; i < st.NumFields(); i++ {
						if st.Field(i).Name() == "bytes" {
							name = short(sv.F[i])
						}
					}
				}
				return pe.NewSym("kind("+name+")", jsonTypeT), true
			}
		}
	}
	constSeen := 0
	for _, o := range pe.ExploreFn(e.cfg, func(in *pe.Interp) pe.Value {
		return in.Call(cfn, []pe.Value{pe.NewSym("c", cnamed), pe.NewSym("value", cfn.Params[1].Type())})
	}) {
		val := o.ChoiceMap()
		get := func(prefix string, parts ...string) (string, bool) {
			for n, l := range val {
				if !strings.HasPrefix(n, prefix) {
					continue
				}
				all := true
				for _, p := range parts {
					if !strings.Contains(n, p) {
						all = false
					}
				}
				if all {
					return l, true
				}
			}
			return "", false
		}
		qv, _ := get("quoted(value)")
		qe, _ := get("quoted(example)")
		nv, _ := get("number(value)")
		ne, _ := get("number(example)")
		kv, _ := get("kind(value)")
		ke, _ := get("kind(example)")
		fold := func(q, n *string, k string) {
			switch {
			case k == "":
			case k == "TypeString":
				*q = "true"
			case k == "TypeInteger" || k == "TypeFloat":
				*q, *n = "false", "yes"
			default:
				*q, *n = "false", "no"
			}
		}
		if (kv != "" && (qv != "" || nv != "")) || (ke != "" && (qe != "" || ne != "")) {
			// two sources for the kind of one token: keep the paths on which they agree
			chk := func(q, n, k string) bool {
				return (q == "" || (q == "true") == (k == "TypeString")) && (n == "" || (n == "yes") == (k == "TypeInteger" || k == "TypeFloat"))
			}
			if !chk(qv, nv, kv) || !chk(qe, ne, ke) {
				continue
			}
		}
		fold(&qv, &nv, kv)
		fold(&qe, &ne, ke)
		if (qv == "true" && nv == "yes") || (qe == "true" && ne == "yes") {
			continue // a quoted token is not a numeral
		}
		deq, deqAsked := get("eq(", "decoded(value)", "decoded(example)")
		ord, ordAsked := get("ord(", "number(value)", "number(example)")
		raw, rawAsked := "", false
		for n, l := range val {
			if strings.HasPrefix(n, "eq(") && !strings.Contains(n, "decoded(") && strings.Contains(n, "value") && strings.Contains(n, "example") {
				raw, rawAsked = l, true
			}
		}
		kind := "other"
		switch {
		case qv == "true" && qe == "true":
			kind = "strings"
		case nv == "yes" && ne == "yes":
			kind = "numbers"
		}
		key := fmt.Sprintf("const|apply=%s|%s|quoted=%s,%s|numeral=%s,%s|decoded-equal=%s|value-order=%s|text-equal=%s", val["c.apply"], kind, orDash(qv, qv != ""), orDash(qe, qe != ""), orDash(nv, nv != ""), orDash(ne, ne != ""), orDash(deq, deqAsked), orDash(ord, ordAsked), orDash(raw, rawAsked))
		v, code := verdictOf(o)
		if v == "undecided" || v == "crash" {
			r.Unk(key, c.Pos(cfn.Pos()), v+": "+code)
			continue
		}
		constSeen++
		var want string
		switch {
		case val["c.apply"] == "false":
			want = "accept"
		case val["c.apply"] != "true":
			r.Bad(key, c.Pos(cfn.Pos()), "the verdict does not depend on the rule's flag: "+o.Exit())
			continue
		case kind == "strings" && deqAsked:
			want = map[string]string{"true": "accept", "false": "reject"}[deq]
		case kind == "strings":
			r.Bad(key, c.Pos(cfn.Pos()), "two quoted strings are not compared in decoded form (\"a\\/b\" must equal \"a/b\"): "+o.Exit())
			continue
		case kind == "numbers" && ordAsked:
			want = map[bool]string{true: "accept", false: "reject"}[ord == "="]
		case kind == "numbers":
			r.Bad(key, c.Pos(cfn.Pos()), "two numerals are not compared by value (1.50 must equal 1.5): "+o.Exit())
			continue
		case rawAsked:
			// the text decides only once the path knows the two are not both strings and not both numerals
			notBothStrings := qv == "false" || qe == "false"
			notBothNumbers := nv == "no" || ne == "no" || qv == "true" || qe == "true"
			if !notBothStrings || !notBothNumbers {
				r.Bad(key, c.Pos(cfn.Pos()), "the value is compared with the example by its raw text without first telling strings (compared decoded: \"a\\/b\" equals \"a/b\") and numerals (compared by value: 1.50 equals 1.5) apart: "+o.Exit())
				continue
			}
			want = map[string]string{"true": "accept", "false": "reject"}[raw]
		default:
			r.Bad(key, c.Pos(cfn.Pos()), "const:true does not compare the value with the example: "+o.Exit())
			continue
		}
		if v != want {
			r.Bad(key, c.Pos(cfn.Pos()), fmt.Sprintf("%sed; the property requires %s", v, want))
		} else {
			r.OK(key, c.Pos(cfn.Pos()), v)
		}
	}
	if constSeen == 0 {
		r.Unk("anchor|Const.Validate paths", c.Pos(cfn.Pos()), "no decided path")
	}
}

func keptWord(k bool) string {
	if k {
		return "kept"
	}
	return "removed"
}

func init() {
	register(&Rule{ID: "T-cmp", Min: 36, Run: runTCmp,
		Doc: "sign/magnitude structure of the exact comparison: Number.Cmp, with the integer-part and fractional-part digit comparisons as ordering atoms, orders two numbers by sign first, then by integer part, then by fraction, and mirrors the whole magnitude comparison when both are negative — for all 2x2 sign combinations and 3x3 part orderings"})
}

func runTCmp(c *load.Ctx, r *report.RuleResult) {
	e := newTableEnv(c)
	cmp := c.Func(pkgJSON, "Number.Cmp")
	ci := c.Func(pkgJSON, "Number.cmpInt")
	cf := c.Func(pkgJSON, "Number.cmpFra")
	numT := namedType(c, pkgJSON, "Number")
	if cmp == nil || ci == nil || cf == nil || numT == nil {
		r.Unk("anchor|json.Number.Cmp/cmpInt/cmpFra", "", "not found")
		return
	}
	delete(e.cfg.Intrinsics, cmp.String())
	labels := []string{"<", "=", ">"}
	e.cfg.Intrinsics[ci.String()] = func(in *pe.Interp, args []pe.Value) (pe.Value, bool) {
		return int64(in.Choose("intpart", labels) - 1), true
	}
	e.cfg.Intrinsics[cf.String()] = func(in *pe.Interp, args []pe.Value) (pe.Value, bool) {
		return int64(in.Choose("fraction", labels) - 1), true
	}
	pos := c.Pos(cmp.Pos())
	outs := pe.ExploreFn(e.cfg, func(in *pe.Interp) pe.Value {
		n := structWith(in, numT, map[string]pe.Value{"neg": pe.NewSym("a.neg", types.Typ[types.Bool]), "nat": pe.NewSym("a.nat", fieldTypeOf(numT, "nat")), "exp": pe.NewSym("a.exp", types.Typ[types.Int])})
		m := structWith(in, numT, map[string]pe.Value{"neg": pe.NewSym("b.neg", types.Typ[types.Bool]), "nat": pe.NewSym("b.nat", fieldTypeOf(numT, "nat")), "exp": pe.NewSym("b.exp", types.Typ[types.Int])})
		return in.Call(cmp, []pe.Value{n, &pe.Ptr{Obj: in.NewObj(numT, m, "b"), T: numT}})
	})
	num := map[string]int{"<": -1, "=": 0, ">": 1}
	// judged on total valuations: an unconsulted atom stands for all of its values
	for _, an := range []string{"false", "true"} {
		for _, bn := range []string{"false", "true"} {
			for _, ip := range labels {
				for _, fp := range labels {
					key := fmt.Sprintf("cmp|a.neg=%s|b.neg=%s|int%s|fra%s", an, bn, ip, fp)
					var want int
					switch {
					case an == bn:
						want = num[ip]
						if want == 0 {
							want = num[fp]
						}
						if an == "true" {
							want = -want
						}
					case an == "true":
						want = -1
					default:
						want = 1
					}
					matched := 0
					for _, o := range outs {
						val := o.ChoiceMap()
						ok := true
						for atom, v := range map[string]string{"a.neg": an, "b.neg": bn, "intpart": ip, "fraction": fp} {
							if got, asked := val[atom]; asked && got != v {
								ok = false
							}
						}
						if !ok {
							continue
						}
						matched++
						got, isInt := o.Ret.(int64)
						switch {
						case o.Undecided != "" || o.Panicked || !isInt:
							r.Unk(key, pos, o.Exit())
						case int(got) != want:
							r.Bad(key, pos, fmt.Sprintf("Cmp returns %d; by sign, then integer part, then fraction it must be %d", got, want))
						default:
							r.OK(key, pos, fmt.Sprint(got))
						}
					}
					if matched != 1 {
						r.Unk(key+"|paths", pos, fmt.Sprintf("%d paths match this valuation", matched))
					}
				}
			}
		}
	}
}
