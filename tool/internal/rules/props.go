package rules

// Property → rules. Only properties whose rules are implemented are listed; everything else is in
// NotApplicable (MANIFEST.json is generated from this file by `jsv manifest`).

const trusted = "Trusted base: go/types, go/ssa and the CHA/VTA call graphs of golang.org/x/tools v0.29.0; the spec tables in tool/internal/spec and the reviewed tables in tool/internal/rules, transcribed from the property text and from a reading of the pinned tree; sync.Once / sync.Pool / Go memory-model semantics. Static only: nothing of the library is executed."

func init() {
	property(&Property{
		ID:      "C07",
		Rules:   []string{"ET-1", "ET-2", "ET-3", "XF-H", "XF-1", "XF-2", "XF-3", "NR-1", "LB-const", "SX-crash-json", "SX-crash-schema", "SX-crash-enum", "SX-crash-schema-deep", "OR-4", "NR-2", "LB-param", "SX-eofspan-json", "SX-eofspan-schema", "SX-eofspan-enum", "PL-5"},
		Explain: "PL-5: a reused scanner or loader that keeps a stale queue or stack fails later with an assertion panic; reset completeness rules that out. LB-param: an index that comes in as a parameter is tested by the callee, or every caller tests what it passes. SX-eofspan-*: the events a scanner synthesises at the end of input end no further than one past the last byte. OR-4: recursion along user-type references is guarded, so a cycle of references cannot end in a stack overflow (a fatal error no handler stops). NR-2: a caller-supplied Schema is added as a type only after a test that it has a root node, so no added type can make the checker or validators dereference nil. Decides the structural clauses of C07 on the current tree: (ET) every errors.Format call site passes exactly as many arguments as its template has verbs, every ErrorCode used bare as an error value has a zero-verb template, every declared code has a template (the last sentence of the property, decided completely over all construction sites). (SX-crash) the transition relation of each of the three byte scanners is extracted from its Next() method by abstract interpretation of the SSA and explored breadth-first over every reachable abstract state (bounded stack depth / node cap) x all 256 byte values x end of input, following look-ahead reads with every possible following byte and with the input ending inside the look-ahead window: no transition may fail with anything but a positioned library error (no index out of range, no assertion panic, no unstructured error). (XF) exception flow: the explicit panic sites of the library (classified by the static type of the value) and the implicit ones (slice/string index and slice expressions that no dominating length test or range loop guards, type assertions without ok, integer division) are propagated bottom-up over the call graph through the recover handlers, whose transfer functions (absorb / re-raise / convert to DocumentError) are derived by interpreting each handler's own code on one representative value per class; XF-1: no value escapes any exported function of the API packages, except reviewed invariant assertions and reviewed in-range arguments (one line of reason each); XF-2: the API-level handlers turn only positioned errors into returned errors; XF-3: no bare error code is returned as an error value on a path reachable from the API. NR-1: the possibly empty root node is nil-checked before use in every API-layer function. LB-const: every constant-index read of a slice/string is dominated by a length test or reviewed.",
		Assume: []string{
			"termination of the API calls is not decided",
			"nil dereferences other than the root-node rule, map writes to nil maps and stack exhaustion are not modelled as panic sources",
			"feasibility of the reviewed invariant assertions and in-range arguments is a reading of the pinned tree, not decided statically",
			"the position of an error lying inside its source is decided only for scanner errors (C17 rules)",
		},
		Technique: "static analysis: AST+types rule over all error-construction sites (constant-resolved template arity)",
		Level:     "Complete decision, over every call site of the current tree, of named structural necessary conditions of the property (error template/arity agreement). It does not decide the behavioural statement as a whole.",
		Note:      trusted,
		DesignRef: "DESIGN.md §3 ET, §4 C07",
	})
	property(&Property{
		ID:      "C05",
		Rules:   []string{"SA-J", "SA-JT", "SA-J3", "SA-JT3", "SA-Jglue", "CT-1", "ST-model", "LIM-1"},
		Explain: "LIM-1: no counter is compared with a constant of 8 or more in the recogniser packages — no nesting, length or exponent limit. ST-model: the stack the scanners keep their open lexemes in behaves like a plain list from every reachable (length, capacity) state with up to 40 elements — beyond the nesting bound of the products. CT-1: the scanners' window is the whole text — data and dataSize are set by the constructor only, from the file's Content() and its length. SA-Jglue: the one rule Document.Check adds to the scanner's verdict — a text for which the scanner delivers no lexeme is rejected as empty JSON, any other text is accepted when the scanner ends normally, scanner errors are returned unchanged — is read off Document.check and Document.nextLexeme themselves (scanner replaced by a staged oracle); the product rules take it as given. The transition relation of the formats/json scanner is extracted from its own Next() method by abstract interpretation of the SSA (scanner object tracked exactly, one input byte at a time, positions symbolic) and compared, by breadth-first product construction, with a reference RFC 8259 byte transducer: in every reachable state pair up to the nesting bound (2 quick, 4 thorough), for each of the 256 byte values and for end of input, the scanner rejects iff the reference rejects, accepts end of input iff the reference does (including the empty-document rule of Document.check), in strict mode and with AllowTrailingNonSpaceCharacters. Literal tokens (strings, numbers, true/false/null) are unbounded in length: their automaton states are merged, so the token language is decided for all lengths.",
		Assume: []string{
			"nesting deeper than the bound is not explored (the scanner inspects only the top two stack entries)",
			"the glue in Document.check/nextLexeme (recover, EndTop => EOF, zero lexemes => ErrEmptyJson) is modelled in the driver as read on the pinned tree; a change there is outside this rule",
			"bytes >= 0x80 inside strings are accepted without UTF-8 validation by both sides (the property names only control bytes)",
		},
		Technique: "static analysis: finite-domain abstract interpretation of go/ssa (scanner automaton extraction) + product construction with an RFC 8259 reference automaton",
		Level:     "Language equivalence between the automaton extracted from the scanner's source and a reference RFC 8259 transducer, exhaustive over all 256 byte values and end of input in every reachable abstract state up to the nesting bound. A structural necessary condition decided completely within the bound; not a run of the library.",
		Note:      trusted,
		DesignRef: "DESIGN.md §3 SA, §4 C05",
	})
	property(&Property{
		ID:      "C06",
		Rules:   []string{"SA-J", "SA-S", "SA-E", "T-enum", "SA-J3", "SA-S-deep", "SA-E-deep", "CT-1", "ST-model"},
		Explain: "ST-model: same clause (a stack that loses elements once it has grown changes the events of deeply nested documents only). CT-1: the scanners' window is the whole text — data and dataSize are set by the constructor only, from the file's Content() and its length. Same product as C05, comparing in addition the lexical events: on every byte and at end of input the formats/json scanner model must emit exactly the events of the reference transducer (types, order, and spans written relative to the consumed byte and to the begin offsets of the open events): literal/key spans = the source token, container spans from opening to closing bracket, wrappers closed on the first byte after the value. SA-S / SA-E run the same product against the schema scanner and the enum-rule scanner restricted to plain JSON input: every byte the reference accepts must be accepted with the same events (new-line events dropped; exponents, and for enum rules non-array roots and nested containers, are documented deviations; duplicate detection of the enum scanner abstracted).",
		Assume: []string{
			"rebuilding the JSON value from the events is not decided (content is symbolic)",
			"nesting beyond the bound not explored",
			"field names index/dataSize/data/stack of the scanner structs are anchors of the model",
		},
		Technique: "static analysis: scanner automaton extraction by abstract interpretation of go/ssa + product with a reference event transducer; sibling cross-check of the three cloned scanners",
		Level:     "Equality of emitted event sequences and symbolic spans between the extracted scanner models and a reference transducer, exhaustive over bytes/states up to the nesting bound; the three scanner clones are cross-checked through the same reference.",
		Note:      trusted,
		DesignRef: "DESIGN.md §3 SA, §4 C06",
	})
	property(&Property{
		ID:      "C13",
		Rules:   []string{"SX-nl-schema", "SX-nl-enum", "SX-sp-schema", "SX-sp-enum", "NC-1", "SX-comment-schema", "SX-nl-schema-deep", "SX-sp-schema-deep", "SX-comment-schema-deep", "T-rawkey", "T-hex", "T-escape", "SX-eol-schema", "SX-eol-enum", "SX-blank-json", "SX-blank-schema", "SX-blank-enum", "T9", "SX-text-schema", "SX-text-enum", "SX-mode-schema", "RAW-2", "SX-eofnote-schema", "SX-eofnote-enum"},
		Explain: "SX-eofnote-*: the end of the text ends an inline note or comment just as a line break does. RAW-2: no byte-for-byte comparison of two JSON tokens (a key spelled with another escape sequence denotes the same key). SX-mode-schema: in every reachable abstract state (deep exploration, 40,000 states) the scanner's annotation mode says multi-line exactly when the innermost open annotation on its stack is a multi-line one. SX-text-*: note and comment text is opaque — every byte that does not begin the terminator stays in the text state silently (a lone * does not end a multi-line note). T9 (const part): a const rule compares strings in decoded form, so a document that spells the same string with other escape sequences gets the same verdict. SX-blank-*: a space accepted without an event and without handing over to another step function leaves the scanner in the same abstract state, so a mere blank sets no flag (the array-has-an-item flag used to be set by a blank after [). SX-eol-schema / SX-eol-enum: in every reachable inline-comment and inline-annotation state (including the one right after the opening # or //) a line break ends the comment and is delivered as a new-line event, so an empty comment does not swallow the next line. T-rawkey / T-hex / T-escape: keys are matched in decoded form; \\uXXXX digits decode as hexadecimal in either case for all 256 byte values at each digit position; the two-character escapes decode as RFC 8259 says for all 256 bytes after the backslash. SX-comment-schema: in every reachable comment state of the schema scanner a byte either delivers no lexical event or leaves the comment, so comments are invisible to the loader (line and node counting). Over the automaton extracted from the schema scanner and the enum-rule scanner (abstract interpretation of Next(), every reachable abstract state up to the stack bound / node cap): LF and CR have identical effect in every state (verdict, events with spans, successor state), so LF, CR and CRLF spellings scan alike; space and tab have identical effect in every state outside content states (string bodies, annotation/comment text, bare rule names — listed with reasons), so indentation style does not change the scan. NC-1: every comparison of a lexeme's text with a rule name (enum, type, or, the names in the rule constructor table) is made on the unquoted text, so quoted and bare rule names are equivalent.",
		Assume: []string{
			"comment placement, inline versus multi-line annotation equivalence, quoted versus bare rule names, rule order and escape normalisation are not decided by these rules",
			"the schema scanner's state space is explored breadth-first up to a node cap (5000 states quick)",
		},
		Technique: "static analysis: scanner automaton extraction by abstract interpretation of go/ssa + byte-class symmetry check over all reachable abstract states",
		Level:     "Byte-class symmetry (CR≡LF everywhere, SP≡TAB outside content states) of the extracted scanner automata, exhaustive over the explored abstract states: a necessary condition of invariance under line-end and indentation re-spelling.",
		Note:      trusted,
		DesignRef: "DESIGN.md §3 SA-5, §4 C13",
	})
	property(&Property{
		ID:      "C14",
		Rules:   []string{"LEN-trim", "LEN-json", "LEN-schema", "LEN-enum", "LEN-json-deep", "LEN-schema-deep", "LEN-enum-deep", "SX-eol-schema", "SX-eol-enum", "CT-1", "RX-3", "SX-eofspan-json", "SX-eofspan-schema", "SX-eofspan-enum", "LEN-mode-schema", "LEN-mode-enum"},
		Explain: "LEN-mode-*: with the length flag set the scanner accepts the same bytes with the same events as without it wherever the normal mode accepts (side-by-side exploration), so annotations, notes and comments that belong to the text are inside its length. SX-eofspan-*: events synthesised at the end of input stay inside the text, so the length computed from their span does. RX-3: the regex type's Len is the pattern's length + 2, the pattern ending at the first unescaped slash (loop automaton decided for all states and bytes). CT-1: the scanners' window is the whole text — data and dataSize are set by the constructor only, from the file's Content() and its length. SX-eol-*: a trailing inline comment or note ends at its line break, so the length does not run over the next line of the enclosing text. LEN-trim reads off each Length() method's own code (abstract interpretation with Next() replaced by a staged oracle delivering symbolic lexemes) what it holds before trimming — End of the last lexeme + k, and what the end-top marker does to it — and that the trimming loop steps back over blank bytes one at a time from data[P-1]. LEN-json / LEN-schema / LEN-enum walk the product of the scanner model extracted from Next() in length mode with the RFC 8259 reference transducer in trailing mode, for every byte value in every reachable state pair up to nesting 2, carrying as ghost state where the top-level value ended (V), where the first foreign byte is (F) and the value Length() would hold (G), as offsets from the byte just consumed. Wherever the scan can stop — the end-top marker (foreign byte directly after the value, after blanks, or one byte late), or end of input — V+1 <= G <= F must hold, so that trimming lands exactly on the length of the value; a text cut short inside a value must yield an error, and a foreign byte after a complete value must not.",
		Assume: []string{
			"the embedded text is plain JSON (values, arrays of scalars for enums): annotations, comments, type shortcuts and other JSight-only syntax after or inside the schema are not walked by this product (annotation and comment starters are not treated as foreign bytes)",
			"that Check accepts the prefix with the same meaning is C05/C06 for JSON (same scanner, same events); for schemas it is not decided here",
			"texts of blanks only are a don't-care cell; the regex notation's Len (pattern length + 2) is not covered",
			"nesting bound 2: Length() and the end-top logic inspect only whether the event stack is empty",
		},
		Technique: "static analysis: abstract interpretation of go/ssa (scanner automaton extraction from Next(); symbolic summary of Length()) + product with an RFC 8259 reference transducer carrying ghost offsets",
		Level:     "Interval check V+1 <= pre-trim length <= F at every stop of the scan, over every reachable (scanner state, reference state) pair and every byte value: a structural necessary condition of \"Len returns the length of S without trailing blanks\" for plain-JSON texts.",
		Note:      trusted,
		DesignRef: "DESIGN.md §3.2, §4 C14",
	})
	property(&Property{
		ID:      "C17",
		Rules:   []string{"SX-pos-json", "SX-pos-schema", "SX-pos-enum", "LB-render", "XF-render", "SX-pos-schema-deep", "POS-1", "POS-2"},
		Explain: "POS-2: lexemes are made by the scanners only, so every error position is the span of something a scanner delivered. POS-1: the functions that attach a position to a library error (deferred CatchLexEventError) are the 15 reviewed ones, each given the reviewed lexeme; the innermost handler wins, so a handler added further in moves errors to another token. Over the automata extracted from the three scanners: every rejecting transition (any byte in any reachable abstract state, and end of input) produces a DocumentError on which SetIndex was called and whose index is the offset of the byte just consumed (the last byte of the input when it ends early) — the position is symbolic in the model, so this holds for all inputs reaching the state. LB-render: the renderer stays inside the file content — preparation() brings a position outside the content back inside it, every renderer method that indexes the content first returns on empty content and calls preparation() (dominance), the line helpers are only called after it, and the count given to strings.Repeat is provably non-negative. XF-render: no panic (explicit, or an index/slice expression outside the recognised guards and the reviewed in-range table, which is keyed by the operand expressions) can escape an exported function of package errors.",
		Assume: []string{
			"that the rejecting byte is the *first* byte that cannot continue the text follows from C05's language equivalence for JSON documents only",
			"validator/loader error positions, and that the rendered line number / line text / caret column are the right ones (rather than merely safe to compute), are not covered by these rules",
		},
		Technique: "static analysis: scanner automaton extraction by abstract interpretation of go/ssa; symbolic error positions compared with the consumed byte on every rejecting transition",
		Level:     "Typestate/position check on every rejecting transition of the extracted scanner automata (exhaustive over explored abstract states): a structural necessary condition of the first sentence of the property.",
		Note:      trusted,
		DesignRef: "DESIGN.md §3 PS-1, §4 C17",
	})
	property(&Property{
		ID:      "C19",
		Rules:   []string{"OM-model", "OM-lock", "OM-model-deep"},
		Explain: "Every type with the generated ordered-map shape (found structurally: data map, order slice, mx RWMutex; three today) is checked against a reference insertion-ordered map written from the property text. The methods' SSA is interpreted abstractly on every reachable implementation state over a universe of three keys and two values (keys are only compared for equality, values only copied, so this is every distinguishable case of one operation); callbacks are opaque functions whose verdicts are forked atoms. For each state x method x argument x callback valuation: return value, exact sequence of callback invocations (every entry exactly once, in insertion order), and the successor state (order duplicate-free, same key set as data, equal to the reference's) must agree; since every operation from every reachable state agrees including the successor state, every operation sequence agrees by induction. OM-lock: in every interpreted run m.mx is held around each access to data/order (write lock when the state changes) and released on every exit.",
		Assume: []string{
			"MarshalJSON: the iteration order and the values passed to json.Marshal are compared, not the produced bytes",
			"callbacks that re-enter the map (they run under the lock) are outside the model",
			"absence of data races follows from the lock discipline only for accesses through the methods; sync.RWMutex is trusted",
			"slice capacity growth is modelled as doubling; aliasing inside one method is tracked exactly",
		},
		Technique: "static analysis: finite-domain abstract interpretation of go/ssa (three keys, two values, opaque callbacks) compared with a reference ordered map; inductive over all reachable states",
		Level:     "Exhaustive comparison, on a data-independent finite universe, of every method of every generated ordered map with a reference model; inductive argument over operation sequences. Decides the sequential half of the property for all sequences; the race-freedom half through lock discipline only.",
		Note:      trusted,
		DesignRef: "DESIGN.md §3 OM, §4 C19",
	})
	const tableTechnique = "static analysis: decision tables extracted by finite-domain abstract interpretation of go/ssa (atoms: presence of rules, members of Go enums, orderings of opaque numbers, boolean flags) compared with the cells the property pins down"
	const tableLevel = "Each table is a complete decision, over every valuation of its finite atoms, of one structural clause of the property on the current tree; cells the statement does not determine are don't-care. Necessary conditions of the behavioural statement, not the statement as a whole."
	property(&Property{
		ID:      "C01",
		Rules:   []string{"T7", "T8", "TA", "T-object", "T-array", "T-tree", "T-list", "T-any", "T11", "FR-1", "VF-1", "T-rawkey", "T-tree-deep", "RAW-2", "T-null", "PIPE-1"},
		Explain: "PIPE-1: every compile step (including the one that records required keys) runs for every node. RAW-2: document keys are compared in decoded form with the example of a rule-less key type. T-null: the validator nullable adds next to referenced types admits null and nothing else. T-rawkey: a document key finds its property by its decoded text (escape sequences resolved). FR-1: no field of a long-lived object (API objects, compiled schema, constraints) and no package variable can hold a per-operation helper (validator tree, validators, example builder, collectors, checker state), so the bookkeeping of one operation cannot reach the next or a concurrent one. VF-1: a validator has no slot for other validators except its parent link: child validators are made for one value and handed to the tree. T7: the JSON-kind compatibility decision of a scalar document value against a scalar example node (same kind | integer for float | null only where nullable is present; skipped only under an enum rule), extracted from checkNotAnEnum for every document kind x example kind x presence of nullable/enum. T8: required-key registration in the compiler — a property becomes required iff it is not optional (optional absent and keys not optional by default, or optional:false); optional on a non-property is rejected; the registered key is the node's own. TA: ArrayNode.Child selects example element min(i, len-1) and rejects on an empty example array, for all orderings of i against len. T-object: the object validator per lexical event — a key removes exactly itself from the keys still owed, the object may end only when nothing is owed, a key the example names is validated against that property, an unknown key goes to key shortcuts, then additionalProperties, else is rejected at the key. T-array: an item is checked against the example element at the running index, which advances by one; array-end gives the item count to every item-count rule. T-tree: the live-candidate bookkeeping of Tree.FeedLeaves for 1..3 candidates and all per-candidate outcomes (reject iff all failed; failed ones dropped; completed ones step back to their parent; children spliced in). T-any/T11: type any swallows exactly one value by depth counting, IsOpening classifies the JSON events correctly.",
		Assume: []string{
			"each table decides one step (one lexical event, one call) for all valuations of its atoms; the composition of steps over a whole document (required-key dynamics across nested objects, duplicate keys, property order) is not decided",
		},
		Technique: tableTechnique,
		Level:     tableLevel,
		Note:      trusted,
		DesignRef: "DESIGN.md §3 PE T7/T8, §4 C01",
	})
	property(&Property{
		ID:      "C02",
		Rules:   []string{"T3", "T4", "T6", "T9", "T14", "T-cmp", "T-enum", "T-formats"},
		Explain: "T-formats: the regex rule accepts iff an RE2 search in the decoded string succeeds; date and datetime accept iff time.Parse with the layouts 2006-01-02 / RFC 3339 accepts the decoded string; uri, email and uuid accept only after their parser accepted the decoded string. T3: Min/Max.Validate accept a probe iff probe >= min (> when exclusive) / probe <= max (< when exclusive) for all orderings and flag values, the probe being the parsed document number and the bound the rule's own number (exact comparison Number.Cmp is an ordering atom; the five comparison helpers are interpreted). T4: minLength/maxLength compare the length of the decoded string, minItems/maxItems the child count, precision the number of fractional digits of the parsed number, with the right comparator for every ordering. T6: a true exclusiveMinimum/Maximum makes exactly the matching bound exclusive, a false one is inert, the helper rule is removed. T9: nullable:false and const:false are removed by the compiler's filter and nothing else is; Const.Validate is inert when false and, when true, accepts iff the value equals the example as a JSON value (two strings decoded, two numerals by exact value, anything else by text). T14: ValidateLiteralValue runs every literal rule of the node exactly once on the document literal, except that a null admitted by nullable:true is accepted without running any other rule.",
		Assume: []string{
			"correctness of Number.Cmp's digit arithmetic, of string decoding, and of the regex/e-mail/URI/UUID/date predicates (standard library) is not decided",
			"enum membership on decoded values is not decided",
		},
		Technique: tableTechnique,
		Level:     tableLevel,
		Note:      trusted,
		DesignRef: "DESIGN.md §3 PE T3/T4/T6/T9/T14, §4 C02",
	})
	property(&Property{
		ID:      "C08",
		Rules:   []string{"T1", "T2", "T5", "T6", "T9", "OM-model", "T-pairs", "T-banned", "T-compat", "OM-model-deep", "OR-6", "T-foreign", "PIPE-1"},
		Explain: "PIPE-1: every rule-consistency step of compileNode is on every path to a normal return. T-foreign: the four no-other-rules checks (enum, or, any, type reference) reject a node whenever a rule outside their reviewed companion lists is present, the node's rule count being modelled as queried-and-present plus others. OR-6: the pair comparison runs after the exclusive flags are folded into their bounds, so that strictness applies (T5 and T6 decide the two steps, OR-6 their order). T-banned: allowedConstraintCheck rejects exactly the combinations format rule + minLength/maxLength/regex and any + const, decided from the rules present on the node. T-compat: checkCompatibilityOfConstraints rejects a plain node iff one of its rules does not apply to its kind, whatever other rules are present. T-pairs: checkPairConstraints runs the pair check that applies to a plain JSON kind and all three on nodes whose kind does not decide (rule-sets of an or rule are compiled on nodes of kind mixed). T1: the applicability matrix — IsJsonTypeCompatible of every constraint type evaluated on every JSON kind equals the matrix the property states (numeric rules on numbers, precision on float, length/regex/format rules on strings, item counts on arrays, additionalProperties/allOf on objects). T2: every rule name builds the constraint of that name, unknown names are rejected. T5: paired bounds are accepted iff min<=max (strictly when either is exclusive), minLength<=maxLength, minItems<=maxItems. T6: exclusive flags without their bound are rejected. T9 + OM-model: the false-rule filter removes exactly nullable:false/const:false, and the ordered map's Filter visits every entry exactly once whatever is removed — the source of the order dependence named in the property.",
		Assume: []string{
			"companion-rule exclusivity counts (or / enum / any / type references with foreign rules), duplicate-rule detection and order independence beyond the filter are not decided",
		},
		Technique: tableTechnique,
		Level:     tableLevel,
		Note:      trusted,
		DesignRef: "DESIGN.md §3 PE T1/T2/T5/T6/T9, OM, §4 C08",
	})
	property(&Property{
		ID:      "C10",
		Rules:   []string{"SA-N", "FL-1", "FL-2", "EE-1", "T3", "T-cmp", "NZ-1", "T9", "NX-1", "T-intfloat", "LIM-1", "PIPE-3"},
		Explain: "PIPE-3: every path of the numeral scanner to a successful return passes both zero-trimming calls and the sign-of-zero test, so every Number is in normal form. LIM-1: no magnitude limit in the number parser. T-intfloat: the four integer/float classifiers answer float iff the text has a decimal point and no exponent mark or a fraction is left after normalisation, integer iff it parses otherwise — for every text of up to three bytes over {., e, E, digit}, parser and fraction length as atoms. NX-1: after the recogniser accepted a numeral no function on the way to its Number makes an error of its own (reviewed sites aside), so no magnitude or length limit is imposed. T9 (const part): a const rule compares two numerals by exact value (Number.Cmp), not by spelling. NZ-1: the function that builds an exact Number clears the sign when no significant digit is left, so negative zero equals zero under the sign-first comparison. SA-N: the automaton of the numeral recogniser behind NewNumber (state functions interpreted abstractly, counters abstracted) is compared by product construction with the RFC 8259 number automaton over all 256 bytes in every reachable state pair, including where a numeral may end. FL-1: no library function holds a floating-point value or calls strconv float conversions/math/big (the only float helper, Number.ToFloat, has no library caller). T3: bounds are compared only through the exact comparison (Number.Cmp as an ordering atom) with the correct comparator.",
		Assume: []string{
			"correctness of the digit-string comparison and of exponent folding/zero trimming (arithmetic over unbounded digit strings), including negative zero, is not decided",
		},
		Technique: "static analysis: numeral automaton extraction by abstract interpretation of go/ssa + product with the RFC 8259 number automaton; effect/who-may-call rule for floating point; comparator table",
		Level:     "Language equivalence of the extracted numeral automaton with RFC 8259 (exhaustive), absence of floating point (exhaustive over library functions), comparator table: structural necessary conditions of exact decimal arithmetic.",
		Note:      trusted,
		DesignRef: "DESIGN.md §3 SA-3/FL-1/T3, §4 C10",
	})
	property(&Property{
		ID:      "C16",
		Rules:   []string{"OR-1", "T12", "T-ast", "T-orlist", "T-astref", "T-astrules", "T-note", "T-enumitem"},
		Explain: "T-enumitem: an enum item is stored (and rendered in the AST) as the decoded string / the source text it was written with. T-note: the note text of an annotation is stored on the loader's current node exactly once whenever there is one, whatever else the loader knows. T-astrules: collectASTRules lists one entry per written rule, under its own name, in insertion order, for every order of three rules (the types list rendered under or). T-astref: a type-shortcut node's AST Value is its stored source text on every path. T-orlist: the or / type-shortcut list records every alternative as written, repeats included. OR-1: inside the once-only loader the call that builds the AST dominates loader.CompileBasic, load() dominates CompileAllOf/AddUnnamedTypes/the checkers in the once-only compiler, and GetAST returns the field the built tree is stored to — the AST mirrors the text because it is taken before any compilation step rewrites or deletes constraints. T12: the declared-or-inferred schema type of a node, judged on all 16 combinations of the indicators enum/or/type/precision and every JSON kind: enum => enum, or => mixed, type => its value, precision alone => decimal, none => the JSON kind.",
		Assume: []string{
			"field-by-field content of AST nodes, rule order and nested items, comment attachment and the generated/manual marking are not decided",
		},
		Technique: "static analysis: SSA dominance (must-precede) rule + decision table extracted by abstract interpretation",
		Level:     tableLevel,
		Note:      trusted,
		DesignRef: "DESIGN.md §3 OR-1/T12, §4 C16",
	})
	property(&Property{
		ID:      "C11",
		Rules:   []string{"MO", "AL-1", "PL-1", "PL-2", "PL-3", "PL-4", "SW-2", "FR-1", "OR-3", "AL-2", "GV-1", "SW-4", "NU-1", "FS-1", "ON-1", "PL-5", "SW-5"},
		Explain: "SW-5: no exported API function stores into a field of an object it received as an argument (an added type keeps the options its owner gave it). PL-5: every reset method assigns or clears every field the object's other methods change, so a reused object starts from scratch. ON-1: no panic can leave the function handed to a once-wrapper's Do (exception-flow summary), so a failing first use stores its error for every later and concurrent caller. FS-1: no long-lived object keeps a foreign (standard library / third party) object that the library changes by the methods it calls on it — write effects computed over the dependency's own SSA; the cached regex example generator whose random source advanced with every Example() was found by this reading and is fixed. GV-1: no library function other than a package initialiser writes a package-level variable. SW-4: no once-latch field is ever reassigned. NU-1: the name of an anonymous type is computed from the type object itself. OR-3: the used-type list does not depend on whether the schema was compiled before it was asked for. AL-2: slices handed out by getters (rule values, names, children, keys) are not filtered in place, stored into or sorted by their clients, so objects handed out earlier do not change under later calls. FR-1: no field of a long-lived object (API objects, compiled schema, constraints) and no package variable can hold a per-operation helper (validator tree, validators, example builder, collectors, checker state), so the bookkeeping of one operation cannot reach the next or a concurrent one. SW-2: in everything reachable from the API's load/compile/AddType steps, no object reached through a root's type table (the schema objects of added types, which every root they were added to shares) is written — taint analysis over SSA from MustType/Type/TypesList to stores and receiver-writing method calls; the allOf compiler's in-place expansion of added types is the recorded known finding K2. MO: every range over a Go map in the library (inventory on each run) is order-insensitive by construction (the body only inserts/deletes entries keyed by the iteration key, counts, calls functions that can neither panic nor write shared memory — decided by an effect summary over the call graph — or collects keys that are sorted before use) or is in the reviewed table with the reason why the order cannot reach a verdict, error code, position, AST or example; a reviewed loop whose exits/writes/effectful calls change is reported again. PL-1: no alias of a pooled buffer's storage is returned, stored or captured by a function that puts the buffer back (the Example() slice must not be overwritten by later calls). PL-2: every field of the pooled loader is assigned in reset(). PL-3: json.Document rewinds before and after Check/Len.",
		Assume: []string{
			"history independence beyond the enumerated once/pool/rewind objects and stability of returned AST values are not decided",
			"the reasons in the reviewed map-range table are a reading of the pinned tree",
		},
		Technique: "static analysis: map-range inventory with effect summaries (AST+types+SSA), escape/alias rule for pooled buffers (SSA def-use), reset completeness, dominance",
		Level:     "Exhaustive over all map ranges / pool users / pooled structs of the current tree: structural necessary conditions of determinism and history independence.",
		Note:      trusted,
		DesignRef: "DESIGN.md §3 MO/PL, §4 C11",
	})
	property(&Property{
		ID:      "C12",
		Rules:   []string{"SW-1", "SW-3", "AL-1", "PL-1", "PL-4", "OM-lock", "SW-2", "FR-1", "VF-1", "AL-2", "GV-1", "SW-4", "NU-1", "FS-1", "ON-1", "SW-5", "PL-5"},
		Explain: "SW-5: an added type is not configured by the root it is added to (a write to an object other roots share). PL-5: reused objects are reset completely. ON-1: no panic can leave the function handed to a once-wrapper's Do (exception-flow summary), so a failing first use stores its error for every later and concurrent caller. FS-1: no long-lived object keeps a foreign (standard library / third party) object that the library changes by the methods it calls on it — write effects computed over the dependency's own SSA; the cached regex example generator whose random source advanced with every Example() was found by this reading and is fixed. GV-1: no library function other than a package initialiser writes a package-level variable. SW-4: no once-latch field is ever reassigned. NU-1: the name of an anonymous type is computed from the type object itself. AL-2: internal slices handed out by getters are used read-only by their clients. FR-1: no field of a long-lived object (API objects, compiled schema, constraints) and no package variable can hold a per-operation helper (validator tree, validators, example builder, collectors, checker state), so the bookkeeping of one operation cannot reach the next or a concurrent one. VF-1: a validator has no slot for other validators except its parent link: child validators are made for one value and handed to the tree. SW-2: in everything reachable from the API's load/compile/AddType steps, no object reached through a root's type table (the schema objects of added types, which every root they were added to shares) is written — taint analysis over SSA from MustType/Type/TypesList to stores and receiver-writing method calls; the allOf compiler's in-place expansion of added types is the recorded known finding K2. SW-1: no function reachable from (*Schema).validate or (*exampleBuilder).Build (VTA call graph; callbacks accounted at the call sites of higher-order helpers) stores to a field, slice element or map of a schema / constraint / AST type or to a package variable, except into objects it has just allocated — validation and example building only read the shared compiled schema. PL-1: the pooled example buffer's storage does not escape (the concurrent-Example race). OM-lock: the ordered maps hold their RWMutex around every access.",
		Assume: []string{
			"compile-time sharing of added types between root schemas (in-place allOf expansion of an added type used by two roots) is NOT covered by these rules — a known weakness of the pinned tree that the property names",
			"exactly-once initialisation is inherited from sync.Once; races inside third-party code (reggen) are not examined; absence of deadlock is not decided",
		},
		Technique: "static analysis: write-effect analysis over the VTA-reachable set of the validation/example entry points (go/ssa), pooled-buffer escape rule, lock discipline from abstract interpretation",
		Level:     "Read-only-ness of the validation and example paths with respect to shared schema objects, exhaustive over the reachable functions of the current tree: a necessary condition of race-free concurrent use.",
		Note:      trusted,
		DesignRef: "DESIGN.md §3 SW/PL/OM, §4 C12",
	})
	property(&Property{
		ID:      "C15",
		Rules:   []string{"EX-shape", "PL-1", "EX-shape-deep", "T-rec", "OR-4", "SA-S", "LIM-1"},
		Explain: "LIM-1: no depth limit in the example builder. T-rec / OR-4: the recursion verdict that Example relies on treats only optional as a way out, and every descent along type references in the example builder is counted. SA-S (string clause): inside a string token the schema scanner admits only what RFC 8259 admits, so an example's strings can be re-emitted as JSON. EX-shape: the object and array example builders are interpreted abstractly for containers with 0..3 children, every child either emitted or omitted (recursion cut-off): the recorded sequence of buffer writes must be an opening bracket, the emitted elements in order exactly once with exactly one separator between two emitted elements and none dangling, and a closing bracket; object keys must be written from their source token or through an encoder, never from the decoded key text. PL-1: the returned bytes do not alias the pooled buffer.",
		Assume: []string{
			"that the emitted value validates against its schema, the choice among or-alternatives and the recursion cut-off depth are not decided",
		},
		Technique: "static analysis: finite-domain abstract interpretation of the example builders (children emitted/omitted as atoms) with a well-formedness check of the write sequence",
		Level:     "Exhaustive over child counts 0..3 and all emitted/omitted patterns: well-formedness of the assembled container text, a necessary condition of emitting well-formed JSON.",
		Note:      trusted,
		DesignRef: "DESIGN.md §3 EX-2/KE-1, §4 C15",
	})
	property(&Property{
		ID:      "C03",
		Rules:   []string{"T10", "T-tree", "T-list", "T-object", "T-any", "AL-1", "VIS-allof", "VF-1", "NU-1", "T-tree-deep", "T-apeq", "KS-1", "KS-2", "T-null"},
		Explain: "T-null / T-list: nullable on a type reference adds a validator that admits null only. KS-2: the loop over the key shortcuts is left by a return only with a positive answer, so every shortcut is tried. T-apeq: two additionalProperties rules count as the same (no allOf conflict) only when mode, schema type and type name were all found equal. KS-1: matching a document key against key shortcuts does not depend on which keys are still owed, so a shortcut admits any number of keys. NU-1: anonymous or-item types are named after their own schema object, so the anonymous types of several user types cannot collide when they are hoisted into one root. VF-1: a validator has no slot for other validators except its parent link: child validators are made for one value and handed to the tree. VIS-*: the recursive walks (schema checker, allOf compiler, used-type collector) and the loops over the type table reach every child and every type — the visiting call is on every path through the loop body and the loop on every path to a normal return, the only bypasses being a failed comma-ok test and loop exhaustion. T10: the additionalProperties dispatch — rule text to mode (any/true, false, @type, a schema type name, anything else rejected) and mode to validator (any value / reject the key / kind check for object, array, scalar / the named type's validators), exhaustive over the declared modes. T-tree: union semantics of candidate validators — every live candidate receives each lexeme and a position is rejected only when every candidate failed (1..3 candidates x all outcomes). T-object: an unknown key is offered to the key shortcuts, then to additionalProperties, else rejected. T-any: additionalProperties any swallows one whole value.",
		Assume: []string{
			"which validators a types list expands to (transitive expansion, de-duplication by name), allOf inheritance and the matching of a key against a shortcut's string type are not decided",
		},
		Technique: tableTechnique,
		Level:     tableLevel,
		Note:      trusted,
		DesignRef: "DESIGN.md §3 T10, §4 C03",
	})
	property(&Property{
		ID:      "C04",
		Rules:   []string{"SH-1", "SH-visit", "T-allfail", "T-enum", "T7", "T4", "SC-1", "VIS-check", "T-chkarray", "T-chklist", "T-rawkey", "T14"},
		Explain: "T14: the literal check the checker shares with validation runs every rule of the node exactly once — const does not hide the other rules. T-chklist: an example with declared types is held against the checkers of those types only. T-rawkey: document keys are looked up by their JSON-decoded text. T-chkarray: the checker gives the example array's own length to exactly the item-count rules that are present, a lone minItems or maxItems included. VIS-*: the recursive walks (schema checker, allOf compiler, used-type collector) and the loops over the type table reach every child and every type — the visiting call is on every path through the loop body and the loop on every path to a normal return, the only bypasses being a failed comma-ok test and loop exhaustion. SC-1: the per-node scratch maps from which checkLinksOfNode decides whether the kind of an example is among the kinds its types admit are emptied before every collection (or every insertion is undone), so the verdict for a node never uses what an earlier node admitted. SH-1: the schema-check path (literalChecker/mixedChecker) and the document path (literalValidator) both go through validator.ValidateLiteralValue, LiteralValidator.Validate is invoked nowhere else (so Check and Validate cannot disagree on what a rule means), and the array checker gives the example array's own length to minItems and maxItems. SH-visit: checkNode has a case for every concrete schema.Node type, descends into every child, and CheckRootSchema covers the root and every added type. T-allfail: a literal example is rejected iff every candidate checker rejects it, with the candidate's own positioned error when alone. T7/T4: the kind matrix and the item-count comparators used on that path.",
		Assume: []string{
			"that the shared validation is sufficient for every construct (e.g. array items typed by or) and the exact position reported for each violation are not decided",
		},
		Technique: "static analysis: who-may-call and exhaustiveness rules over go/ssa and go/types, plus decision tables by abstract interpretation",
		Level:     tableLevel,
		Note:      trusted,
		DesignRef: "DESIGN.md §3 SH-1/EX-1, §4 C04",
	})
	property(&Property{
		ID:      "C09",
		Rules:   []string{"UC-1", "OR-2", "VIS-collect", "OR-3", "OR-4", "OR-5", "OR-7", "VIS-rec", "T-rec", "OR-8", "PIPE-2"},
		Explain: "PIPE-2: the once-only compile step calls CompileAllOf, AddUnnamedTypes, CheckRootSchema and CheckRecursion on every path to a normal return (the way out after a failed load aside). OR-8: a node keeps its allOf rule until its parents have been added (extend dominates the removal), which is what makes an allOf cycle through the schema under check visible. T-rec: the recursion checker skips a node only when it carries optional: true or is an array, a literal or a mixed node; type references go to the alternatives check, every property of an object is followed; no other rule is consulted. VIS-rec: the recursion checker follows every property of an object, the visited node being an element of Children() (a walk over the recorded required keys misses key shortcuts). OR-7: the recursion checker descends into a type with the same table of types it found the type in (known finding K8: it hands down the type's own table, so cycles through two or more types go unnoticed). OR-5: a set whose hit is reported as recursion is unwound after the descent, so acyclic diamonds are not mistaken for cycles. OR-4: wherever a function resolves a user type through a type table and descends into it with a call that can come back, a lookup in a visited set or counter dominates the descent (a cycle of type references would otherwise overflow the stack). OR-3: the used-type list is read off the loaded tree inside the once-only loader, before CompileBasic, on every call chain that reaches the walk. VIS-*: the recursive walks (schema checker, allOf compiler, used-type collector) and the loops over the type table reach every child and every type — the visiting call is on every path through the loop body and the loop on every path to a normal return, the only bypasses being a failed comma-ok test and loop exhaustion. UC-1: in the functions reachable from the used-type collector and from the link checker (callback-aware call graph), each carrier of a user-type reference is consulted: the types list (type shortcuts, or), the type rule, allOf, additionalProperties with a user type, key shortcuts and mixed shortcut values; allOf parents are resolved against the type table when inherited properties are copied.",
		Assume: []string{
			"the recursion decision (a least fix-point over arbitrary type graphs), termination of Check/Validate/Example, and exactness/de-duplication of UsedUserTypes are NOT decided by any rule here",
		},
		Technique: "static analysis: must-consult rule over the reachable set (constants passed to Constraint/Get/Has, field reads, type assertions)",
		Level:     "A narrow structural necessary condition (every reference carrier is looked at); the graph-theoretic core of the property is out of reach of a sound structural rule and is not claimed.",
		Note:      trusted,
		DesignRef: "DESIGN.md §3 UC-1, §4 C09",
	})
	property(&Property{
		ID:      "C18",
		Rules:   []string{"SH-2", "T-enum", "SA-E", "AL-2", "SA-E-deep", "RX-1", "SX-eol-enum", "SX-text-enum", "RX-2", "RX-3", "EN-1", "T-enumitem", "SX-eofnote-enum"},
		Explain: "SX-eofnote-enum: an enum rule whose last line is an inline note without a final line break is accepted like the same rule with one. T-enumitem: named and inline enum items keep the text they were written with, so both spellings compare alike. EN-1: the value list of an enum rule only grows by appends onto the whole list; only the note of an entry is filled in afterwards. RX-3: the loop that finds the closing slash of /P/, evaluated for both states and all 256 bytes on the SSA form, is the two-state escape automaton, and the pattern taken is the text between the slashes. RX-2: the one-line schema of a regex type is formatted from the type's own Example() and Pattern() results as they are. SX-text-enum: the text of an item note is opaque. SX-eol-enum: an item note of a named enum rule ends at its line break (an empty // used to swallow the next value). RX-1: the example of a regex type is the generator's sample, unchanged. AL-2: the value list a named enum rule hands out (Values) is not rewritten by the loader that copies it into {enum: @E}. SH-2: inline enum lists and named enum rules insert their items through the same constraint.NewEnumItem / (*Enum).Append (shared normalisation and duplicate rejection), and the enum-rule scanner's duplicate key uses the same normalisation steps. SA-E: the enum-rule scanner accepts exactly RFC 8259 arrays of scalars (exponents aside) with the reference event stream, so Values lists the literals in source order with exact spans.",
		Assume: []string{
			"the regex half (Go %q quoting when a regex type is turned into a schema, the third-party example generator, Len of the /P/ token) and the verdict equivalence itself are not decided",
		},
		Technique: "static analysis: sibling cross-check of call skeletons (go/ssa) + scanner automaton extraction",
		Level:     "Narrow structural necessary conditions for the enum half of the property.",
		Note:      trusted,
		DesignRef: "DESIGN.md §3 SH-2, §4 C18",
	})
	for _, id := range []string{} {
		NotApplicable[id] = "engine for this property's structural clauses not finished yet (see DESIGN.md §4); not claimed until its rules run"
	}
}
