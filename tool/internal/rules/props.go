package rules

// Property → rules. Only properties whose rules are implemented are listed; everything else is in
// NotApplicable (MANIFEST.json is generated from this file by `jsv manifest`).

const trusted = "Trusted base: go/types, go/ssa and the CHA/VTA call graphs of golang.org/x/tools v0.29.0; the spec tables in tool/internal/spec and the reviewed tables in tool/internal/rules, transcribed from the property text and from a reading of the pinned tree; sync.Once / sync.Pool / Go memory-model semantics. Static only: nothing of the library is executed."

func init() {
	property(&Property{
		ID:      "C07",
		Rules:   []string{"ET-1", "ET-2", "ET-3"},
		Explain: "Decides the structural clauses of C07 on the current tree: (ET) every errors.Format call site passes exactly as many arguments as its template has verbs, every ErrorCode used bare as an error value has a zero-verb template, every declared code has a template (this is the last sentence of the property, decided completely over all construction sites).",
		Assume: []string{
			"termination of the API calls is not decided",
			"implicit run-time panics other than the modelled index reads (nil dereference, unchecked type assertions) are not decided",
		},
		Technique: "static analysis: AST+types rule over all error-construction sites (constant-resolved template arity)",
		Level:     "Complete decision, over every call site of the current tree, of named structural necessary conditions of the property (error template/arity agreement). It does not decide the behavioural statement as a whole.",
		Note:      trusted,
		DesignRef: "DESIGN.md §3 ET, §4 C07",
	})
	for _, id := range []string{"C01", "C02", "C03", "C04", "C05", "C06", "C08", "C09", "C10", "C11", "C12", "C13", "C15", "C16", "C17", "C18", "C19"} {
		NotApplicable[id] = "engine for this property's structural clauses not finished yet (see DESIGN.md §4); not claimed until its rules run"
	}
	NotApplicable["C14"] = "an arithmetic relation between a returned length and acceptance of a prefix over all inputs; no clause has a structural form that is a genuine necessary condition and survives behaviour-preserving edits (DESIGN.md §4 C14)"
}
