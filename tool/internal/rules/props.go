package rules

// Property → rules. Only properties whose rules are implemented are listed; everything else is in
// NotApplicable (MANIFEST.json is generated from this file by `jsv manifest`).

const trusted = "Trusted base: go/types, go/ssa and the CHA/VTA call graphs of golang.org/x/tools v0.29.0; the spec tables in tool/internal/spec and the reviewed tables in tool/internal/rules, transcribed from the property text and from a reading of the pinned tree; sync.Once / sync.Pool / Go memory-model semantics. Static only: nothing of the library is executed."

func init() {
	property(&Property{
		ID:      "C07",
		Rules:   []string{"ET-1", "ET-2", "ET-3"},
		Explain: "Decides the structural clauses of C07 on the current tree: (ET) every errors.Format call site passes exactly as many arguments as its template has verbs, every ErrorCode used bare as an error value has a zero-verb template, every declared code has a template (this is the last sentence of the property, decided completely over all construction sites).",
		Assume: []string{
			"termination of the API calls is not decided",
			"implicit run-time panics other than the modelled index reads (nil dereference, unchecked type assertions) are not decided",
		},
		Technique: "static analysis: AST+types rule over all error-construction sites (constant-resolved template arity)",
		Level:     "Complete decision, over every call site of the current tree, of named structural necessary conditions of the property (error template/arity agreement). It does not decide the behavioural statement as a whole.",
		Note:      trusted,
		DesignRef: "DESIGN.md §3 ET, §4 C07",
	})
	property(&Property{
		ID:    "C05",
		Rules: []string{"SA-J", "SA-JT", "SA-J3", "SA-JT3"},
		Explain: "The transition relation of the formats/json scanner is extracted from its own Next() method by abstract interpretation of the SSA (scanner object tracked exactly, one input byte at a time, positions symbolic) and compared, by breadth-first product construction, with a reference RFC 8259 byte transducer: in every reachable state pair up to the nesting bound (2 quick, 4 thorough), for each of the 256 byte values and for end of input, the scanner rejects iff the reference rejects, accepts end of input iff the reference does (including the empty-document rule of Document.check), in strict mode and with AllowTrailingNonSpaceCharacters. Literal tokens (strings, numbers, true/false/null) are unbounded in length: their automaton states are merged, so the token language is decided for all lengths.",
		Assume: []string{
			"nesting deeper than the bound is not explored (the scanner inspects only the top two stack entries)",
			"the glue in Document.check/nextLexeme (recover, EndTop => EOF, zero lexemes => ErrEmptyJson) is modelled in the driver as read on the pinned tree; a change there is outside this rule",
			"bytes >= 0x80 inside strings are accepted without UTF-8 validation by both sides (the property names only control bytes)",
		},
		Technique: "static analysis: finite-domain abstract interpretation of go/ssa (scanner automaton extraction) + product construction with an RFC 8259 reference automaton",
		Level:     "Language equivalence between the automaton extracted from the scanner's source and a reference RFC 8259 transducer, exhaustive over all 256 byte values and end of input in every reachable abstract state up to the nesting bound. A structural necessary condition decided completely within the bound; not a run of the library.",
		Note:      trusted,
		DesignRef: "DESIGN.md §3 SA, §4 C05",
	})
	property(&Property{
		ID:    "C06",
		Rules: []string{"SA-J", "SA-S", "SA-E", "SA-J3"},
		Explain: "Same product as C05, comparing in addition the lexical events: on every byte and at end of input the formats/json scanner model must emit exactly the events of the reference transducer (types, order, and spans written relative to the consumed byte and to the begin offsets of the open events): literal/key spans = the source token, container spans from opening to closing bracket, wrappers closed on the first byte after the value. SA-S / SA-E run the same product against the schema scanner and the enum-rule scanner restricted to plain JSON input: every byte the reference accepts must be accepted with the same events (new-line events dropped; exponents, and for enum rules non-array roots and nested containers, are documented deviations; duplicate detection of the enum scanner abstracted).",
		Assume: []string{
			"rebuilding the JSON value from the events is not decided (content is symbolic)",
			"nesting beyond the bound not explored",
			"field names index/dataSize/data/stack of the scanner structs are anchors of the model",
		},
		Technique: "static analysis: scanner automaton extraction by abstract interpretation of go/ssa + product with a reference event transducer; sibling cross-check of the three cloned scanners",
		Level:     "Equality of emitted event sequences and symbolic spans between the extracted scanner models and a reference transducer, exhaustive over bytes/states up to the nesting bound; the three scanner clones are cross-checked through the same reference.",
		Note:      trusted,
		DesignRef: "DESIGN.md §3 SA, §4 C06",
	})
	for _, id := range []string{"C01", "C02", "C03", "C04", "C08", "C09", "C10", "C11", "C12", "C13", "C15", "C16", "C17", "C18", "C19"} {
		NotApplicable[id] = "engine for this property's structural clauses not finished yet (see DESIGN.md §4); not claimed until its rules run"
	}
	NotApplicable["C14"] = "an arithmetic relation between a returned length and acceptance of a prefix over all inputs; no clause has a structural form that is a genuine necessary condition and survives behaviour-preserving edits (DESIGN.md §4 C14)"
}
