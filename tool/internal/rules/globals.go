package rules

import (
	"fmt"
	"go/types"
	"sort"
	"strings"

	"golang.org/x/tools/go/ssa"

	"verif/internal/load"
	"verif/internal/report"
)

// GV-1, SW-4, NU-1: state that outlives a call and is shared between schemas.

func init() {
	register(&Rule{ID: "GV-1", Min: 5, Run: runGV1,
		Doc: "package-level variables are written by initialisers only: no function of the library other than a package initialiser stores to a package-level variable, updates a package-level map or stores through a pointer held in one (pools and once objects are used through their methods) — a counter or cache in a package variable makes results depend on what other schemas did before and races when schemas are loaded concurrently"})
	register(&Rule{ID: "SW-4", Min: 5, Run: runSW4,
		Doc: "once-only latches are never reset: no field whose type is one of the once-wrappers of internal/sync (or sync.Once) is assigned after construction — re-arming a latch after a failure makes the outcome of Check depend on how often it was called, and lets two goroutines run the guarded step concurrently"})
	register(&Rule{ID: "NU-1", Min: 1, Run: runNU1,
		Doc: "anonymous types are named after the identity of their own schema object: the name AddUnnamedType registers is computed from its type argument (today its address), not from the state of the receiving schema or of the package — such names are unique only inside one schema and collide when the anonymous types of several user types are hoisted into one root"})
}

func runGV1(c *load.Ctx, r *report.RuleResult) {
	perPkg := map[string]int{}
	eff := newFSEffects(c)
	for _, fn := range c.ModuleFunctions() {
		rel := load.FuncPkgRel(fn)
		if load.IsAux(rel) {
			continue
		}
		if fn.Name() == "init" || strings.HasPrefix(fn.Name(), "init#") || fn.Synthetic == "package initializer" {
			continue
		}
		var bad []string
		for _, b := range fn.Blocks {
			for _, ins := range b.Instrs {
				switch x := ins.(type) {
				case *ssa.Store:
					base, _ := addrRoot(x.Addr)
					if g, ok := base.(*ssa.Global); ok && load.InModule(g.Pkg.Pkg) {
						bad = append(bad, fmt.Sprintf("stores to package variable %s.%s at %s", g.Pkg.Pkg.Name(), g.Name(), c.Pos(x.Pos())))
					}
				case *ssa.MapUpdate:
					base, _ := addrRoot(x.Map)
					if g, ok := base.(*ssa.Global); ok && load.InModule(g.Pkg.Pkg) {
						bad = append(bad, fmt.Sprintf("updates package-level map %s.%s at %s", g.Pkg.Pkg.Name(), g.Name(), c.Pos(x.Pos())))
					}
				case ssa.CallInstruction:
					// a method that changes its receiver, called on an object a package variable holds
					// (a scanner kept and "rewound" for every call, a shared builder): pools and
					// once-wrappers are synchronised and exempt
					cc := x.Common()
					sc := cc.StaticCallee()
					if sc == nil || sc.Signature.Recv() == nil || len(cc.Args) == 0 || !load.FuncInModule(sc) {
						continue
					}
					base, _ := addrRoot(cc.Args[0])
					g, ok := base.(*ssa.Global)
					if !ok || !load.InModule(g.Pkg.Pkg) {
						continue
					}
					if rel := load.FuncPkgRel(sc); rel == "internal/sync" {
						continue
					}
					if eff.writes(sc, 0) {
						bad = append(bad, fmt.Sprintf("calls %s on the object held by package variable %s.%s at %s, and %s", sc.Name(), g.Pkg.Pkg.Name(), g.Name(), c.Pos(x.Pos()), eff.why[fsKey{sc, 0}]))
					}
				}
			}
		}
		if len(bad) > 0 {
			r.Bad("globalwrite|"+load.FuncKey(fn), c.Pos(fn.Pos()), strings.Join(uniq(bad), "; "))
		}
		perPkg[rel]++
	}
	var pk []string
	for p := range perPkg {
		pk = append(pk, p)
	}
	sort.Strings(pk)
	for _, p := range pk {
		bad := false
		for _, ob := range r.Obligations {
			if ob.Status != report.Discharged && strings.Contains(ob.Key, "|"+keyPkgName(p)+".") {
				bad = true
			}
		}
		if !bad {
			r.OK("globals|"+p, "", fmt.Sprintf("%d functions, none writes a package-level variable", perPkg[p]))
		}
	}
}

func keyPkgName(rel string) string {
	if rel == "." {
		return "<root>"
	}
	return rel
}

func isOnceType(t types.Type) bool {
	if p, ok := t.(*types.Pointer); ok {
		t = p.Elem()
	}
	n, ok := t.(*types.Named)
	if !ok || n.Obj().Pkg() == nil {
		return false
	}
	path := n.Obj().Pkg().Path()
	name := n.Obj().Name()
	if path == "sync" && name == "Once" {
		return true
	}
	return strings.HasSuffix(path, "/internal/sync") && strings.Contains(name, "Once")
}

func runSW4(c *load.Ctx, r *report.RuleResult) {
	// inventory of latch fields
	latches := 0
	for _, p := range c.Pkgs {
		sc := p.Types.Scope()
		for _, n := range sc.Names() {
			tn, ok := sc.Lookup(n).(*types.TypeName)
			if !ok {
				continue
			}
			st, ok := tn.Type().Underlying().(*types.Struct)
			if !ok {
				continue
			}
			for i := 0; i < st.NumFields(); i++ {
				if isOnceType(st.Field(i).Type()) {
					latches++
					key := fmt.Sprintf("latch|%s.%s.%s", load.Rel(p.PkgPath), n, st.Field(i).Name())
					// stores to this field anywhere
					var bad []string
					for _, fn := range c.ModuleFunctions() {
						if load.IsAux(load.FuncPkgRel(fn)) {
							continue
						}
						for _, b := range fn.Blocks {
							for _, ins := range b.Instrs {
								s, ok := ins.(*ssa.Store)
								if !ok {
									continue
								}
								fa, ok := s.Addr.(*ssa.FieldAddr)
								if !ok || fa.Field != i {
									continue
								}
								pt, ok := fa.X.Type().Underlying().(*types.Pointer)
								if !ok || !types.Identical(pt.Elem(), tn.Type()) {
									continue
								}
								// initialising a freshly allocated object is construction
								if _, fresh := fa.X.(*ssa.Alloc); fresh {
									continue
								}
								bad = append(bad, fmt.Sprintf("assigned in %s at %s", load.FuncKey(fn), c.Pos(s.Pos())))
							}
						}
					}
					if len(bad) > 0 {
						r.Bad(key, c.Pos(st.Field(i).Pos()), "the latch is re-armed: "+strings.Join(bad, "; "))
					} else {
						r.OK(key, c.Pos(st.Field(i).Pos()), "never assigned after construction")
					}
				}
			}
		}
	}
	if latches == 0 {
		r.Unk("anchor|once fields", "", "no field of a once-wrapper type found")
	}
}

func runNU1(c *load.Ctx, r *report.RuleResult) {
	fn := c.Func(pkgSchema, "Schema.AddUnnamedType")
	addType := c.Func(pkgSchema, "Schema.addType")
	if fn == nil || addType == nil {
		r.Unk("anchor|schema.Schema.AddUnnamedType", "", "AddUnnamedType / addType not found")
		return
	}
	var typParam *ssa.Parameter
	for _, p := range fn.Params[1:] {
		if o, ok := isSchemaOwnedType(p.Type()); ok && o == pkgSchema+".Schema" {
			typParam = p
		}
	}
	if typParam == nil {
		r.Unk("anchor|AddUnnamedType type parameter", c.Pos(fn.Pos()), "no *Schema parameter")
		return
	}
	sites := callSites(fn, addType)
	if len(sites) == 0 {
		r.Unk("anchor|AddUnnamedType registers", c.Pos(fn.Pos()), "AddUnnamedType does not call addType")
		return
	}
	for i, s := range sites {
		key := fmt.Sprintf("unnamed|name#%d", i+1)
		name := s.Call.Args[1]
		if flowsFrom(name, typParam, map[ssa.Value]bool{}, 0) {
			r.OK(key, c.Pos(s.Pos()), "the registered name is computed from the type object itself")
		} else {
			r.Bad(key, c.Pos(s.Pos()), "the name given to an anonymous type does not depend on the type object (it is computed from "+describeValue(name)+"): names made from a per-schema or package-wide count collide or depend on history when the anonymous types of several user types meet in one root")
		}
	}
}

// flowsFrom: v is computed from target (through calls, conversions, boxing, variadic argument
// arrays, concatenation).
func flowsFrom(v, target ssa.Value, seen map[ssa.Value]bool, depth int) bool {
	if v == target {
		return true
	}
	if v == nil || seen[v] || depth > 12 {
		return false
	}
	seen[v] = true
	switch x := v.(type) {
	case *ssa.Call:
		for _, a := range x.Call.Args {
			if flowsFrom(a, target, seen, depth+1) {
				return true
			}
		}
		if x.Call.IsInvoke() {
			return flowsFrom(x.Call.Value, target, seen, depth+1)
		}
	case *ssa.MakeInterface:
		return flowsFrom(x.X, target, seen, depth+1)
	case *ssa.Convert:
		return flowsFrom(x.X, target, seen, depth+1)
	case *ssa.ChangeType:
		return flowsFrom(x.X, target, seen, depth+1)
	case *ssa.BinOp:
		return flowsFrom(x.X, target, seen, depth+1) || flowsFrom(x.Y, target, seen, depth+1)
	case *ssa.Phi:
		for _, e := range x.Edges {
			if flowsFrom(e, target, seen, depth+1) {
				return true
			}
		}
	case *ssa.Slice:
		return flowsFrom(x.X, target, seen, depth+1)
	case *ssa.Alloc:
		// a variadic argument array / local cell: what is stored into it
		for _, ref := range *x.Referrers() {
			switch s := ref.(type) {
			case *ssa.Store:
				if flowsFrom(s.Val, target, seen, depth+1) {
					return true
				}
			case *ssa.IndexAddr:
				for _, r2 := range *s.Referrers() {
					if st, ok := r2.(*ssa.Store); ok && flowsFrom(st.Val, target, seen, depth+1) {
						return true
					}
				}
			}
		}
	case *ssa.UnOp:
		return flowsFrom(x.X, target, seen, depth+1)
	case *ssa.Extract:
		return flowsFrom(x.Tuple, target, seen, depth+1)
	}
	return false
}
