package rules

import (
	"fmt"
	"go/constant"
	"go/types"
	"sort"
	"strings"
	"sync"

	"verif/internal/load"
	"verif/internal/pe"
	"verif/internal/report"
	"verif/internal/spec"
)

// Full-language exploration of a scanner model: every reachable abstract state (bounded stack
// depth) × every byte, following look-ahead dependencies. The explored graph is shared by the
// rules SX-crash (C07), SX-pos (C17) and SX-nl / SX-sp (C13).

type xNode struct {
	st      *implState
	pending []int // bytes already fixed by earlier look-ahead (relative to the current index)
	path    string
}

type xEdge struct {
	from   *xNode
	input  int
	res    *stepResult
	crashN string // crash when the input ends within the look-ahead window
	crashW string // function in which that crash is raised
	to     string // key of the successor node (Kind "ok" only)
}

type xGraph struct {
	m        *scanModel
	nodes    []*xNode
	edges    []xEdge
	eof      map[*xNode]*stepResult
	frontier int
	capped   bool
	err      error
}

type xSpec struct {
	rel, ctor, typ string
	maxStack       int
	maxNodes       int
	opts           func(m *scanModel, in *pe.Interp, s *pe.Ptr)
	prepare        func(c *load.Ctx, m *scanModel) error
}

type xEntry struct {
	once sync.Once
	g    *xGraph
}

var (
	xCache   = map[string]*xEntry{}
	xCacheMu sync.Mutex
)

func pendingKey(p []int) string {
	if len(p) == 0 {
		return ""
	}
	return fmt.Sprint(p)
}

func trimPending(p []int) []int {
	for len(p) > 0 && p[len(p)-1] < 0 {
		p = p[:len(p)-1]
	}
	return p
}

func exploreScanner(c *load.Ctx, name string, sp xSpec) *xGraph {
	xCacheMu.Lock()
	ck := fmt.Sprintf("%p|%s", c, name)
	e, ok := xCache[ck]
	if !ok {
		e = &xEntry{}
		xCache[ck] = e
	}
	xCacheMu.Unlock()
	e.once.Do(func() { e.g = exploreScannerUncached(c, name, sp) })
	return e.g
}

func exploreScannerUncached(c *load.Ctx, name string, sp xSpec) *xGraph {
	g := &xGraph{eof: map[*xNode]*stepResult{}}
	m, err := newScanModel(c, sp.rel, sp.ctor, sp.typ, sp.opts)
	if err != nil {
		g.err = err
		return g
	}
	if sp.prepare != nil {
		if err := sp.prepare(c, m); err != nil {
			g.err = err
			return g
		}
	}
	g.m = m
	start := &xNode{st: m.Initial()}
	seen := map[string]bool{start.st.key + "\x00": true}
	queue := []*xNode{start}
	for len(queue) > 0 {
		n := queue[0]
		queue = queue[1:]
		g.nodes = append(g.nodes, n)
		if len(g.nodes) >= sp.maxNodes {
			g.capped = true
			break
		}
		if len(n.pending) == 0 {
			g.eof[n] = m.Feed(n.st, -2)
		}
		if len(m.stackTypes(n.st)) > sp.maxStack {
			g.frontier++
			continue
		}
		lo, hi := 0, 255
		if len(n.pending) > 0 && n.pending[0] >= 0 {
			lo, hi = n.pending[0], n.pending[0]
		}
		for b := lo; b <= hi; b++ {
			known := []int{b}
			if len(n.pending) > 1 {
				known = append(known, n.pending[1:]...)
			}
			for _, r := range m.FeedLA(n.st, known) {
				e := xEdge{from: n, input: b, res: r}
				if len(r.LA) > 0 {
					maxOff := 0
					for off := range r.LA {
						if off > maxOff {
							maxOff = off
						}
					}
					full := append([]int{}, known...)
					for len(full) <= maxOff {
						full = append(full, -1)
					}
					for off, v := range r.LA {
						full[off] = v
					}
					for rem := 1; rem <= maxOff; rem++ {
						if cr, w := m.FeedShort(n.st, full, rem); cr != "" {
							e.crashN = fmt.Sprintf("with %d byte(s) of input left: %s", rem, cr)
							e.crashW = w
							break
						}
					}
				}
				if r.Kind != "ok" {
					g.edges = append(g.edges, e)
					continue
				}
				// bytes after the fed one that are now fixed
				after := append([]int{}, known[1:]...)
				for off, v := range r.LA {
					for len(after) < off {
						after = append(after, -1)
					}
					after[off-1] = v
				}
				var pend []int
				switch {
				case r.Consumed <= 0:
					pend = append([]int{b}, after...)
				default:
					skip := r.Consumed - 1
					if skip < len(after) {
						pend = after[skip:]
					}
				}
				pend = trimPending(pend)
				k := r.Next.key + "\x00" + pendingKey(pend)
				e.to = k
				g.edges = append(g.edges, e)
				if !seen[k] {
					seen[k] = true
					queue = append(queue, &xNode{st: r.Next, pending: pend, path: n.path + string([]byte{byte(b)})})
				}
			}
		}
	}
	return g
}

var scannerSpecs = map[string]xSpec{
	"json":        {rel: "formats/json", ctor: "newScanner", typ: "scanner", maxStack: 6, maxNodes: 4000},
	"schema":      {rel: "notations/jschema/internal/scanner", ctor: "New", typ: "Scanner", maxStack: 5, maxNodes: 5000},
	"schema-deep": {rel: "notations/jschema/internal/scanner", ctor: "New", typ: "Scanner", maxStack: 5, maxNodes: 40000},
	"schema-long": {rel: "notations/jschema/internal/scanner", ctor: "New", typ: "Scanner", maxStack: 3, maxNodes: 40000},
	"enum":        {rel: "rules/enum", ctor: "newScanner", typ: "scanner", maxStack: 6, maxNodes: 4000, prepare: prepareEnumModel},
}

func init() {
	for _, name := range []string{"json", "schema", "enum", "schema-deep"} {
		name := name
		register(&Rule{ID: "SX-crash-" + name, Min: 20, Thorough: name == "schema-deep", Run: func(c *load.Ctx, r *report.RuleResult) { runSXCrash(c, r, name) },
			Doc: "scanner " + name + ": in no reachable abstract state does any byte value, any look-ahead context or end of input make Next() fail with anything but a positioned library error (no index out of range from look-ahead reads, no assertion panic, no unstructured error)"})
	}
}

func stateLabel(m *scanModel, n *xNode) string {
	return implStepName(m, n.st) + "|top=" + topOf(m.stackTypes(n.st))
}

func runSXCrash(c *load.Ctx, r *report.RuleResult, name string) {
	g := exploreScanner(c, name, scannerSpecs[name])
	if g.err != nil {
		r.Unk("anchor|scanner "+name, "", g.err.Error())
		return
	}
	m := g.m
	pos := c.Pos(m.next.Pos())
	reported := map[string]bool{}
	perState := map[string]int{}
	for _, e := range g.edges {
		lbl := stateLabel(m, e.from)
		perState[lbl]++
		in := fmt.Sprintf("%q", string([]byte{byte(e.input)}))
		switch {
		case e.res.Kind == "crash":
			key := "crash|" + e.res.Where + "|" + crashClass(e.res.Detail)
			if !reported[key] {
				reported[key] = true
				r.Bad(key, pos, fmt.Sprintf("%s; input %s then %s", e.res.Detail, showInput(e.from.path), in))
			}
		case e.crashN != "":
			key := "crash-at-end|" + e.crashW + "|" + crashClass(e.crashN)
			if !reported[key] {
				reported[key] = true
				r.Bad(key, pos, fmt.Sprintf("look-ahead beyond the end of the input: %s; input %s then %s as the last bytes", e.crashN, showInput(e.from.path), in))
			}
		case e.res.Kind == "undecided":
			key := "undecided|" + lbl
			if !reported[key] {
				reported[key] = true
				r.Unk(key, pos, fmt.Sprintf("%s; input %s then %s", e.res.Detail, showInput(e.from.path), in))
			}
		}
	}
	for n, res := range g.eof {
		lbl := stateLabel(m, n)
		switch res.Kind {
		case "crash":
			key := "crash-eof|" + res.Where + "|" + crashClass(res.Detail)
			if !reported[key] {
				reported[key] = true
				r.Bad(key, pos, fmt.Sprintf("%s at end of input after %s", res.Detail, showInput(n.path)))
			}
		case "undecided":
			key := "undecided-eof|" + lbl
			if !reported[key] {
				reported[key] = true
				r.Unk(key, pos, fmt.Sprintf("%s at end of input after %s", res.Detail, showInput(n.path)))
			}
		}
	}
	labels := make([]string, 0, len(perState))
	for l := range perState {
		labels = append(labels, l)
	}
	sort.Strings(labels)
	for _, l := range labels {
		{
			r.OK("state|"+l, "", fmt.Sprintf("%d transitions explored, none crashes", perState[l]))
		}
	}
	r.Note("scanner %s: %d abstract states, %d transitions, %d states at the stack bound (not expanded)%s, %d interpreter runs",
		name, len(g.nodes), len(g.edges), g.frontier, map[bool]string{true: ", node cap reached", false: ""}[g.capped], m.runs)
	r.Stat("states", len(g.nodes))
	r.Stat("transitions", len(g.edges))
}

func crashClass(detail string) string {
	switch {
	case strings.Contains(detail, "index out of range"):
		return "index out of range"
	case strings.Contains(detail, "slice bounds"):
		return "slice bounds out of range"
	case strings.Contains(detail, "nil pointer"):
		return "nil dereference"
	}
	if i := strings.Index(detail, ": "); i > 0 && i < 40 {
		detail = detail[i+2:]
	}
	if i := strings.Index(detail, " in "); i > 0 {
		detail = detail[:i]
	}
	if len(detail) > 60 {
		detail = detail[:60]
	}
	return detail
}

// --- symmetry and position rules over the explored graph ----------------------------------------

func init() {
	for _, name := range []string{"schema", "enum"} {
		name := name
		register(&Rule{ID: "SX-nl-" + name, Min: 20, Run: func(c *load.Ctx, r *report.RuleResult) { runSXSym(c, r, name, '\n', '\r', nil) },
			Doc: "scanner " + name + ": in every reachable abstract state LF and CR have the same effect (same verdict, same events and spans, same successor state): LF / CR / CRLF files scan alike"})
		register(&Rule{ID: "SX-sp-" + name, Min: 20, Run: func(c *load.Ctx, r *report.RuleResult) { runSXSym(c, r, name, ' ', '\t', contentStates) },
			Doc: "scanner " + name + ": in every reachable abstract state outside content (string bodies, annotation/comment text) space and tab have the same effect: indentation style does not change the scan"})
	}
	// thorough tier: the same rules over the deep exploration of the schema scanner
	register(&Rule{ID: "SX-nl-schema-deep", Min: 20, Thorough: true, Run: func(c *load.Ctx, r *report.RuleResult) { runSXSym(c, r, "schema-deep", '\n', '\r', nil) },
		Doc: "SX-nl-schema over the deep exploration (40,000 abstract states)"})
	register(&Rule{ID: "SX-sp-schema-deep", Min: 20, Thorough: true, Run: func(c *load.Ctx, r *report.RuleResult) { runSXSym(c, r, "schema-deep", ' ', '\t', contentStates) },
		Doc: "SX-sp-schema over the deep exploration (40,000 abstract states)"})
	register(&Rule{ID: "SX-pos-schema-deep", Min: 10, Thorough: true, Run: func(c *load.Ctx, r *report.RuleResult) { runSXPos(c, r, "schema-deep") },
		Doc: "SX-pos-schema over the deep exploration (40,000 abstract states)"})
	register(&Rule{ID: "SX-comment-schema-deep", Min: 3, Thorough: true, Run: func(c *load.Ctx, r *report.RuleResult) { runSXComment(c, r, "schema-deep") },
		Doc: "SX-comment-schema over the deep exploration (40,000 abstract states)"})
	for _, name := range []string{"json", "schema", "enum"} {
		name := name
		register(&Rule{ID: "SX-pos-" + name, Min: 10, Run: func(c *load.Ctx, r *report.RuleResult) { runSXPos(c, r, name) },
			Doc: "scanner " + name + ": every rejecting error carries a position, and it is the offset of the byte just consumed (or of the last byte when the input ends early)"})
	}
}

// contentStates: step functions in which a blank is content, not layout (one line of reason each).
var contentStates = map[string]string{
	"stateInString":                   "inside a string literal: bytes are content",
	"stateInStringEsc":                "inside a string literal (after backslash): both rejected anyway, content state",
	"stateInStringEscU":               "inside \\u escape: content state",
	"stateInStringEscU1":              "inside \\u escape: content state",
	"stateInStringEscU12":             "inside \\u escape: content state",
	"stateInStringEscU123":            "inside \\u escape: content state",
	"stateInlineAnnotationText":       "annotation note text: content",
	"stateMultiLineAnnotationText":    "annotation note text: content",
	"stateInlineComment":              "user comment text: content",
	"stateMultiLineComment":           "user comment text: content",
	"stateInAnnotationObjectKey":      "inside a bare rule name: bytes are content of the name",
	"stateInAnnotationObjectKeyAfter": "between a bare rule name and its colon only spaces are admitted by the grammar; a tab there is not indentation (leading blanks of a line), so C13 does not speak about it",
}

func baseStepName(s string) string {
	s = strings.TrimSuffix(s, "$bound")
	if i := strings.LastIndex(s, "."); i >= 0 {
		s = s[i+1:]
	}
	return s
}

func edgeSig(e xEdge) string {
	var la []string
	for off, v := range e.res.LA {
		la = append(la, fmt.Sprintf("%d=%d", off, v))
	}
	sort.Strings(la)
	return strings.Join(la, ",") + "\x00" + e.res.signature() + "\x00" + e.crashN
}

func runSXSym(c *load.Ctx, r *report.RuleResult, name string, a, b byte, exempt map[string]string) {
	g := exploreScanner(c, name, scannerSpecs[name])
	if g.err != nil {
		r.Unk("anchor|scanner "+name, "", g.err.Error())
		return
	}
	m := g.m
	pos := c.Pos(m.next.Pos())
	type pair struct{ a, b []string }
	by := map[*xNode]*pair{}
	for _, e := range g.edges {
		if len(e.from.pending) != 0 {
			continue
		}
		if e.input != int(a) && e.input != int(b) {
			continue
		}
		p := by[e.from]
		if p == nil {
			p = &pair{}
			by[e.from] = p
		}
		if e.input == int(a) {
			p.a = append(p.a, edgeSig(e))
		} else {
			p.b = append(p.b, edgeSig(e))
		}
	}
	perStep := map[string]int{}
	badStep := map[string]bool{}
	usedExempt := map[string]bool{}
	for _, n := range g.nodes {
		p := by[n]
		if p == nil {
			continue
		}
		step := baseStepName(implStepName(m, n.st))
		if why, ok := exempt[step]; ok {
			if !usedExempt[step] {
				usedExempt[step] = true
				r.OK("exempt|"+step, "", "not compared: "+why)
			}
			continue
		}
		perStep[step]++
		sort.Strings(p.a)
		sort.Strings(p.b)
		if strings.Join(p.a, "\x01") != strings.Join(p.b, "\x01") && !badStep[step] {
			badStep[step] = true
			r.Bad(fmt.Sprintf("asym|%s|%q~%q", step, string(a), string(b)), pos,
				fmt.Sprintf("after input %s the bytes %q and %q are treated differently: %s versus %s", showInput(n.path), string(a), string(b), describeSig(p.a), describeSig(p.b)))
		}
	}
	for _, s := range sortedKeys(perStep) {
		if !badStep[s] {
			r.OK(fmt.Sprintf("sym|%s|%q~%q", s, string(a), string(b)), "", fmt.Sprintf("%d abstract state(s) compared", perStep[s]))
		}
	}
	r.Note("scanner %s: %d abstract states explored%s", name, len(g.nodes), map[bool]string{true: " (node cap reached)", false: ""}[g.capped])
}

func describeSig(sigs []string) string {
	var out []string
	for _, s := range sigs {
		parts := strings.Split(s, "\x00")
		// la, kind, events, nextkey, code, consumed, errpos, crashN
		if len(parts) >= 7 {
			d := parts[1]
			if parts[2] != "" {
				d += " events " + parts[2]
			}
			if parts[4] != "" {
				d += " code " + parts[4]
			}
			if parts[0] != "" {
				d += " (look-ahead " + parts[0] + ")"
			}
			out = append(out, "{"+d+"}")
		}
		if len(out) >= 3 {
			out = append(out, "…")
			break
		}
	}
	return strings.Join(out, " ")
}

func runSXPos(c *load.Ctx, r *report.RuleResult, name string) {
	g := exploreScanner(c, name, scannerSpecs[name])
	if g.err != nil {
		r.Unk("anchor|scanner "+name, "", g.err.Error())
		return
	}
	m := g.m
	pos := c.Pos(m.next.Pos())
	type stat struct {
		n    int
		path string
	}
	byKey := map[string]*stat{}
	note := func(step, code, p, path string) {
		k := step + "|" + code + "|pos=" + p
		if byKey[k] == nil {
			byKey[k] = &stat{path: path}
		}
		byKey[k].n++
	}
	for _, e := range g.edges {
		if e.res.Kind == "reject" {
			note(baseStepName(implStepName(m, e.from.st)), e.res.Code, e.res.ErrPos, e.from.path+string([]byte{byte(e.input)}))
		}
	}
	for n, res := range g.eof {
		if res.Kind == "reject" {
			note(baseStepName(implStepName(m, n.st))+"@EOF", res.Code, res.ErrPos, n.path)
		}
	}
	for _, k := range sortedKeys(byKey) {
		st := byKey[k]
		if strings.HasSuffix(k, "|pos=L") {
			r.OK("errpos|"+k, "", fmt.Sprintf("%d rejecting transitions carry the offset of the offending byte", st.n))
		} else {
			r.Bad("errpos|"+k, pos, fmt.Sprintf("%d rejecting transitions carry position %q instead of the offending byte; e.g. input %s", st.n, k[strings.LastIndex(k, "pos=")+4:], showInput(st.path)))
		}
	}
}

// --- comments are invisible -----------------------------------------------------------------------

func init() {
	register(&Rule{ID: "SX-comment-schema", Min: 3, Run: func(c *load.Ctx, r *report.RuleResult) { runSXComment(c, r, "schema") },
		Doc: "user comments are invisible to the consumers of the schema scanner: in every reachable abstract state whose step function is one of the comment states, a byte either delivers no lexical event or leaves the comment (the event belongs to what follows the comment, such as the line break that ends a # comment) — a comment that delivered events from its inside would change how the loader counts lines and nodes, so that adding or re-wrapping a comment changed the meaning of the schema"})
}

func runSXComment(c *load.Ctx, r *report.RuleResult, name string) {
	sp := scannerSpecs[name]
	g := exploreScanner(c, name, sp)
	if g.err != nil {
		r.Unk("anchor|"+sp.rel, "", g.err.Error())
		return
	}
	isComment := func(step string) bool { return strings.Contains(step, "Comment") }
	edges := map[string]int{}
	reported := map[string]bool{}
	for _, e := range g.edges {
		from := implStepName(g.m, e.from.st)
		if !isComment(from) {
			continue
		}
		edges[from]++
		if e.res.Kind != "ok" || len(e.res.Events) == 0 || e.res.Next == nil {
			continue
		}
		to := implStepName(g.m, e.res.Next)
		if !isComment(to) {
			continue
		}
		var types []string
		for _, ev := range e.res.Events {
			types = append(types, ev.Type)
		}
		key := fmt.Sprintf("comment-event|impl=%s|events=%s", from, strings.Join(types, ","))
		if reported[key] {
			continue
		}
		reported[key] = true
		r.Bad(key, c.Pos(g.m.next.Pos()), fmt.Sprintf("inside a comment the byte %q delivers %s and the scanner stays inside the comment (%s); text reaching the state: %q", string([]byte{byte(e.input)}), evsString(e.res.Events), to, e.from.path))
	}
	for _, st := range sortedKeys(edges) {
		bad := false
		for k := range reported {
			if strings.Contains(k, "impl="+st+"|") {
				bad = true
			}
		}
		if !bad {
			r.OK("comment-silent|impl="+st, "", fmt.Sprintf("%d transitions: no event is delivered from inside the comment", edges[st]))
		}
	}
	if len(edges) == 0 {
		r.Unk("anchor|comment states", "", "no reachable state whose step function is a comment state")
	}
}

// --- inline comments and annotations end with their line ----------------------------------------

func init() {
	for _, name := range []string{"schema", "enum"} {
		name := name
		register(&Rule{ID: "SX-eol-" + name, Min: map[string]int{"schema": 6, "enum": 2}[name], Run: func(c *load.Ctx, r *report.RuleResult) { runSXEol(c, r, name) },
			Doc: "scanner " + name + ": an inline comment or inline annotation ends with its line: in every reachable abstract state whose step function is one of the inline comment / inline annotation states (including the state right after the opening # or //), a line-break byte is accepted, takes the scanner out of those states and is delivered as a new-line event — a line break that is swallowed (an empty # or // at the end of a line) turns the whole next line into comment text, so the same schema or rule means something else depending on whether a comment has text"})
	}
}

// inlineStates: the step functions in which the scanner is inside a one-line comment or annotation.
func isInlineStep(step string) bool {
	step = baseStepName(step)
	switch step {
	case "stateAnyCommentStart", "stateInlineComment":
		return true
	}
	return strings.HasPrefix(step, "stateInlineAnnotation") && step != "stateInlineAnnotationStart"
}

// isClosureStep: an anonymous wrapper installed by a state (its name carries the parent's).
func isClosureStep(step string) bool {
	return strings.Contains(strings.TrimSuffix(step, "$bound"), "$")
}

func runSXEol(c *load.Ctx, r *report.RuleResult, name string) {
	sp := scannerSpecs[name]
	g := exploreScanner(c, name, sp)
	if g.err != nil {
		r.Unk("anchor|"+sp.rel, "", g.err.Error())
		return
	}
	count := map[string]int{}
	bad := map[string]bool{}
	for _, e := range g.edges {
		if e.input != '\n' && e.input != '\r' {
			continue
		}
		from := baseStepName(implStepName(g.m, e.from.st))
		if !isInlineStep(from) || isClosureStep(implStepName(g.m, e.from.st)) {
			continue
		}
		count[from]++
		key := "eol|impl=" + from
		if bad[key] {
			continue
		}
		in := fmt.Sprintf("%q", string([]byte{byte(e.input)}))
		switch {
		case e.res.Kind == "reject":
			bad[key] = true
			r.Bad(key, c.Pos(g.m.next.Pos()), fmt.Sprintf("a line break right there is rejected (code %s); text reaching the state: %q then %s", e.res.Code, e.from.path, in))
		case e.res.Kind != "ok" || e.res.Next == nil:
			// crashes and undecided transitions are reported by SX-crash
		case e.res.Consumed <= 0:
			// the byte is handed back and read again by the state returned to: judged there
		case isInlineStep(implStepName(g.m, e.res.Next)) && !isClosureStep(implStepName(g.m, e.res.Next)):
			bad[key] = true
			r.Bad(key, c.Pos(g.m.next.Pos()), fmt.Sprintf("the line break %s does not end the comment/annotation: the scanner stays in %s, so the next line is read as comment text; text reaching the state: %q", in, baseStepName(implStepName(g.m, e.res.Next)), e.from.path))
		case e.res.Consumed > 0 && !hasEvent(e.res.Events, "NewLine"):
			bad[key] = true
			r.Bad(key, c.Pos(g.m.next.Pos()), fmt.Sprintf("the line break %s is consumed without a new-line event (%s); text reaching the state: %q", in, evsString(e.res.Events), e.from.path))
		}
	}
	for _, st := range sortedKeys(count) {
		if !bad["eol|impl="+st] {
			r.OK("eol|impl="+st, "", fmt.Sprintf("%d line-break transitions leave the inline comment/annotation", count[st]))
		}
	}
	if len(count) == 0 {
		r.Unk("anchor|inline states", "", "no reachable state whose step function is an inline comment/annotation state")
	}
}

func hasEvent(evs []spec.Ev, typ string) bool {
	for _, ev := range evs {
		if ev.Type == typ {
			return true
		}
	}
	return false
}

// --- a blank between tokens is not remembered ------------------------------------------------------

func init() {
	for _, name := range []string{"json", "schema", "enum"} {
		name := name
		register(&Rule{ID: "SX-blank-" + name, Min: 5, Run: func(c *load.Ctx, r *report.RuleResult) { runSXBlank(c, r, name) },
			Doc: "scanner " + name + ": layout blanks leave no trace: in every reachable abstract state outside content states (string bodies, comment and note text, bare rule names), a space that is accepted without delivering a lexical event and without handing over to another step function leaves the scanner in the very same abstract state (stack, flags, context) — a flag set by a mere blank (such as 'the array has an item') makes `[ ]` scan differently from `[]`, so indentation and spacing change the verdict"})
	}
}

func runSXBlank(c *load.Ctx, r *report.RuleResult, name string) {
	sp := scannerSpecs[name]
	g := exploreScanner(c, name, sp)
	if g.err != nil {
		r.Unk("anchor|"+sp.rel, "", g.err.Error())
		return
	}
	count := map[string]int{}
	bad := map[string]bool{}
	for _, e := range g.edges {
		if e.input != ' ' || len(e.from.pending) != 0 {
			continue
		}
		full := implStepName(g.m, e.from.st)
		from := baseStepName(full)
		if _, content := contentStates[from]; content {
			continue
		}
		if e.res.Kind != "ok" || e.res.Next == nil || len(e.res.Events) != 0 || e.res.Consumed != 1 || len(e.res.LA) != 0 {
			continue
		}
		count[from]++
		if e.res.Next.key == e.from.st.key || implStepName(g.m, e.res.Next) != full {
			// unchanged, or the blank ended a token / phase (another step function takes over)
			continue
		}
		key := "blank|impl=" + from
		if bad[key] {
			continue
		}
		bad[key] = true
		r.Bad(key, c.Pos(g.m.next.Pos()), fmt.Sprintf("a space is accepted silently but changes the scanner's state (%s -> %s): %s; text reaching the state: %q", full, implStepName(g.m, e.res.Next), stateDiff(e.from.st.key, e.res.Next.key), e.from.path))
	}
	for _, st := range sortedKeys(count) {
		if !bad["blank|impl="+st] {
			r.OK("blank|impl="+st, "", fmt.Sprintf("%d silent-space transitions return to the same abstract state", count[st]))
		}
	}
	if len(count) == 0 {
		r.Unk("anchor|blank transitions", "", "no state accepts a space silently")
	}
}

// stateDiff shows where two abstract state keys differ (for the report only).
func stateDiff(a, b string) string {
	ra, rb := []rune(a), []rune(b)
	i := 0
	for i < len(ra) && i < len(rb) && ra[i] == rb[i] {
		i++
	}
	cut := func(s []rune) string {
		lo, hi := i-40, i+60
		if lo < 0 {
			lo = 0
		}
		if hi > len(s) {
			hi = len(s)
		}
		if lo > hi {
			return ""
		}
		return string(s[lo:hi])
	}
	return fmt.Sprintf("…%s… versus …%s…", cut(ra), cut(rb))
}

// --- note and comment text is opaque ------------------------------------------------------------------

func init() {
	for _, name := range []string{"schema", "enum"} {
		name := name
		register(&Rule{ID: "SX-text-" + name, Min: 2, Run: func(c *load.Ctx, r *report.RuleResult) { runSXText(c, r, name) },
			Doc: "scanner " + name + ": the text of a note or comment is opaque: in every reachable abstract state whose step function is a text state (inline / multi-line annotation text, inline / multi-line comment), every byte that does not begin the text's terminator — a line break for the one-line forms (and # inside an inline note), `*/` for a multi-line note, `###` for a multi-line comment — is accepted, stays in the text state and delivers no event other than the new-line event of a line break; a note that ends at a lone `*` makes `/* a*b */` fail where `// a*b` loads"})
	}
}

// textTerminator: does byte b (with the following bytes la, -1 = unknown) begin the end of the text?
var textTerminator = map[string]func(b int, la map[int]int) bool{
	"stateInlineAnnotationText": func(b int, _ map[int]int) bool { return b == '\n' || b == '\r' || b == '#' },
	"stateInlineComment":        func(b int, _ map[int]int) bool { return b == '\n' || b == '\r' },
	// a transition that did not look at the following byte is taken whatever follows, so an unknown
	// look-ahead byte counts as "not the terminator"
	"stateMultiLineAnnotationText": func(b int, la map[int]int) bool { v, ok := la[1]; return b == '*' && ok && v == '/' },
	"stateMultiLineComment": func(b int, la map[int]int) bool {
		v1, ok1 := la[1]
		v2, ok2 := la[2]
		return b == '#' && ok1 && v1 == '#' && ok2 && v2 == '#'
	},
}

func runSXText(c *load.Ctx, r *report.RuleResult, name string) {
	sp := scannerSpecs[name]
	g := exploreScanner(c, name, sp)
	if g.err != nil {
		r.Unk("anchor|"+sp.rel, "", g.err.Error())
		return
	}
	count := map[string]int{}
	bad := map[string]bool{}
	for _, e := range g.edges {
		full := implStepName(g.m, e.from.st)
		from := baseStepName(full)
		term, ok := textTerminator[from]
		if !ok || isClosureStep(full) {
			continue
		}
		la := map[int]int{}
		for k, v := range e.res.LA {
			la[k] = v
		}
		for i, v := range e.from.pending {
			if v >= 0 {
				la[i] = v // bytes already fixed by an earlier look-ahead (offset 0 is the fed byte)
			}
		}
		if len(e.from.pending) > 0 {
			// the fed byte was looked at before: shift so that offsets are relative to it
			shifted := map[int]int{}
			for i, v := range e.from.pending {
				if i >= 1 && v >= 0 {
					shifted[i] = v
				}
			}
			for k, v := range e.res.LA {
				shifted[k] = v
			}
			la = shifted
		}
		if term(e.input, la) {
			continue
		}
		count[from]++
		key := "text|impl=" + from
		if bad[key] {
			continue
		}
		in := fmt.Sprintf("%q", string([]byte{byte(e.input)}))
		newline := e.input == '\n' || e.input == '\r'
		switch {
		case e.res.Kind == "reject":
			bad[key] = true
			r.Bad(key, c.Pos(g.m.next.Pos()), fmt.Sprintf("the byte %s inside the text is rejected (code %s); text reaching the state: %q", in, e.res.Code, e.from.path))
		case e.res.Kind != "ok" || e.res.Next == nil:
			// crashes and undecided transitions are SX-crash's business
		case baseStepName(implStepName(g.m, e.res.Next)) != from:
			bad[key] = true
			r.Bad(key, c.Pos(g.m.next.Pos()), fmt.Sprintf("the byte %s%s, which does not begin the terminator, ends the text (the scanner goes to %s); text reaching the state: %q", in, laString(la), baseStepName(implStepName(g.m, e.res.Next)), e.from.path))
		case len(e.res.Events) > 0 && !(newline && len(e.res.Events) == 1 && e.res.Events[0].Type == "NewLine"):
			bad[key] = true
			r.Bad(key, c.Pos(g.m.next.Pos()), fmt.Sprintf("the byte %s inside the text delivers %s; text reaching the state: %q", in, evsString(e.res.Events), e.from.path))
		}
	}
	for _, st := range sortedKeys(count) {
		if !bad["text|impl="+st] {
			r.OK("text|impl="+st, "", fmt.Sprintf("%d transitions on bytes that do not begin the terminator stay in the text silently", count[st]))
		}
	}
	if len(count) == 0 {
		r.Unk("anchor|text states", "", "no reachable state whose step function is a note / comment text state")
	}
}

func laString(la map[int]int) string {
	if len(la) == 0 {
		return ""
	}
	var ks []int
	for k := range la {
		ks = append(ks, k)
	}
	sort.Ints(ks)
	s := " (followed by"
	for _, k := range ks {
		s += fmt.Sprintf(" %q", string([]byte{byte(la[k])}))
	}
	return s + ")"
}

// --- the annotation mode follows the stack --------------------------------------------------------------

func init() {
	register(&Rule{ID: "SX-mode-schema", Min: 3, Run: func(c *load.Ctx, r *report.RuleResult) { runSXMode(c, r, "schema-deep") },
		Doc: "the schema scanner's annotation mode is a function of its stack: in every reachable abstract state, the mode flag says multi-line exactly when the innermost open annotation on the lexeme stack is a multi-line one (states inside a user comment aside, which suspend the flag) — explored over the deep state space (40,000 abstract states: an inline item note inside a rule object inside a multi-line annotation of an array item is within reach); a mode restored from a partial look at the stack (its bottom element only) leaves an inline item note inside a nested multi-line annotation in the wrong mode, so the same rules load or fail depending on how they are wrapped"})
}

// scalarField reads an integer-valued field of the scanner state.
func (m *scanModel) scalarField(st *implState, name string) (int64, bool) {
	root, ok := st.root.(*pe.Ptr)
	if !ok || root.Obj == nil {
		return 0, false
	}
	sv, ok := root.Obj.Val.(*pe.StructV)
	if !ok {
		return 0, false
	}
	stT := sv.T.Underlying().(*types.Struct)
	for i := 0; i < stT.NumFields(); i++ {
		if stT.Field(i).Name() == name {
			v, ok := sv.F[i].(int64)
			return v, ok
		}
	}
	return 0, false
}

func runSXMode(c *load.Ctx, r *report.RuleResult, name string) {
	sp := scannerSpecs[name]
	g := exploreScanner(c, name, sp)
	if g.err != nil {
		r.Unk("anchor|"+sp.rel, "", g.err.Error())
		return
	}
	// the flag's values by name
	names := map[int64]string{}
	if p := c.Pkg(sp.rel); p != nil {
		for _, n := range []string{"annotationNone", "annotationInline", "annotationMultiLine"} {
			if k, ok := p.Types.Scope().Lookup(n).(*types.Const); ok {
				if v, exact := constant.Int64Val(k.Val()); exact {
					names[v] = strings.TrimPrefix(n, "annotation")
				}
			}
		}
	}
	if len(names) != 3 {
		r.Unk("anchor|annotation constants", "", "annotationNone / annotationInline / annotationMultiLine not found")
		return
	}
	count := map[string]int{}
	bad := map[string]bool{}
	for _, n := range g.nodes {
		if len(n.pending) != 0 {
			continue
		}
		step := baseStepName(implStepName(g.m, n.st))
		if strings.Contains(step, "Comment") || step == "stateInlineAnnotationTextSkip" {
			// a user comment suspends the flag until it ends; the skip state is the # comment that
			// follows an inline annotation (the annotation is closed, the flag is reset at the line break)
			continue
		}
		v, ok := g.m.scalarField(n.st, "annotation")
		if !ok {
			r.Unk("anchor|Scanner.annotation", "", "field annotation is not a decided value in state "+step)
			return
		}
		want := "None"
		stack := g.m.stackTypes(n.st)
		for i := len(stack) - 1; i >= 0; i-- {
			if stack[i] == "InlineAnnotationBegin" {
				want = "Inline"
				break
			}
			if stack[i] == "MultiLineAnnotationBegin" {
				want = "MultiLine"
				break
			}
		}
		key := "mode|want=" + want
		count[key]++
		// the claim is about the multi-line question: the inline flag has a transitional state of
		// its own (a # comment inside the rule object of an inline annotation clears it; the text
		// is rejected at the next byte that is not a quoted key)
		multiMismatch := (want == "MultiLine") != (names[v] == "MultiLine")
		if multiMismatch && !bad[key+"|got="+names[v]] {
			bad[key+"|got="+names[v]] = true
			r.Bad(key+"|got="+names[v], c.Pos(g.m.next.Pos()), fmt.Sprintf("in step %s with the stack [%s] the annotation mode is %s; the innermost open annotation says %s; text reaching the state: %q", step, strings.Join(stack, " "), names[v], want, n.path))
		}
	}
	for _, k := range sortedKeys(count) {
		r.OK(k, "", fmt.Sprintf("%d abstract states", count[k]))
	}
}

// --- events synthesised at the end of input stay inside the text ---------------------------------------

func init() {
	for _, name := range []string{"json", "schema", "enum"} {
		name := name
		register(&Rule{ID: "SX-eofspan-" + name, Min: 2, Run: func(c *load.Ctx, r *report.RuleResult) { runSXEofSpan(c, r, name) },
			Doc: "scanner " + name + ": what is closed at the end of input ends at the end of input: in every reachable abstract state in which the scanner accepts the end of the text, every lexical event it delivers there has its end offset no further than one past the last byte (the convention for a token cut off by the end of the text) — an end-of-input rule that advances the index once per closed lexeme puts the second closing event two past the end, and whoever turns that span into a length or a slice reads outside the text"})
	}
}

func runSXEofSpan(c *load.Ctx, r *report.RuleResult, name string) {
	sp := scannerSpecs[name]
	g := exploreScanner(c, name, sp)
	if g.err != nil {
		r.Unk("anchor|"+sp.rel, "", g.err.Error())
		return
	}
	count := map[string]int{}
	bad := map[string]bool{}
	for n, res := range g.eof {
		if res == nil || res.Kind != "end" {
			continue
		}
		step := baseStepName(implStepName(g.m, n.st))
		key := "eofspan|impl=" + step
		count[key]++
		if bad[key] {
			continue
		}
		for _, ev := range res.Events {
			if off, ok := relToLast(ev.End); ok && off > 1 {
				bad[key] = true
				r.Bad(key, c.Pos(g.m.next.Pos()), fmt.Sprintf("at the end of the text %q the event %s ends %d bytes past the last byte (all events delivered there: %s)", n.path, ev.Type, off, evsString(res.Events)))
				break
			}
		}
	}
	for _, k := range sortedKeys(count) {
		if !bad[k] {
			r.OK(k, "", fmt.Sprintf("%d accepting end-of-input state(s): every event ends within the text or one past it", count[k]))
		}
	}
	if len(count) == 0 {
		r.Unk("anchor|eof states", "", "no state accepts the end of input")
	}
}

// relToLast parses "L", "L+2", "L-1" (offset relative to the last consumed byte).
func relToLast(s string) (int, bool) {
	if s == "L" {
		return 0, true
	}
	if strings.HasPrefix(s, "L+") || strings.HasPrefix(s, "L-") {
		n := 0
		if _, err := fmt.Sscanf(s[1:], "%d", &n); err == nil {
			return n, true
		}
	}
	return 0, false
}

// --- an inline note or comment may be the last thing in the text -----------------------------------

func init() {
	for _, name := range []string{"schema", "enum"} {
		name := name
		register(&Rule{ID: "SX-eofnote-" + name, Min: 1, Run: func(c *load.Ctx, r *report.RuleResult) { runSXEofNote(c, r, name) },
			Doc: "scanner " + name + ": the end of the text ends an inline note or comment just as a line break does: in every reachable abstract state whose step function is an inline comment / inline annotation state and whose lexeme stack holds nothing but the open annotation itself (the value before it is complete), the end of input is accepted — a text whose last line is `… // note` without a final line break means the same as with one"})
	}
}

func runSXEofNote(c *load.Ctx, r *report.RuleResult, name string) {
	sp := scannerSpecs[name]
	g := exploreScanner(c, name, sp)
	if g.err != nil {
		r.Unk("anchor|"+sp.rel, "", g.err.Error())
		return
	}
	count := map[string]int{}
	bad := map[string]bool{}
	for n, res := range g.eof {
		full := implStepName(g.m, n.st)
		step := baseStepName(full)
		if !isInlineStep(step) || isClosureStep(full) || step == "stateAnyCommentStart" {
			continue
		}
		onlyNote := true
		for _, t := range g.m.stackTypes(n.st) {
			if !strings.HasPrefix(t, "InlineAnnotation") {
				onlyNote = false
			}
		}
		if !onlyNote || res == nil {
			continue
		}
		key := "eofnote|impl=" + step
		count[key]++
		if res.Kind != "end" && !bad[key] {
			bad[key] = true
			r.Bad(key, c.Pos(g.m.next.Pos()), fmt.Sprintf("the text %q ends inside an inline note after a complete value and is not accepted (%s %s %s)", n.path, res.Kind, res.Code, res.Detail))
		}
	}
	for _, k := range sortedKeys(count) {
		if !bad[k] {
			r.OK(k, "", fmt.Sprintf("%d state(s): the end of input ends the note", count[k]))
		}
	}
	if len(count) == 0 {
		r.Unk("anchor|inline note states", "", "no reachable inline-note state after a complete value")
	}
}

// --- what the end of the text completes, a line break completes too -----------------------------------

func init() {
	for _, name := range []string{"json", "schema", "enum"} {
		name := name
		register(&Rule{ID: "SX-eofnl-" + name, Min: 2, Run: func(c *load.Ctx, r *report.RuleResult) { runSXEofNL(c, r, name) },
			Doc: "scanner " + name + ": a text the scanner accepts as complete at the end of input is not a lexical error when a line break follows it: in every reachable abstract state in which the end of input is accepted and closes a lexeme that reaches the last byte (so that Len is the whole text), the byte LF is not rejected — C14 takes `S`, a line break and foreign text to have the length of `S`, so a state that closes its open lexemes at the end of the text but refuses a line break (a type union cut off after `|`, a bare `@`) makes Len answer for a text that is not a complete value"})
	}
}

func runSXEofNL(c *load.Ctx, r *report.RuleResult, name string) {
	sp := scannerSpecs[name]
	g := exploreScanner(c, name, sp)
	if g.err != nil {
		r.Unk("anchor|"+sp.rel, "", g.err.Error())
		return
	}
	nl := map[*xNode][]*stepResult{}
	for _, e := range g.edges {
		if e.input == '\n' {
			nl[e.from] = append(nl[e.from], e.res)
		}
	}
	count := map[string]int{}
	bad := map[string]bool{}
	for n, res := range g.eof {
		if res == nil || res.Kind != "end" {
			continue
		}
		rs := nl[n]
		if len(rs) == 0 {
			continue // beyond the nesting bound: no byte was fed here
		}
		// Only where the end of input closes something that reaches the last byte: then Len is the whole
		// text and the whole text is the S of C14. A trailing byte no event covers (`0/`: the slash is
		// dropped, Len is 1) is foreign text to Len, and the rule has nothing to say about it.
		reaches := false
		for _, ev := range res.Events {
			if off, ok := relToLast(ev.End); ok && off >= 0 {
				reaches = true
			}
		}
		if !reaches {
			continue
		}
		step := baseStepName(implStepName(g.m, n.st))
		key := "eofnl|impl=" + step
		count[key]++
		if bad[key] {
			continue
		}
		for _, x := range rs {
			if x.Kind == "reject" {
				bad[key] = true
				r.Bad(key, c.Pos(g.m.next.Pos()), fmt.Sprintf("the text %q is accepted at the end of input, but followed by a line break it is refused (%s %s)", n.path, x.Code, x.Detail))
				break
			}
		}
	}
	for _, k := range sortedKeys(count) {
		if !bad[k] {
			r.OK(k, "", fmt.Sprintf("%d accepting end-of-input state(s): a line break is taken there too", count[k]))
		}
	}
	if len(count) == 0 {
		r.Unk("anchor|eof states", "", "no state accepts the end of input")
	}
}
