package rules

import (
	"fmt"
	"sort"
	"strings"
	"sync"

	"verif/internal/load"
	"verif/internal/pe"
	"verif/internal/report"
)

// Full-language exploration of a scanner model: every reachable abstract state (bounded stack
// depth) × every byte, following look-ahead dependencies. The explored graph is shared by the
// rules SX-crash (C07), SX-pos (C17) and SX-nl / SX-sp (C13).

type xNode struct {
	st      *implState
	pending []int // bytes already fixed by earlier look-ahead (relative to the current index)
	path    string
}

type xEdge struct {
	from   *xNode
	input  int
	res    *stepResult
	crashN string // crash when the input ends within the look-ahead window
	crashW string // function in which that crash is raised
}

type xGraph struct {
	m        *scanModel
	nodes    []*xNode
	edges    []xEdge
	eof      map[*xNode]*stepResult
	frontier int
	capped   bool
	err      error
}

type xSpec struct {
	rel, ctor, typ string
	maxStack       int
	maxNodes       int
	opts           func(m *scanModel, in *pe.Interp, s *pe.Ptr)
	prepare        func(c *load.Ctx, m *scanModel) error
}

var (
	xCache   = map[string]*xGraph{}
	xCacheMu sync.Mutex
)

func pendingKey(p []int) string {
	if len(p) == 0 {
		return ""
	}
	return fmt.Sprint(p)
}

func trimPending(p []int) []int {
	for len(p) > 0 && p[len(p)-1] < 0 {
		p = p[:len(p)-1]
	}
	return p
}

func exploreScanner(c *load.Ctx, name string, sp xSpec) *xGraph {
	xCacheMu.Lock()
	defer xCacheMu.Unlock()
	ck := fmt.Sprintf("%p|%s", c, name)
	if g, ok := xCache[ck]; ok {
		return g
	}
	g := &xGraph{eof: map[*xNode]*stepResult{}}
	xCache[ck] = g
	m, err := newScanModel(c, sp.rel, sp.ctor, sp.typ, sp.opts)
	if err != nil {
		g.err = err
		return g
	}
	if sp.prepare != nil {
		if err := sp.prepare(c, m); err != nil {
			g.err = err
			return g
		}
	}
	g.m = m
	start := &xNode{st: m.Initial()}
	seen := map[string]bool{start.st.key + "\x00": true}
	queue := []*xNode{start}
	for len(queue) > 0 {
		n := queue[0]
		queue = queue[1:]
		g.nodes = append(g.nodes, n)
		if len(g.nodes) >= sp.maxNodes {
			g.capped = true
			break
		}
		if len(n.pending) == 0 {
			g.eof[n] = m.Feed(n.st, -2)
		}
		if len(m.stackTypes(n.st)) > sp.maxStack {
			g.frontier++
			continue
		}
		lo, hi := 0, 255
		if len(n.pending) > 0 && n.pending[0] >= 0 {
			lo, hi = n.pending[0], n.pending[0]
		}
		for b := lo; b <= hi; b++ {
			known := []int{b}
			if len(n.pending) > 1 {
				known = append(known, n.pending[1:]...)
			}
			for _, r := range m.FeedLA(n.st, known) {
				e := xEdge{from: n, input: b, res: r}
				if len(r.LA) > 0 {
					maxOff := 0
					for off := range r.LA {
						if off > maxOff {
							maxOff = off
						}
					}
					full := append([]int{}, known...)
					for len(full) <= maxOff {
						full = append(full, -1)
					}
					for off, v := range r.LA {
						full[off] = v
					}
					for rem := 1; rem <= maxOff; rem++ {
						if cr, w := m.FeedShort(n.st, full, rem); cr != "" {
							e.crashN = fmt.Sprintf("with %d byte(s) of input left: %s", rem, cr)
							e.crashW = w
							break
						}
					}
				}
				g.edges = append(g.edges, e)
				if r.Kind != "ok" {
					continue
				}
				// bytes after the fed one that are now fixed
				after := append([]int{}, known[1:]...)
				for off, v := range r.LA {
					for len(after) < off {
						after = append(after, -1)
					}
					after[off-1] = v
				}
				var pend []int
				switch {
				case r.Consumed <= 0:
					pend = append([]int{b}, after...)
				default:
					skip := r.Consumed - 1
					if skip < len(after) {
						pend = after[skip:]
					}
				}
				pend = trimPending(pend)
				k := r.Next.key + "\x00" + pendingKey(pend)
				if !seen[k] {
					seen[k] = true
					queue = append(queue, &xNode{st: r.Next, pending: pend, path: n.path + string([]byte{byte(b)})})
				}
			}
		}
	}
	return g
}

var scannerSpecs = map[string]xSpec{
	"json": {rel: "formats/json", ctor: "newScanner", typ: "scanner", maxStack: 6, maxNodes: 4000},
	"schema": {rel: "notations/jschema/internal/scanner", ctor: "New", typ: "Scanner", maxStack: 5, maxNodes: 5000},
	"schema-deep": {rel: "notations/jschema/internal/scanner", ctor: "New", typ: "Scanner", maxStack: 5, maxNodes: 40000},
	"enum": {rel: "rules/enum", ctor: "newScanner", typ: "scanner", maxStack: 6, maxNodes: 4000, prepare: prepareEnumModel},
}

func init() {
	for _, name := range []string{"json", "schema", "enum", "schema-deep"} {
		name := name
		register(&Rule{ID: "SX-crash-" + name, Min: 20, Thorough: name == "schema-deep", Run: func(c *load.Ctx, r *report.RuleResult) { runSXCrash(c, r, name) },
			Doc: "scanner " + name + ": in no reachable abstract state does any byte value, any look-ahead context or end of input make Next() fail with anything but a positioned library error (no index out of range from look-ahead reads, no assertion panic, no unstructured error)"})
	}
}

func stateLabel(m *scanModel, n *xNode) string {
	return implStepName(m, n.st) + "|top=" + topOf(m.stackTypes(n.st))
}

func runSXCrash(c *load.Ctx, r *report.RuleResult, name string) {
	g := exploreScanner(c, name, scannerSpecs[name])
	if g.err != nil {
		r.Unk("anchor|scanner "+name, "", g.err.Error())
		return
	}
	m := g.m
	pos := c.Pos(m.next.Pos())
	reported := map[string]bool{}
	perState := map[string]int{}
	for _, e := range g.edges {
		lbl := stateLabel(m, e.from)
		perState[lbl]++
		in := fmt.Sprintf("%q", string([]byte{byte(e.input)}))
		switch {
		case e.res.Kind == "crash":
			key := "crash|" + e.res.Where + "|" + crashClass(e.res.Detail)
			if !reported[key] {
				reported[key] = true
				r.Bad(key, pos, fmt.Sprintf("%s; input %s then %s", e.res.Detail, showInput(e.from.path), in))
			}
		case e.crashN != "":
			key := "crash-at-end|" + e.crashW + "|" + crashClass(e.crashN)
			if !reported[key] {
				reported[key] = true
				r.Bad(key, pos, fmt.Sprintf("look-ahead beyond the end of the input: %s; input %s then %s as the last bytes", e.crashN, showInput(e.from.path), in))
			}
		case e.res.Kind == "undecided":
			key := "undecided|" + lbl
			if !reported[key] {
				reported[key] = true
				r.Unk(key, pos, fmt.Sprintf("%s; input %s then %s", e.res.Detail, showInput(e.from.path), in))
			}
		}
	}
	for n, res := range g.eof {
		lbl := stateLabel(m, n)
		switch res.Kind {
		case "crash":
			key := "crash-eof|" + res.Where + "|" + crashClass(res.Detail)
			if !reported[key] {
				reported[key] = true
				r.Bad(key, pos, fmt.Sprintf("%s at end of input after %s", res.Detail, showInput(n.path)))
			}
		case "undecided":
			key := "undecided-eof|" + lbl
			if !reported[key] {
				reported[key] = true
				r.Unk(key, pos, fmt.Sprintf("%s at end of input after %s", res.Detail, showInput(n.path)))
			}
		}
	}
	labels := make([]string, 0, len(perState))
	for l := range perState {
		labels = append(labels, l)
	}
	sort.Strings(labels)
	for _, l := range labels {
		{
			r.OK("state|"+l, "", fmt.Sprintf("%d transitions explored, none crashes", perState[l]))
		}
	}
	r.Note("scanner %s: %d abstract states, %d transitions, %d states at the stack bound (not expanded)%s, %d interpreter runs",
		name, len(g.nodes), len(g.edges), g.frontier, map[bool]string{true: ", node cap reached", false: ""}[g.capped], m.runs)
	r.Stat("states", len(g.nodes))
	r.Stat("transitions", len(g.edges))
}

func crashClass(detail string) string {
	switch {
	case strings.Contains(detail, "index out of range"):
		return "index out of range"
	case strings.Contains(detail, "slice bounds"):
		return "slice bounds out of range"
	case strings.Contains(detail, "nil pointer"):
		return "nil dereference"
	}
	if i := strings.Index(detail, ": "); i > 0 && i < 40 {
		detail = detail[i+2:]
	}
	if i := strings.Index(detail, " in "); i > 0 {
		detail = detail[:i]
	}
	if len(detail) > 60 {
		detail = detail[:60]
	}
	return detail
}
