package rules

import (
	"fmt"
	"go/types"
	"sort"
	"strings"

	"golang.org/x/tools/go/ssa"

	"verif/internal/load"
	"verif/internal/pe"
	"verif/internal/spec"
)

// scanModel extracts the transition relation of one of the hand-written byte scanners by
// interpreting its own Next() method over abstract states (engine PE): the scanner object graph is
// tracked exactly, the input bytes are supplied one at a time through symbolic memory, positions
// are symbols. Nothing of the repository is compiled or executed.
type scanModel struct {
	c        *load.Ctx
	cfg      *pe.Config
	rel      string
	name     string
	ctor     *ssa.Function
	next     *ssa.Function
	lexType  *ssa.Function
	lexBegin *ssa.Function
	lexEnd   *ssa.Function
	evNames  map[int64]string
	errIsEOS func(v pe.Value) bool // enum scanner: the returned error means "end of stream"
	retErr   bool                  // Next returns (LexEvent, error) instead of (LexEvent, bool)
	initial  pe.Value
	dataName string
	runs     int
	memo     map[string]*stepResult
	memoLA   map[string][]*stepResult
	problems []string
}

type implState struct {
	root pe.Value // pointer to the scanner object
	key  string
}

// stepResult is the effect of feeding one byte (or end of input) to a scanner state, with all
// queued events drained.
type stepResult struct {
	Kind   string // "ok" | "reject" | "crash" | "undecided" | "end" (EOF only: input accepted by the scanner)
	Events []spec.Ev
	Next   *implState
	Detail string
	Code   string
	ErrPos string
	Where  string // function in which a crash was raised
	// Consumed is the number of input bytes consumed by this transition (1 normally; 0 when the scanner
	// steps back to re-read the byte; more when it skips look-ahead bytes).
	Consumed int
	// LA holds the look-ahead bytes this result depends on (offset relative to the fed byte, >= 1).
	LA map[int]int
	// EndedEarly: Next reported the end of the stream although input remained (Kind is "crash" for the
	// rules that expect the whole input to be scanned; the length rules read it as "the scan stops here").
	EndedEarly bool
}

func newPEConfig(c *load.Ctx) *pe.Config {
	c.BuildSSA()
	cfg := newPEConfig0(c)
	// errors.New of the standard library yields a non-nil error (an opaque *errors.errorString)
	if ep := c.Prog.ImportedPackage("errors"); ep != nil {
		if tm, ok := ep.Members["errorString"].(*ssa.Type); ok {
			dyn := types.NewPointer(tm.Type())
			cfg.Intrinsics["errors.New"] = func(in *pe.Interp, args []pe.Value) (pe.Value, bool) {
				return &pe.Iface{T: dyn, V: pe.NewSym("errors.New("+pe.Show(args[0])+")", dyn)}, true
			}
		}
	}
	return cfg
}

func newPEConfig0(c *load.Ctx) *pe.Config {
	return &pe.Config{
		Prog:       c.Prog,
		Intrinsics: map[string]pe.Intrinsic{},
		InModule:   load.FuncInModule,
		Interpret:  map[string]bool{},
		Opaque: map[string]bool{
			"(" + load.Module + "/errors.Errorf).Error":    true,
			"(" + load.Module + "/errors.ErrorCode).Error": true,
		},
		Fuel:     400000,
		MaxDepth: 60,
	}
}

func lexEventNames(c *load.Ctx) map[int64]string {
	out := map[int64]string{}
	p := c.Pkg("internal/lexeme")
	if p == nil {
		return out
	}
	tn, _ := p.Types.Scope().Lookup("LexEventType").(*types.TypeName)
	if tn == nil {
		return out
	}
	for _, n := range p.Types.Scope().Names() {
		if k, ok := p.Types.Scope().Lookup(n).(*types.Const); ok && types.Identical(k.Type(), tn.Type()) {
			if v, ok := constInt(k); ok {
				out[v] = n
			}
		}
	}
	return out
}

func newScanModel(c *load.Ctx, rel, ctorName, typeName string, opts func(m *scanModel, in *pe.Interp, s *pe.Ptr)) (*scanModel, error) {
	m := &scanModel{c: c, cfg: newPEConfig(c), rel: rel, name: rel, memo: map[string]*stepResult{}}
	m.ctor = c.Func(rel, ctorName)
	m.next = c.Func(rel, typeName+".Next")
	m.lexType = c.Func("internal/lexeme", "LexEvent.Type")
	m.lexBegin = c.Func("internal/lexeme", "LexEvent.Begin")
	m.lexEnd = c.Func("internal/lexeme", "LexEvent.End")
	for n, f := range map[string]*ssa.Function{rel + "." + ctorName: m.ctor, rel + "." + typeName + ".Next": m.next,
		"lexeme.LexEvent.Type": m.lexType, "lexeme.LexEvent.Begin": m.lexBegin, "lexeme.LexEvent.End": m.lexEnd} {
		if f == nil {
			return nil, fmt.Errorf("anchor function %s not found", n)
		}
	}
	m.evNames = lexEventNames(c)
	if res := m.next.Signature.Results(); res.Len() == 2 {
		if _, isIface := res.At(1).Type().Underlying().(*types.Interface); isIface {
			m.retErr = true
		}
	}
	// build the initial state by interpreting the constructor on a symbolic file
	outs := pe.ExploreFn(m.cfg, func(in *pe.Interp) pe.Value {
		fileT := m.ctor.Params[0].Type()
		file := pe.NewSym("file", fileT)
		args := []pe.Value{file}
		for i := 1; i < len(m.ctor.Params); i++ {
			args = append(args, pe.NilV{})
		}
		s := in.Call(m.ctor, args)
		if sp, ok := s.(*pe.Ptr); ok && opts != nil {
			opts(m, in, sp)
		}
		return s
	})
	if len(outs) != 1 || outs[0].Undecided != "" || outs[0].Panicked {
		var why []string
		for _, o := range outs {
			why = append(why, o.Valuation()+" => "+o.Exit())
		}
		return nil, fmt.Errorf("constructor %s not interpretable to a single state: %s", ctorName, strings.Join(why, "; "))
	}
	root, ok := outs[0].Ret.(*pe.Ptr)
	if !ok || root.Obj == nil {
		return nil, fmt.Errorf("constructor %s did not return a heap object: %s", ctorName, pe.Show(outs[0].Ret))
	}
	m.initial = root
	return m, nil
}

func (m *scanModel) field(in *pe.Interp, s *pe.Ptr, name string) *pe.Ptr {
	return in.FieldPtr(s, name)
}

// posFields returns the pointers to the index, dataSize and data fields (found by type and name:
// the two bytes.Index fields named index/dataSize and the bytes.Bytes field data).
func (m *scanModel) normalise(st pe.Value) *implState {
	root := st.(*pe.Ptr)
	sv := root.Obj.Val.(*pe.StructV)
	stT := sv.T.Underlying().(*types.Struct)
	// rename stack-entry positions to depth tags and reset the index
	for i := 0; i < stT.NumFields(); i++ {
		f := stT.Field(i)
		switch f.Name() {
		case "index":
			sv.F[i] = pe.NewSym("i", f.Type())
		case "dataSize":
			sv.F[i] = &pe.Sym{Expr: "i", Off: 2, T: f.Type()}
		case "stack":
			// *ds.Stack[lexeme.LexEvent]: struct{vals []LexEvent}
			if sp, ok := sv.F[i].(*pe.Ptr); ok && sp.Obj != nil {
				if stk, ok := sp.Obj.Val.(*pe.StructV); ok && len(stk.F) == 1 {
					if elems, ok := pe.SliceElems(stk.F[0]); ok {
						for k, e := range elems {
							if ev, ok := e.(*pe.StructV); ok {
								est := ev.T.Underlying().(*types.Struct)
								for j := 0; j < est.NumFields(); j++ {
									if _, isSym := ev.F[j].(*pe.Sym); isSym && isIntType(est.Field(j).Type()) {
										ev.F[j] = pe.NewSym(fmt.Sprintf("p%d.%s", k, est.Field(j).Name()), est.Field(j).Type())
									}
								}
							}
						}
						// clear stale elements beyond the live length
						if s, ok := stk.F[0].(*pe.SliceV); ok {
							arr := s.Arr.Val.(*pe.ArrayV)
							for k := s.Hi; k < len(arr.E); k++ {
								arr.E[k] = int64(0)
							}
						}
					}
				}
			}
		}
	}
	key := pe.Canon(root, nil)
	return &implState{root: root, key: key}
}

func isIntType(t types.Type) bool {
	b, ok := t.Underlying().(*types.Basic)
	return ok && b.Info()&types.IsInteger != 0
}

func constInt(k *types.Const) (int64, bool) {
	v := k.Val()
	if v == nil {
		return 0, false
	}
	var i int64
	_, err := fmt.Sscan(v.ExactString(), &i)
	return i, err == nil
}

// Initial returns the normalised initial state.
func (m *scanModel) Initial() *implState {
	return m.normalise(pe.Clone(m.initial))
}

type microResult struct {
	kind     string // event | cut | end | reject | crash | undecided
	ev       spec.Ev
	state    pe.Value
	detail   string
	code     string
	where    string      // function in which a crash was raised
	errPos   string      // position carried by a rejecting DocumentError, relative to the consumed byte
	la       map[int]int // look-ahead bytes consulted: offset (>=1) -> value
	consumed int         // how far the index moved (cut / event results)
}

const (
	modeByte  = iota // bytes at the current index are available; stop at the second read by Next itself
	modeDrain        // no byte may be read by Next itself: deliver queued events only
	modeEOF          // end of input
)

const laWindow = 6 // bytes assumed available after the current one in modeByte (look-ahead window)

// micro runs Next() once. known gives the bytes at the current index and after it (-1 = not fixed:
// a look-ahead read of such a byte forks over all 256 values). remaining is the number of bytes left
// in the input (modeByte: >= 1).
func (m *scanModel) micro(st pe.Value, mode int, known []int, remaining int, lastConsumed string) []microResult {
	m.runs++
	finals := []pe.Value{}
	var idx0 *pe.Sym
	var dataName string
	atName := func(off int64) string {
		return dataName + "[" + pe.Show(&pe.Sym{Expr: idx0.Expr, Off: idx0.Off + off}) + "]"
	}
	outs := pe.ExploreFn(m.cfg, func(in *pe.Interp) pe.Value {
		root := pe.Clone(st).(*pe.Ptr)
		finals = append(finals, root)
		sv := root.Obj.Val.(*pe.StructV)
		stT := sv.T.Underlying().(*types.Struct)
		var idx *pe.Sym
		for i := 0; i < stT.NumFields(); i++ {
			switch stT.Field(i).Name() {
			case "index":
				idx, _ = sv.F[i].(*pe.Sym)
			case "data":
				if d, ok := sv.F[i].(*pe.Sym); ok {
					dataName = d.Name()
				}
			}
		}
		if idx == nil || dataName == "" {
			in.Undecided("scanner fields index/data are not symbolic as expected")
		}
		idx0 = idx
		rem := int64(remaining)
		if mode == modeEOF {
			rem = 0
		}
		for i := 0; i < stT.NumFields(); i++ {
			if stT.Field(i).Name() == "dataSize" {
				size := idx.Off + rem
				if mode == modeEOF {
					// the input ended where this feed started (offset 0 of the normalised index), however
					// far earlier calls of the tail rule have advanced the index since
					size = 0
				}
				sv.F[i] = &pe.Sym{Expr: idx.Expr, Off: size, T: stT.Field(i).Type()}
				in.SetSymLen(dataName, &pe.Sym{Expr: idx.Expr, Off: size, T: stT.Field(i).Type()})
			}
		}
		for k, b := range known {
			if b >= 0 {
				in.SetSymMem(atName(int64(k)), int64(b))
			}
		}
		in.CutPrefix, in.CutDepth = dataName+"[", 1
		switch mode {
		case modeByte:
			in.CutAfter = 1
		case modeDrain:
			in.CutAfter = 0
		case modeEOF:
			in.CutAfter = 0
		}
		ret := in.Call(m.next, []pe.Value{root})
		tp, ok := ret.(*pe.Tuple)
		if !ok || len(tp.E) != 2 {
			in.Undecided("unexpected result of Next: %s", pe.Show(ret))
		}
		// decode the event through its accessors
		t := in.Call(m.lexType, []pe.Value{tp.E[0]})
		b := in.Call(m.lexBegin, []pe.Value{tp.E[0]})
		e := in.Call(m.lexEnd, []pe.Value{tp.E[0]})
		return &pe.Tuple{E: []pe.Value{t, b, e, tp.E[1]}}
	})
	laOff := map[string]int{}
	if idx0 != nil {
		for k := -4; k <= laWindow+2; k++ {
			laOff[atName(int64(k))] = k
		}
	}
	var results []microResult
	for k, o := range outs {
		la := map[int]int{}
		foreign := ""
		for _, ch := range o.Choices {
			if off, ok := laOff[ch.Name]; ok {
				la[off] = ch.Val
			} else {
				foreign = ch.Name
			}
		}
		if foreign != "" && len(outs) > 1 {
			var vs []string
			for _, o := range outs {
				vs = append(vs, "{"+o.Valuation()+" => "+o.Exit()+"}")
				if len(vs) > 6 {
					vs = append(vs, "…")
					break
				}
			}
			return []microResult{{kind: "undecided", detail: "behaviour depends on atom " + foreign + " outside the abstract state: " + strings.Join(vs, " ")}}
		}
		var final pe.Value
		if k < len(finals) {
			final = finals[k]
		}
		mr := m.classify(o, final, lastConsumed)
		mr.la = la
		if final != nil && idx0 != nil && (mr.kind == "cut" || mr.kind == "event" || mr.kind == "end") {
			if cur := m.indexOf(final); cur != nil && cur.Expr == idx0.Expr {
				mr.consumed = int(cur.Off - idx0.Off)
			} else {
				mr = microResult{kind: "undecided", detail: "scanner index is no longer a known offset from its previous value"}
			}
		}
		results = append(results, mr)
	}
	if len(results) == 0 {
		return []microResult{{kind: "undecided", detail: "no outcome"}}
	}
	return results
}

func (m *scanModel) indexOf(st pe.Value) *pe.Sym {
	root := st.(*pe.Ptr)
	sv := root.Obj.Val.(*pe.StructV)
	stT := sv.T.Underlying().(*types.Struct)
	for i := 0; i < stT.NumFields(); i++ {
		if stT.Field(i).Name() == "index" {
			s, _ := sv.F[i].(*pe.Sym)
			return s
		}
	}
	return nil
}

func (m *scanModel) classify(o *pe.Outcome, final pe.Value, lastConsumed string) microResult {
	switch {
	case o.Undecided != "":
		return microResult{kind: "undecided", detail: o.Undecided}
	case o.Cut:
		return microResult{kind: "cut", state: final}
	case o.Panicked:
		code, ok := m.docErrCode(o.PanicVal)
		if ok {
			return microResult{kind: "reject", code: code, detail: "panic " + code, errPos: m.docErrPos(o.PanicVal, lastConsumed)}
		}
		return microResult{kind: "crash", detail: "panic " + pe.Show(o.PanicVal) + " in " + o.PanicIn, where: o.PanicIn}
	}
	tp := o.Ret.(*pe.Tuple)
	if m.retErr {
		if !pe.IsNil(tp.E[3]) {
			if m.errIsEOS != nil && m.errIsEOS(tp.E[3]) {
				return microResult{kind: "end", state: final}
			}
			code, ok := m.docErrCode(tp.E[3])
			if ok {
				return microResult{kind: "reject", code: code, detail: "error " + code, errPos: m.docErrPos(tp.E[3], lastConsumed)}
			}
			return microResult{kind: "crash", detail: "unstructured error " + pe.Show(tp.E[3])}
		}
	} else {
		okv, isBool := tp.E[3].(bool)
		if !isBool {
			return microResult{kind: "undecided", detail: "Next's ok result is not concrete: " + pe.Show(tp.E[3])}
		}
		if !okv {
			return microResult{kind: "end", state: final}
		}
	}
	tv, ok := tp.E[0].(int64)
	if !ok {
		return microResult{kind: "undecided", detail: "event type not concrete: " + pe.Show(tp.E[0])}
	}
	name := m.evNames[tv]
	if name == "" {
		name = fmt.Sprintf("LexEventType(%d)", tv)
	}
	return microResult{kind: "event", state: final, ev: spec.Ev{Type: name, Begin: m.pos(tp.E[1], lastConsumed), End: m.pos(tp.E[2], lastConsumed)}}
}

// pos renders a position relative to the last consumed byte L. lastConsumed is the name of the
// symbol that denotes L in this run ("i" when a byte at i was consumed, "i-1" otherwise).
func (m *scanModel) pos(v pe.Value, lastConsumed string) string {
	s, ok := v.(*pe.Sym)
	if !ok {
		return pe.Show(v)
	}
	if s.Expr == "i" {
		off := s.Off
		if lastConsumed == "i-1" {
			off++
		}
		switch {
		case off == 0:
			return "L"
		case off > 0:
			return fmt.Sprintf("L+%d", off)
		default:
			return fmt.Sprintf("L%d", off)
		}
	}
	if strings.HasPrefix(s.Expr, "p") && strings.HasSuffix(s.Expr, ".begin") && s.Off == 0 {
		return strings.TrimSuffix(s.Expr, ".begin")
	}
	return s.Name()
}

// docErrCode recognises an errors.DocumentError (possibly wrapped in an interface) and returns
// its code.
func (m *scanModel) docErrCode(v pe.Value) (string, bool) {
	if i, ok := v.(*pe.Iface); ok {
		v = i.V
	}
	sv, ok := v.(*pe.StructV)
	if !ok {
		return "", false
	}
	named, ok := sv.T.(*types.Named)
	if !ok || named.Obj().Name() != "DocumentError" || named.Obj().Pkg() == nil || named.Obj().Pkg().Path() != load.Module+"/errors" {
		return "", false
	}
	st := named.Underlying().(*types.Struct)
	for i := 0; i < st.NumFields(); i++ {
		if st.Field(i).Name() == "code" {
			return "E" + pe.Show(sv.F[i]), true
		}
	}
	return "E?", true
}

// docErrPos renders the index carried by a DocumentError ("unset" when SetIndex was not called).
func (m *scanModel) docErrPos(v pe.Value, lastConsumed string) string {
	if i, ok := v.(*pe.Iface); ok {
		v = i.V
	}
	sv, ok := v.(*pe.StructV)
	if !ok {
		return "?"
	}
	st := sv.T.Underlying().(*types.Struct)
	pos, has := "?", false
	for i := 0; i < st.NumFields(); i++ {
		switch st.Field(i).Name() {
		case "index":
			pos = m.pos(sv.F[i], lastConsumed)
		case "hasIndex":
			if b, ok := sv.F[i].(bool); ok {
				has = b
			}
		}
	}
	if !has {
		return "unset"
	}
	return pos
}

// Feed feeds one byte (0..255) or end of input (-2) to a state and drains the queued events. It is
// for scanners/inputs without look-ahead: a transition that depends on following bytes is reported
// as Kind "lookahead".
func (m *scanModel) Feed(st *implState, input int) *stepResult {
	if input < 0 {
		mk := fmt.Sprintf("%s\x00eof", st.key)
		if r, ok := m.memo[mk]; ok {
			return r
		}
		r := m.feedEOF(st)
		m.memo[mk] = r
		return r
	}
	rs := m.FeedLA(st, []int{input})
	if len(rs) == 1 && len(rs[0].LA) == 0 {
		return rs[0]
	}
	return &stepResult{Kind: "lookahead", Detail: fmt.Sprintf("%d outcomes depending on the following bytes", len(rs))}
}

// FeedLA feeds the byte known[0]; known[1:] are following bytes already fixed (-1 = free). It returns
// one result per distinct look-ahead valuation.
func (m *scanModel) FeedLA(st *implState, known []int) []*stepResult {
	mk := fmt.Sprintf("%s\x00%v", st.key, known)
	if r, ok := m.memoLA[mk]; ok {
		return r
	}
	var out []*stepResult
	for _, mr := range m.micro(st.root, modeByte, known, laWindow+1, "i") {
		out = append(out, m.finishByte(mr))
	}
	// collapse results that do not differ
	if len(out) > 1 {
		sig := map[string]bool{}
		for _, r := range out {
			sig[r.signature()] = true
		}
		if len(sig) == 1 {
			r := *out[0]
			r.LA = nil
			out = []*stepResult{&r}
		}
	}
	if m.memoLA == nil {
		m.memoLA = map[string][]*stepResult{}
	}
	m.memoLA[mk] = out
	return out
}

// FeedShort feeds the byte c when exactly `remaining` bytes of input are left (c included) and
// reports only whether the scanner crashes (look-ahead beyond the end of the input).
func (m *scanModel) FeedShort(st *implState, known []int, remaining int) (detail, where string) {
	for _, mr := range m.micro(st.root, modeByte, known, remaining, "i") {
		if mr.kind == "crash" {
			return mr.detail, mr.where
		}
	}
	return "", ""
}

func (m *scanModel) feedEOF(st *implState) *stepResult {
	res := &stepResult{}
	cur := st.root
	for n := 0; ; n++ {
		if n > 16 {
			res.Kind, res.Detail = "undecided", "more than 16 events at end of input"
			return res
		}
		mrs := m.mergeLookBehind(m.micro(cur, modeEOF, nil, 0, "i-1"))
		if len(mrs) != 1 {
			res.Kind, res.Detail = "undecided", "several outcomes at end of input"
			return res
		}
		mr := mrs[0]
		switch mr.kind {
		case "event":
			res.Events = append(res.Events, mr.ev)
			// the index is not re-normalised between the calls made at end of input: how far the
			// tail rule advances it is part of what is observed (positions are relative to "i")
			cur = mr.state
		case "end":
			res.Kind = "end"
			return res
		case "cut":
			res.Kind, res.Detail = "crash", "Next read past the end of input"
			return res
		default:
			res.Kind, res.Detail, res.Code, res.ErrPos = mr.kind, mr.detail, mr.code, mr.errPos
			return res
		}
	}
}

// mergeLookBehind merges outcomes that depend on already consumed bytes (look-behind reads, which
// the state-merged model does not remember) when they differ only in the span of the delivered
// event: the span alternatives are joined with "/".
func (m *scanModel) mergeLookBehind(mrs []microResult) []microResult {
	if len(mrs) <= 1 {
		return mrs
	}
	first := mrs[0]
	if first.kind != "event" {
		return mrs
	}
	key := pe.Canon(m.resetIndex(pe.Clone(first.state)), nil)
	begins, ends := map[string]bool{}, map[string]bool{}
	for _, mr := range mrs {
		if mr.kind != "event" || mr.ev.Type != first.ev.Type || mr.consumed != first.consumed {
			return mrs
		}
		for off := range mr.la {
			if off >= 0 {
				return mrs
			}
		}
		if pe.Canon(m.resetIndex(pe.Clone(mr.state)), nil) != key {
			return mrs
		}
		begins[mr.ev.Begin] = true
		ends[mr.ev.End] = true
	}
	first.ev.Begin = strings.Join(sortedKeys(begins), "/")
	first.ev.End = strings.Join(sortedKeys(ends), "/")
	first.la = nil
	return []microResult{first}
}

func (r *stepResult) signature() string {
	k := ""
	if r.Next != nil {
		k = r.Next.key
	}
	return fmt.Sprintf("%s\x00%s\x00%s\x00%s\x00%d\x00%s", r.Kind, evsString(r.Events), k, r.Code, r.Consumed, r.ErrPos)
}

// finishByte completes a byte transition whose first Next() call gave mr: drains queued events.
func (m *scanModel) finishByte(mr microResult) *stepResult {
	res := &stepResult{LA: mr.la, Consumed: mr.consumed}
	var cur pe.Value
	switch mr.kind {
	case "cut":
		res.Kind = "ok"
		res.Next = m.normalise(mr.state)
		return res
	case "event":
		res.Events = append(res.Events, mr.ev)
		cur = mr.state
	case "end":
		res.Kind, res.Detail, res.EndedEarly = "crash", "Next reported end of input although a byte was available", true
		return res
	default:
		res.Kind, res.Detail, res.Code, res.ErrPos, res.Where = mr.kind, mr.detail, mr.code, mr.errPos, mr.where
		return res
	}
	for n := 0; ; n++ {
		if n > 16 {
			res.Kind, res.Detail = "undecided", "more than 16 events queued on one byte"
			return res
		}
		mrs := m.mergeLookBehind(m.micro(cur, modeDrain, nil, laWindow, "i"))
		if len(mrs) != 1 {
			res.Kind, res.Detail = "undecided", "several outcomes while delivering queued events"
			return res
		}
		mr := mrs[0]
		switch mr.kind {
		case "cut":
			res.Kind = "ok"
			res.Consumed += mr.consumed
			res.Next = m.normalise(mr.state)
			return res
		case "event":
			res.Events = append(res.Events, mr.ev)
			res.Consumed += mr.consumed
			cur = mr.state
		default:
			res.Kind, res.Detail, res.Code, res.ErrPos = mr.kind, mr.detail, mr.code, mr.errPos
			if mr.kind == "end" {
				res.Kind, res.Detail, res.EndedEarly = "crash", "Next reported end of input although bytes remain", true
			}
			return res
		}
	}
}

func (m *scanModel) resetIndex(st pe.Value) pe.Value {
	root := st.(*pe.Ptr)
	sv := root.Obj.Val.(*pe.StructV)
	stT := sv.T.Underlying().(*types.Struct)
	for i := 0; i < stT.NumFields(); i++ {
		if stT.Field(i).Name() == "index" {
			sv.F[i] = pe.NewSym("i", stT.Field(i).Type())
		}
	}
	return root
}

// stackTypes returns the types of the events on the scanner's stack (outermost first).
func (m *scanModel) stackTypes(st *implState) []string {
	root := st.root.(*pe.Ptr)
	sv := root.Obj.Val.(*pe.StructV)
	stT := sv.T.Underlying().(*types.Struct)
	var out []string
	for i := 0; i < stT.NumFields(); i++ {
		if stT.Field(i).Name() != "stack" {
			continue
		}
		sp, ok := sv.F[i].(*pe.Ptr)
		if !ok || sp.Obj == nil {
			return nil
		}
		stk, ok := sp.Obj.Val.(*pe.StructV)
		if !ok || len(stk.F) != 1 {
			return nil
		}
		elems, _ := pe.SliceElems(stk.F[0])
		for _, e := range elems {
			if ev, ok := e.(*pe.StructV); ok {
				est := ev.T.Underlying().(*types.Struct)
				for j := 0; j < est.NumFields(); j++ {
					if est.Field(j).Name() == "lexEventType" {
						if tv, ok := ev.F[j].(int64); ok {
							out = append(out, m.evNames[tv])
						}
					}
				}
			}
		}
	}
	return out
}

func evsString(evs []spec.Ev) string {
	var parts []string
	for _, e := range evs {
		parts = append(parts, e.String())
	}
	return strings.Join(parts, " ")
}

func sortedKeys[V any](m map[string]V) []string {
	var ks []string
	for k := range m {
		ks = append(ks, k)
	}
	sort.Strings(ks)
	return ks
}
